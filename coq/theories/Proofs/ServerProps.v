(* Consequences of the refinement for C02 (handler calls), C08 (authorization) and C17 (multi-drop):
   each is first shown of the reference server (Spec/Modbus.v) and then transported to the model
   of the code through handle_frame_refines / session_refines. *)
From Coq Require Import NArith List Lia Bool Arith ZArith ZifyBool ZifyNat ZifyN.
From Rodbus Require Import Base.Outcome Base.Cursor Base.ServerTypes Model.Server Gen.Consts Gen.AuthzTable Spec.Modbus
  Proofs.ServerFormat Proofs.ServerBits Proofs.ServerParse Proofs.ServerProofs.
Import ListNotations.
Local Open Scope N_scope.

(* projections of a frame result *)
Definition reply_of {A B C} (x : A * B * C) : A := fst (fst x).
Definition units_of {A B C} (x : A * B * C) : B := snd (fst x).
Definition log_of {A B C} (x : A * B * C) : C := snd x.

Lemma lift3_reply {A B C} (x : A * B * C) : reply_of (lift3 x) = Ok (reply_of x).
Proof. destruct x as [[a b] c]. reflexivity. Qed.
Lemma lift3_units {A B C} (x : A * B * C) : units_of (lift3 x) = units_of x.
Proof. destruct x as [[a b] c]. reflexivity. Qed.
Lemma lift3_log {A B C} (x : A * B * C) : log_of (lift3 x) = log_of x.
Proof. destruct x as [[a b] c]. reflexivity. Qed.

Lemma handler_events_app l1 l2 : handler_events (l1 ++ l2) = handler_events l1 ++ handler_events l2.
Proof. apply filter_app. Qed.
Lemma auth_events_app l1 l2 : auth_events (l1 ++ l2) = auth_events l1 ++ auth_events l2.
Proof. apply filter_app. Qed.

Section Props.
Context {St : Type}.
Variable H : handler St.

(* ---------------------------------------------------------------- logs of the reference server *)
Definition no_auth (l : list event) : Prop := Forall (fun e => is_auth_event e = false) l.

Lemma no_auth_handler_events l : no_auth l -> handler_events l = l.
Proof.
  induction 1 as [|e l He _ IH]; [reflexivity|]. unfold handler_events in *. cbn [filter]. rewrite He. cbn [negb]. f_equal. exact IH.
Qed.
Lemma no_auth_auth_events l : no_auth l -> auth_events l = [].
Proof.
  induction 1 as [|e l He _ IH]; [reflexivity|]. unfold auth_events in *. cbn [filter]. rewrite He. exact IH.
Qed.
Lemma no_auth_app l1 l2 : no_auth l1 -> no_auth l2 -> no_auth (l1 ++ l2).
Proof. intros. apply Forall_app; auto. Qed.

Lemma read_seq_no_auth {A} (get : N -> A + N) mk : (forall a, is_auth_event (mk a) = false) ->
  forall n a, no_auth (snd (read_seq get mk a n)).
Proof.
  intros Hmk. induction n as [|n IH]; intros a; cbn [read_seq]; [constructor|].
  destruct (get a); [|repeat constructor; apply Hmk].
  specialize (IH (a + 1)). destruct (read_seq get mk (a + 1) n) as [r lg]. cbn [snd] in *. constructor; [apply Hmk|exact IH].
Qed.

Lemma write_call_no_auth u r : no_auth (write_call u r).
Proof. destruct r; repeat constructor. Qed.

Lemma read_calls_no_auth u st r : no_auth (read_calls H u st r).
Proof. destruct r; cbn [read_calls]; try constructor; apply read_seq_no_auth; reflexivity. Qed.

Lemma authorize_log a u r : handler_events (snd (authorize a u r)) = [] /\
  auth_events (snd (authorize a u r)) = snd (authorize a u r).
Proof. destruct a; split; reflexivity. Qed.

(* the calls ref_exec makes *)
Lemma ref_exec_log fc u st r :
  log_of (ref_exec H fc u st r) = if is_write r then write_call u r else read_calls H u st r.
Proof.
  destruct r; cbn [ref_exec is_write kind_of kind_is_read negb read_calls]; unfold log_of;
    try (destruct (read_seq _ _ _ _) as [[vs|ex] lg]; reflexivity);
    destruct (apply_write H st _) as [st' res]; reflexivity.
Qed.

Lemma ref_exec_read_state fc u st r : is_write r = false -> fst (fst (ref_exec H fc u st r)) = st.
Proof.
  destruct r; cbn [is_write kind_of kind_is_read negb]; try discriminate; intros _; cbn [ref_exec];
    destruct (read_seq _ _ _ _) as [[vs|ex] lg]; reflexivity.
Qed.

Lemma apply_all_log r : forall m g, snd (apply_all H m g r) = flat_map (fun uh => write_call (snd uh) r) m.
Proof.
  induction m as [|[u h] rest IH]; intros g; [reflexivity|]. cbn [apply_all flat_map snd].
  specialize (IH (sset g h (fst (apply_write H (g h) r)))).
  destruct (apply_all H rest (sset g h (fst (apply_write H (g h) r))) r) as [g' lg]. cbn [snd] in *. rewrite IH. reflexivity.
Qed.
(* the store after a broadcast write: the unit ids in ascending order, each applying the write to the
   handler object it maps to, on the state left by the previous ones *)
Definition broadcast_store (r : request) (m : list (N * N)) (g : N -> St) : N -> St :=
  fold_left (fun g uh => sset g (snd uh) (fst (apply_write H (g (snd uh)) r))) m g.
Lemma apply_all_store r : forall m g, fst (apply_all H m g r) = broadcast_store r m g.
Proof.
  induction m as [|[u h] rest IH]; intros g; [reflexivity|]. cbn [apply_all broadcast_store fold_left snd].
  specialize (IH (sset g h (fst (apply_write H (g h) r)))).
  destruct (apply_all H rest (sset g h (fst (apply_write H (g h) r))) r) as [g' lg]. cbn [fst] in *. exact IH.
Qed.

Lemma flat_map_no_auth (m : list (N * N)) r : no_auth (flat_map (fun uh : N * N => write_call (snd uh) r) m).
Proof. induction m; cbn [flat_map]; [constructor|]. apply no_auth_app; [apply write_call_no_auth|assumption]. Qed.

Lemma sset_same (g : N -> St) h k : sset g h (g h) k = g k.
Proof. unfold sset. destruct (N.eqb_spec k h) as [->|]; reflexivity. Qed.

(* ---------------------------------------------------------------- C02 *)
(* the handler calls of a frame are exactly spec_calls *)
Lemma ref_calls l a units fr : handler_events (log_of (ref_handle_frame H l a units fr)) = spec_calls H a units fr.
Proof.
  unfold ref_handle_frame, spec_calls, log_of. destruct (decode (f_pdu fr)) as [|fc|fc|fc r]; try reflexivity.
  pose proof (authorize_log a (dest_value (f_dest fr)) r) as [HA _].
  destruct (authorize a (dest_value (f_dest fr)) r) as [ok alog]. cbn [fst snd] in *.
  destruct ok; cbn [negb snd]; [|exact HA].
  destruct (f_dest fr) as [u|].
  - destruct (lookup u (u_map units)) as [h|]; [|exact HA].
    pose proof (ref_exec_log fc h (u_store units h) r) as L. unfold log_of in L.
    destruct (ref_exec H fc h (u_store units h) r) as [[st' pdu] lg]. cbn [snd] in *. subst lg.
    rewrite handler_events_app, HA. cbn [app].
    apply no_auth_handler_events. destruct (is_write r); [apply write_call_no_auth|apply read_calls_no_auth].
  - destruct (is_write r); [|exact HA].
    pose proof (apply_all_log r (u_map units) (u_store units)) as L.
    destruct (apply_all H (u_map units) (u_store units) r) as [g' lg]. cbn [snd] in *. subst lg.
    rewrite handler_events_app, HA. cbn [app]. apply no_auth_handler_events, flat_map_no_auth.
Qed.

Theorem calls_frame l a units fr : frame_ok l fr ->
  handler_events (log_of (handle_frame H l a units fr)) = spec_calls H a units fr.
Proof. intros Hok. rewrite handle_frame_refines by assumption. rewrite lift3_log. apply ref_calls. Qed.

(* no call, no effect *)
Definition same_units (x y : ucfg St) : Prop := u_map x = u_map y /\ forall k, u_store x k = u_store y k.

Lemma ref_no_effect l a units fr : spec_calls H a units fr = [] -> same_units (units_of (ref_handle_frame H l a units fr)) units.
Proof.
  unfold ref_handle_frame, spec_calls, units_of, same_units. destruct (decode (f_pdu fr)) as [|fc|fc|fc r]; try (split; reflexivity).
  destruct (authorize a (dest_value (f_dest fr)) r) as [ok alog]. cbn [fst snd].
  destruct ok; cbn [negb]; [|split; reflexivity].
  destruct (f_dest fr) as [u|].
  - destruct (lookup u (u_map units)) as [h|] eqn:Lk; [|split; reflexivity].
    destruct (is_write r) eqn:W.
    + intros E. destruct r; cbn [is_write kind_of kind_is_read negb] in W; try discriminate; discriminate E.
    + intros _. pose proof (ref_exec_read_state fc h (u_store units h) r W) as S.
      destruct (ref_exec H fc h (u_store units h) r) as [[st' pdu] lg]. cbn [fst snd] in *. subst st'.
      split; [reflexivity|]. intros k. apply sset_same.
  - destruct (is_write r) eqn:W; [|split; reflexivity].
    destruct (u_map units) as [|[u h] rest] eqn:Em; [cbn [apply_all fst snd]; split; [assumption|reflexivity]|].
    cbn [flat_map snd]. intros E. destruct r; cbn [is_write kind_of kind_is_read negb] in W; try discriminate; discriminate E.
Qed.

Theorem no_effect_frame l a units fr : frame_ok l fr -> spec_calls H a units fr = [] ->
  same_units (units_of (handle_frame H l a units fr)) units.
Proof. intros Hok E. rewrite handle_frame_refines by assumption. rewrite lift3_units. apply ref_no_effect. exact E. Qed.

(* sequences: the calls of a session are the calls of its frames, each against the state its predecessors left *)
Fixpoint calls_seq (l : link) (a : auth) (units : ucfg St) (frames : list frame) : list event :=
  match frames with
  | [] => []
  | fr :: rest => spec_calls H a units fr ++ calls_seq l a (units_of (ref_handle_frame H l a units fr)) rest
  end.

Lemma ref_session_calls l a : forall frames units,
  handler_events (log_of (ref_session H l a units frames)) = calls_seq l a units frames.
Proof.
  induction frames as [|fr rest IH]; intros units; [reflexivity|]. cbn [ref_session calls_seq].
  pose proof (ref_calls l a units fr) as C. unfold log_of, units_of in *.
  destruct (ref_handle_frame H l a units fr) as [[reply units'] lg]. cbn [fst snd] in *.
  specialize (IH units'). destruct (ref_session H l a units' rest) as [[rs units''] lg']. cbn [snd] in *.
  rewrite handler_events_app, C, IH. reflexivity.
Qed.

Theorem calls_session l a units frames : Forall (frame_ok l) frames ->
  handler_events (snd (fst (session H l a units frames))) = calls_seq l a units frames.
Proof.
  intros Hok. rewrite session_refines by assumption. pose proof (ref_session_calls l a frames units) as C. unfold log_of in C.
  destruct (ref_session H l a units frames) as [[rs units'] lg]. exact C.
Qed.

(* what a write-multiple handler is handed *)
Lemma read_seq_only_reads {A} (get : N -> A + N) mk (P : event -> Prop) : (forall a, ~ P (mk a)) ->
  forall n a e, In e (snd (read_seq get mk a n)) -> ~ P e.
Proof.
  intros Hmk. induction n as [|n IH]; intros a e; cbn [read_seq]; [intros []|].
  destruct (get a).
  - specialize (IH (a + 1) e). destruct (read_seq get mk (a + 1) n) as [r lg]. cbn [snd] in *.
    intros [<-|Hin]; [apply Hmk|auto].
  - cbn [snd]. intros [<-|[]]. apply Hmk.
Qed.

Definition is_wm (e : event) : Prop :=
  match e with EvWriteMultipleCoils _ _ _ _ | EvWriteMultipleRegisters _ _ _ _ => True | _ => False end.

Lemma read_calls_not_wm u st r e : In e (read_calls H u st r) -> ~ is_wm e.
Proof.
  destruct r; cbn [read_calls]; try (intros []); apply read_seq_only_reads; intros a; exact (fun x => x).
Qed.

Lemma spec_calls_in a units fr e : In e (spec_calls H a units fr) -> is_wm e ->
  exists fc r u, decode (f_pdu fr) = Valid fc r /\ In e (write_call u r).
Proof.
  unfold spec_calls. destruct (decode (f_pdu fr)) as [|fc|fc|fc r]; try (intros []).
  destruct (fst (authorize a (dest_value (f_dest fr)) r)); [|intros []].
  destruct (f_dest fr) as [u|].
  - destruct (lookup u (u_map units)) as [h|]; [|intros []]. destruct (is_write r).
    + intros Hin _. exists fc, r, h. auto.
    + intros Hin W. exfalso. eapply read_calls_not_wm; eauto.
  - destruct (is_write r); [|intros []]. intros Hin _. apply in_flat_map in Hin as [[u h] [_ Hin]].
    exists fc, r, h. auto.
Qed.

Theorem args_coils a units fr u s n items : In (EvWriteMultipleCoils u s n items) (spec_calls H a units fr) ->
  exists fc vs, decode (f_pdu fr) = Valid fc (Modbus.WriteMultipleCoils s vs) /\ items = indexed s vs /\ N.of_nat (length vs) = n.
Proof.
  intros Hin0. destruct (spec_calls_in _ _ _ _ Hin0 I) as (fc & r & u' & Hd & Hin).
  destruct r; cbn [write_call] in Hin; try (destruct Hin as [E|[]]; discriminate E); try contradiction.
  destruct Hin as [E|[]]. inversion E; subst. eauto.
Qed.

Theorem args_registers a units fr u s n items : In (EvWriteMultipleRegisters u s n items) (spec_calls H a units fr) ->
  exists fc vs, decode (f_pdu fr) = Valid fc (Modbus.WriteMultipleRegisters s vs) /\ items = indexed s vs /\ N.of_nat (length vs) = n.
Proof.
  intros Hin0. destruct (spec_calls_in _ _ _ _ Hin0 I) as (fc & r & u' & Hd & Hin).
  destruct r; cbn [write_call] in Hin; try (destruct Hin as [E|[]]; discriminate E); try contradiction.
  destruct Hin as [E|[]]. inversion E; subst. eauto.
Qed.

(* each read queries only addresses inside the requested range, on the addressed unit *)
Definition ev_read (e : event) : option (kind * N * N) :=
  match e with
  | EvReadCoil u a => Some (KReadCoils, u, a) | EvReadDiscreteInput u a => Some (KReadDiscreteInputs, u, a)
  | EvReadHoldingRegister u a => Some (KReadHoldingRegisters, u, a) | EvReadInputRegister u a => Some (KReadInputRegisters, u, a)
  | _ => None
  end.

Lemma read_seq_addresses {A} (get : N -> A + N) mk : forall n a e, In e (snd (read_seq get mk a n)) ->
  exists i, (i < n)%nat /\ e = mk (a + N.of_nat i).
Proof.
  induction n as [|n IH]; intros a e; cbn [read_seq]; [intros []|].
  destruct (get a).
  - specialize (IH (a + 1) e). destruct (read_seq get mk (a + 1) n) as [r lg]. cbn [snd] in *.
    intros [<-|Hin].
    + exists 0%nat. split; [lia|]. f_equal. lia.
    + destruct (IH Hin) as (i & Hi & ->). exists (S i). split; [lia|]. f_equal. lia.
  - cbn [snd]. intros [<-|[]]. exists 0%nat. split; [lia|]. f_equal. lia.
Qed.

Lemma write_call_not_read u r e : In e (write_call u r) -> ev_read e = None.
Proof. destruct r; cbn [write_call In]; intros Hin; try contradiction; destruct Hin as [<-|[]]; reflexivity. Qed.

Theorem reads_in_range a units fr e k h addr : In e (spec_calls H a units fr) -> ev_read e = Some (k, h, addr) ->
  exists fc r u s n, decode (f_pdu fr) = Valid fc r /\ kind_of r = k /\ f_dest fr = DUnit u /\ lookup u (u_map units) = Some h /\
                     arg_of r = ARange s n /\ (s <= addr /\ addr < s + n).
Proof.
  unfold spec_calls. destruct (decode (f_pdu fr)) as [|fc|fc|fc r]; try (intros []).
  destruct (fst (authorize a (dest_value (f_dest fr)) r)); [|intros []].
  destruct (f_dest fr) as [u0|].
  - destruct (lookup u0 (u_map units)) as [h0|] eqn:Lk; [|intros []]. destruct (is_write r).
    + intros Hin E. rewrite (write_call_not_read _ _ _ Hin) in E. discriminate.
    + intros Hin E. destruct r; cbn [read_calls] in Hin; try contradiction;
        apply read_seq_addresses in Hin as (i & Hi & ->); cbn [ev_read] in E; inversion E; subst;
        do 5 eexists; (split; [reflexivity|]); cbn [kind_of arg_of]; repeat split; try reflexivity; try eassumption; lia.
  - destruct (is_write r); [|intros []]. intros Hin E. apply in_flat_map in Hin as [[u0 h0] [_ Hin]].
    rewrite (write_call_not_read _ _ _ Hin) in E. discriminate.
Qed.

(* the i-th item is (start + i, i-th transmitted value) *)
Lemma indexed_nth {A} (d : A) : forall vs s i, (i < length vs)%nat -> nth i (indexed s vs) (0, d) = (s + N.of_nat i, nth i vs d).
Proof.
  induction vs as [|v vs IH]; intros s i Hi; [cbn [length] in Hi; lia|].
  destruct i as [|i]; cbn [indexed nth].
  - f_equal. lia.
  - rewrite IH by (cbn [length] in Hi; lia). f_equal. lia.
Qed.

(* ---------------------------------------------------------------- C08 *)
Section Auth.
Variable p : policy.
Variable role : ServerTypes.role.

(* a valid request is submitted exactly once, first, with its kind, unit id, range / index and the role *)
Lemma ref_query l units fr fc r : decode (f_pdu fr) = Valid fc r ->
  exists rest, log_of (ref_handle_frame H l (AuthHandler p role) units fr)
                 = EvAuth (kind_of r) (dest_value (f_dest fr)) (arg_of r) role :: rest /\ no_auth rest.
Proof.
  intros Hd. unfold ref_handle_frame, log_of. rewrite Hd. cbn [authorize].
  destruct (p (kind_of r) (dest_value (f_dest fr)) (arg_of r) role); cbn [negb snd].
  - destruct (f_dest fr) as [u|].
    + destruct (lookup u (u_map units)) as [h|]; [|eexists; split; [reflexivity|constructor]].
      pose proof (ref_exec_log fc h (u_store units h) r) as L. unfold log_of in L.
      destruct (ref_exec H fc h (u_store units h) r) as [[st' pdu] lg]. cbn [snd app] in *. subst lg.
      eexists; split; [reflexivity|]. destruct (is_write r); [apply write_call_no_auth|apply read_calls_no_auth].
    + destruct (is_write r); [|eexists; split; [reflexivity|constructor]].
      pose proof (apply_all_log r (u_map units) (u_store units)) as L.
      destruct (apply_all H (u_map units) (u_store units) r) as [g' lg]. cbn [snd app] in *. subst lg.
      eexists; split; [reflexivity|]. apply flat_map_no_auth.
  - eexists; split; [reflexivity|constructor].
Qed.

(* anything else is not submitted at all *)
Lemma ref_no_query l units fr : (forall fc r, decode (f_pdu fr) <> Valid fc r) ->
  log_of (ref_handle_frame H l (AuthHandler p role) units fr) = [].
Proof.
  intros Hd. unfold ref_handle_frame, log_of. destruct (decode (f_pdu fr)) as [|fc|fc|fc r]; try reflexivity.
  exfalso. eapply Hd. reflexivity.
Qed.

Lemma ref_deny l units fr fc r : decode (f_pdu fr) = Valid fc r ->
  p (kind_of r) (dest_value (f_dest fr)) (arg_of r) role = false ->
  let x := ref_handle_frame H l (AuthHandler p role) units fr in
  handler_events (log_of x) = [] /\ units_of x = units /\
  reply_of x = if dest_is_broadcast (f_dest fr) then [] else adu l (f_tx fr) (dest_value (f_dest fr)) (exception_pdu fc 1).
Proof.
  intros Hd Hp. unfold ref_handle_frame. rewrite Hd. cbn [authorize]. rewrite Hp. cbn [negb].
  repeat split.
Qed.

Lemma ref_allow l units fr fc r : decode (f_pdu fr) = Valid fc r ->
  p (kind_of r) (dest_value (f_dest fr)) (arg_of r) role = true ->
  let x := ref_handle_frame H l (AuthHandler p role) units fr in
  let y := ref_handle_frame H l NoAuth units fr in
  reply_of x = reply_of y /\ units_of x = units_of y /\ handler_events (log_of x) = log_of y.
Proof.
  intros Hd Hp. pose proof (ref_calls l (AuthHandler p role) units fr) as Cx. pose proof (ref_calls l NoAuth units fr) as Cy.
  assert (SC : spec_calls H (AuthHandler p role) units fr = spec_calls H NoAuth units fr).
  { unfold spec_calls. rewrite Hd. cbn [authorize fst]. rewrite Hp. reflexivity. }
  cbv zeta. rewrite Cx, SC, <- Cy. clear Cx Cy SC.
  unfold ref_handle_frame, reply_of, units_of, log_of. rewrite Hd. cbn [authorize]. rewrite Hp. cbn [negb].
  destruct (f_dest fr) as [u|].
  - destruct (lookup u (u_map units)) as [h|]; [|repeat split].
    pose proof (ref_exec_log fc h (u_store units h) r) as L. unfold log_of in L.
    destruct (ref_exec H fc h (u_store units h) r) as [[st' pdu] lg]. cbn [fst snd app] in *. subst lg.
    repeat split. apply no_auth_handler_events. destruct (is_write r); [apply write_call_no_auth|apply read_calls_no_auth].
  - destruct (is_write r); [|repeat split].
    pose proof (apply_all_log r (u_map units) (u_store units)) as L.
    destruct (apply_all H (u_map units) (u_store units) r) as [g' lg]. cbn [fst snd app] in *. subst lg.
    repeat split. apply no_auth_handler_events, flat_map_no_auth.
Qed.
End Auth.

(* the decision is taken per request: the outcome of a frame depends on the policy only through
   its value at that frame's own query (there is no authorization state) *)
Definition same_decision (p p' : policy) (role : ServerTypes.role) (fr : frame) : Prop :=
  forall fc r, decode (f_pdu fr) = Valid fc r ->
    p (kind_of r) (dest_value (f_dest fr)) (arg_of r) role = p' (kind_of r) (dest_value (f_dest fr)) (arg_of r) role.

Lemma ref_per_request l p p' role units fr : same_decision p p' role fr ->
  ref_handle_frame H l (AuthHandler p role) units fr = ref_handle_frame H l (AuthHandler p' role) units fr.
Proof.
  intros Hs. unfold ref_handle_frame. destruct (decode (f_pdu fr)) as [|fc|fc|fc r] eqn:Hd; try reflexivity.
  cbn [authorize]. rewrite (Hs fc r) by exact Hd. reflexivity.
Qed.

Lemma ref_per_request_session l p p' role : forall frames units, Forall (same_decision p p' role) frames ->
  ref_session H l (AuthHandler p role) units frames = ref_session H l (AuthHandler p' role) units frames.
Proof.
  induction frames as [|fr rest IH]; intros units Hall; [reflexivity|]. inversion Hall; subst.
  cbn [ref_session]. rewrite (ref_per_request l p p' role units fr) by assumption.
  destruct (ref_handle_frame H l (AuthHandler p' role) units fr) as [[reply units'] lg]. rewrite IH by assumption. reflexivity.
Qed.

(* ---------------------------------------------------------------- C17 *)
Lemma ref_silent l units fr : reply_of (ref_handle_frame H l NoAuth units fr) <> [] ->
  exists u, f_dest fr = DUnit u /\ lookup u (u_map units) <> None.
Proof.
  unfold ref_handle_frame, reply_of. destruct (f_dest fr) as [u|] eqn:Ed.
  - destruct (lookup u (u_map units)) as [h|] eqn:Lk; [intros _; exists u; split; [reflexivity|rewrite Lk; discriminate]|].
    destruct (decode (f_pdu fr)) as [|fc|fc|fc r]; cbn [authorize negb fst]; intros E; exfalso; apply E; reflexivity.
  - destruct (decode (f_pdu fr)) as [|fc|fc|fc r]; cbn [authorize negb fst dest_is_broadcast]; try (intros E; exfalso; apply E; reflexivity).
    destruct (is_write r); [destruct (apply_all H (u_map units) (u_store units) r)|]; intros E; exfalso; apply E; reflexivity.
Qed.

(* a broadcast is never answered, whatever it carries and whatever the authorization *)
Lemma ref_broadcast_silent l a units fr : f_dest fr = DBroadcast -> reply_of (ref_handle_frame H l a units fr) = [].
Proof.
  intros Ed. unfold ref_handle_frame, reply_of. rewrite Ed.
  destruct (decode (f_pdu fr)) as [|fc|fc|fc r]; try reflexivity.
  destruct (authorize a (dest_value DBroadcast) r) as [ok alog]. destruct ok; cbn [negb dest_is_broadcast]; [|reflexivity].
  destruct (is_write r); [destruct (apply_all H (u_map units) (u_store units) r)|]; reflexivity.
Qed.

Lemma ref_broadcast_write l units fr fc r : f_dest fr = DBroadcast -> decode (f_pdu fr) = Valid fc r -> is_write r = true ->
  let x := ref_handle_frame H l NoAuth units fr in
  reply_of x = [] /\ log_of x = flat_map (fun uh => write_call (snd uh) r) (u_map units) /\
  units_of x = with_store units (broadcast_store r (u_map units) (u_store units)).
Proof.
  intros Ed Hd W. unfold ref_handle_frame, reply_of, log_of, units_of. rewrite Ed, Hd. cbn [authorize negb]. rewrite W.
  pose proof (apply_all_log r (u_map units) (u_store units)) as L. pose proof (apply_all_store r (u_map units) (u_store units)) as U.
  destruct (apply_all H (u_map units) (u_store units) r) as [g' lg]. cbn [fst snd app] in *. subst. repeat split.
Qed.

Lemma ref_broadcast_other l units fr : f_dest fr = DBroadcast ->
  (forall fc r, decode (f_pdu fr) = Valid fc r -> is_write r = false) ->
  let x := ref_handle_frame H l NoAuth units fr in reply_of x = [] /\ log_of x = [] /\ units_of x = units.
Proof.
  intros Ed Hd. unfold ref_handle_frame, reply_of, log_of, units_of. rewrite Ed.
  destruct (decode (f_pdu fr)) as [|fc|fc|fc r] eqn:E; [repeat split..|].
  cbn [authorize negb]. rewrite (Hd fc r eq_refl). repeat split.
Qed.

(* when no two unit ids share a handler object, a broadcast write is applied exactly once to every
   configured unit's handler and to nothing else *)
Lemma broadcast_store_distinct r : forall m g h, NoDup (map snd m) ->
  broadcast_store r m g h = if in_dec N.eq_dec h (map snd m) then fst (apply_write H (g h) r) else g h.
Proof.
  induction m as [|[u h0] rest IH]; intros g h Hnd; [reflexivity|].
  cbn [map snd] in Hnd. inversion Hnd as [|? ? Hnotin Hnd']; subst.
  change (broadcast_store r ((u, h0) :: rest) g h) with (broadcast_store r rest (sset g h0 (fst (apply_write H (g h0) r))) h).
  rewrite IH by assumption. cbn [map snd]. unfold sset.
  destruct (in_dec N.eq_dec h (map snd rest)) as [Hin|Hout].
  - destruct (N.eqb_spec h h0) as [->|Hne]; [contradiction|].
    destruct (in_dec N.eq_dec h (h0 :: map snd rest)) as [_|Hn]; [reflexivity|]. exfalso. apply Hn. right. exact Hin.
  - destruct (N.eqb_spec h h0) as [->|Hne].
    + destruct (in_dec N.eq_dec h0 (h0 :: map snd rest)) as [_|Hn]; [reflexivity|]. exfalso. apply Hn. left. reflexivity.
    + destruct (in_dec N.eq_dec h (h0 :: map snd rest)) as [[E|Hin]|_]; [congruence|contradiction|reflexivity].
Qed.

(* two unit ids sharing one handler object: the object sees the broadcast write twice, the second
   time on the state the first left *)
Lemma broadcast_store_shared r u1 u2 h g :
  broadcast_store r [(u1, h); (u2, h)] g h = fst (apply_write H (fst (apply_write H (g h) r)) r).
Proof. unfold broadcast_store. cbn [fold_left snd]. unfold sset. rewrite !N.eqb_refl. reflexivity. Qed.

(* a request addressed to a unit id acts on exactly the handler object that unit id maps to: the new
   state of that object is the handler's, every other object is untouched - so any other unit id
   mapped to the same object sees the effect, and no other unit does *)
Lemma ref_unit_effect l units fr fc r u h : f_dest fr = DUnit u -> lookup u (u_map units) = Some h ->
  decode (f_pdu fr) = Valid fc r ->
  let x := ref_handle_frame H l NoAuth units fr in
  u_map (units_of x) = u_map units /\
  u_store (units_of x) h = fst (fst (ref_exec H fc h (u_store units h) r)) /\
  (forall k, k <> h -> u_store (units_of x) k = u_store units k).
Proof.
  intros Ed Lk Hd. unfold ref_handle_frame, units_of. rewrite Ed, Hd, Lk. cbn [authorize negb].
  destruct (ref_exec H fc h (u_store units h) r) as [[st' pdu] lg]. cbn [fst snd with_store u_map u_store].
  repeat split.
  - unfold sset. rewrite N.eqb_refl. reflexivity.
  - intros k Hk. unfold sset. destruct (N.eqb_spec k h); [contradiction|reflexivity].
Qed.

(* the unit id -> handler object map never changes *)
Lemma ref_keys l a units fr : u_map (units_of (ref_handle_frame H l a units fr)) = u_map units.
Proof.
  unfold ref_handle_frame, units_of. destruct (decode (f_pdu fr)) as [|fc|fc|fc r]; try reflexivity.
  destruct (authorize a (dest_value (f_dest fr)) r) as [ok alog]. destruct ok; cbn [negb]; [|reflexivity].
  destruct (f_dest fr) as [u|].
  - destruct (lookup u (u_map units)) as [h|]; [|reflexivity].
    destruct (ref_exec H fc h (u_store units h) r) as [[st' pdu] lg]. reflexivity.
  - destruct (is_write r); [|reflexivity]. destruct (apply_all H (u_map units) (u_store units) r) as [g' lg]. reflexivity.
Qed.

Lemma lookup_in {A} u (m : list (N * A)) : lookup u m <> None -> In u (map fst m).
Proof.
  induction m as [|[k s] rest IH]; cbn [lookup map fst]; [intros E; exfalso; apply E; reflexivity|].
  destruct (N.eqb_spec k u) as [->|]; [left; reflexivity|]. intros E. right. apply IH. exact E.
Qed.

(* over a whole connection: every reply answers a frame addressed to a configured unit id *)
Lemma ref_silent_session l : forall frames units,
  Forall2 (fun fr reply => reply <> [] -> exists u, f_dest fr = DUnit u /\ In u (map fst (u_map units)))
          frames (reply_of (ref_session H l NoAuth units frames)).
Proof.
  induction frames as [|fr rest IH]; intros units; [constructor|]. cbn [ref_session].
  pose proof (ref_silent l units fr) as S. pose proof (ref_keys l NoAuth units fr) as K. unfold reply_of, units_of in *.
  destruct (ref_handle_frame H l NoAuth units fr) as [[reply units'] lg]. cbn [fst snd] in *.
  specialize (IH units'). destruct (ref_session H l NoAuth units' rest) as [[rs units''] lg']. cbn [fst] in *.
  constructor.
  - intros Hr. destruct (S Hr) as (u & Ed & Lk). exists u. split; [exact Ed|]. apply lookup_in. exact Lk.
  - rewrite K in IH. exact IH.
Qed.
End Props.

(* ---------------------------------------------------------------- the generated authorization tables *)
Lemma read_only_table k : authz_read_only (kind_cb k) = if kind_is_read k then Allow else Deny.
Proof. destruct k; reflexivity. Qed.
Lemma read_only_policy_spec k u arg r : read_only_policy k u arg r = kind_is_read k.
Proof. destruct k; reflexivity. Qed.
Lemma default_table c : authz_default c = Deny.
Proof. destruct c; reflexivity. Qed.
Lemma default_policy_spec k u arg r : default_policy k u arg r = false.
Proof. destruct k; reflexivity. Qed.
Lemma cb_kind_cb k : cb_kind (kind_cb k) = k.
Proof. destruct k; reflexivity. Qed.
Lemma kind_cb_kind c : kind_cb (cb_kind c) = c.
Proof. destruct c; reflexivity. Qed.
