(* The single-frame refinement handle_frame = ref_handle_frame for all eight function codes,
   unsupported codes and the empty PDU, and its lifting to frame sequences. *)
From Coq Require Import NArith List Lia Bool Arith ZArith ZifyBool ZifyNat ZifyN.
From Rodbus Require Import Base.Outcome Base.Cursor Base.ServerTypes Model.Range Model.Server Gen.Consts Gen.AuthzTable Spec.Modbus
  Proofs.ServerFormat Proofs.ServerBits Proofs.ServerParse.
Import ListNotations.
Ltac Zify.zify_post_hook ::= Z.div_mod_to_equations.
Local Open Scope N_scope.
Arguments N.add : simpl never. Arguments N.sub : simpl never. Arguments N.mul : simpl never.
Arguments N.eqb : simpl never. Arguments N.ltb : simpl never. Arguments N.leb : simpl never.
Arguments N.div : simpl never. Arguments N.modulo : simpl never. Arguments N.of_nat : simpl never.
Arguments N.to_nat : simpl never. Arguments N.lor : simpl never.

(* ---------------------------------------------------------------- format_reply *)
Notation hdr l tx d f := (hdr_of l (txv tx) (dest_value d) (ffield_value f)).

Lemma format_reply_ok l tx d f (body : lserializer) bs : tx_ok l tx ->
  fst (body (hdr l tx d (FValid f))) = Ok (wapp (hdr l tx d (FValid f)) bs) -> (length bs <= 252)%nat ->
  format_reply l tx d f body = (Ok (adu l tx (dest_value d) (fcode_value f :: bs)), snd (body (hdr l tx d (FValid f)))).
Proof.
  intros Htx Hb Hlen. unfold format_reply. erewrite format_generic_appends by eassumption. reflexivity.
Qed.

(* partial bytes written before a handler exception are discarded: the fallback formats the
   exception reply from offset 0 *)
Lemma format_reply_exc l tx d f (body : lserializer) ex : tx_ok l tx ->
  fst (body (hdr l tx d (FValid f))) = Err (EExc ex) ->
  format_reply l tx d f body = (Ok (adu l tx (dest_value d) (exception_pdu (fcode_value f) ex)), snd (body (hdr l tx d (FValid f)))).
Proof.
  intros Htx Hb. unfold format_reply. erewrite format_generic_err by eassumption. cbv beta iota.
  rewrite format_ex_ok by assumption. reflexivity.
Qed.

Lemma hdr_room l tx d f : (length (w_out (hdr l tx d f)) <= 8)%nat /\ w_cap (hdr l tx d f) = 260%nat.
Proof. apply hdr_len. Qed.

Section Refine.
Context {St : Type}.
Variable H : handler St.

(* ---------------------------------------------------------------- serializers at the header cursor *)
Lemma ser_bits_spec l tx d f s n get mk : 1 <= n <= 2000 -> s + n <= 65536 ->
  ser_bit_writer (s, n) get mk (hdr l tx d f) =
    match read_seq get mk s (N.to_nat n) with
    | (inl vs, lg) => (Ok (wapp (hdr l tx d f) (N.of_nat (length (pack vs)) :: pack vs)), lg)
    | (inr ex, lg) => (Err (EExc ex), lg)
    end.
Proof.
  intros Hn Hs. unfold ser_bit_writer. cbn [fst snd]. unfold calc_bytes_for_bits.
  set (c := if n mod 8 =? 0 then n / 8 else n / 8 + 1).
  assert (Hc : c = (n + 7) / 8) by (subst c; destruct (N.eqb_spec (n mod 8) 0); lia).
  destruct (N.ltb_spec 255 c) as [Hbig|_]; [lia|].
  destruct (hdr_room l tx d f) as [L C].
  rewrite wr_u8_ok by lia.
  change 0 with (byte_of []) at 1. change 0 with (N.of_nat (length (@nil bool))).
  rewrite bit_loop_spec; [| cbn [length]; lia | lia | unfold wapp; cbn [w_out w_cap length]; rewrite app_length, C; cbn [length]; lia ].
  cbn [app]. destruct (read_seq get mk s (N.to_nat n)) as [[vs|ex] lg] eqn:E; [|reflexivity].
  rewrite wapp_app. cbn [app]. apply read_seq_length in E. rewrite pack_length, E.
  replace (N.of_nat ((N.to_nat n + 7) / 8)) with c by lia. reflexivity.
Qed.

Lemma ser_regs_spec l tx d f s n get mk : 1 <= n <= 125 -> s + n <= 65536 ->
  ser_register_writer (s, n) get mk (hdr l tx d f) =
    match read_seq get mk s (N.to_nat n) with
    | (inl vs, lg) => (Ok (wapp (hdr l tx d f) (2 * N.of_nat (length vs) :: flat_map be vs)), lg)
    | (inr ex, lg) => (Err (EExc ex), lg)
    end.
Proof.
  intros Hn Hs. unfold ser_register_writer. cbn [fst snd]. unfold calc_bytes_for_registers.
  destruct (N.ltb_spec 255 (2 * n)) as [Hbig|_]; [lia|].
  destruct (hdr_room l tx d f) as [L C].
  rewrite wr_u8_ok by lia.
  rewrite reg_loop_spec; [| lia | unfold wapp; cbn [w_out w_cap]; rewrite app_length, C; cbn [length]; lia ].
  cbn [app]. destruct (read_seq get mk s (N.to_nat n)) as [[vs|ex] lg] eqn:E; [|reflexivity].
  rewrite wapp_app. cbn [app]. apply read_seq_length in E. rewrite E, N2Nat.id. reflexivity.
Qed.

Lemma flat_map_be_length vs : length (flat_map be vs) = (2 * length vs)%nat.
Proof. induction vs as [|v vs IH]; [reflexivity|]. cbn [flat_map be app length]. lia. Qed.

(* reads: never overflow the 260-byte writer; reply = Spec *)
Lemma reply_bits l tx u fc f s n get mk : tx_ok l tx -> fcode_value f = fc -> 1 <= n <= 2000 -> s + n <= 65536 ->
  format_reply l tx (DUnit u) f (ser_bit_writer (s, n) get mk) =
    let '(pdu, lg) := bits_response fc (read_seq get mk s (N.to_nat n)) in (Ok (adu l tx u pdu), lg).
Proof.
  intros Htx Hf Hn Hs. pose proof (ser_bits_spec l tx (DUnit u) (FValid f) s n get mk Hn Hs) as S.
  destruct (read_seq get mk s (N.to_nat n)) as [[vs|ex] lg] eqn:E; cbn [bits_response].
  - erewrite format_reply_ok; [rewrite S, Hf; reflexivity|assumption|rewrite S; reflexivity|].
    apply read_seq_length in E. cbn [length]. rewrite pack_length, E. lia.
  - erewrite format_reply_exc; [rewrite S, Hf; reflexivity|assumption|rewrite S; reflexivity].
Qed.

Lemma reply_regs l tx u fc f s n get mk : tx_ok l tx -> fcode_value f = fc -> 1 <= n <= 125 -> s + n <= 65536 ->
  format_reply l tx (DUnit u) f (ser_register_writer (s, n) get mk) =
    let '(pdu, lg) := regs_response fc (read_seq get mk s (N.to_nat n)) in (Ok (adu l tx u pdu), lg).
Proof.
  intros Htx Hf Hn Hs. pose proof (ser_regs_spec l tx (DUnit u) (FValid f) s n get mk Hn Hs) as S.
  destruct (read_seq get mk s (N.to_nat n)) as [[vs|ex] lg] eqn:E; cbn [regs_response].
  - erewrite format_reply_ok; [rewrite S, Hf; reflexivity|assumption|rewrite S; reflexivity|].
    apply read_seq_length in E. cbn [length]. rewrite flat_map_be_length, E. lia.
  - erewrite format_reply_exc; [rewrite S, Hf; reflexivity|assumption|rewrite S; reflexivity].
Qed.

(* writes: echo or exception *)
Lemma reply_write l tx u fc f res a b : tx_ok l tx -> fcode_value f = fc ->
  write_result l tx (DUnit u) f res (ser_u16_pair a b) = Ok (adu l tx u (write_response fc res (be a ++ be b))).
Proof.
  intros Htx Hf. unfold write_result, write_response. destruct res as [ex|].
  - rewrite format_ex_ok by assumption. cbn [ffield_value dest_value]. rewrite Hf. reflexivity.
  - erewrite format_reply_ok with (bs := be a ++ be b); [rewrite Hf; reflexivity|assumption| |cbn; lia].
    unfold ser_u16_pair. cbn [fst]. destruct (hdr_room l tx (DUnit u) (FValid f)) as [L C].
    rewrite wr_u16_be_ok by lia. rewrite wr_u16_be_ok by (unfold wapp; cbn [w_out w_cap]; rewrite app_length, C; cbn [length Cursor.be16]; lia).
    cbn [wr of_option]. rewrite wapp_app. reflexivity.
Qed.

(* ---------------------------------------------------------------- Request::get_reply = ref_exec *)
Lemma get_reply_spec l tx u h st r : tx_ok l tx -> req_wf r ->
  get_reply H l tx (DUnit u) h st r =
    let '(st', pdu, lg) := ref_exec H (fcode_value (get_function r)) h st (to_spec r) in (Ok (adu l tx u pdu), st', lg).
Proof.
  intros Htx Hwf. destruct r as [[s n]|[s n]|[s n]|[s n]|i b|i v|[s n] bytes|[s n] bytes];
    cbn [req_wf fst snd] in Hwf; cbn [get_reply get_function to_spec ref_exec fst snd fcode_value].
  - rewrite (reply_bits l tx u 1) by (try reflexivity; tauto).
    destruct (bits_response 1 _) as [pdu lg]. reflexivity.
  - rewrite (reply_bits l tx u 2) by (try reflexivity; tauto).
    destruct (bits_response 2 _) as [pdu lg]. reflexivity.
  - rewrite (reply_regs l tx u 3) by (try reflexivity; tauto).
    destruct (regs_response 3 _) as [pdu lg]. reflexivity.
  - rewrite (reply_regs l tx u 4) by (try reflexivity; tauto).
    destruct (regs_response 4 _) as [pdu lg]. reflexivity.
  - cbn [apply_write write_call]. destruct (write_single_coil H st i b) as [st' res].
    rewrite (reply_write l tx u 5) by (try reflexivity; assumption). destruct b; reflexivity.
  - cbn [apply_write write_call]. destruct (write_single_register H st i v) as [st' res].
    rewrite (reply_write l tx u 6) by (try reflexivity; assumption). reflexivity.
  - destruct Hwf as (Hn & Hs & Hlen). rewrite bit_items_spec by assumption.
    cbn [apply_write write_call]. rewrite bits_of_length, N2Nat.id.
    destruct (write_multiple_coils H st s n (indexed s (bits_of n bytes))) as [st' res].
    rewrite (reply_write l tx u 15) by (try reflexivity; assumption). reflexivity.
  - destruct Hwf as (Hn & Hs & Hlen & Hb). rewrite reg_items_spec by assumption.
    cbn [apply_write write_call]. rewrite (regs_of_length bytes (N.to_nat n)) by assumption. rewrite N2Nat.id.
    destruct (write_multiple_registers H st s n (indexed s (regs_of bytes))) as [st' res].
    rewrite (reply_write l tx u 16) by (try reflexivity; assumption). reflexivity.
Qed.

(* ---------------------------------------------------------------- broadcast *)
Lemma execute_spec u st r : req_wf r -> broadcast_supported (get_function r) = true ->
  execute H u st r = Ok (fst (apply_write H st (to_spec r)), write_call u (to_spec r)).
Proof.
  intros Hwf Hbc. destruct r as [[s n]|[s n]|[s n]|[s n]|i b|i v|[s n] bytes|[s n] bytes];
    cbn [get_function broadcast_supported] in Hbc; try discriminate;
    cbn [req_wf fst snd] in Hwf; cbn [execute to_spec apply_write write_call fst snd].
  - reflexivity.
  - reflexivity.
  - destruct Hwf as (Hn & Hs & Hlen). rewrite bit_items_spec by assumption. rewrite bits_of_length, N2Nat.id. reflexivity.
  - destruct Hwf as (Hn & Hs & Hlen & Hb). rewrite reg_items_spec by assumption.
    rewrite (regs_of_length bytes (N.to_nat n)) by assumption. rewrite N2Nat.id. reflexivity.
Qed.

Lemma execute_all_spec r : req_wf r -> broadcast_supported (get_function r) = true ->
  forall m g, execute_all H m g r = Ok (apply_all H m g (to_spec r)).
Proof.
  intros Hwf Hbc. induction m as [|[u h] rest IH]; intros g; [reflexivity|].
  cbn [execute_all apply_all]. rewrite execute_spec by assumption. rewrite IH.
  destruct (apply_all H rest (sset g h (fst (apply_write H (g h) (to_spec r)))) (to_spec r)) as [g' lg]. reflexivity.
Qed.

Lemma broadcast_is_write r : broadcast_supported (get_function r) = is_write (to_spec r).
Proof. destruct r; reflexivity. Qed.

(* ---------------------------------------------------------------- authorization *)
Lemma is_authorized_spec a u r : req_wf r -> is_authorized a u r = Ok (authorize a u (to_spec r)).
Proof.
  intros Hwf. destruct a as [|p role]; [reflexivity|].
  destruct r as [[s n]|[s n]|[s n]|[s n]|i b|i v|[s n] bytes|[s n] bytes]; cbn [req_wf fst snd] in Hwf; try reflexivity.
  - destruct Hwf as (Hn & Hs & Hlen). unfold is_authorized, authorize. cbn [get_function authz_dispatch request_field cb_kind to_spec kind_of arg_of fst snd].
    rewrite bits_of_length, N2Nat.id. reflexivity.
  - destruct Hwf as (Hn & Hs & Hlen & Hb). unfold is_authorized, authorize. cbn [get_function authz_dispatch request_field cb_kind to_spec kind_of arg_of fst snd].
    rewrite (regs_of_length bytes (N.to_nat n)) by assumption. rewrite N2Nat.id. reflexivity.
Qed.

(* ---------------------------------------------------------------- one frame *)
Definition frame_ok (l : link) (fr : frame) : Prop := tx_ok l (f_tx fr) /\ Forall byte (f_pdu fr).

Definition lift3 {A B C} (x : A * B * C) : outcome serr A * B * C := let '(a, b, c) := x in (Ok a, b, c).

Theorem handle_frame_refines l a units fr : frame_ok l fr ->
  handle_frame H l a units fr = lift3 (ref_handle_frame H l a units fr).
Proof.
  intros [Htx Hb]. unfold handle_frame, ref_handle_frame.
  destruct (f_pdu fr) as [|fv body] eqn:Epdu; [reflexivity|].
  inversion Hb as [|? ? Hfv Hbody]; subst.
  destruct (fcode_get fv) as [f|] eqn:Efc.
  - apply fcode_get_value in Efc. subst fv. pose proof (parse_decode f body Hbody) as P. unfold parse_rel in P.
    destruct (parse f body) as [r|].
    + destruct P as (Hdec & Hwf & Hfn). rewrite Hdec.
      rewrite is_authorized_spec by assumption.
      destruct (authorize a (dest_value (f_dest fr)) (to_spec r)) as [ok alog].
      destruct ok; cbn [negb].
      * destruct (f_dest fr) as [u|] eqn:Ed.
        -- destruct (lookup u (u_map units)) as [h|]; [|reflexivity].
           rewrite get_reply_spec by assumption. rewrite Hfn.
           destruct (ref_exec H (fcode_value f) h (u_store units h) (to_spec r)) as [[st' pdu] lg]. reflexivity.
        -- rewrite broadcast_is_write. destruct (is_write (to_spec r)) eqn:W; [|reflexivity].
           rewrite execute_all_spec by (try assumption; rewrite broadcast_is_write; assumption).
           destruct (apply_all H (u_map units) (u_store units) (to_spec r)) as [g' lg]. reflexivity.
      * unfold reply_with_error_generic. destruct (f_dest fr) as [u|]; cbn [dest_is_broadcast]; [|reflexivity].
        rewrite format_ex_ok by assumption. cbn [ffield_value dest_value lift3]. rewrite Hfn. reflexivity.
    + rewrite P. unfold reply_with_error_generic, is_served.
      destruct (f_dest fr) as [u|]; cbn [dest_is_broadcast lift3]; [|reflexivity].
      destruct (lookup u (u_map units)); [|reflexivity].
      rewrite format_ex_ok by assumption. reflexivity.
  - rewrite decode_unsupported by assumption. unfold reply_with_error_generic, is_served.
    destruct (f_dest fr) as [u|]; cbn [dest_is_broadcast lift3]; [|reflexivity].
    destruct (lookup u (u_map units)); [|reflexivity].
    rewrite format_ex_ok by assumption. reflexivity.
Qed.

(* ---------------------------------------------------------------- a connection *)
Theorem session_refines l a : forall frames units, Forall (frame_ok l) frames ->
  session H l a units frames = (let '(rs, units', lg) := ref_session H l a units frames in (rs, units', lg, SOpen)).
Proof.
  induction frames as [|fr rest IH]; intros units Hall; [reflexivity|].
  inversion Hall as [|? ? Hfr Hrest]; subst. cbn [session ref_session].
  rewrite handle_frame_refines by assumption.
  destruct (ref_handle_frame H l a units fr) as [[reply units'] lg]. cbn [lift3].
  rewrite IH by assumption. destruct (ref_session H l a units' rest) as [[rs units''] lg']. reflexivity.
Qed.
End Refine.
