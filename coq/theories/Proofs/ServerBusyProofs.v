From Coq Require Import NArith List Bool Arith Lia.
From Rodbus Require Import Model.Tracker Spec.TrackerSpec Proofs.TrackerProofs Gen.ServerForward Model.ServerBusy Spec.BusySpec.
Import ListNotations.
Local Open Scope N_scope.

(* ------------------------------------------------------------------ the generated forwarding *)
Lemma forwarding_is_try_send : apply_command_forwarding = ForwardTrySend.
Proof. reflexivity. Qed.
Lemma close_notice_is_never_lost : session_close_notice = NoticeSendAwait.
Proof. reflexivity. Qed.
Lemma bexpand_is_expand o : match o with Park _ | Release => True | _ => bexpand o = map BBase (expand o) end.
Proof. unfold bexpand. rewrite close_notice_is_never_lost. destruct o; exact I || reflexivity. Qed.
Lemma loop_bodies_have_no_await : apply_command_awaits = 0%nat /\ handle_awaits = 0%nat.
Proof. split; reflexivity. Qed.

(* ------------------------------------------------------------------ try_send never waits *)
Definition quiet (o : list boutput) : Prop :=
  flat_map (fun x => match x with BAnswered id => [(id, true)] | BSocketClosed id => [(id, false)] | _ => [] end) o = [].

Lemma quiet_app a b : quiet a -> quiet b -> quiet (a ++ b).
Proof. unfold quiet. intros Ha Hb. now rewrite flat_map_app, Ha, Hb. Qed.
Lemma quiet_out o : quiet (map BOut o).
Proof. unfold quiet. induction o; [reflexivity|exact IHo]. Qed.

Lemma forward_try_send t : forall fl fl' o w, forward ForwardTrySend t fl = (fl', o, w) -> w = false /\ quiet o.
Proof.
  induction t as [|id r IH]; intros fl fl' o w H; cbn [forward] in H.
  - inversion H. split; reflexivity.
  - destruct (_ <? _)%nat.
    + exact (IH _ _ _ _ H).
    + destruct (forward ForwardTrySend r fl) as [[fl1 o1] w1] eqn:E. inversion H; subst.
      destruct (IH _ _ _ _ E) as [-> Hq]. split; [reflexivity|exact Hq].
Qed.

Definition ended_by (ev : event) (k : N) : bool :=
  match ev with PeerGone id | SessionEnded id => k =? id | _ => false end.

Lemma bstep_base c ev c' o : waiting c = false -> bstep ForwardTrySend c (BBase ev) = Some (c', o) ->
  (exists outs, step (base c) ev = Some (base c', outs)) /\ waiting c' = false /\ quiet o /\
  busy c' = filter (fun k => negb (ended_by ev k)) (busy c).
Proof.
  intros Hw H. unfold bstep in H. rewrite Hw in H. destruct (step (base c) ev) as [[s' outs]|] eqn:E; [|discriminate].
  assert (Hid : forall l : list N, filter (fun _ => negb false) l = l).
  { induction l; [reflexivity|]. cbn. now f_equal. }
  destruct ev; cbn [ended_by]; rewrite ?Hid;
    try (inversion H; subst; cbn [base waiting busy]; repeat split; eauto using quiet_out; fail).
  destruct (running (base c)).
  - destruct (forward _ _ _) as [[fl d] w] eqn:F. inversion H; subst. cbn [base waiting busy].
    destruct (forward_try_send _ _ _ _ _ F) as [-> Hq]. repeat split; eauto. apply quiet_app; [apply quiet_out|exact Hq].
  - inversion H; subst. cbn [base waiting busy]. repeat split; eauto using quiet_out.
Qed.

Lemma brun_base evs : forall c c' o, waiting c = false -> brun ForwardTrySend c (map BBase evs) = Some (c', o) ->
  (exists outs, run (base c) evs = Some (base c', outs)) /\ waiting c' = false /\ quiet o /\
  busy c' = fold_left (fun l ev => filter (fun k => negb (ended_by ev k)) l) evs (busy c).
Proof.
  induction evs as [|e r IH]; intros c c' o Hw H; cbn [map brun run fold_left] in *.
  - inversion H; subst. repeat split; eauto; reflexivity.
  - destruct (bstep ForwardTrySend c (BBase e)) as [[c1 o1]|] eqn:E1; [|discriminate].
    destruct (brun ForwardTrySend c1 (map BBase r)) as [[c2 o2]|] eqn:E2; [|discriminate]. inversion H; subst.
    destruct (bstep_base _ _ _ _ Hw E1) as ((outs1 & S1) & Hw1 & Hq1 & Hb1).
    destruct (IH _ _ _ Hw1 E2) as ((outs2 & S2) & Hw2 & Hq2 & Hb2).
    rewrite S1, S2. repeat split; eauto using quiet_app. now rewrite Hb2, Hb1.
Qed.

Lemma bstep_try_send_never_waits c e c' o : waiting c = false -> bstep ForwardTrySend c e = Some (c', o) -> waiting c' = false.
Proof.
  intros Hw H. destruct e as [ev|id|].
  - exact (proj1 (proj2 (bstep_base _ _ _ _ Hw H))).
  - unfold bstep in H. rewrite Hw in H. destruct (_ && _); inversion H; subst; auto.
  - unfold bstep in H. inversion H; subst. reflexivity.
Qed.

Lemma brun_try_send_never_waits evs : forall c c' o, waiting c = false -> brun ForwardTrySend c evs = Some (c', o) -> waiting c' = false.
Proof.
  induction evs as [|e r IH]; intros c c' o Hw H; cbn [brun] in H.
  - now inversion H; subst.
  - destruct (bstep ForwardTrySend c e) as [[c1 o1]|] eqn:E1; [|discriminate].
    destruct (brun ForwardTrySend c1 r) as [[c2 o2]|] eqn:E2; [|discriminate]. inversion H; subst.
    exact (IH _ _ _ (bstep_try_send_never_waits _ _ _ _ Hw E1) E2).
Qed.

(* the statement for the forwarding the source has *)
Lemma never_waits evs c c' o : waiting c = false -> brun_gen c evs = Some (c', o) -> waiting c' = false.
Proof. unfold brun_gen. rewrite forwarding_is_try_send. apply brun_try_send_never_waits. Qed.

Lemma never_deferred_step c e c' o : waiting c = false -> bstep_gen c e = Some (c', o) -> ~ In BDeferred o.
Proof.
  unfold bstep_gen. rewrite forwarding_is_try_send. intros Hw H Hin. destruct e as [ev|id|]; unfold bstep in H; rewrite ?Hw in H.
  - destruct (step (base c) ev) as [[s' outs]|]; [|discriminate].
    assert (Hn : forall l, ~ In BDeferred (map BOut l)) by (induction l; cbn; [tauto|intros [X|X]; [discriminate|auto]]).
    assert (Hf : forall t fl fl' d w, forward ForwardTrySend t fl = (fl', d, w) -> ~ In BDeferred d).
    { induction t as [|i r IH]; intros fl fl' d w F; cbn [forward] in F; [inversion F; subst; cbn; tauto|].
      destruct (_ <? _)%nat; [exact (IH _ _ _ _ F)|]. destruct (forward ForwardTrySend r fl) as [[a b] x] eqn:E. inversion F; subst.
      intros [X|X]; [discriminate|exact (IH _ _ _ _ E X)]. }
    destruct ev; try (inversion H; subst; exact (Hn _ Hin)).
    destruct (running (base c)); [|inversion H; subst; exact (Hn _ Hin)].
    destruct (forward _ _ _) as [[fl d] w] eqn:F. inversion H; subst. apply in_app_or in Hin. destruct Hin as [X|X]; [exact (Hn _ X)|exact (Hf _ _ _ _ _ F X)].
  - destruct (_ && _); inversion H; subst; exact Hin.
  - inversion H; subst. clear H. induction (rev (busy c)) as [|k l IH]; cbn in Hin; [exact Hin|].
    destruct Hin as [X|X]; [destruct (alive (base c) k); discriminate|auto].
Qed.

(* ------------------------------------------------------------------ the tracker does not notice busy sessions *)
Fixpoint project (evs : list bevent) : list event :=
  match evs with
  | [] => []
  | BBase e :: r => e :: project r
  | _ :: r => project r
  end.

Lemma projects evs : forall c c' o, waiting c = false -> brun_gen c evs = Some (c', o) ->
  exists outs, run (base c) (project evs) = Some (base c', outs).
Proof.
  unfold brun_gen. rewrite forwarding_is_try_send.
  induction evs as [|e r IH]; intros c c' o Hw H; cbn [brun project] in *.
  - inversion H; subst. now exists [].
  - destruct (bstep ForwardTrySend c e) as [[c1 o1]|] eqn:E1; [|discriminate].
    destruct (brun ForwardTrySend c1 r) as [[c2 o2]|] eqn:E2; [|discriminate]. inversion H; subst.
    pose proof (bstep_try_send_never_waits _ _ _ _ Hw E1) as Hw1.
    destruct (IH _ _ _ Hw1 E2) as (outs2 & R2).
    destruct e as [ev|id|].
    + destruct (bstep_base _ _ _ _ Hw E1) as ((outs1 & S1) & _). cbn [run]. rewrite S1, R2. eauto.
    + unfold bstep in E1. rewrite Hw in E1. destruct (_ && _); inversion E1; subst; cbn [base] in *; eauto.
    + unfold bstep in E1. inversion E1; subst. cbn [base] in *. eauto.
Qed.

(* ------------------------------------------------------------------ refinement of the Spec *)
Definition brel (m : nat) (c : bserver) (bs : bsstate) : Prop :=
  rel m (base c) (core bs) /\ busy c = parked bs /\ waiting c = false.

Lemma rel_alive m s ss k : rel m s ss -> alive s k = is_in k (served ss).
Proof. intros (_ & _ & Hal & Hids & _). unfold alive, is_in. now rewrite (existsb_ids k _ Hal), Hids. Qed.

Lemma rel_alive_up m s ss k : rel m s ss -> alive s k = TrackerSpec.up ss && is_in k (served ss).
Proof.
  intros H. rewrite (rel_alive _ _ _ _ H). destruct H as ((_ & Hstop) & _ & _ & Hids & _ & Hr & _).
  destruct (TrackerSpec.up ss) eqn:U; [reflexivity|]. rewrite <- Hids, (Hstop Hr). reflexivity.
Qed.

Lemma brel_view m c bs a out : brel m c bs ->
  flat_map (fun x => match x with BAnswered id => [(id, true)] | BSocketClosed id => [(id, false)] | _ => [] end) out = a ->
  bview c out = bsview bs a.
Proof.
  intros (Hrel & Hb & _) Ha. unfold bview, bsview, open_sockets. rewrite Ha.
  pose proof Hrel as (_ & _ & _ & _ & Hnext & Hr & Hst). rewrite Hnext, Hr, Hst, Hb. f_equal. f_equal. f_equal.
  apply filter_ext. intros k. now rewrite (rel_alive _ _ _ _ Hrel).
Qed.

Lemma filter_twice k (l : list N) : filter (fun j => negb (j =? k)) (filter (fun j => negb (j =? k)) l) = filter (fun j => negb (j =? k)) l.
Proof. induction l as [|x l IH]; [reflexivity|]. cbn. destruct (x =? k) eqn:E; cbn; [exact IH|]. rewrite E. cbn. now f_equal. Qed.

Lemma filter_all (l : list N) : filter (fun _ => negb false) l = l.
Proof. induction l; [reflexivity|]. cbn. now f_equal. Qed.

Lemma step_brefines m c bs o c' out : brel m c bs -> brun ForwardTrySend c (bexpand o) = Some (c', out) ->
  brel m c' (fst (bsstep m bs o)) /\ bview c' out = bsview (fst (bsstep m bs o)) (snd (bsstep m bs o)).
Proof.
  intros Hb H. pose proof Hb as (Hrel & Hbusy & Hw).
  assert (Hbase : forall p, (forall ev k, In ev (expand o) -> ended_by ev k = true -> p k = true) ->
            (forall k, p k = true -> exists ev, In ev (expand o) /\ ended_by ev k = true) -> bexpand o = map BBase (expand o) ->
            brel m c' {| core := sstep m (core bs) o; parked := filter (fun k => negb (p k)) (parked bs) |} /\
            bview c' out = bsview {| core := sstep m (core bs) o; parked := filter (fun k => negb (p k)) (parked bs) |} []).
  { intros p Hp1 Hp2 He. rewrite He in H. destruct (brun_base _ _ _ _ Hw H) as ((outs & R) & Hw' & Hq & Hb').
    pose proof (step_refines _ _ _ _ _ _ Hrel R) as Hrel'.
    assert (Hbb : busy c' = filter (fun k => negb (p k)) (parked bs)).
    { rewrite Hb', Hbusy. clear - Hp1 Hp2. revert Hp1 Hp2. generalize (parked bs).
      assert (Hnone : forall l : list N, (forall k, p k = false) -> l = filter (fun k => negb (p k)) l).
      { intros l Hf. induction l as [|x l IH]; [reflexivity|]. cbn. rewrite (Hf x). cbn. now f_equal. }
      destruct o; cbn [expand fold_left ended_by]; intros l Hp1 Hp2; rewrite ?filter_all;
        try (apply Hnone; intros j; destruct (p j) eqn:E; [exfalso; destruct (Hp2 j E) as (ev & Hin & He); cbn in Hin;
             repeat (destruct Hin as [<-|Hin]; [cbn in He; discriminate He|]); exact Hin|reflexivity]).
      - rewrite filter_twice. apply filter_ext. intros j. f_equal. destruct (p j) eqn:E.
        + destruct (Hp2 j E) as (ev & Hin & He). cbn in Hin. destruct Hin as [<-|[<-|[]]]; exact He.
        + destruct (j =? k) eqn:E2; [|reflexivity]. rewrite <- E. symmetry. apply (Hp1 (PeerGone k)); [now left|exact E2].
      - rewrite filter_twice. apply filter_ext. intros j. f_equal. destruct (p j) eqn:E.
        + destruct (Hp2 j E) as (ev & Hin & He). cbn in Hin. destruct Hin as [<-|[<-|[]]]; exact He.
        + destruct (j =? k) eqn:E2; [|reflexivity]. rewrite <- E. symmetry. apply (Hp1 (PeerGone k)); [now left|exact E2]. }
    assert (Hb2 : brel m c' {| core := sstep m (core bs) o; parked := filter (fun k => negb (p k)) (parked bs) |}) by (split; [exact Hrel'|split; [exact Hbb|exact Hw']]).
    split; [exact Hb2|]. exact (brel_view _ _ _ _ _ Hb2 Hq). }
  destruct o as [| |k|k|k v|k|k| | | |]; cbn [bsstep fst snd].
  1,2,5,6,9,10,11:
    (destruct (Hbase (fun _ => false)) as [A B]; [intros ev0 k0 Hin He; cbn in Hin; repeat (destruct Hin as [<-|Hin]; try discriminate He); contradiction
                                                 |intros k1 X; discriminate X|reflexivity|];
     rewrite filter_all in A, B; split; [exact A|exact B]).
  - (* ClientClose *)
    destruct (Hbase (fun j => j =? k)) as [A B]; [|intros j E; exists (PeerGone k); split; [now left|exact E]|reflexivity|now split].
    intros ev j Hin He. cbn in Hin. destruct Hin as [<-|[<-|[]]]; exact He.
  - (* Garbage *)
    destruct (Hbase (fun j => j =? k)) as [A B]; [|intros j E; exists (PeerGone k); split; [now left|exact E]|reflexivity|now split].
    intros ev j Hin He. cbn in Hin. destruct Hin as [<-|[<-|[]]]; exact He.
  - (* Park *)
    unfold bexpand in H. cbn [bexpand_with brun] in H. unfold bstep in H. rewrite Hw in H.
    rewrite (rel_alive_up _ _ _ k Hrel), Hbusy in H. fold (is_in k (parked bs)) in H. unfold mem in H. fold (is_in k (parked bs)) in H.
    destruct (TrackerSpec.up (core bs) && is_in k (served (core bs)) && negb (is_in k (parked bs))); inversion H; subst; clear H.
    + assert (Hb2 : brel m {| base := base c; busy := k :: parked bs; fill := fill c; waiting := false |} {| core := core bs; parked := k :: parked bs |}) by (split; [exact Hrel|split; reflexivity]).
      split; [exact Hb2|]. apply (brel_view m _ _ _ _ Hb2). reflexivity.
    + split; [exact Hb|]. apply (brel_view m _ _ _ _ Hb). reflexivity.
  - (* Release *)
    unfold bexpand in H. cbn [bexpand_with brun] in H. unfold bstep in H. inversion H; subst; clear H.
    assert (Hb2 : brel m {| base := base c; busy := []; fill := []; waiting := false |} {| core := core bs; parked := [] |}) by (split; [exact Hrel|split; reflexivity]).
    split; [exact Hb2|]. apply (brel_view m _ _ _ _ Hb2). rewrite app_nil_r, Hbusy.
    induction (rev (parked bs)) as [|j l IH]; [reflexivity|]. cbn [map flat_map]. rewrite (rel_alive _ _ _ j Hrel).
    destruct (is_in j (served (core bs))); cbn [app]; now rewrite IH.
Qed.

Lemma brel_init m : brel m (binit m) bsinit.
Proof. split; [apply rel_init|split; reflexivity]. Qed.

Lemma btrace_refines m ops : forall c bs t, brel m c bs -> btrace ForwardTrySend c ops = Some t -> t = bstrace m bs ops.
Proof.
  induction ops as [|o r IH]; intros c bs t Hb H; cbn [btrace bstrace] in *; [now inversion H|].
  destruct (brun ForwardTrySend c (bexpand o)) as [[c1 out]|] eqn:E1; [|discriminate].
  destruct (btrace ForwardTrySend c1 r) as [t1|] eqn:E2; [|discriminate]. inversion H; subst.
  destruct (step_brefines _ _ _ _ _ _ Hb E1) as [Hb1 Hv]. destruct (bsstep m bs o) as [s1 a]. cbn [fst snd] in *.
  rewrite Hv. f_equal. exact (IH _ _ _ Hb1 E2).
Qed.

Lemma brefines m ops t : btrace_gen (binit m) ops = Some t -> t = bstrace m bsinit ops.
Proof. unfold btrace_gen. rewrite forwarding_is_try_send. apply btrace_refines, brel_init. Qed.

(* ------------------------------------------------------------------ the record of an ended session is removed *)
Lemma ended_session_record_removed c k c' o : waiting c = false -> running (base c) = true ->
  (brun_gen c (bexpand (ClientClose k)) = Some (c', o) \/ brun_gen c (bexpand (Garbage k)) = Some (c', o)) ->
  ~ In k (ids (sessions (trk (base c')))).
Proof.
  intros Hw Hr H. assert (H' : brun ForwardTrySend c (map BBase [PeerGone k; SessionEnded k]) = Some (c', o)).
  { unfold brun_gen, bexpand in H. rewrite forwarding_is_try_send, close_notice_is_never_lost in H. destruct H as [H|H]; exact H. }
  destruct (brun_base _ _ _ _ Hw H') as ((outs & R) & _). cbn [run] in R. unfold step in R.
  rewrite Hr in R. cbn [negb with_sessions running] in R. rewrite Hr in R. cbn [negb] in R. injection R as Hb _. unfold ids. rewrite <- Hb.
  cbn [trk remove sessions with_sessions]. fold (ids (remove_id k (mark_dead k (sessions (trk (base c)))))). rewrite remove_mark_dead. rewrite ids_remove_id. intros Hin. apply filter_In in Hin. destruct Hin as [_ Hn].
  rewrite N.eqb_refl in Hn. discriminate.
Qed.
