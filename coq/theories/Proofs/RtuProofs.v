(* C06: the RTU parser model, call by call, against the stream Spec `rref`; then the reader-level
   theorems by instantiating ReaderGeneric for both parser roles. Follows the MBAP pattern
   (DESIGN-prototypes 18): direct-style parser, model = direct style under the invariants, three
   outcome lemmas per sub-parser, extensionality / fuel lemmas for the Spec. *)
From Coq Require Import NArith List Bool Arith Lia.
From Rodbus Require Import Base.Outcome Base.Frame Gen.Consts Gen.RtuLengths Model.Buffer Model.Crc Model.Mbap Model.Rtu Model.Reader
  Spec.Framing Proofs.BufferProofs Proofs.ReaderGeneric Proofs.MbapProofs Proofs.CrcProofs.
Import ListNotations.

Lemma bytes_nil : bytes []. Proof. constructor. Qed.
Lemma bytes_app a c : bytes a -> bytes c -> bytes (a ++ c). Proof. intros; now apply Forall_app. Qed.
Lemma bytes_firstn k a : bytes a -> bytes (firstn k a).
Proof. unfold bytes. intros H. revert k. induction H as [|x l Hx Hl IH]; intros [|k]; cbn [firstn]; constructor; auto. Qed.
Lemma bytes_skipn k a : bytes a -> bytes (skipn k a).
Proof. unfold bytes. intros H. revert k. induction H as [|x l Hx Hl IH]; intros [|k]; cbn [skipn]; try constructor; auto. Qed.
Lemma bytes_nth l i : bytes l -> (nth i l 0 < 256)%N.
Proof. intros H. destruct (Nat.lt_ge_cases i (length l)) as [Hi|Hi]; [|rewrite nth_overflow by assumption; reflexivity]. unfold bytes in H. rewrite Forall_forall in H. apply H, nth_In, Hi. Qed.

(* ---------------------------------------------------------------- the length table *)
Definition role_of (p : ptype) : role := match p with Request => Requests | Response => Responses end.
Definition lrule_of (m : length_mode_t) : lrule := match m with Fixed n => LFixed n | Offset n => LCount n | Unknown => LUnknown end.

(* the table regenerated from serial/frame.rs::length_mode is the Modbus length rule, for every byte *)
Lemma length_mode_spec p fc : (fc < 256)%N -> lrule_of (length_mode p fc) = length_rule (role_of p) fc.
Proof.
  intros Hfc.
  assert (H : forallb (fun fc => match lrule_of (length_mode p fc), length_rule (role_of p) fc with
                                 | LFixed a, LFixed c | LCount a, LCount c => Nat.eqb a c
                                 | LUnknown, LUnknown => true | _, _ => false end) (below 8) = true)
    by (destruct p; vm_compute; reflexivity).
  rewrite forallb_forall in H. specialize (H fc (below_in 8 fc Hfc)). cbv beta in H.
  destruct (lrule_of (length_mode p fc)), (length_rule (role_of p) fc); try discriminate; try reflexivity;
    apply Nat.eqb_eq in H; now subst.
Qed.
Lemma length_mode_small p fc : match length_mode p fc with Fixed n => n <= 4 | Offset n => n <= 5 | Unknown => True end.
Proof.
  unfold length_mode. destruct (andb _ _); [cbn; lia|]. destruct (fcode_get fc) as [f|]; [|exact I].
  destruct p, f; cbn; lia.
Qed.

(* ---------------------------------------------------------------- the parser in direct style *)
Definition mkr (dest : N) (pdu : list N) : frame := {| f_tx := None; f_dest := dest; f_bcast := N.eqb dest 0; f_pdu := pdu |}.

Definition sfull (dest : N) (len : nat) (b : buf) : rstate * buf * sres :=
  let st := ReadFullBody dest len in
  if Nat.ltb 253 (1 + len) then (st, b, SBad (FrameLengthTooBig (1 + len) 253))
  else if Nat.ltb (buf_len b) (1 + len + 2) then (st, b, SNeed)
  else let data := firstn (1 + len) (b_pend b) in
       let rc := (nth (1 + len + 1) (b_pend b) 0 * 256 + nth (1 + len) (b_pend b) 0)%N in
       let b' := consume (1 + len + 2) b in
       if N.eqb rc (crc (dest :: data)) then (Start, b', SGot (mkr dest data))
       else (st, b', SBad (CrcValidationFailure rc (crc (dest :: data)))).
Definition soffset (dest : N) (off : nat) (b : buf) : rstate * buf * sres :=
  if Nat.ltb (buf_len b) (1 + off) then (ReadToOffsetForLength dest off, b, SNeed)
  else sfull dest (off + N.to_nat (nth off (b_pend b) 0%N)) b.
Definition srtu (p : ptype) (st : rstate) (b : buf) : rstate * buf * sres :=
  match st with
  | Start =>
      if Nat.ltb (buf_len b) 2 then (Start, b, SNeed)
      else let dest := nth 0 (b_pend b) 0%N in
           let b1 := consume 1 b in
           let fcv := nth 0 (b_pend b1) 0%N in
           match length_mode p fcv with
           | Fixed l => sfull dest l b1
           | Offset o => soffset dest o b1
           | Unknown => (Start, b1, SBad (UnknownFunctionCode fcv))
           end
  | ReadToOffsetForLength d o => soffset d o b
  | ReadFullBody d l => sfull d l b
  end.

Definition rst_ok (st : rstate) : Prop :=
  match st with Start => True | ReadFullBody _ len => 1 + len <= 253 | ReadToOffsetForLength _ off => off <= 5 end.
Definition rneed (st : rstate) : nat :=
  match st with Start => 2 | ReadFullBody _ len => 1 + len + 2 | ReadToOffsetForLength _ off => 1 + off end.
Definition rcons_need (st : rstate) : nat := match st with Start => 1 | _ => 0 end.

Lemma nth_skipn_add {A} : forall n k (l : list A) d, nth (n + k) l d = nth k (skipn n l) d.
Proof. induction n as [|n IH]; intros k l d; [reflexivity|]. destruct l; [destruct k; reflexivity|]. cbn [Nat.add nth skipn]. apply IH. Qed.

(* ---------------------------------------------------------------- model = direct style *)
Lemma rtu_parse_full_eq dest len b : wf b -> len <= 600 ->
  rtu_parse_full dest len b = (let '(st, b', r) := sfull dest len b in (st, b', lift_s r)).
Proof.
  intros Hwf Hlen. unfold rtu_parse_full, sfull, rtu_function_code_length, rtu_crc_length, max_adu_length.
  rewrite uadd_ok by (ucap; lia). destruct (Nat.ltb_spec 253 (1 + len)) as [|Hle]; [reflexivity|].
  rewrite uadd_ok by (ucap; lia). destruct (Nat.ltb_spec (buf_len b) (1 + len + 2)) as [|Hge]; [reflexivity|].
  rewrite buf_read_ok by (assumption || lia).
  assert (Hfs : frame_set (firstn (1 + len) (b_pend b)) = firstn (1 + len) (b_pend b)).
  { apply frame_set_small. rewrite firstn_length. lia. }
  rewrite Hfs.
  assert (Hwf1 : wf (consume (1 + len) b)) by (apply consume_wf; [assumption|lia]).
  destruct (skipn (1 + len) (b_pend b)) as [|x [|y r]] eqn:Esk.
  - exfalso. apply (f_equal (@length N)) in Esk. rewrite skipn_length in Esk. unfold buf_len in Hge. cbn in Esk. lia.
  - exfalso. apply (f_equal (@length N)) in Esk. rewrite skipn_length in Esk. unfold buf_len in Hge. cbn in Esk. lia.
  - rewrite (buf_read_u16_le_ok (consume (1 + len) b) x y r Hwf1) by (cbn [consume b_pend]; exact Esk).
    rewrite consume_consume.
    assert (Hx : nth (1 + len) (b_pend b) 0%N = x) by (rewrite <- (Nat.add_0_r (1 + len)), nth_skipn_add, Esk; reflexivity).
    assert (Hy : nth (1 + len + 1) (b_pend b) 0%N = y) by (rewrite nth_skipn_add, Esk; reflexivity).
    rewrite Hx, Hy. fold (is_broadcast dest).
    destruct (N.eqb (y * 256 + x) (crc (dest :: firstn (1 + len) (b_pend b)))); reflexivity.
Qed.

Lemma rtu_parse_offset_eq dest off b : wf b -> bytes (b_pend b) -> off <= 5 ->
  rtu_parse_offset dest off b = (let '(st, b', r) := soffset dest off b in (st, b', lift_s r)).
Proof.
  intros Hwf Hb Hoff. unfold rtu_parse_offset, soffset, rtu_function_code_length.
  rewrite uadd_ok by (ucap; lia). destruct (Nat.ltb_spec (buf_len b) (1 + off)) as [|Hge]; [reflexivity|].
  cbn [Nat.add]. rewrite buf_peek_ok by (assumption || lia).
  pose proof (bytes_nth (b_pend b) off Hb) as Hn.
  rewrite uadd_ok by (ucap; lia). apply rtu_parse_full_eq; [assumption|lia].
Qed.

Theorem rtu_parse_eq p st b : wf b -> bytes (b_pend b) -> rst_ok st ->
  rtu_parse p st b = (let '(st', b', r) := srtu p st b in (st', b', lift_s r)).
Proof.
  intros Hwf Hb Hst. destruct st as [|d len|d off]; cbn [rtu_parse srtu].
  - destruct (Nat.ltb_spec (buf_len b) 2) as [|H2]; [reflexivity|].
    assert (Hb1 : bytes (b_pend (consume 1 b))) by (cbn [consume b_pend]; apply bytes_skipn; exact Hb).
    destruct (b_pend b) as [|a [|fcv rest]] eqn:Ep; try (unfold buf_len in H2; rewrite Ep in H2; cbn in H2; lia).
    rewrite (buf_read_u8_ok b a (fcv :: rest) Hwf Ep).
    assert (Hwf1 : wf (consume 1 b)) by (apply consume_wf; [assumption|lia]).
    assert (Hp1 : b_pend (consume 1 b) = fcv :: rest) by (cbn [consume b_pend]; now rewrite Ep).
    rewrite (buf_peek_ok 0 (consume 1 b) Hwf1) by (unfold buf_len; rewrite Hp1; cbn; lia).
    rewrite Hp1. cbn [nth].
    pose proof (length_mode_small p fcv) as Hsm. destruct (length_mode p fcv) as [l|o|].
    + apply rtu_parse_full_eq; [assumption|lia].
    + apply rtu_parse_offset_eq; assumption.
    + reflexivity.
  - apply rtu_parse_full_eq; [assumption|cbn in Hst; lia].
  - apply rtu_parse_offset_eq; assumption.
Qed.

Corollary rtu_parse_no_panic p st b : wf b -> bytes (b_pend b) -> rst_ok st -> snd (rtu_parse p st b) <> Panic.
Proof. intros Hwf Hb Hst. rewrite rtu_parse_eq by assumption. destruct (srtu p st b) as [[st' b'] r]. destruct r; discriminate. Qed.

(* ---------------------------------------------------------------- the Spec, one frame at a time *)
Section Role.
Variable p : ptype.
Notation r := (role_of p).

Definition kont (F : nat) (fi : fin) : list N -> list frame * ending := fun s' => rref F r s' fi.

Definition rref_from (F : nat) (st : rstate) (s : list N) (fi : fin) : list frame * ending :=
  match st with
  | Start => rref F r s fi
  | ReadToOffsetForLength d off =>
      if Nat.ltb (length s) (1 + off) then ([], end_of fi)
      else ref_rtu_body (kont F fi) fi d (1 + off + N.to_nat (nth off s 0%N)) s
  | ReadFullBody d len => ref_rtu_body (kont F fi) fi d (1 + len) s
  end.

Lemma rref_unfold F s fi : rref (S F) r s fi =
  if Nat.ltb (length s) 2 then ([], end_of fi)
  else let d := nth 0 s 0%N in let t := skipn 1 s in
       match length_rule r (nth 0 t 0%N) with
       | LUnknown => ([], EndBad (UnknownFunctionCode (nth 0 t 0%N)))
       | LFixed n => ref_rtu_body (kont F fi) fi d (1 + n) t
       | LCount off => if Nat.ltb (length t) (1 + off) then ([], end_of fi)
                       else ref_rtu_body (kont F fi) fi d (1 + off + N.to_nat (nth off t 0%N)) t
       end.
Proof. destruct s as [|a [|fcv rest]]; reflexivity. Qed.

Lemma body_ext k1 k2 fi d plen t : (forall t', length t' < length t -> k1 t' = k2 t') ->
  ref_rtu_body k1 fi d plen t = ref_rtu_body k2 fi d plen t.
Proof.
  intros H. unfold ref_rtu_body. destruct (Nat.ltb 253 plen); [reflexivity|].
  destruct (Nat.ltb_spec (length t) (plen + 2)); [reflexivity|]. destruct (N.eqb _ _); [|reflexivity].
  rewrite H; [reflexivity|]. rewrite skipn_length. lia.
Qed.

Lemma rref_fuel : forall f1 f2 s fi, length s < f1 -> length s < f2 -> rref f1 r s fi = rref f2 r s fi.
Proof.
  induction f1 as [|f1 IH]; intros f2 s fi H1 H2; [lia|]. destruct f2 as [|f2]; [lia|]. rewrite !rref_unfold.
  destruct (Nat.ltb_spec (length s) 2); [reflexivity|]. cbv zeta.
  assert (Hk : forall t', length t' < length (skipn 1 s) -> kont f1 fi t' = kont f2 fi t').
  { intros t' Ht. rewrite skipn_length in Ht. unfold kont. apply IH; lia. }
  destruct (length_rule _ _); [now apply body_ext| |reflexivity].
  destruct (Nat.ltb _ _); [reflexivity|now apply body_ext].
Qed.

(* one unfolding of the Spec with the same fuel on both sides *)
Lemma rref_step F s fi : length s < F -> 2 <= length s ->
  rref F r s fi =
  match length_rule r (nth 0 (skipn 1 s) 0%N) with
  | LUnknown => ([], EndBad (UnknownFunctionCode (nth 0 (skipn 1 s) 0%N)))
  | LFixed n => rref_from F (ReadFullBody (nth 0 s 0%N) n) (skipn 1 s) fi
  | LCount off => rref_from F (ReadToOffsetForLength (nth 0 s 0%N) off) (skipn 1 s) fi
  end.
Proof.
  intros HF H2. destruct F as [|F]; [lia|]. rewrite rref_unfold. destruct (Nat.ltb_spec (length s) 2); [lia|]. cbv zeta.
  assert (Hk : forall t', length t' < length (skipn 1 s) -> kont F fi t' = kont (S F) fi t').
  { intros t' Ht. rewrite skipn_length in Ht. unfold kont. apply rref_fuel; lia. }
  cbn [rref_from]. destruct (length_rule _ _); [now apply body_ext| |reflexivity].
  destruct (Nat.ltb _ _); [reflexivity|now apply body_ext].
Qed.
Lemma rref_short F s fi : 0 < F -> length s < 2 -> rref F r s fi = ([], end_of fi).
Proof. intros HF H2. destruct F; [lia|]. rewrite rref_unfold. destruct (Nat.ltb_spec (length s) 2); [reflexivity|lia]. Qed.

(* ---------------------------------------------------------------- outcomes of the sub-parsers *)
Lemma spec_body_at d len b fut F fi :
  1 + len <= 253 -> 1 + len + 2 <= buf_len b ->
  ref_rtu_body (kont F fi) fi d (1 + len) (b_pend b ++ fut) =
  let data := firstn (1 + len) (b_pend b) in
  let rc := (nth (1 + len + 1) (b_pend b) 0 * 256 + nth (1 + len) (b_pend b) 0)%N in
  if N.eqb rc (crc (d :: data)) then consf (mkr d data) (rref F r (b_pend (consume (1 + len + 2) b) ++ fut) fi)
  else ([], EndBad (CrcValidationFailure rc (crc (d :: data)))).
Proof.
  intros Hle Hge. unfold ref_rtu_body, buf_len in *. destruct (Nat.ltb_spec 253 (1 + len)); [lia|].
  rewrite app_length. destruct (Nat.ltb_spec (length (b_pend b) + length fut) (1 + len + 2)); [lia|].
  rewrite firstn_app_le by lia. rewrite !app_nth1 by lia. cbv zeta.
  replace (nth (1 + len) (b_pend b) 0 + 256 * nth (1 + len + 1) (b_pend b) 0)%N
    with (nth (1 + len + 1) (b_pend b) 0 * 256 + nth (1 + len) (b_pend b) 0)%N by lia.
  destruct (N.eqb _ _); [|reflexivity]. rewrite skipn_app_le by lia. reflexivity.
Qed.

Lemma sfull_got d len b st' b' f : sfull d len b = (st', b', SGot f) ->
  st' = Start /\ b' = consume (1 + len + 2) b /\ 1 + len + 2 <= buf_len b /\
  forall fut F fi, rref_from F (ReadFullBody d len) (b_pend b ++ fut) fi = consf f (rref F r (b_pend b' ++ fut) fi).
Proof.
  unfold sfull. destruct (Nat.ltb_spec 253 (1 + len)); [discriminate|].
  destruct (Nat.ltb_spec (buf_len b) (1 + len + 2)); [discriminate|].
  destruct (N.eqb _ _) eqn:E; [|discriminate]. intros Hq; inversion Hq; subst; clear Hq.
  repeat split; [assumption|]. intros fut F fi. cbn [rref_from]. rewrite spec_body_at by lia. cbv zeta. now rewrite E.
Qed.
Lemma sfull_need d len b st' b' : sfull d len b = (st', b', SNeed) ->
  st' = ReadFullBody d len /\ b' = b /\ 1 + len <= 253 /\ buf_len b < 1 + len + 2.
Proof.
  unfold sfull. destruct (Nat.ltb_spec 253 (1 + len)); [discriminate|].
  destruct (Nat.ltb_spec (buf_len b) (1 + len + 2)); [|destruct (N.eqb _ _); discriminate].
  intros Hq; inversion Hq; subst. repeat split; lia.
Qed.
Lemma sfull_bad d len b st' b' e : sfull d len b = (st', b', SBad e) ->
  (exists k, b' = consume k b /\ k <= buf_len b) /\
  forall fut F fi, rref_from F (ReadFullBody d len) (b_pend b ++ fut) fi = ([], EndBad e).
Proof.
  unfold sfull. destruct (Nat.ltb_spec 253 (1 + len)) as [Hbig|].
  - intros Hq; inversion Hq; subst. split; [exists 0; rewrite consume_0; split; [reflexivity|lia]|].
    intros fut F fi. cbn [rref_from]. unfold ref_rtu_body. destruct (Nat.ltb_spec 253 (1 + len)); [reflexivity|lia].
  - destruct (Nat.ltb_spec (buf_len b) (1 + len + 2)); [discriminate|].
    destruct (N.eqb _ _) eqn:E; [discriminate|]. intros Hq; inversion Hq; subst; clear Hq.
    split; [exists (1 + len + 2); split; [reflexivity|assumption]|].
    intros fut F fi. cbn [rref_from]. rewrite spec_body_at by lia. cbv zeta. now rewrite E.
Qed.

(* entering ReadFullBody from ReadToOffsetForLength does not change what the Spec says *)
Lemma offset_to_full d off b fut F fi : 1 + off <= buf_len b ->
  rref_from F (ReadToOffsetForLength d off) (b_pend b ++ fut) fi =
  rref_from F (ReadFullBody d (off + N.to_nat (nth off (b_pend b) 0%N))) (b_pend b ++ fut) fi.
Proof.
  intros H. unfold buf_len in H. cbn [rref_from]. rewrite app_length.
  destruct (Nat.ltb_spec (length (b_pend b) + length fut) (1 + off)); [lia|].
  rewrite app_nth1 by lia. now rewrite Nat.add_assoc.
Qed.

Lemma soffset_got d off b st' b' f : soffset d off b = (st', b', SGot f) ->
  st' = Start /\ (exists k, b' = consume k b /\ k <= buf_len b) /\
  forall fut F fi, rref_from F (ReadToOffsetForLength d off) (b_pend b ++ fut) fi = consf f (rref F r (b_pend b' ++ fut) fi).
Proof.
  unfold soffset. destruct (Nat.ltb_spec (buf_len b) (1 + off)); [discriminate|]. intros Hq.
  destruct (sfull_got _ _ _ _ _ _ Hq) as (-> & -> & Hk & Hr). split; [reflexivity|].
  split; [eexists; split; [reflexivity|exact Hk]|]. intros fut F fi. rewrite offset_to_full by assumption. apply Hr.
Qed.
Lemma soffset_need d off b st' b' : off <= 5 -> soffset d off b = (st', b', SNeed) ->
  rst_ok st' /\ b' = b /\ buf_len b < rneed st' /\
  forall fut F fi, rref_from F (ReadToOffsetForLength d off) (b_pend b ++ fut) fi = rref_from F st' (b_pend b ++ fut) fi.
Proof.
  intros Hoff. unfold soffset. destruct (Nat.ltb_spec (buf_len b) (1 + off)) as [Hlt|Hge].
  - intros Hq; inversion Hq; subst. cbn [rst_ok rneed]. repeat split; auto.
  - intros Hq. destruct (sfull_need _ _ _ _ _ Hq) as (-> & -> & Hle & Hlt). cbn [rst_ok rneed]. repeat split; auto.
    intros fut F fi. now apply offset_to_full.
Qed.
Lemma soffset_bad d off b st' b' e : soffset d off b = (st', b', SBad e) ->
  (exists k, b' = consume k b /\ k <= buf_len b) /\
  forall fut F fi, rref_from F (ReadToOffsetForLength d off) (b_pend b ++ fut) fi = ([], EndBad e).
Proof.
  unfold soffset. destruct (Nat.ltb_spec (buf_len b) (1 + off)); [discriminate|]. intros Hq.
  destruct (sfull_bad _ _ _ _ _ _ Hq) as (Hk & Hr). split; [exact Hk|].
  intros fut F fi. rewrite offset_to_full by assumption. apply Hr.
Qed.
End Role.

(* ---------------------------------------------------------------- outcomes of one RtuParser::parse call *)
Section Role2.
Variable p : ptype.
Notation r := (role_of p).
Notation rref_from := (rref_from p).

Lemma start_step b fut F fi : bytes (b_pend b) -> 2 <= buf_len b -> length (b_pend b ++ fut) < F ->
  rref F r (b_pend b ++ fut) fi =
  match length_mode p (nth 0 (b_pend (consume 1 b)) 0%N) with
  | Unknown => ([], EndBad (UnknownFunctionCode (nth 0 (b_pend (consume 1 b)) 0%N)))
  | Fixed l => rref_from F (ReadFullBody (nth 0 (b_pend b) 0%N) l) (b_pend (consume 1 b) ++ fut) fi
  | Offset o => rref_from F (ReadToOffsetForLength (nth 0 (b_pend b) 0%N) o) (b_pend (consume 1 b) ++ fut) fi
  end.
Proof.
  intros Hb H2 HF. unfold buf_len in H2. rewrite (rref_step p F _ fi HF) by (rewrite app_length; lia).
  rewrite skipn_app_le by lia. cbn [consume b_pend].
  assert (Hl1 : 1 <= length (skipn 1 (b_pend b))) by (rewrite skipn_length; lia).
  rewrite (app_nth1 (skipn 1 (b_pend b)) fut) by lia. rewrite (app_nth1 (b_pend b) fut) by lia.
  assert (Hfc : (nth 0 (skipn 1 (b_pend b)) 0 < 256)%N) by (apply bytes_nth, bytes_skipn, Hb).
  rewrite <- (length_mode_spec p _ Hfc). destruct (length_mode p _); reflexivity.
Qed.

Lemma rparse_got st b st' b' f : bytes (b_pend b) -> rst_ok st -> srtu p st b = (st', b', SGot f) ->
  st' = Start /\ (exists k, b' = consume k b /\ k <= buf_len b /\ rcons_need st <= k) /\
  forall fut F fi, length (b_pend b ++ fut) < F -> rref_from F st (b_pend b ++ fut) fi = consf f (rref F r (b_pend b' ++ fut) fi).
Proof.
  intros Hb Hst. destruct st as [|d len|d off]; cbn [srtu].
  - destruct (Nat.ltb_spec (buf_len b) 2) as [|H2]; [discriminate|]. intros Hp.
    assert (Hstep := fun fut F fi => start_step b fut F fi Hb H2).
    destruct (length_mode p (nth 0 (b_pend (consume 1 b)) 0%N)) as [l|o|]; [| |discriminate].
    + destruct (sfull_got p _ _ _ _ _ _ Hp) as (-> & -> & Hk & Hr). rewrite consume_len in Hk. split; [reflexivity|]. split.
      * exists (1 + (1 + l + 2)). rewrite consume_consume. cbn [rcons_need]. repeat split; lia.
      * intros fut F fi HF. change (rref_from F Start (b_pend b ++ fut) fi) with (rref F r (b_pend b ++ fut) fi). rewrite Hstep by assumption. apply Hr.
    + destruct (soffset_got p _ _ _ _ _ _ Hp) as (-> & (k & -> & Hk) & Hr). rewrite consume_len in Hk. split; [reflexivity|]. split.
      * exists (1 + k). rewrite consume_consume. cbn [rcons_need]. repeat split; lia.
      * intros fut F fi HF. change (rref_from F Start (b_pend b ++ fut) fi) with (rref F r (b_pend b ++ fut) fi). rewrite Hstep by assumption. apply Hr.
  - intros Hp. destruct (sfull_got p _ _ _ _ _ _ Hp) as (-> & -> & Hk & Hr). split; [reflexivity|].
    split; [eexists; cbn [rcons_need]; repeat split; [exact Hk|lia]|]. intros fut F fi _. apply Hr.
  - intros Hp. destruct (soffset_got p _ _ _ _ _ _ Hp) as (-> & (k & -> & Hk) & Hr). split; [reflexivity|].
    split; [exists k; cbn [rcons_need]; repeat split; [exact Hk|lia]|]. intros fut F fi _. apply Hr.
Qed.

Lemma rparse_bad st b st' b' e : bytes (b_pend b) -> rst_ok st -> srtu p st b = (st', b', SBad e) ->
  (exists k, b' = consume k b /\ k <= buf_len b /\ rcons_need st <= k) /\
  forall fut F fi, length (b_pend b ++ fut) < F -> rref_from F st (b_pend b ++ fut) fi = ([], EndBad e).
Proof.
  intros Hb Hst. destruct st as [|d len|d off]; cbn [srtu].
  - destruct (Nat.ltb_spec (buf_len b) 2) as [|H2]; [discriminate|]. intros Hp.
    assert (Hstep := fun fut F fi => start_step b fut F fi Hb H2).
    destruct (length_mode p (nth 0 (b_pend (consume 1 b)) 0%N)) as [l|o|].
    + destruct (sfull_bad p _ _ _ _ _ _ Hp) as ((k & -> & Hk) & Hr). rewrite consume_len in Hk. split.
      * exists (1 + k). rewrite consume_consume. cbn [rcons_need]. repeat split; lia.
      * intros fut F fi HF. change (rref_from F Start (b_pend b ++ fut) fi) with (rref F r (b_pend b ++ fut) fi). rewrite Hstep by assumption. apply Hr.
    + destruct (soffset_bad p _ _ _ _ _ _ Hp) as ((k & -> & Hk) & Hr). rewrite consume_len in Hk. split.
      * exists (1 + k). rewrite consume_consume. cbn [rcons_need]. repeat split; lia.
      * intros fut F fi HF. change (rref_from F Start (b_pend b ++ fut) fi) with (rref F r (b_pend b ++ fut) fi). rewrite Hstep by assumption. apply Hr.
    + inversion Hp; subst. split; [exists 1; cbn [rcons_need]; repeat split; lia|].
      intros fut F fi HF. change (rref_from F Start (b_pend b ++ fut) fi) with (rref F r (b_pend b ++ fut) fi). now rewrite Hstep by assumption.
  - intros Hp. destruct (sfull_bad p _ _ _ _ _ _ Hp) as ((k & -> & Hk) & Hr). split; [exists k; cbn [rcons_need]; repeat split; [exact Hk|lia]|]. intros fut F fi _. apply Hr.
  - intros Hp. destruct (soffset_bad p _ _ _ _ _ _ Hp) as ((k & -> & Hk) & Hr). split; [exists k; cbn [rcons_need]; repeat split; [exact Hk|lia]|]. intros fut F fi _. apply Hr.
Qed.

Lemma rparse_need st b st' b' : bytes (b_pend b) -> rst_ok st -> srtu p st b = (st', b', SNeed) ->
  rst_ok st' /\ buf_len b' < rneed st' /\
  (exists k, b' = consume k b /\ k <= buf_len b /\ rcons_need st <= k + rcons_need st') /\
  (forall fut F fi, length (b_pend b ++ fut) < F -> rref_from F st (b_pend b ++ fut) fi = rref_from F st' (b_pend b' ++ fut) fi).
Proof.
  intros Hb Hst. destruct st as [|d len|d off]; cbn [srtu].
  - destruct (Nat.ltb_spec (buf_len b) 2) as [Hlt|H2].
    + intros Hq; inversion Hq; subst. split; [exact I|]. split; [exact Hlt|]. split; [|reflexivity].
      exists 0. rewrite consume_0. cbn [rcons_need]. repeat split; lia.
    + intros Hp. assert (Hstep := fun fut F fi => start_step b fut F fi Hb H2).
      pose proof (length_mode_small p (nth 0 (b_pend (consume 1 b)) 0%N)) as Hsm.
      destruct (length_mode p (nth 0 (b_pend (consume 1 b)) 0%N)) as [l|o|]; [| |discriminate].
      * destruct (sfull_need _ _ _ _ _ Hp) as (-> & -> & Hle & Hlt). cbn [rst_ok rneed]. split; [exact Hle|]. split; [exact Hlt|]. split.
        -- exists 1. cbn [rcons_need]. repeat split; lia.
        -- intros fut F fi HF. change (rref_from F Start (b_pend b ++ fut) fi) with (rref F r (b_pend b ++ fut) fi). now rewrite Hstep by assumption.
      * destruct (soffset_need p _ _ _ _ _ Hsm Hp) as (Hok' & -> & Hlt & Hr). split; [exact Hok'|]. split; [exact Hlt|]. split.
        -- exists 1. cbn [rcons_need]. repeat split; lia.
        -- intros fut F fi HF. change (rref_from F Start (b_pend b ++ fut) fi) with (rref F r (b_pend b ++ fut) fi). rewrite Hstep by assumption. apply Hr.
  - intros Hp. destruct (sfull_need _ _ _ _ _ Hp) as (-> & -> & Hle & Hlt). cbn [rst_ok rneed]. split; [exact Hle|]. split; [exact Hlt|].
    split; [|reflexivity]. exists 0. rewrite consume_0. repeat split; lia.
  - intros Hp. destruct (soffset_need p _ _ _ _ _ Hst Hp) as (Hok' & -> & Hlt & Hr). split; [exact Hok'|]. split; [exact Hlt|].
    split; [|intros fut F fi _; apply Hr]. exists 0. rewrite consume_0. cbn [rcons_need]. repeat split; lia.
Qed.

Lemma rstuck st s F fi : rst_ok st -> length s < rneed st -> 0 < F -> rref_from F st s fi = ([], end_of fi).
Proof.
  intros Hst Hn HF. destruct st as [|d len|d off]; cbn [RtuProofs.rref_from rneed rst_ok] in *.
  - apply rref_short; assumption.
  - unfold ref_rtu_body. destruct (Nat.ltb_spec 253 (1 + len)); [lia|]. destruct (Nat.ltb_spec (length s) (1 + len + 2)); [reflexivity|lia].
  - destruct (Nat.ltb_spec (length s) (1 + off)); [reflexivity|lia].
Qed.
Lemma rneed_cap st : rst_ok st -> rneed st <= cap.
Proof. destruct st; cbn; unfold cap, buffer_capacity; lia. Qed.

(* ---- instance of the generic reader theorem ---- *)
Local Ltac via_srtu Hwf Hb Hst Ep st b :=
  rewrite (rtu_parse_eq p st b Hwf Hb Hst) in Ep;
  destruct (srtu p st b) as [[st0 b0] r0] eqn:Es; destruct r0; inversion Ep; subst; clear Ep.

Lemma rtu_none st b st' b' : wf b -> bytes (b_pend b) -> rst_ok st -> rtu_parse p st b = (st', b', Ok None) ->
  rst_ok st' /\ buf_len b' < rneed st' /\
  (exists k, b' = consume k b /\ k <= buf_len b /\ rcons_need st <= k + rcons_need st') /\
  (forall fut F fi, length (b_pend b ++ fut) < F -> rref_from F st (b_pend b ++ fut) fi = rref_from F st' (b_pend b' ++ fut) fi).
Proof. intros Hwf Hb Hst Ep. via_srtu Hwf Hb Hst Ep st b. eapply rparse_need; eassumption. Qed.
Lemma rtu_some st b st' b' f : wf b -> bytes (b_pend b) -> rst_ok st -> rtu_parse p st b = (st', b', Ok (Some f)) ->
  st' = Start /\ (exists k, b' = consume k b /\ k <= buf_len b /\ rcons_need st <= k) /\
  (forall fut F fi, length (b_pend b ++ fut) < F -> rref_from F st (b_pend b ++ fut) fi = consf f (rref F r (b_pend b' ++ fut) fi)).
Proof. intros Hwf Hb Hst Ep. via_srtu Hwf Hb Hst Ep st b. eapply rparse_got; eassumption. Qed.
Lemma rtu_err st b st' b' e : wf b -> bytes (b_pend b) -> rst_ok st -> rtu_parse p st b = (st', b', Err e) ->
  (exists k, b' = consume k b /\ k <= buf_len b /\ rcons_need st <= k) /\
  (forall fut F fi, length (b_pend b ++ fut) < F -> rref_from F st (b_pend b ++ fut) fi = ([], EndBad e)).
Proof. intros Hwf Hb Hst Ep. via_srtu Hwf Hb Hst Ep st b. eapply rparse_bad; eassumption. Qed.
Lemma rtu_panic st b st' b' : wf b -> bytes (b_pend b) -> rst_ok st -> rtu_parse p st b <> (st', b', Panic).
Proof. intros Hwf Hb Hst Ep. pose proof (rtu_parse_no_panic p st b Hwf Hb Hst) as H. rewrite Ep in H. now apply H. Qed.

Let H_mk : forall st b, parser_parse (PRtu p st) b = let '(st', b', r) := rtu_parse p st b in (PRtu p st', b', r).
Proof. reflexivity. Qed.

Definition rtu_nf_ref := nf_ref rstate (PRtu p) (rtu_parse p) Start rst_ok rneed rcons_need (fun F s fi => rref F r s fi) rref_from
  bytes bytes_nil bytes_app bytes_firstn bytes_skipn
  H_mk (fun _ => eq_refl) I (fun _ _ _ => eq_refl) ltac:(cbn; lia) rneed_cap rstuck rtu_none rtu_some rtu_err rtu_panic.
Definition rtu_run_ref := run_ref rstate (PRtu p) (rtu_parse p) Start rst_ok rneed rcons_need (fun F s fi => rref F r s fi) rref_from
  bytes bytes_nil bytes_app bytes_firstn bytes_skipn
  H_mk (fun _ => eq_refl) I (fun _ _ _ => eq_refl) ltac:(cbn; lia) rneed_cap rstuck rtu_none rtu_some rtu_err rtu_panic.
Definition rtu_session_ref := session_ref rstate (PRtu p) (rtu_parse p) Start rst_ok rneed rcons_need (fun F s fi => rref F r s fi) rref_from
  bytes bytes_nil bytes_app bytes_firstn bytes_skipn
  H_mk (fun _ => eq_refl) I (fun _ _ _ => eq_refl) ltac:(cbn; lia) rneed_cap rstuck rtu_none rtu_some rtu_err rtu_panic.
Definition rtu_run_total := run_total rstate (PRtu p) (rtu_parse p) Start rst_ok rneed rcons_need (fun F s fi => rref F r s fi) rref_from
  bytes bytes_nil bytes_app bytes_firstn bytes_skipn
  H_mk (fun _ => eq_refl) I (fun _ _ _ => eq_refl) ltac:(cbn; lia) rneed_cap rstuck rtu_none rtu_some rtu_err rtu_panic.
Definition rtu_nf_no_panic := nf_no_panic rstate (PRtu p) (rtu_parse p) Start rst_ok rneed rcons_need (fun F s fi => rref F r s fi) rref_from
  bytes bytes_nil bytes_app bytes_firstn bytes_skipn
  H_mk (fun _ => eq_refl) I (fun _ _ _ => eq_refl) ltac:(cbn; lia) rneed_cap rstuck rtu_none rtu_some rtu_err rtu_panic.
End Role2.

(* ---------------------------------------------------------------- the Spec over s1 ++ s2; stability *)
Section RoleCompose.
Variable p : ptype.
Notation r := (role_of p).

Lemma rref_tail_unfold F s : rref_tail (S F) r s =
  if Nat.ltb (length s) 2 then s
  else let d := nth 0 s 0%N in let t := skipn 1 s in
       match length_rule r (nth 0 t 0%N) with
       | LUnknown => s
       | LFixed n => rtu_body_tail (rref_tail F r) s d (1 + n) t
       | LCount off => if Nat.ltb (length t) (1 + off) then s
                       else rtu_body_tail (rref_tail F r) s d (1 + off + N.to_nat (nth off t 0%N)) t
       end.
Proof. destruct s as [|a [|fcv rest]]; reflexivity. Qed.

Lemma body_tail_len k whole d plen t : (forall t', length (k t') <= length t') -> length t <= length whole ->
  length (rtu_body_tail k whole d plen t) <= length whole.
Proof.
  intros Hk Ht. unfold rtu_body_tail. destruct (Nat.ltb 253 plen); [lia|]. destruct (Nat.ltb _ _); [lia|].
  destruct (N.eqb _ _); [|lia]. etransitivity; [apply Hk|]. rewrite skipn_length. lia.
Qed.
Lemma rref_tail_len : forall F s, length (rref_tail F r s) <= length s.
Proof.
  induction F as [|F IH]; intros s; [cbn; lia|]. rewrite rref_tail_unfold. destruct (Nat.ltb _ 2); [lia|]. cbv zeta.
  assert (Ht : length (skipn 1 s) <= length s) by (rewrite skipn_length; lia).
  destruct (length_rule _ _); [now apply body_tail_len| |lia]. destruct (Nat.ltb _ _); [lia|now apply body_tail_len].
Qed.
Lemma body_tail_ext k1 k2 whole d plen t : (forall t', length t' < length t -> k1 t' = k2 t') ->
  rtu_body_tail k1 whole d plen t = rtu_body_tail k2 whole d plen t.
Proof.
  intros H. unfold rtu_body_tail. destruct (Nat.ltb 253 plen); [reflexivity|].
  destruct (Nat.ltb_spec (length t) (plen + 2)); [reflexivity|]. destruct (N.eqb _ _); [|reflexivity]. apply H. rewrite skipn_length. lia.
Qed.
Lemma rref_tail_fuel : forall f1 f2 s, length s < f1 -> length s < f2 -> rref_tail f1 r s = rref_tail f2 r s.
Proof.
  induction f1 as [|f1 IH]; intros f2 s H1 H2; [lia|]. destruct f2 as [|f2]; [lia|]. rewrite !rref_tail_unfold.
  destruct (Nat.ltb_spec (length s) 2); [reflexivity|]. cbv zeta.
  assert (Hk : forall t', length t' < length (skipn 1 s) -> rref_tail f1 r t' = rref_tail f2 r t').
  { intros t' Ht. rewrite skipn_length in Ht. apply IH; lia. }
  destruct (length_rule _ _); [now apply body_tail_ext| |reflexivity]. destruct (Nat.ltb _ _); [reflexivity|now apply body_tail_ext].
Qed.

Lemma rref_app_fuel : forall F s1 s2 fi, length (s1 ++ s2) < F ->
  rref F r (s1 ++ s2) fi =
  match rref F r s1 FinPending with
  | (fs1, EndPending) => (fs1 ++ fst (rref F r (rref_tail F r s1 ++ s2) fi), snd (rref F r (rref_tail F r s1 ++ s2) fi))
  | x => x
  end.
Proof.
  induction F as [|F IH]; intros s1 s2 fi HF; [lia|]. rewrite (rref_unfold p F s1), rref_tail_unfold.
  assert (Htriv : (let x := rref (S F) r (s1 ++ s2) fi in x = ([] ++ fst x, snd x))) by (cbv zeta; now destruct (rref (S F) r (s1 ++ s2) fi)).
  cbv zeta in Htriv.
  destruct (Nat.ltb_spec (length s1) 2) as [|H2]; [exact Htriv|]. cbv zeta.
  rewrite app_length in HF.
  (* the same first two bytes *)
  assert (Hwhole := rref_unfold p F (s1 ++ s2) fi). rewrite app_length in Hwhole.
  destruct (Nat.ltb_spec (length s1 + length s2) 2); [lia|]. cbv zeta in Hwhole.
  rewrite (app_nth1 s1 s2) in Hwhole by lia. rewrite skipn_app_le in Hwhole by lia.
  assert (Hl1 : 1 <= length (skipn 1 s1)) by (rewrite skipn_length; lia).
  rewrite (app_nth1 (skipn 1 s1) s2) in Hwhole by lia.
  set (d := nth 0 s1 0%N) in *. set (t1 := skipn 1 s1) in *.
  assert (Ht1 : length t1 = length s1 - 1) by (unfold t1; apply skipn_length).
  (* a body of plen bytes *)
  assert (Hbody : forall plen, rref (S F) r (s1 ++ s2) fi = ref_rtu_body (kont p F fi) fi d plen (t1 ++ s2) ->
    rref (S F) r (s1 ++ s2) fi =
    match ref_rtu_body (kont p F FinPending) FinPending d plen t1 with
    | (fs1, EndPending) => (fs1 ++ fst (rref (S F) r (rtu_body_tail (rref_tail F r) s1 d plen t1 ++ s2) fi),
                            snd (rref (S F) r (rtu_body_tail (rref_tail F r) s1 d plen t1 ++ s2) fi))
    | x => x
    end).
  { intros plen Hw. unfold rtu_body_tail. unfold ref_rtu_body at 1.
    destruct (Nat.ltb_spec 253 plen) as [Hbig|Hsm].
    - rewrite Hw. unfold ref_rtu_body. destruct (Nat.ltb_spec 253 plen); [reflexivity|lia].
    - destruct (Nat.ltb_spec (length t1) (plen + 2)) as [|Hge]; [exact Htriv|].
      rewrite Hw at 1. unfold ref_rtu_body at 1. destruct (Nat.ltb_spec 253 plen); [lia|].
      rewrite app_length. destruct (Nat.ltb_spec (length t1 + length s2) (plen + 2)); [lia|].
      rewrite firstn_app_le by lia. rewrite !(app_nth1 t1 s2) by lia.
      destruct (N.eqb _ _); [|reflexivity]. rewrite skipn_app_le by lia. unfold kont.
      rewrite IH by (rewrite app_length, skipn_length; lia).
      pose proof (rref_tail_len F (skipn (plen + 2) t1)) as Htl. rewrite skipn_length in Htl.
      rewrite (rref_fuel p (S F) F (rref_tail F r (skipn (plen + 2) t1) ++ s2)) by (rewrite app_length; lia).
      destruct (rref F r (skipn (plen + 2) t1) FinPending) as [fs1 e1]. destruct e1; reflexivity. }
  destruct (length_rule r (nth 0 t1 0%N)) as [n|off|].
  - apply Hbody. exact Hwhole.
  - destruct (Nat.ltb_spec (length t1) (1 + off)) as [|Hoff]; [exact Htriv|].
    rewrite app_length in Hwhole. destruct (Nat.ltb_spec (length t1 + length s2) (1 + off)); [lia|].
    rewrite (app_nth1 t1 s2) in Hwhole by lia. apply Hbody. exact Hwhole.
  - exact Hwhole.
Qed.

Lemma rtu_ref_app F s1 s2 fi : length (s1 ++ s2) < F ->
  rref F r (s1 ++ s2) fi =
  match rref F r s1 FinPending with
  | (fs1, EndPending) => (fs1 ++ fst (rref F r (rtu_tail r s1 ++ s2) fi), snd (rref F r (rtu_tail r s1 ++ s2) fi))
  | x => x
  end.
Proof.
  intros HF. unfold rtu_tail. rewrite (rref_tail_fuel (S (length s1)) F s1) by (rewrite app_length in HF; lia). now apply rref_app_fuel.
Qed.
Lemma rtu_tail_len s : length (rtu_tail r s) <= length s.
Proof. apply rref_tail_len. Qed.

Lemma rtu_stable st b : wf b -> bytes (b_pend b) -> rst_ok st -> buf_len b < rneed st -> rtu_parse p st b = (st, b, Ok None).
Proof.
  intros Hwf Hb Hst Hlt. rewrite rtu_parse_eq by assumption. destruct st as [|d len|d off]; cbn [srtu rneed rst_ok] in *.
  - destruct (Nat.ltb_spec (buf_len b) 2); [reflexivity|lia].
  - unfold sfull. destruct (Nat.ltb_spec 253 (1 + len)); [lia|]. destruct (Nat.ltb_spec (buf_len b) (1 + len + 2)); [reflexivity|lia].
  - unfold soffset. destruct (Nat.ltb_spec (buf_len b) (1 + off)); [reflexivity|lia].
Qed.
End RoleCompose.

(* ---------------------------------------------------------------- compositionality / cancel-safety: instances *)
Lemma rtu_H_mk p : forall st b, parser_parse (PRtu p st) b = let '(st', b', r) := rtu_parse p st b in (PRtu p st', b', r).
Proof. reflexivity. Qed.
Section Role3.
Variable p : ptype.
Definition rtu_nf_fuel_indep := nf_fuel_indep rstate (PRtu p) (rtu_parse p) Start rst_ok rneed rcons_need (fun F s fi => rref F (role_of p) s fi) (rref_from p)
  bytes bytes_nil bytes_app bytes_firstn bytes_skipn
  (rtu_H_mk p) (fun _ => eq_refl) I (fun _ _ _ => eq_refl) ltac:(cbn; lia) rneed_cap (rstuck p) (rtu_none p) (rtu_some p) (rtu_err p) (rtu_panic p) (rtu_stable p).
Definition rtu_nf_app := nf_app rstate (PRtu p) (rtu_parse p) Start rst_ok rneed rcons_need (fun F s fi => rref F (role_of p) s fi) (rref_from p)
  bytes bytes_nil bytes_app bytes_firstn bytes_skipn
  (rtu_H_mk p) (fun _ => eq_refl) I (fun _ _ _ => eq_refl) ltac:(cbn; lia) rneed_cap (rstuck p) (rtu_none p) (rtu_some p) (rtu_err p) (rtu_panic p) (rtu_stable p).
Definition rtu_nf_cancel_safe := nf_cancel_safe rstate (PRtu p) (rtu_parse p) Start rst_ok rneed rcons_need (fun F s fi => rref F (role_of p) s fi) (rref_from p)
  bytes bytes_nil bytes_app bytes_firstn bytes_skipn
  (rtu_H_mk p) (fun _ => eq_refl) I (fun _ _ _ => eq_refl) ltac:(cbn; lia) rneed_cap (rstuck p) (rtu_none p) (rtu_some p) (rtu_err p) (rtu_panic p) (rtu_stable p).
Definition rtu_run_st_fuel_indep := run_st_fuel_indep rstate (PRtu p) (rtu_parse p) Start rst_ok rneed rcons_need (fun F s fi => rref F (role_of p) s fi) (rref_from p)
  bytes bytes_nil bytes_app bytes_firstn bytes_skipn
  (rtu_H_mk p) (fun _ => eq_refl) I (fun _ _ _ => eq_refl) ltac:(cbn; lia) rneed_cap (rstuck p) (rtu_none p) (rtu_some p) (rtu_err p) (rtu_panic p) (rtu_stable p).
Definition rtu_run_st_app := run_st_app rstate (PRtu p) (rtu_parse p) Start rst_ok rneed rcons_need (fun F s fi => rref F (role_of p) s fi) (rref_from p)
  bytes bytes_nil bytes_app bytes_firstn bytes_skipn
  (rtu_H_mk p) (fun _ => eq_refl) I (fun _ _ _ => eq_refl) ltac:(cbn; lia) rneed_cap (rstuck p) (rtu_none p) (rtu_some p) (rtu_err p) (rtu_panic p) (rtu_stable p).
Definition rtu_run_ref_from := run_ref_from rstate (PRtu p) (rtu_parse p) Start rst_ok rneed rcons_need (fun F s fi => rref F (role_of p) s fi) (rref_from p)
  bytes bytes_nil bytes_app bytes_firstn bytes_skipn
  (rtu_H_mk p) (fun _ => eq_refl) I (fun _ _ _ => eq_refl) ltac:(cbn; lia) rneed_cap (rstuck p) (rtu_none p) (rtu_some p) (rtu_err p) (rtu_panic p) (rtu_stable p).
Definition rtu_run_st_pending := run_st_pending rstate (PRtu p) (rtu_parse p) Start rst_ok rneed rcons_need (fun F s fi => rref F (role_of p) s fi) (rref_from p)
  bytes bytes_nil bytes_app bytes_firstn bytes_skipn
  (rtu_H_mk p) (fun _ => eq_refl) I (fun _ _ _ => eq_refl) ltac:(cbn; lia) rneed_cap (rstuck p) (rtu_none p) (rtu_some p) (rtu_err p) (rtu_panic p) (rtu_stable p).
Definition rtu_waiting := waiting rstate (PRtu p) rst_ok rneed bytes.
Definition rtu_represents := represents rstate (PRtu p) rst_ok (fun F s fi => rref F (role_of p) s fi) (rref_from p) bytes.
Definition rtu_represents_fresh := represents_fresh rstate (PRtu p) (rtu_parse p) Start rst_ok rneed rcons_need (fun F s fi => rref F (role_of p) s fi) (rref_from p)
  bytes bytes_nil bytes_app bytes_firstn bytes_skipn
  (rtu_H_mk p) (fun _ => eq_refl) I (fun _ _ _ => eq_refl) ltac:(cbn; lia) rneed_cap (rstuck p) (rtu_none p) (rtu_some p) (rtu_err p) (rtu_panic p) (rtu_stable p) (rtu_tail (role_of p)) (fun F1 F2 s fi => rref_fuel p F1 F2 s fi) (rtu_ref_app p) (rtu_tail_len p).
Definition rtu_run_represents := run_represents rstate (PRtu p) (rtu_parse p) Start rst_ok rneed rcons_need (fun F s fi => rref F (role_of p) s fi) (rref_from p)
  bytes bytes_nil bytes_app bytes_firstn bytes_skipn
  (rtu_H_mk p) (fun _ => eq_refl) I (fun _ _ _ => eq_refl) ltac:(cbn; lia) rneed_cap (rstuck p) (rtu_none p) (rtu_some p) (rtu_err p) (rtu_panic p) (rtu_stable p) (rtu_tail (role_of p)) (fun F1 F2 s fi => rref_fuel p F1 F2 s fi) (rtu_ref_app p) (rtu_tail_len p).
Definition rtu_represents_step := represents_step rstate (PRtu p) (rtu_parse p) Start rst_ok rneed rcons_need (fun F s fi => rref F (role_of p) s fi) (rref_from p)
  bytes bytes_nil bytes_app bytes_firstn bytes_skipn
  (rtu_H_mk p) (fun _ => eq_refl) I (fun _ _ _ => eq_refl) ltac:(cbn; lia) rneed_cap (rstuck p) (rtu_none p) (rtu_some p) (rtu_err p) (rtu_panic p) (rtu_stable p) (rtu_tail (role_of p)) (fun F1 F2 s fi => rref_fuel p F1 F2 s fi) (rtu_ref_app p) (rtu_tail_len p).
Definition rtu_run_cancel_eq := run_cancel_eq rstate (PRtu p) (rtu_parse p) Start rst_ok rneed rcons_need (fun F s fi => rref F (role_of p) s fi) (rref_from p)
  bytes bytes_nil bytes_app bytes_firstn bytes_skipn
  (rtu_H_mk p) (fun _ => eq_refl) I (fun _ _ _ => eq_refl) ltac:(cbn; lia) rneed_cap (rstuck p) (rtu_none p) (rtu_some p) (rtu_err p) (rtu_panic p) (rtu_stable p).
End Role3.

(* ---------------------------------------------------------------- after a framing error: what is left (RTU server across port re-opens) *)
Section RoleAfter.
Variable p : ptype.
Notation r := (role_of p).

Definition rafter_from (F : nat) (st : rstate) (s : list N) : list N :=
  match st with
  | Start => rref_after F r s
  | ReadToOffsetForLength d off =>
      if Nat.ltb (length s) (1 + off) then []
      else rtu_body_after (rref_after F r) d (1 + off + N.to_nat (nth off s 0%N)) s
  | ReadFullBody d len => rtu_body_after (rref_after F r) d (1 + len) s
  end.

Lemma rref_after_unfold F s : rref_after (S F) r s =
  if Nat.ltb (length s) 2 then []
  else let d := nth 0 s 0%N in let t := skipn 1 s in
       match length_rule r (nth 0 t 0%N) with
       | LUnknown => t
       | LFixed n => rtu_body_after (rref_after F r) d (1 + n) t
       | LCount off => if Nat.ltb (length t) (1 + off) then []
                       else rtu_body_after (rref_after F r) d (1 + off + N.to_nat (nth off t 0%N)) t
       end.
Proof. destruct s as [|a [|fcv rest]]; reflexivity. Qed.

Lemma body_after_ext k1 k2 d plen t : (forall t', length t' < length t -> k1 t' = k2 t') ->
  rtu_body_after k1 d plen t = rtu_body_after k2 d plen t.
Proof.
  intros H. unfold rtu_body_after. destruct (Nat.ltb 253 plen); [reflexivity|].
  destruct (Nat.ltb_spec (length t) (plen + 2)); [reflexivity|]. destruct (N.eqb _ _); [|reflexivity]. apply H. rewrite skipn_length. lia.
Qed.
Lemma rref_after_fuel : forall f1 f2 s, length s < f1 -> length s < f2 -> rref_after f1 r s = rref_after f2 r s.
Proof.
  induction f1 as [|f1 IH]; intros f2 s H1 H2; [lia|]. destruct f2 as [|f2]; [lia|]. rewrite !rref_after_unfold.
  destruct (Nat.ltb_spec (length s) 2); [reflexivity|]. cbv zeta.
  assert (Hk : forall t', length t' < length (skipn 1 s) -> rref_after f1 r t' = rref_after f2 r t').
  { intros t' Ht. rewrite skipn_length in Ht. apply IH; lia. }
  destruct (length_rule _ _); [now apply body_after_ext| |reflexivity]. destruct (Nat.ltb _ _); [reflexivity|now apply body_after_ext].
Qed.
Lemma rref_after_step F s : length s < F -> 2 <= length s ->
  rref_after F r s =
  match length_rule r (nth 0 (skipn 1 s) 0%N) with
  | LUnknown => skipn 1 s
  | LFixed n => rafter_from F (ReadFullBody (nth 0 s 0%N) n) (skipn 1 s)
  | LCount off => rafter_from F (ReadToOffsetForLength (nth 0 s 0%N) off) (skipn 1 s)
  end.
Proof.
  intros HF H2. destruct F as [|F]; [lia|]. rewrite rref_after_unfold. destruct (Nat.ltb_spec (length s) 2); [lia|]. cbv zeta.
  assert (Hk : forall t', length t' < length (skipn 1 s) -> rref_after F r t' = rref_after (S F) r t').
  { intros t' Ht. rewrite skipn_length in Ht. apply rref_after_fuel; lia. }
  cbn [rafter_from]. destruct (length_rule _ _); [now apply body_after_ext| |reflexivity].
  destruct (Nat.ltb _ _); [reflexivity|now apply body_after_ext].
Qed.

(* the remainder is shorter than the stream whenever the Spec reports a framing error *)
Lemma body_after_len k fi d plen t fs e kf :
  (forall t' fs' e', length t' < length t -> kf t' = (fs', EndBad e') -> length (k t') < length t') ->
  ref_rtu_body kf fi d plen t = (fs, EndBad e) -> length (rtu_body_after k d plen t) <= length t.
Proof.
  intros Hk. unfold ref_rtu_body, rtu_body_after. destruct (Nat.ltb 253 plen); [intros _; lia|].
  destruct (Nat.ltb_spec (length t) (plen + 2)); [destruct fi; discriminate|]. destruct (N.eqb _ _).
  - destruct (kf (skipn (plen + 2) t)) as [fs' e'] eqn:Ek. intros Hq; inversion Hq; subst.
    specialize (Hk (skipn (plen + 2) t) fs' e ltac:(rewrite skipn_length; lia) Ek). rewrite skipn_length in *. lia.
  - intros _. rewrite skipn_length. lia.
Qed.
Lemma rref_after_len : forall F s fi fs e, length s < F -> rref F r s fi = (fs, EndBad e) -> length (rref_after F r s) < length s.
Proof.
  induction F as [|F IH]; intros s fi fs e HF; [lia|]. rewrite (rref_unfold p), rref_after_unfold.
  destruct (Nat.ltb_spec (length s) 2) as [|H2]; [destruct fi; discriminate|]. cbv zeta.
  assert (Ht : length (skipn 1 s) = length s - 1) by apply skipn_length.
  assert (Hk : forall t' fs' e', length t' < length (skipn 1 s) -> kont p F fi t' = (fs', EndBad e') -> length (rref_after F r t') < length t').
  { intros t' fs' e' Hl Hr. apply (IH t' fi fs' e'); [lia|exact Hr]. }
  destruct (length_rule _ _).
  - intros H. pose proof (body_after_len _ _ _ _ _ _ _ _ Hk H). lia.
  - destruct (Nat.ltb _ _); [destruct fi; discriminate|]. intros H. pose proof (body_after_len _ _ _ _ _ _ _ _ Hk H). lia.
  - intros _. lia.
Qed.

(* ---- sub-parsers ---- *)
Lemma after_body_at k d len b fut : 1 + len <= 253 -> 1 + len + 2 <= buf_len b ->
  rtu_body_after k d (1 + len) (b_pend b ++ fut) =
  if N.eqb (nth (1 + len + 1) (b_pend b) 0 * 256 + nth (1 + len) (b_pend b) 0)%N (crc (d :: firstn (1 + len) (b_pend b)))
  then k (b_pend (consume (1 + len + 2) b) ++ fut) else b_pend (consume (1 + len + 2) b) ++ fut.
Proof.
  intros Hle Hge. unfold rtu_body_after, buf_len in *. destruct (Nat.ltb_spec 253 (1 + len)); [lia|].
  rewrite app_length. destruct (Nat.ltb_spec (length (b_pend b) + length fut) (1 + len + 2)); [lia|].
  rewrite firstn_app_le by lia. rewrite !app_nth1 by lia.
  replace (nth (1 + len) (b_pend b) 0 + 256 * nth (1 + len + 1) (b_pend b) 0)%N
    with (nth (1 + len + 1) (b_pend b) 0 * 256 + nth (1 + len) (b_pend b) 0)%N by lia.
  rewrite skipn_app_le by lia. reflexivity.
Qed.

Lemma sfull_after d len b st' b' res fut F : sfull d len b = (st', b', res) ->
  rafter_from F (ReadFullBody d len) (b_pend b ++ fut) =
  match res with
  | SGot _ => rref_after F r (b_pend b' ++ fut)
  | SBad _ => b_pend b' ++ fut
  | SNeed => rafter_from F st' (b_pend b' ++ fut)
  end.
Proof.
  unfold sfull. cbn [rafter_from]. destruct (Nat.ltb_spec 253 (1 + len)) as [Hbig|].
  - intros Hq; inversion Hq; subst. unfold rtu_body_after. destruct (Nat.ltb_spec 253 (1 + len)); [reflexivity|lia].
  - destruct (Nat.ltb_spec (buf_len b) (1 + len + 2)); [intros Hq; inversion Hq; subst; reflexivity|].
    rewrite after_body_at by lia. destruct (N.eqb _ _); intros Hq; inversion Hq; subst; reflexivity.
Qed.

Lemma after_offset_to_full d off b fut F : 1 + off <= buf_len b ->
  rafter_from F (ReadToOffsetForLength d off) (b_pend b ++ fut) =
  rafter_from F (ReadFullBody d (off + N.to_nat (nth off (b_pend b) 0%N))) (b_pend b ++ fut).
Proof.
  intros H. unfold buf_len in H. cbn [rafter_from]. rewrite app_length.
  destruct (Nat.ltb_spec (length (b_pend b) + length fut) (1 + off)); [lia|].
  rewrite app_nth1 by lia. now rewrite Nat.add_assoc.
Qed.
Lemma soffset_after d off b st' b' res fut F : soffset d off b = (st', b', res) ->
  rafter_from F (ReadToOffsetForLength d off) (b_pend b ++ fut) =
  match res with
  | SGot _ => rref_after F r (b_pend b' ++ fut)
  | SBad _ => b_pend b' ++ fut
  | SNeed => rafter_from F st' (b_pend b' ++ fut)
  end.
Proof.
  unfold soffset. destruct (Nat.ltb_spec (buf_len b) (1 + off)); [intros Hq; inversion Hq; subst; reflexivity|].
  intros Hq. rewrite after_offset_to_full by assumption. exact (sfull_after _ _ _ _ _ _ fut F Hq).
Qed.

Lemma start_step_after b fut F : bytes (b_pend b) -> 2 <= buf_len b -> length (b_pend b ++ fut) < F ->
  rref_after F r (b_pend b ++ fut) =
  match length_mode p (nth 0 (b_pend (consume 1 b)) 0%N) with
  | Unknown => b_pend (consume 1 b) ++ fut
  | Fixed l => rafter_from F (ReadFullBody (nth 0 (b_pend b) 0%N) l) (b_pend (consume 1 b) ++ fut)
  | Offset o => rafter_from F (ReadToOffsetForLength (nth 0 (b_pend b) 0%N) o) (b_pend (consume 1 b) ++ fut)
  end.
Proof.
  intros Hb H2 HF. unfold buf_len in H2. rewrite (rref_after_step F _ HF) by (rewrite app_length; lia).
  rewrite skipn_app_le by lia. cbn [consume b_pend].
  assert (Hl1 : 1 <= length (skipn 1 (b_pend b))) by (rewrite skipn_length; lia).
  rewrite (app_nth1 (skipn 1 (b_pend b)) fut) by lia. rewrite (app_nth1 (b_pend b) fut) by lia.
  assert (Hfc : (nth 0 (skipn 1 (b_pend b)) 0 < 256)%N) by (apply bytes_nth, bytes_skipn, Hb).
  rewrite <- (length_mode_spec p _ Hfc). destruct (length_mode p _); reflexivity.
Qed.

Lemma srtu_after st b st' b' res fut F : bytes (b_pend b) -> length (b_pend b ++ fut) < F -> srtu p st b = (st', b', res) ->
  rafter_from F st (b_pend b ++ fut) =
  match res with
  | SGot _ => rref_after F r (b_pend b' ++ fut)
  | SBad _ => b_pend b' ++ fut
  | SNeed => rafter_from F st' (b_pend b' ++ fut)
  end.
Proof.
  intros Hb HF. destruct st as [|d len|d off]; cbn [srtu].
  - destruct (Nat.ltb_spec (buf_len b) 2) as [|H2]; [intros Hq; inversion Hq; subst; reflexivity|].
    change (rafter_from F Start (b_pend b ++ fut)) with (rref_after F r (b_pend b ++ fut)).
    rewrite (start_step_after b fut F Hb H2 HF).
    destruct (length_mode p (nth 0 (b_pend (consume 1 b)) 0%N)) as [l|o|].
    + apply sfull_after.
    + apply soffset_after.
    + intros Hq; inversion Hq; subst. reflexivity.
  - apply sfull_after.
  - apply soffset_after.
Qed.

(* ---- the model ---- *)
Lemma rtu_after_any st b st' b' res : wf b -> bytes (b_pend b) -> rst_ok st -> rtu_parse p st b = (st', b', res) ->
  forall fut F, length (b_pend b ++ fut) < F ->
  rafter_from F st (b_pend b ++ fut) =
  match res with
  | Ok (Some _) => rref_after F r (b_pend b' ++ fut)
  | Err _ => b_pend b' ++ fut
  | Ok None => rafter_from F st' (b_pend b' ++ fut)
  | Panic => []
  end.
Proof.
  intros Hwf Hb Hst Ep fut F HF. rewrite (rtu_parse_eq p st b Hwf Hb Hst) in Ep.
  destruct (srtu p st b) as [[st0 b0] r0] eqn:Es. inversion Ep; subst; clear Ep.
  rewrite (srtu_after st b st' b' r0 fut F Hb HF Es). destruct r0; reflexivity.
Qed.
End RoleAfter.

Section Role4.
Variable p : ptype.
Lemma rtu_HA_none st b st' b' : wf b -> bytes (b_pend b) -> rst_ok st -> rtu_parse p st b = (st', b', Ok None) ->
  forall fut F, length (b_pend b ++ fut) < F -> rafter_from p F st (b_pend b ++ fut) = rafter_from p F st' (b_pend b' ++ fut).
Proof. intros Hwf Hb Hst Ep fut F HF. exact (rtu_after_any p st b st' b' _ Hwf Hb Hst Ep fut F HF). Qed.
Lemma rtu_HA_some st b st' b' f : wf b -> bytes (b_pend b) -> rst_ok st -> rtu_parse p st b = (st', b', Ok (Some f)) ->
  forall fut F, length (b_pend b ++ fut) < F -> rafter_from p F st (b_pend b ++ fut) = rref_after F (role_of p) (b_pend b' ++ fut).
Proof. intros Hwf Hb Hst Ep fut F HF. exact (rtu_after_any p st b st' b' _ Hwf Hb Hst Ep fut F HF). Qed.
Lemma rtu_HA_err st b st' b' e : wf b -> bytes (b_pend b) -> rst_ok st -> rtu_parse p st b = (st', b', Err e) ->
  forall fut F, length (b_pend b ++ fut) < F -> rafter_from p F st (b_pend b ++ fut) = b_pend b' ++ fut.
Proof. intros Hwf Hb Hst Ep fut F HF. exact (rtu_after_any p st b st' b' _ Hwf Hb Hst Ep fut F HF). Qed.

Definition rtu_run_resume_ref := run_resume_ref rstate (PRtu p) (rtu_parse p) Start rst_ok rneed rcons_need (fun F s fi => rref F (role_of p) s fi) (rref_from p)
  bytes bytes_nil bytes_app bytes_firstn bytes_skipn
  (rtu_H_mk p) (fun _ => eq_refl) I (fun _ _ _ => eq_refl) ltac:(cbn; lia) rneed_cap (rstuck p) (rtu_none p) (rtu_some p) (rtu_err p) (rtu_panic p) (rtu_stable p) (rtu_tail (role_of p)) (fun F1 F2 s fi => rref_fuel p F1 F2 s fi) (rtu_ref_app p) (rtu_tail_len p)
  (fun F s => rref_after F (role_of p) s) (rafter_from p) (fun _ _ => eq_refl) rtu_HA_none rtu_HA_some rtu_HA_err
  (fun F s fi fs e => rref_after_len p F s fi fs e).
Definition rtu_gres_fuel := gres_fuel rstate (PRtu p) (rtu_parse p) Start rst_ok rneed rcons_need (fun F s fi => rref F (role_of p) s fi) (rref_from p)
  bytes bytes_nil bytes_app bytes_firstn bytes_skipn
  (rtu_H_mk p) (fun _ => eq_refl) I (fun _ _ _ => eq_refl) ltac:(cbn; lia) rneed_cap (rstuck p) (rtu_none p) (rtu_some p) (rtu_err p) (rtu_panic p) (rtu_stable p) (rtu_tail (role_of p)) (fun F1 F2 s fi => rref_fuel p F1 F2 s fi) (rtu_ref_app p) (rtu_tail_len p)
  (fun F s => rref_after F (role_of p) s) (rafter_from p) (fun _ _ => eq_refl) rtu_HA_none rtu_HA_some rtu_HA_err
  (fun F s fi fs e => rref_after_len p F s fi fs e).
End Role4.
