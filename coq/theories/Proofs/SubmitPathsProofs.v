(* Model/SubmitPaths.v against Spec/SubmitSpec.v; the C-ABI path from the C18 lemmas. *)
From Coq Require Import NArith List String Bool Lia.
From Rodbus Require Import Gen.FfiTables Gen.SubmitPaths Model.Ffi Model.SubmitPaths Spec.SubmitSpec Proofs.FfiProofs.
Import ListNotations.
Local Open Scope string_scope.

Definition expected (m : string) (env : sub_env) : result :=
  submit_spec result (RErr RRE_BadRequest) (RErr RRE_Shutdown) (valid env || negb (validated m)) (reaches_task env) (first_completion (stask env)).

Theorem callback_once : forall m, In m request_methods -> forall env, cb_call m env = [Done (expected m env)].
Proof.
  intros m Hm [v s t]. unfold expected, submit_spec.
  repeat (destruct Hm as [<-|Hm]; [destruct v, s; reflexivity|]). destruct Hm.
Qed.

Theorem future_once : forall m, In m request_methods -> forall env, fut_call m env = Some (expected m env).
Proof.
  intros m Hm [v s t]. unfold expected, submit_spec.
  repeat (destruct Hm as [<-|Hm]; [destruct v, s; reflexivity|]). destruct Hm.
Qed.

Theorem methods_complete :
  map fst callback_methods = request_methods /\ map fst future_methods = request_methods /\ map fst client_calls = request_methods.
Proof. repeat split; reflexivity. Qed.

Theorem task_exits : exits_only_on_shutdown tcp_run_inner_exits = true /\ tcp_run_inner_exits <> [].
Proof. split; [reflexivity|discriminate]. Qed.

(* C ABI: at most one callback; exactly one when the call returned Ok; none only with an error code *)
Theorem ffi_completion : forall rq, In rq client_calls -> forall ft, In ft future_types -> forall env,
  null_args env = [] ->
  (failing_validation env = None \/ exists w, failing_validation env = Some w /\ In (Validate w) (snd rq)) ->
  c_abi_completion_ok (match fst (ffi_call ft rq env) with FPE_Ok => true | _ => false end) (List.length (snd (ffi_call ft rq env))).
Proof.
  intros rq Hrq ft Hft env Hnull [Hnone|[w [Hw Hin]]].
  - destruct (once_exactly rq Hrq ft (future_types_ok ft Hft) env (conj Hnull Hnone)) as [ev [Hev _]].
    rewrite Hev. unfold c_abi_completion_ok. cbn [List.length]. split; [lia|split; [reflexivity|intro H; discriminate H]].
  - destruct (param_error_no_callback rq Hrq ft env) as [_ H]. destruct (H Hnull w Hw Hin) as [Hc Hne].
    rewrite Hc. unfold c_abi_completion_ok. cbn [fst snd List.length]. split; [lia|split].
    + destruct (validation_error w); [contradiction|intro H0; discriminate H0..].
    + intros _. destruct (validation_error w); [contradiction|reflexivity..].
Qed.
