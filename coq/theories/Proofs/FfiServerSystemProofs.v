(* End-to-end statements for the C-ABI server, as COROLLARIES of the server-core theorems
   (Properties/C01.v, C17.v, C01_System.v) instantiated with the C-ABI RequestHandlerWrapper
   (Model/FfiServer.v `ffi_handler W`, for an ARBITRARY application W : c_write_handler A):

     - a client read is answered from the point database: exception 02 iff it touches an absent
       point, otherwise the values held (C19 on the wire);
     - a client write is answered with what the application's C callback returned - success,
       standard exception, raw exception code; exception 01 when the callback is not set - and the
       unit's database / application state become what the callback left (C18 on the wire);
   per frame, per connection (frame sequences), and for the server as a whole (byte streams in
   arbitrary read chunks). *)
From Coq Require Import NArith List String Bool Arith Lia ZArith ZifyBool ZifyNat ZifyN.
From Rodbus Require Import Base.Outcome Base.ServerTypes Model.Server Spec.Modbus
  Proofs.ServerParse Proofs.ServerProofs Proofs.ServerProps.
From Rodbus Require Import Gen.FfiTables Model.Ffi Spec.FfiSpec Proofs.FfiProofs Model.DbTypes Spec.MapSpec.
From Rodbus Require Model.Database Proofs.DatabaseProofs Model.FfiServer.
From Rodbus Require Properties.C01 Properties.C17 Properties.C01_System.
From Rodbus Require Base.Frame Spec.Framing Model.SystemServer Spec.SystemSpec Proofs.SystemProofs.
From Rodbus Require Import Spec.FfiServerSpec Model.FfiServerDefs.
Import ListNotations.
Local Open Scope N_scope.
Arguments N.add : simpl never. Arguments N.sub : simpl never. Arguments N.mul : simpl never.
Arguments N.eqb : simpl never. Arguments N.ltb : simpl never. Arguments N.leb : simpl never.
Arguments N.div : simpl never. Arguments N.modulo : simpl never. Arguments N.of_nat : simpl never.
Arguments N.to_nat : simpl never. Arguments N.lor : simpl never.

Notation abs := DatabaseProofs.abs.
Notation ffi_handler := FfiServer.ffi_handler.

(* ================================================================ generic facts *)
Lemma sset_eq {St} (g : N -> St) h st : sset g h st h = st.
Proof. unfold sset. now rewrite N.eqb_refl. Qed.
Lemma sset_neq {St} (g : N -> St) h st k : k <> h -> sset g h st k = g k.
Proof. intros Hk. unfold sset. destruct (N.eqb_spec k h); [contradiction|reflexivity]. Qed.
Lemma sset_id {St} (g : N -> St) h st k : g h = st -> sset g h st k = g k.
Proof. intros E. unfold sset. destruct (N.eqb_spec k h) as [->|]; [now symmetry|reflexivity]. Qed.

Lemma flat_map_map {X Y Z} (f : Y -> list Z) (g : X -> Y) l : flat_map f (map g l) = flat_map (fun x => f (g x)) l.
Proof. induction l as [|x l IH]; [reflexivity|]. cbn [map flat_map]. now rewrite IH. Qed.
Lemma map_snd_diag (ids : list N) : map snd (map (fun u : N => (u, u)) ids) = ids.
Proof. induction ids as [|x l IH]; [reflexivity|]. cbn [map snd]. now rewrite IH. Qed.

(* the read loop of the reference server is the read loop of the database model *)
Lemma read_seq_read_range {T} (get : N -> T + N) mk n : forall s,
  fst (read_seq get mk s n) = Database.read_range get s n.
Proof.
  induction n as [|n IH]; intros s; cbn [read_seq Database.read_range fst]; [reflexivity|].
  destruct (get s) as [v|e]; [|reflexivity]. rewrite <- IH.
  destruct (read_seq get mk (s + 1) n) as [[vs|e] lg]; reflexivity.
Qed.

Lemma bit_payload_map xs : bit_payload (map VBit xs) = xs.
Proof. unfold bit_payload. induction xs as [|x xs IH]; [reflexivity|]. cbn [map flat_map app]. now rewrite IH. Qed.
Lemma reg_payload_map xs : reg_payload (map VReg xs) = xs.
Proof. unfold reg_payload. induction xs as [|x xs IH]; [reflexivity|]. cbn [map flat_map app]. now rewrite IH. Qed.

Lemma bits_response_read_pdu fc t (d : database) get mk s n :
  (t = Coil \/ t = Discrete) ->
  Database.reply_map VBit (Database.read_range get s (N.to_nat n)) = spec_read (abs d t) s (N.to_nat n) ->
  fst (bits_response fc (read_seq get mk s (N.to_nat n))) = read_pdu fc t (abs d t) s n.
Proof.
  intros Ht E. unfold read_pdu. rewrite <- E, <- (read_seq_read_range get mk).
  destruct (read_seq get mk s (N.to_nat n)) as [[vs|e] lg]; cbn [fst bits_response Database.reply_map]; [|reflexivity].
  destruct Ht as [-> | ->]; cbn [values_pdu]; now rewrite bit_payload_map.
Qed.

Lemma regs_response_read_pdu fc t (d : database) get mk s n :
  (t = Holding \/ t = Input) ->
  Database.reply_map VReg (Database.read_range get s (N.to_nat n)) = spec_read (abs d t) s (N.to_nat n) ->
  fst (regs_response fc (read_seq get mk s (N.to_nat n))) = read_pdu fc t (abs d t) s n.
Proof.
  intros Ht E. unfold read_pdu. rewrite <- E, <- (read_seq_read_range get mk).
  destruct (read_seq get mk s (N.to_nat n)) as [[vs|e] lg]; cbn [fst regs_response Database.reply_map]; [|reflexivity].
  destruct Ht as [-> | ->]; cbn [values_pdu]; now rewrite reg_payload_map.
Qed.

(* a read request carries one of the function codes 1-4 *)
Lemma decode_read_fc pdu fc r t s n : decode pdu = Valid fc r -> read_target r = Some (t, s, n) ->
  fc = 1 \/ fc = 2 \/ fc = 3 \/ fc = 4.
Proof.
  destruct pdu as [|f body]; [discriminate|]. cbn [decode].
  destruct (f =? 1) eqn:E1; [apply N.eqb_eq in E1|]; cbn [orb].
  2: destruct (f =? 2) eqn:E2; [apply N.eqb_eq in E2|]; cbn [orb].
  3: destruct (f =? 3) eqn:E3; [apply N.eqb_eq in E3|]; cbn [orb].
  4: destruct (f =? 4) eqn:E4; [apply N.eqb_eq in E4|]; cbn [orb].
  1-4: destruct body as [|? [|? [|? [|? [|? ?]]]]]; try discriminate;
       destruct (range_ok _ _ _); try discriminate; intros [= <- _] _; lia.
  destruct (f =? 5).
  { destruct body as [|? [|? [|? [|? [|? ?]]]]]; try discriminate.
    destruct (_ =? 65280); [intros [= _ <-]; discriminate|]. destruct (_ =? 0); [intros [= _ <-]; discriminate|discriminate]. }
  destruct (f =? 6).
  { destruct body as [|? [|? [|? [|? [|? ?]]]]]; try discriminate. intros [= _ <-]; discriminate. }
  destruct (f =? 15).
  { destruct body as [|? [|? [|? [|? [|? ?]]]]]; try discriminate. destruct (_ && _); [intros [= _ <-]; discriminate|discriminate]. }
  destruct (f =? 16).
  { destruct body as [|? [|? [|? [|? [|? ?]]]]]; try discriminate. destruct (_ && _); [intros [= _ <-]; discriminate|discriminate]. }
  discriminate.
Qed.

(* the ADU determines the PDU *)
Lemma adu_inj l tx u p q : adu l tx u p = adu l tx u q -> p = q.
Proof.
  destruct l; unfold adu.
  - unfold be. cbn [app]. intros E. now injection E.
  - cbv zeta. intros E.
    change (?x ++ [?a; ?b]) with (x ++ [a] ++ [b]) in E. rewrite !app_assoc in E.
    apply app_inj_tail in E as [E _]. apply app_inj_tail in E as [E _]. now injection E.
Qed.

(* ---------------------------------------------------------------- facts about the Spec's read_pdu *)
Lemma values_pdu_head fc t vs : exists rest, values_pdu fc t vs = fc :: rest.
Proof. destruct t; cbn [values_pdu]; eexists; reflexivity. Qed.

Lemma read_pdu_exception_iff fc t f s n e : (fc = 1 \/ fc = 2 \/ fc = 3 \/ fc = 4) ->
  read_pdu fc t f s n = exception_pdu fc e <->
  e = 2 /\ exists k, (k < N.to_nat n)%nat /\ f (s + N.of_nat k) = None.
Proof.
  intros Hfc. rewrite <- DatabaseProofs.spec_read_exception. unfold read_pdu.
  destruct (spec_read f s (N.to_nat n)) as [vs|e'].
  - split; [|discriminate]. destruct (values_pdu_head fc t vs) as [rest ->]. unfold exception_pdu. intros [= E _]. exfalso.
    destruct Hfc as [-> | [-> | [-> | ->]]]; discriminate.
  - unfold exception_pdu. split; [now intros [= ->]|now intros [= ->]].
Qed.

Lemma read_pdu_values fc t f s n vs :
  map Some vs = map (fun k => f (s + N.of_nat k)) (seq 0 (N.to_nat n)) -> read_pdu fc t f s n = values_pdu fc t vs.
Proof. intros E. apply DatabaseProofs.spec_read_values in E. unfold read_pdu. now rewrite E. Qed.

(* ---------------------------------------------------------------- writes: the generated wrapper table *)
Definition write_methods : list string :=
  ["write_single_coil"; "write_single_register"; "write_multiple_coils"; "write_multiple_registers"]%string.

(* each RequestHandlerWrapper write method is a member of the generated table write_wrappers *)
Lemma wrapper_of_known m : In m write_methods -> exists w, FfiServer.wrapper_of m = Some w /\ In w write_wrappers.
Proof.
  intros Hm. destruct (FfiServer.wrapper_of m) as [w|] eqn:E.
  - exists w. split; [reflexivity|]. unfold FfiServer.wrapper_of in E. now apply find_some in E.
  - exfalso. cbn [write_methods In] in Hm. destruct Hm as [<-|[<-|[<-|[<-|[]]]]]; vm_compute in E; discriminate.
Qed.

(* a valid write executed by the reference server: one handler call, echo or exception *)
Lemma ref_exec_write {St} (H : handler St) fc u st r : is_write r = true ->
  ref_exec H fc u st r =
    (fst (apply_write H st r), write_response fc (snd (apply_write H st r)) (write_echo r), write_call u r).
Proof.
  destruct r; try discriminate; intros _; cbn [ref_exec write_echo]; destruct (apply_write H st _); reflexivity.
Qed.

(* the reference server on a valid, permitted request to a served unit *)
Lemma ref_frame_served {St} (H : handler St) l a (units : ucfg St) fr u h st fc r :
  f_dest fr = DUnit u -> lookup u (u_map units) = Some h -> u_store units h = st ->
  decode (f_pdu fr) = Valid fc r -> fst (authorize a u r) = true ->
  reply_of (ref_handle_frame H l a units fr) = adu l (f_tx fr) u (snd (fst (ref_exec H fc h st r))) /\
  units_of (ref_handle_frame H l a units fr) = with_store units (sset (u_store units) h (fst (fst (ref_exec H fc h st r)))).
Proof.
  intros Hd Hl <- Hdec Hau. unfold ref_handle_frame. rewrite Hdec, Hd. cbn [dest_value].
  destruct (authorize a u r) as [ok alog]. cbn [fst] in Hau. subst ok. cbn [negb]. rewrite Hl.
  destruct (ref_exec H fc h (u_store units h) r) as [[st' pdu] lg]. split; reflexivity.
Qed.

(* ================================================================ connections: any handler *)
Lemma Forall_firstn {T} (P : T -> Prop) k : forall l, Forall P l -> Forall P (firstn k l).
Proof. induction k as [|k IH]; intros [|x l] Hl; cbn [firstn]; auto. inversion Hl; subst. constructor; auto. Qed.

Section Sessions.
Context {St : Type}.
Variable H : handler St.

(* C01_tcp and C01_rtu as one statement *)
Lemma session_eq l a frames (units : ucfg St) : Forall (frame_ok l) frames ->
  session H l a units frames =
    (let '(replies, units', log) := ref_session H l a units frames in (replies, units', log, SOpen)).
Proof. destruct l; [apply C01.C01_tcp | apply C01.C01_rtu]. Qed.

(* the k-th reply of the reference session is the reference reply to the k-th frame on the unit
   map left by the first k frames *)
Lemma ref_session_nth l a : forall frames (units : ucfg St) k fr, nth_error frames k = Some fr ->
  nth_error (reply_of (ref_session H l a units frames)) k =
    Some (reply_of (ref_handle_frame H l a (units_of (ref_session H l a units (firstn k frames))) fr)).
Proof.
  induction frames as [|f frames IH]; intros units [|k] fr; cbn [nth_error firstn ref_session]; try discriminate.
  - intros [= ->]. change (units_of (@nil (list N), units, @nil event)) with units.
    destruct (ref_handle_frame H l a units fr) as [[reply units'] lg].
    destruct (ref_session H l a units' frames) as [[rs u''] lg']. reflexivity.
  - intros E. destruct (ref_handle_frame H l a units f) as [[reply units'] lg]. specialize (IH units' k fr E).
    destruct (ref_session H l a units' frames) as [[rs u''] lg'].
    destruct (ref_session H l a units' (firstn k frames)) as [[rs1 u1] lg1]. exact IH.
Qed.

Lemma ref_session_step l a : forall frames (units : ucfg St) k fr, nth_error frames k = Some fr ->
  units_of (ref_session H l a units (firstn (S k) frames)) =
    units_of (ref_handle_frame H l a (units_of (ref_session H l a units (firstn k frames))) fr).
Proof.
  induction frames as [|f frames IH]; intros units [|k] fr; try discriminate.
  - cbn [nth_error]. intros [= ->]. cbn [firstn ref_session].
    change (units_of (@nil (list N), units, @nil event)) with units.
    destruct (ref_handle_frame H l a units fr) as [[reply units'] lg]. reflexivity.
  - cbn [nth_error]. intros E.
    change (firstn (S (S k)) (f :: frames)) with (f :: firstn (S k) frames).
    change (firstn (S k) (f :: frames)) with (f :: firstn k frames). cbn [ref_session].
    destruct (ref_handle_frame H l a units f) as [[reply units'] lg]. specialize (IH units' k fr E).
    destruct (ref_session H l a units' (firstn (S k) frames)) as [[rs2 u2] lg2].
    destruct (ref_session H l a units' (firstn k frames)) as [[rs1 u1] lg1]. exact IH.
Qed.

Lemma units_before_ref l a frames (units : ucfg St) k : Forall (frame_ok l) frames ->
  units_before H l a units frames k = units_of (ref_session H l a units (firstn k frames)).
Proof.
  intros Hok. unfold units_before. rewrite (session_eq l a _ units (Forall_firstn _ k _ Hok)).
  destruct (ref_session H l a units (firstn k frames)) as [[rs u1] lg]. reflexivity.
Qed.

Lemma units_before_0 l a frames (units : ucfg St) : units_before H l a units frames 0 = units.
Proof. reflexivity. Qed.

(* the code model of a connection, frame by frame: the k-th entry of the replies written is the
   code's reply to the k-th frame on the unit map the first k frames left, which the k-th frame
   takes to the next one *)
Theorem session_nth : forall l a frames (units : ucfg St) k fr,
  Forall (frame_ok l) frames -> nth_error frames k = Some fr ->
  exists reply,
    reply_of (handle_frame H l a (units_before H l a units frames k) fr) = Ok reply /\
    nth_error (replies_of (session H l a units frames)) k = Some reply /\
    units_before H l a units frames (S k) = units_of (handle_frame H l a (units_before H l a units frames k) fr).
Proof.
  intros l a frames units k fr Hok Hk.
  assert (Hfr : frame_ok l fr) by (rewrite Forall_forall in Hok; apply Hok; eapply nth_error_In; eassumption).
  rewrite !units_before_ref by assumption.
  rewrite (C01.C01_frame _ H l a _ fr Hfr), lift3_reply, lift3_units.
  eexists. split; [reflexivity|]. split.
  - rewrite (session_eq l a frames units Hok). pose proof (ref_session_nth l a frames units k fr Hk) as E.
    destruct (ref_session H l a units frames) as [[rs u1] lg]. exact E.
  - now apply ref_session_step.
Qed.
End Sessions.
Print Assumptions session_nth.

(* ================================================================ byte streams: any handler *)
Module F := Rodbus.Base.Frame.
Notation server_system := SystemServer.server_system.
Notation ref_cut := SystemSpec.ref_cut.
Notation bytes := Framing.bytes.

(* the frames the framing rule of the link (MBAP length field / RTU length rule + CRC gate) cuts
   from the byte stream s, as the session sees them *)
Definition cut_frames (l : link) (s : list N) (fi : F.fin) : list frame :=
  map SystemServer.to_server_frame (fst (ref_cut l s fi)).

Theorem cut_frames_ok l s fi : bytes s -> Forall (frame_ok l) (cut_frames l s fi).
Proof.
  intros Hb. unfold cut_frames, SystemSpec.ref_cut. destruct l.
  - apply SystemProofs.to_server_ok_tcp. unfold Framing.ref_frames. now apply SystemProofs.ref_good.
  - apply SystemProofs.to_server_ok_rtu. unfold Framing.ref_rtu_frames. now apply SystemProofs.rref_good.
Qed.
Print Assumptions cut_frames_ok.

(* C01_system_tcp / C01_system_rtu read backwards through C01_tcp / C01_rtu: the server as a whole
   IS the code's session over the frames the framing rule delimits *)
Theorem system_is_session {St} (H : handler St) l a (units : ucfg St) s chunks fi :
  bytes s -> List.concat chunks = s -> Forall (fun c => c <> []) chunks ->
  fst (server_system H l a units chunks fi) = session H l a units (cut_frames l s fi).
Proof.
  intros Hb Hc Hne. rewrite (session_eq H l a _ units (cut_frames_ok l s fi Hb)). destruct l.
  - rewrite (C01_System.C01_system_tcp _ H a units s chunks fi Hb Hc Hne). reflexivity.
  - rewrite (C01_System.C01_system_rtu _ H a units s chunks fi Hb Hc Hne). reflexivity.
Qed.
Print Assumptions system_is_session.

Section App.
Variable A : Type.
Variable W : c_write_handler A.
Notation H := (ffi_handler W).
Notation units_t := (ucfg (database * A)).

(* ================================================================ (a) one read frame *)
(* what the reference server computes for a read on the C-ABI handler *)
Lemma ffi_ref_exec_read fc u d app r t s n : read_target r = Some (t, s, n) ->
  ref_exec H fc u (d, app) r =
    (d, app, read_pdu fc t (abs d t) s n, read_calls H u (d, app) r).
Proof.
  destruct r; try discriminate; intros [= <- <- <-]; cbn [ref_exec read_calls ffi_handler ServerTypes.read_coil
    ServerTypes.read_discrete_input ServerTypes.read_holding_register ServerTypes.read_input_register fst].
  - pose proof (bits_response_read_pdu fc Coil d (Database.read_coil d) (EvReadCoil u) start count (or_introl eq_refl)
                  (DatabaseProofs.read_reply_abs d Coil start (N.to_nat count))) as E.
    destruct (read_seq _ _ _ _) as [x lg]. destruct x as [vs|e]; cbn [bits_response fst snd] in *; now rewrite <- E.
  - pose proof (bits_response_read_pdu fc Discrete d (Database.read_discrete_input d) (EvReadDiscreteInput u) start count
                  (or_intror eq_refl) (DatabaseProofs.read_reply_abs d Discrete start (N.to_nat count))) as E.
    destruct (read_seq _ _ _ _) as [x lg]. destruct x as [vs|e]; cbn [bits_response fst snd] in *; now rewrite <- E.
  - pose proof (regs_response_read_pdu fc Holding d (Database.read_holding_register d) (EvReadHoldingRegister u) start count
                  (or_introl eq_refl) (DatabaseProofs.read_reply_abs d Holding start (N.to_nat count))) as E.
    destruct (read_seq _ _ _ _) as [x lg]. destruct x as [vs|e]; cbn [regs_response fst snd] in *; now rewrite <- E.
  - pose proof (regs_response_read_pdu fc Input d (Database.read_input_register d) (EvReadInputRegister u) start count
                  (or_intror eq_refl) (DatabaseProofs.read_reply_abs d Input start (N.to_nat count))) as E.
    destruct (read_seq _ _ _ _) as [x lg]. destruct x as [vs|e]; cbn [regs_response fst snd] in *; now rewrite <- E.
Qed.

(* the served handler object is the one unit id u maps to (index h); it holds database d and
   application state app *)
Theorem system_read_frame : forall l a (units : units_t) fr u h d app fc r t s n,
  frame_ok l fr -> f_dest fr = DUnit u -> lookup u (u_map units) = Some h -> u_store units h = (d, app) ->
  decode (f_pdu fr) = Valid fc r -> read_target r = Some (t, s, n) -> fst (authorize a u r) = true ->
  let x := handle_frame H l a units fr in
  reply_of x = Ok (adu l (f_tx fr) u (read_pdu fc t (abs d t) s n)) /\
  u_map (units_of x) = u_map units /\ forall k, u_store (units_of x) k = u_store units k.
Proof.
  intros l a units fr u h d app fc r t s n Hok Hd Hl Hst Hdec Ht Hau x. subst x.
  rewrite (C01.C01_frame _ H l a units fr Hok), lift3_reply, lift3_units.
  destruct (ref_frame_served H l a units fr u h (d, app) fc r Hd Hl Hst Hdec Hau) as [-> ->].
  rewrite (ffi_ref_exec_read fc h d app r t s n Ht). cbn [fst snd with_store u_map u_store].
  split; [reflexivity|]. split; [reflexivity|]. intros k. now apply sset_id.
Qed.

(* C19 on the wire: the reply is an exception reply iff the read touches an absent point, and then
   the code is 02 *)
Theorem system_read_exception_iff : forall l a (units : units_t) fr u h d app fc r t s n e,
  frame_ok l fr -> f_dest fr = DUnit u -> lookup u (u_map units) = Some h -> u_store units h = (d, app) ->
  decode (f_pdu fr) = Valid fc r -> read_target r = Some (t, s, n) -> fst (authorize a u r) = true ->
  (reply_of (handle_frame H l a units fr) = Ok (adu l (f_tx fr) u (exception_pdu fc e)) <->
   e = 2 /\ exists k, (k < N.to_nat n)%nat /\ abs d t (s + N.of_nat k) = None).
Proof.
  intros l a units fr u h d app fc r t s n e Hok Hd Hl Hst Hdec Ht Hau.
  destruct (system_read_frame l a units fr u h d app fc r t s n Hok Hd Hl Hst Hdec Ht Hau) as [-> _].
  rewrite <- (read_pdu_exception_iff fc t (abs d t) s n e (decode_read_fc _ _ _ _ _ _ Hdec Ht)).
  split; [|now intros ->]. intros [= E]. exact (adu_inj _ _ _ _ _ E).
Qed.

Corollary system_read_absent : forall l a (units : units_t) fr u h d app fc r t s n,
  frame_ok l fr -> f_dest fr = DUnit u -> lookup u (u_map units) = Some h -> u_store units h = (d, app) ->
  decode (f_pdu fr) = Valid fc r -> read_target r = Some (t, s, n) -> fst (authorize a u r) = true ->
  (exists k, (k < N.to_nat n)%nat /\ abs d t (s + N.of_nat k) = None) ->
  reply_of (handle_frame H l a units fr) = Ok (adu l (f_tx fr) u (exception_pdu fc 2)).
Proof. intros. eapply system_read_exception_iff; eauto. Qed.

(* ... and when every point of the range is present the reply carries exactly their values, in
   ascending address order *)
Theorem system_read_present : forall l a (units : units_t) fr u h d app fc r t s n,
  frame_ok l fr -> f_dest fr = DUnit u -> lookup u (u_map units) = Some h -> u_store units h = (d, app) ->
  decode (f_pdu fr) = Valid fc r -> read_target r = Some (t, s, n) -> fst (authorize a u r) = true ->
  (forall k, (k < N.to_nat n)%nat -> abs d t (s + N.of_nat k) <> None) ->
  exists vs, map Some vs = map (fun k => abs d t (s + N.of_nat k)) (seq 0 (N.to_nat n)) /\
             reply_of (handle_frame H l a units fr) = Ok (adu l (f_tx fr) u (values_pdu fc t vs)).
Proof.
  intros l a units fr u h d app fc r t s n Hok Hd Hl Hst Hdec Ht Hau Hall.
  destruct (system_read_frame l a units fr u h d app fc r t s n Hok Hd Hl Hst Hdec Ht Hau) as [-> _].
  unfold read_pdu. destruct (spec_read (abs d t) s (N.to_nat n)) as [vs|e] eqn:E.
  - exists vs. split; [now apply DatabaseProofs.spec_read_values|reflexivity].
  - exfalso. apply DatabaseProofs.spec_read_exception in E as (_ & k & Hk & Hn). exact (Hall k Hk Hn).
Qed.

(* ================================================================ (b) one write frame *)
(* the handler result of a RequestHandlerWrapper write method as an exception byte (None = Ok(())) *)
Definition write_byte (cb : option (A * database * c_result)) : option N :=
  match cb with
  | None => Some 1
  | Some (_, _, (s, e, raw)) => reply_exception_byte (convert_to_result s e raw)
  end.

Lemma finish_write_spec m (st : database * A) cb : In m write_methods ->
  FfiServer.finish_write m st cb = (state_after (fst st) (snd st) cb, write_byte cb).
Proof.
  intros Hm. destruct (wrapper_of_known m Hm) as (w & Ew & Hin). unfold FfiServer.finish_write. rewrite Ew.
  destruct st as [d app]. destruct cb as [[[app' d'] [[s e] raw]]|]; cbn [option_map snd fst state_after write_byte].
  - set (x := wrapper_result w _).
    assert (Ex : x = Some (convert_to_result s e raw)) by exact (proj1 (write_result_forwarded w Hin s e raw)).
    now rewrite Ex.
  - set (x := wrapper_result w _).
    assert (Ex : x = Some (Some REC_IllegalFunction)) by exact (write_result_callback_unset w Hin).
    now rewrite Ex.
Qed.

Definition method_of (r : Modbus.request) : string :=
  match r with
  | WriteSingleCoil _ _ => "write_single_coil" | WriteSingleRegister _ _ => "write_single_register"
  | WriteMultipleCoils _ _ => "write_multiple_coils" | _ => "write_multiple_registers"
  end%string.

(* what a write does to one unit of the C-ABI server: the callback of the request's function runs
   once on the unit's own application state and database; both become what it left *)
Lemma ffi_apply_write d app r : is_write r = true ->
  apply_write H (d, app) r = (state_after d app (callback_outcome W app d r), write_byte (callback_outcome W app d r)).
Proof.
  intros Hw. transitivity (FfiServer.finish_write (method_of r) (d, app) (callback_outcome W app d r)).
  - destruct r; try discriminate; reflexivity.
  - apply (finish_write_spec (method_of r) (d, app)). destruct r; try discriminate; cbn; tauto.
Qed.

(* C18: the reply the protocol builds from the wrapper's result is the one the Spec prescribes for
   the callback's WriteResult *)
Lemma write_response_write_pdu fc r cb :
  write_response fc (write_byte cb) (write_echo r) = write_pdu fc r (option_map client_view cb).
Proof.
  destruct cb as [[[app' d'] [[s e] raw]]|]; cbn [option_map client_view write_pdu write_byte]; [|reflexivity].
  rewrite <- convert_spec. destruct (reply_exception_byte _); reflexivity.
Qed.

Theorem system_write_frame : forall l a (units : units_t) fr u h d app fc r,
  frame_ok l fr -> f_dest fr = DUnit u -> lookup u (u_map units) = Some h -> u_store units h = (d, app) ->
  decode (f_pdu fr) = Valid fc r -> is_write r = true -> fst (authorize a u r) = true ->
  let cb := callback_outcome W app d r in
  let x := handle_frame H l a units fr in
  reply_of x = Ok (adu l (f_tx fr) u (write_pdu fc r (option_map client_view cb))) /\
  u_map (units_of x) = u_map units /\
  u_store (units_of x) h = state_after d app cb /\
  forall k, k <> h -> u_store (units_of x) k = u_store units k.
Proof.
  intros l a units fr u h d app fc r Hok Hd Hl Hst Hdec Hw Hau cb x. subst x.
  rewrite (C01.C01_frame _ H l a units fr Hok), lift3_reply, lift3_units.
  destruct (ref_frame_served H l a units fr u h (d, app) fc r Hd Hl Hst Hdec Hau) as [-> ->].
  rewrite (ref_exec_write H fc h (d, app) r Hw), (ffi_apply_write d app r Hw).
  cbn [fst snd with_store u_map u_store]. fold cb. rewrite write_response_write_pdu.
  split; [reflexivity|]. split; [reflexivity|]. split; [apply sset_eq|]. intros k Hk. now apply sset_neq.
Qed.

(* the same reply spelled out over the C enum: success -> echo; a standard exception -> its
   protocol code; Unknown -> the raw code; callback not set -> 01 *)
Lemma write_pdu_cases fc r (x : A * database * c_result) :
  write_pdu fc r (Some (client_view x)) =
    match x with
    | (_, _, (true, _, _)) => fc :: write_echo r
    | (_, _, (false, FME_Unknown, raw)) => exception_pdu fc raw
    | (_, _, (false, e, _)) => exception_pdu fc (ffi_modbus_exception_value e)
    end.
Proof. destruct x as [[app' d'] [[[] e] raw]]; destruct e; reflexivity. Qed.

Theorem system_write_reply_cases : forall l a (units : units_t) fr u h d app fc r,
  frame_ok l fr -> f_dest fr = DUnit u -> lookup u (u_map units) = Some h -> u_store units h = (d, app) ->
  decode (f_pdu fr) = Valid fc r -> is_write r = true -> fst (authorize a u r) = true ->
  reply_of (handle_frame H l a units fr) =
    Ok (adu l (f_tx fr) u
          match callback_outcome W app d r with
          | None => exception_pdu fc 1
          | Some (_, _, (true, _, _)) => fc :: write_echo r
          | Some (_, _, (false, FME_Unknown, raw)) => exception_pdu fc raw
          | Some (_, _, (false, e, _)) => exception_pdu fc (ffi_modbus_exception_value e)
          end).
Proof.
  intros l a units fr u h d app fc r Hok Hd Hl Hst Hdec Hw Hau.
  destruct (system_write_frame l a units fr u h d app fc r Hok Hd Hl Hst Hdec Hw Hau) as [-> _].
  destruct (callback_outcome W app d r) as [x|]; cbn [option_map]; [|reflexivity].
  rewrite write_pdu_cases. destruct x as [[app' d'] [[[] e] raw]]; reflexivity.
Qed.

(* ================================================================ (c) a connection *)
(* In `session` - the code model of a connection on link l - the k-th frame being a permitted read
   of a unit id served at that point (by handler object h, holding database d): the k-th reply
   written is the C19 answer computed from d, and no handler object changes. *)
Theorem system_read_session : forall l a (units : units_t) frames k fr u h d app fc r t s n,
  Forall (frame_ok l) frames -> nth_error frames k = Some fr ->
  f_dest fr = DUnit u -> lookup u (u_map (units_before H l a units frames k)) = Some h ->
  u_store (units_before H l a units frames k) h = (d, app) ->
  decode (f_pdu fr) = Valid fc r -> read_target r = Some (t, s, n) -> fst (authorize a u r) = true ->
  nth_error (replies_of (session H l a units frames)) k = Some (adu l (f_tx fr) u (read_pdu fc t (abs d t) s n)) /\
  u_map (units_before H l a units frames (S k)) = u_map (units_before H l a units frames k) /\
  forall j, u_store (units_before H l a units frames (S k)) j = u_store (units_before H l a units frames k) j.
Proof.
  intros l a units frames k fr u h d app fc r t s n Hok Hk Hd Hl Hst Hdec Ht Hau.
  assert (Hfr : frame_ok l fr) by (rewrite Forall_forall in Hok; apply Hok; eapply nth_error_In; eassumption).
  destruct (session_nth H l a frames units k fr Hok Hk) as (reply & E1 & E2 & E3).
  destruct (system_read_frame l a _ fr u h d app fc r t s n Hfr Hd Hl Hst Hdec Ht Hau) as (R & U1 & U2).
  pose proof (eq_trans (eq_sym E1) R) as E. injection E as ->.
  split; [exact E2|]. split; [exact (eq_trans (f_equal u_map E3) U1)|].
  intros j. exact (eq_trans (f_equal (fun c => u_store c j) E3) (U2 j)).
Qed.

(* ... a permitted write: the k-th reply is the C18 answer for what the application's callback
   returned when run on the application state and database that handler object holds at that
   point; the next frame finds the object with what the callback left, and every other object
   untouched *)
Theorem system_write_session : forall l a (units : units_t) frames k fr u h d app fc r,
  Forall (frame_ok l) frames -> nth_error frames k = Some fr ->
  f_dest fr = DUnit u -> lookup u (u_map (units_before H l a units frames k)) = Some h ->
  u_store (units_before H l a units frames k) h = (d, app) ->
  decode (f_pdu fr) = Valid fc r -> is_write r = true -> fst (authorize a u r) = true ->
  let cb := callback_outcome W app d r in
  nth_error (replies_of (session H l a units frames)) k
    = Some (adu l (f_tx fr) u (write_pdu fc r (option_map client_view cb))) /\
  u_map (units_before H l a units frames (S k)) = u_map (units_before H l a units frames k) /\
  u_store (units_before H l a units frames (S k)) h = state_after d app cb /\
  forall j, j <> h -> u_store (units_before H l a units frames (S k)) j = u_store (units_before H l a units frames k) j.
Proof.
  intros l a units frames k fr u h d app fc r Hok Hk Hd Hl Hst Hdec Hw Hau cb.
  assert (Hfr : frame_ok l fr) by (rewrite Forall_forall in Hok; apply Hok; eapply nth_error_In; eassumption).
  destruct (session_nth H l a frames units k fr Hok Hk) as (reply & E1 & E2 & E3).
  destruct (system_write_frame l a _ fr u h d app fc r Hfr Hd Hl Hst Hdec Hw Hau) as (R & U1 & U2 & U3).
  pose proof (eq_trans (eq_sym E1) R) as E. injection E as ->.
  split; [exact E2|]. split; [exact (eq_trans (f_equal u_map E3) U1)|].
  split; [exact (eq_trans (f_equal (fun c => u_store c h) E3) U2)|].
  intros j Hj. exact (eq_trans (f_equal (fun c => u_store c j) E3) (U3 j Hj)).
Qed.

(* ================================================================ (d) the server as a whole *)
(* Bytes bs arriving in arbitrary non-empty read chunks, through the production reader, into the
   session task: the frames are those the framing rule cuts from bs, and the k-th reply the server
   writes is as above. *)
Theorem system_read_stream : forall l a (units : units_t) bs chunks fi k fr u h d app fc r t s n,
  bytes bs -> List.concat chunks = bs -> Forall (fun c => c <> []) chunks ->
  let frames := cut_frames l bs fi in
  nth_error frames k = Some fr ->
  f_dest fr = DUnit u -> lookup u (u_map (units_before H l a units frames k)) = Some h ->
  u_store (units_before H l a units frames k) h = (d, app) ->
  decode (f_pdu fr) = Valid fc r -> read_target r = Some (t, s, n) -> fst (authorize a u r) = true ->
  nth_error (replies_of (fst (server_system H l a units chunks fi))) k
    = Some (adu l (f_tx fr) u (read_pdu fc t (abs d t) s n)) /\
  u_map (units_before H l a units frames (S k)) = u_map (units_before H l a units frames k) /\
  forall j, u_store (units_before H l a units frames (S k)) j = u_store (units_before H l a units frames k) j.
Proof.
  intros l a units bs chunks fi k fr u h d app fc r t s n Hb Hc Hne frames Hk Hd Hl Hst Hdec Ht Hau.
  rewrite (system_is_session H l a units bs chunks fi Hb Hc Hne).
  exact (system_read_session l a units frames k fr u h d app fc r t s n (cut_frames_ok l bs fi Hb) Hk Hd Hl Hst Hdec Ht Hau).
Qed.

Theorem system_write_stream : forall l a (units : units_t) bs chunks fi k fr u h d app fc r,
  bytes bs -> List.concat chunks = bs -> Forall (fun c => c <> []) chunks ->
  let frames := cut_frames l bs fi in
  nth_error frames k = Some fr ->
  f_dest fr = DUnit u -> lookup u (u_map (units_before H l a units frames k)) = Some h ->
  u_store (units_before H l a units frames k) h = (d, app) ->
  decode (f_pdu fr) = Valid fc r -> is_write r = true -> fst (authorize a u r) = true ->
  let cb := callback_outcome W app d r in
  nth_error (replies_of (fst (server_system H l a units chunks fi))) k
    = Some (adu l (f_tx fr) u (write_pdu fc r (option_map client_view cb))) /\
  u_map (units_before H l a units frames (S k)) = u_map (units_before H l a units frames k) /\
  u_store (units_before H l a units frames (S k)) h = state_after d app cb /\
  forall j, j <> h -> u_store (units_before H l a units frames (S k)) j = u_store (units_before H l a units frames k) j.
Proof.
  intros l a units bs chunks fi k fr u h d app fc r Hb Hc Hne frames Hk Hd Hl Hst Hdec Hw Hau cb.
  rewrite (system_is_session H l a units bs chunks fi Hb Hc Hne).
  exact (system_write_session l a units frames k fr u h d app fc r (cut_frames_ok l bs fi Hb) Hk Hd Hl Hst Hdec Hw Hau).
Qed.

(* the final unit configuration of the server as a whole is the one after all frames *)
Theorem system_stream_final_units : forall l a (units : units_t) bs chunks fi,
  bytes bs -> List.concat chunks = bs -> Forall (fun c => c <> []) chunks ->
  final_units_of (fst (server_system H l a units chunks fi))
    = units_before H l a units (cut_frames l bs fi) (List.length (cut_frames l bs fi)).
Proof.
  intros l a units bs chunks fi Hb Hc Hne. rewrite (system_is_session H l a units bs chunks fi Hb Hc Hne).
  unfold units_before. now rewrite firstn_all.
Qed.

(* ================================================================ (e) multi-drop (C17) inherited *)
Theorem ffi_silent : forall l (units : units_t) fr, frame_ok l fr ->
  reply_of (handle_frame H l NoAuth units fr) <> Ok [] -> exists u, f_dest fr = DUnit u /\ lookup u (u_map units) <> None.
Proof. exact (C17.C17_silent _ H). Qed.

Theorem ffi_silent_session : forall l (units : units_t) frames, Forall (frame_ok l) frames ->
  Forall2 (fun fr reply => reply <> [] -> exists u, f_dest fr = DUnit u /\ In u (map fst (u_map units)))
          frames (replies_of (session H l NoAuth units frames)).
Proof. exact (C17.C17_silent_session _ H). Qed.

Theorem ffi_broadcast_never_answered : forall l a (units : units_t) fr, frame_ok l fr ->
  f_dest fr = DBroadcast -> reply_of (handle_frame H l a units fr) = Ok [].
Proof. exact (C17.C17_broadcast_never_answered _ H). Qed.

Theorem ffi_broadcast_other : forall l (units : units_t) fr, frame_ok l fr ->
  f_dest fr = DBroadcast -> (forall fc r, decode (f_pdu fr) = Valid fc r -> is_write r = false) ->
  let x := handle_frame H l NoAuth units fr in reply_of x = Ok [] /\ log_of x = [] /\ units_of x = units.
Proof. exact (C17.C17_broadcast_other _ H). Qed.

(* a request addressed to a unit id acts on exactly the handler object (database + application
   state) that unit id maps to; every other object is untouched *)
Theorem ffi_unit_effect : forall l (units : units_t) fr fc r u h, frame_ok l fr ->
  f_dest fr = DUnit u -> lookup u (u_map units) = Some h -> decode (f_pdu fr) = Valid fc r ->
  let x := handle_frame H l NoAuth units fr in
  u_map (units_of x) = u_map units /\
  u_store (units_of x) h = fst (fst (ref_exec H fc h (u_store units h) r)) /\
  (forall k, k <> h -> u_store (units_of x) k = u_store units k).
Proof. exact (C17.C17_unit_effect _ H). Qed.

(* a valid broadcast write on the C-ABI server (device map: one RequestHandlerWrapper per unit id,
   no unit id twice): in unit id order, every unit's callback for the request's function runs
   exactly once, on that unit's own application state and database, which become what it left;
   its WriteResult is dropped; nothing else changes; nothing is answered *)
Theorem ffi_broadcast_write : forall l ids (store : N -> database * A) fr fc r, frame_ok l fr -> NoDup ids ->
  f_dest fr = DBroadcast -> decode (f_pdu fr) = Valid fc r -> is_write r = true ->
  let x := handle_frame H l NoAuth (device_map ids store) fr in
  reply_of x = Ok [] /\
  log_of x = flat_map (fun u => write_call u r) ids /\
  u_map (units_of x) = map (fun u => (u, u)) ids /\
  forall h d app, store h = (d, app) ->
    u_store (units_of x) h =
      if in_dec N.eq_dec h ids then state_after d app (callback_outcome W app d r) else (d, app).
Proof.
  intros l ids store fr fc r Hok Hnd Hd Hdec Hw x.
  destruct (C17.C17_broadcast_write _ H l (device_map ids store) fr fc r Hok Hd Hdec Hw) as (R & L & U).
  fold x in R, L, U. split; [exact R|]. split.
  - rewrite L. cbn [device_map u_map]. now rewrite flat_map_map.
  - rewrite U. cbn [device_map with_store u_map u_store]. split; [reflexivity|]. intros h d app Hst.
    rewrite (C17.C17_broadcast_once _ H r (map (fun u : N => (u, u)) ids) store h) by (now rewrite map_snd_diag).
    rewrite map_snd_diag, Hst. destruct (in_dec N.eq_dec h ids); [|reflexivity].
    now rewrite (ffi_apply_write d app r Hw).
Qed.
End App.
Print Assumptions system_read_frame.
Print Assumptions system_read_exception_iff.
Print Assumptions system_read_absent.
Print Assumptions system_read_present.
Print Assumptions system_write_frame.
Print Assumptions system_write_reply_cases.
Print Assumptions system_read_session.
Print Assumptions system_write_session.
Print Assumptions system_read_stream.
Print Assumptions system_write_stream.
Print Assumptions system_stream_final_units.
Print Assumptions ffi_silent.
Print Assumptions ffi_silent_session.
Print Assumptions ffi_broadcast_never_answered.
Print Assumptions ffi_broadcast_other.
Print Assumptions ffi_unit_effect.
Print Assumptions ffi_broadcast_write.

(* ================================================================ (f) non-vacuity *)
(* The programmable application of Model/FfiServer.v (prog_handler: addresses < 100 update an
   existing point, 100..109 answer the standard exceptions, 110..365 a raw code, >= 366 add the
   point) serving unit 1 over TCP. *)
Import Rodbus.Base.Show.

Definition demo_db : database :=
  {| Database.coils := [(0, true); (1, false); (2, true)]; Database.discrete := [];
     Database.holding := [(5, 4660); (6, 7)]; Database.input := [] |}.
(* the C ABI's device map with the single endpoint 1, whose handler object holds demo_db and an
   application counter 0 *)
Definition demo_units : ucfg (database * N) := device_map [1] (fun _ => (demo_db, 0)).
Definition demo_frame (tx : N) (pdu : list N) : frame := {| f_tx := Some tx; f_dest := DUnit 1; f_pdu := pdu |}.
Definition demo_frames : list frame :=
  [ demo_frame 1 [3; 0; 5; 0; 2];                      (* read holding 5-6: present                   -> 1234 0007 *)
    demo_frame 2 [3; 0; 5; 0; 3];                      (* read holding 5-7: 7 is absent               -> 83 02 *)
    demo_frame 3 [6; 0; 5; 190; 239];                  (* write register 5 := BEEF: callback succeeds -> echo *)
    demo_frame 4 [3; 0; 5; 0; 1];                      (* ... and the database holds it               -> BEEF *)
    demo_frame 5 [6; 0; 101; 0; 1];                    (* callback: IllegalDataAddress                -> 86 02 *)
    demo_frame 6 [6; 0; 150; 0; 1];                    (* callback: Unknown, raw code 40              -> 86 28 *)
    demo_frame 7 [6; 0; 50; 0; 1];                     (* update of an absent point fails             -> 86 02 *)
    demo_frame 8 [16; 0; 5; 0; 2; 4; 0; 1; 0; 2];      (* write registers 5-6 := 1, 2                 -> echo *)
    demo_frame 9 [3; 0; 5; 0; 2];                      (*                                             -> 0001 0002 *)
    demo_frame 10 [1; 0; 0; 0; 3];                     (* read coils 0-2 = 1,0,1                      -> 05 *)
    demo_frame 11 [5; 1; 144; 255; 0];                 (* write coil 400 := on: the callback ADDS it  -> echo *)
    demo_frame 12 [1; 1; 144; 0; 1];                   (* ... now present                             -> 01 *)
    demo_frame 13 [15; 0; 0; 0; 3; 1; 2];              (* write coils 0-2 := 0,1,0                    -> echo *)
    demo_frame 14 [1; 0; 0; 0; 3];                     (*                                             -> 02 *)
    demo_frame 15 [16; 0; 6; 0; 2; 4; 0; 9; 0; 9];     (* write registers 6-7: 7 absent               -> 90 02 ... *)
    demo_frame 16 [3; 0; 6; 0; 1] ].                   (* ... but 6 stays written (no roll back)      -> 0009 *)

Definition show_replies {U} (x : list (list N) * U * list event * session_end) : string :=
  show_list show_bytes "," (replies_of x).

Example ffi_session_nonvacuous :
  let x := session (ffi_handler FfiServer.prog_handler) LTcp NoAuth demo_units demo_frames in
  show_replies x =
    ("00010000000701030412340007,000200000003018302,00030000000601060005BEEF,000400000005010302BEEF," ++
     "000500000003018602,000600000003018628,000700000003018602,000800000006011000050002," ++
     "00090000000701030400010002,000A0000000401010105,000B0000000601050190FF00,000C0000000401010101," ++
     "000D00000006010F00000003,000E0000000401010102,000F00000003019002,0010000000050103020009")%string /\
  u_map (final_units_of x) = [(1, 1)] /\
  u_store (final_units_of x) 1 =
    ({| Database.coils := [(400, true); (0, false); (1, true); (2, false)]; Database.discrete := [];
        Database.holding := [(5, 1); (6, 9)]; Database.input := [] |}, 8) /\
  snd x = SOpen.
Proof. vm_compute. repeat split; reflexivity. Qed.
Print Assumptions ffi_session_nonvacuous.

(* an application that registers no callback: every write is answered with exception 01, reads
   are served, nothing changes *)
Example ffi_session_null_nonvacuous :
  let x := session (ffi_handler FfiServer.null_handler) LTcp NoAuth demo_units demo_frames in
  show_replies x =
    ("00010000000701030412340007,000200000003018302,000300000003018601,0004000000050103021234," ++
     "000500000003018601,000600000003018601,000700000003018601,000800000003019001," ++
     "00090000000701030412340007,000A0000000401010105,000B00000003018501,000C00000003018102," ++
     "000D00000003018F01,000E0000000401010105,000F00000003019001,0010000000050103020007")%string /\
  u_map (final_units_of x) = [(1, 1)] /\ u_store (final_units_of x) 1 = (demo_db, 0).
Proof. vm_compute. repeat split; reflexivity. Qed.
Print Assumptions ffi_session_null_nonvacuous.

(* the server as a whole: four requests arriving in six reads that split headers and PDUs, then a
   truncated fifth *)
Definition demo_stream : list (list N) :=
  [ [0; 1; 0]; [0; 0; 6; 1; 3; 0; 5; 0; 3; 0; 2; 0; 0; 0; 6; 1; 6; 0]; [150];
    [0; 1; 0; 3; 0; 0; 0; 6; 1; 6; 0; 5; 190; 239; 0; 4; 0; 0; 0; 6; 1; 3; 0; 5; 0]; [1]; [0; 5] ].

Example ffi_stream_nonvacuous :
  let x := server_system (ffi_handler FfiServer.prog_handler) LTcp NoAuth demo_units demo_stream F.FinEof in
  show_replies (fst x) = "000100000003018302,000200000003018628,00030000000601060005BEEF,000400000005010302BEEF"%string /\
  u_store (final_units_of (fst x)) 1 =
    ({| Database.coils := [(0, true); (1, false); (2, true)]; Database.discrete := [];
        Database.holding := [(5, 48879); (6, 7)]; Database.input := [] |}, 2) /\
  snd x = F.EndIo F.UnexpectedEof.
Proof. vm_compute. repeat split; reflexivity. Qed.
Print Assumptions ffi_stream_nonvacuous.

(* the hypotheses of the stream theorems are satisfiable: system_write_stream applied to the second
   request of demo_stream (write register 150: the callback answers Unknown with raw code 40) *)
Example ffi_stream_theorem_instance :
  nth_error (replies_of (fst (server_system (ffi_handler FfiServer.prog_handler) LTcp NoAuth demo_units demo_stream F.FinEof))) 1
  = Some (adu LTcp (Some 2) 1 (write_pdu 6 (WriteSingleRegister 150 1) (Some (false, "Unknown"%string, 40)))).
Proof.
  assert (Hb : bytes (List.concat demo_stream)) by (vm_compute; repeat constructor).
  assert (Hne : Forall (fun c : list N => c <> []) demo_stream) by (repeat constructor; discriminate).
  refine (proj1 (system_write_stream N FfiServer.prog_handler LTcp NoAuth demo_units _ demo_stream F.FinEof 1
                   (demo_frame 2 [6; 0; 150; 0; 1]) 1 1 demo_db 0 6 (WriteSingleRegister 150 1) Hb eq_refl Hne _ _ _ _ _ _ _));
    vm_compute; reflexivity.
Qed.
Print Assumptions ffi_stream_theorem_instance.

(* multi-drop: endpoints 1 and 2 on a serial line; a broadcast write of register 5 runs each
   endpoint's callback once on its own database, is not answered, and leaves handler index 3
   (no endpoint) alone *)
Example ffi_broadcast_nonvacuous :
  let x := handle_frame (ffi_handler FfiServer.prog_handler) LRtu NoAuth (device_map [1; 2] (fun _ => (demo_db, 0)))
             {| f_tx := None; f_dest := DBroadcast; f_pdu := [6; 0; 5; 1; 2] |} in
  reply_of x = Ok [] /\
  log_of x = [EvWriteSingleRegister 1 5 258; EvWriteSingleRegister 2 5 258] /\
  Database.holding (fst (u_store (units_of x) 1)) = [(5, 258); (6, 7)] /\ snd (u_store (units_of x) 1) = 1 /\
  Database.holding (fst (u_store (units_of x) 2)) = [(5, 258); (6, 7)] /\ snd (u_store (units_of x) 2) = 1 /\
  u_store (units_of x) 3 = (demo_db, 0).
Proof. vm_compute. repeat split; reflexivity. Qed.
Print Assumptions ffi_broadcast_nonvacuous.

(* what the Spec prescribes, spelled out on instances: absent point -> 02; success -> echo;
   standard exception -> its protocol code; Unknown -> the raw code; no callback -> 01 *)
Example spec_instances :
  read_pdu 3 Holding (abs demo_db Holding) 5 3 = [131; 2] /\
  read_pdu 3 Holding (abs demo_db Holding) 5 2 = [3; 4; 18; 52; 0; 7] /\
  read_pdu 1 Coil (abs demo_db Coil) 0 3 = [1; 1; 5] /\
  write_pdu 6 (WriteSingleRegister 5 48879) (Some (true, "Unknown"%string, 0)) = [6; 0; 5; 190; 239] /\
  write_pdu 6 (WriteSingleRegister 5 1) (Some (false, "ServerDeviceBusy"%string, 0)) = [134; 6] /\
  write_pdu 6 (WriteSingleRegister 5 1) (Some (false, "Unknown"%string, 40)) = [134; 40] /\
  write_pdu 16 (WriteMultipleRegisters 5 [1; 2]) None = [144; 1].
Proof. vm_compute. repeat split; reflexivity. Qed.
Print Assumptions spec_instances.

(* ================================================================ the authorization wrapper *)
(* the wrapper object holds nothing but the C callbacks: no per-server state in which a role (or anything else about
   one session) could survive into another session; every method builds the role string from the role parameter of
   the very call, calls the same-named callback with the unit id and the range / index, and denies when unset *)
Theorem authz_wrapper_shape :
  authz_wrapper_fields = ["inner"]%string /\
  map aw_method authz_wrappers = ["read_coils"; "read_discrete_inputs"; "read_holding_registers"; "read_input_registers";
                                  "write_single_coil"; "write_single_register"; "write_multiple_coils"; "write_multiple_registers"]%string /\
  forallb (fun w => String.eqb (aw_callback w) (aw_method w) && match aw_role w with RoleOfThisCall => true | _ => false end
                    && String.eqb (aw_unit w) "unit_id.value" && (String.eqb (aw_arg w) "range.into()" || String.eqb (aw_arg w) "idx")
                    && aw_result_into w && aw_unset_denies w) authz_wrappers = true.
Proof. vm_compute. repeat split. Qed.

(* as a policy of the core: the C callback of the request's kind, applied to the frame's unit id, the request's range
   or index and THE ROLE PASSED IN - nothing else *)
Theorem ffi_policy_spec : forall (C : FfiServer.c_authz_handler) k u arg r,
  FfiServer.ffi_policy C k u arg r = match C k with Some f => f u arg r | None => false end.
Proof. intros C k u arg r. destruct k; cbv [FfiServer.ffi_policy FfiServer.authz_row]; cbn; destruct (C _); reflexivity. Qed.

(* a session of a C-ABI TLS+authz server whose handshake established role r (the core's `AuthHandler pol r`, C09 /
   Front_role): every authorization query of the session shows the C callback exactly r and the decision is the callback's *)
Theorem ffi_authorize_role : forall (C : FfiServer.c_authz_handler) r u req,
  authorize (AuthHandler (FfiServer.ffi_policy C) r) u req =
    (match C (kind_of req) with Some f => f u (arg_of req) r | None => false end,
     [EvAuth (kind_of req) u (arg_of req) r]).
Proof. intros C r u req. cbn [authorize]. now rewrite ffi_policy_spec. Qed.
