(* ClientOptions builder: every call sets its field and keeps the others; calls on distinct fields commute; a chain
   of calls yields what the documentation says (Spec/OptionsSpec.v), in every order.
   The facts about the generated table (every struct-update base is `self`, setter names and defaults are the
   documented ones) are finite checks over the table's constructors: they are where a changed source shows. *)
From Coq Require Import NArith List String Bool Permutation.
From Rodbus Require Import Gen.ClientOptions Spec.OptionsSpec Model.OptionsBuilder.
Import ListNotations.

(* ---- the generated table ---- *)
Lemma base_self : forall b, builder_base b = BaseSelf.
Proof. destruct b; reflexivity. Qed.

Lemma field_eqb_spec a b : reflect (a = b) (field_eqb a b).
Proof. destruct a, b; constructor; congruence. Qed.

(* the table agrees with the documentation: which option a setter sets, and the defaults *)
Lemma table_sets : forall b f, field_eqb f (builder_field b) = sets (builder_name b) (field_name f).
Proof. destruct b, f; reflexivity. Qed.
Lemma table_default : forall f, field_default f = option_default (field_name f).
Proof. destruct f; reflexivity. Qed.

(* ---- one call ---- *)
Lemma apply_value o b v f : apply_builder o (b, v) f = if field_eqb f (builder_field b) then v else o f.
Proof. unfold apply_builder, set_field. cbn [fst snd]. rewrite base_self. reflexivity. Qed.

Lemma apply_sets o b v : apply_builder o (b, v) (builder_field b) = v.
Proof. rewrite apply_value. destruct (field_eqb_spec (builder_field b) (builder_field b)); congruence. Qed.

Lemma apply_preserves o b v f : f <> builder_field b -> apply_builder o (b, v) f = o f.
Proof. intros H. rewrite apply_value. destruct (field_eqb_spec f (builder_field b)); congruence. Qed.

Lemma apply_commute o b1 v1 b2 v2 : builder_field b1 <> builder_field b2 ->
  forall f, apply_builder (apply_builder o (b1, v1)) (b2, v2) f = apply_builder (apply_builder o (b2, v2)) (b1, v1) f.
Proof.
  intros H f. rewrite !apply_value.
  destruct (field_eqb_spec f (builder_field b1)), (field_eqb_spec f (builder_field b2)); congruence.
Qed.

Lemma apply_ext o o' c : (forall f, o f = o' f) -> forall f, apply_builder o c f = apply_builder o' c f.
Proof. intros H f. destruct c as [b v]. rewrite !apply_value, H. reflexivity. Qed.

(* ---- chains ---- *)
Lemma fold_ext cs : forall o o', (forall f, o f = o' f) -> forall f, fold_left apply_builder cs o f = fold_left apply_builder cs o' f.
Proof. induction cs as [|c cs IH]; intros o o' H f; [apply H|]. cbn [fold_left]. apply IH. apply apply_ext, H. Qed.

Definition field_of (c : call) : opt_field := builder_field (fst c).

Lemma fold_perm cs cs' : Permutation cs cs' -> NoDup (map field_of cs) ->
  forall o f, fold_left apply_builder cs o f = fold_left apply_builder cs' o f.
Proof.
  induction 1 as [|x l l' _ IH|x y l|l l' l'' H1 IH1 H2 IH2]; intros Hn o f.
  - reflexivity.
  - cbn [fold_left]. apply IH. cbn [map] in Hn. inversion Hn; assumption.
  - cbn [fold_left]. apply fold_ext. destruct x as [bx vx], y as [b_y vy]. apply apply_commute.
    cbn [map] in Hn. inversion Hn as [|? ? Hin _]. intros E. apply Hin. left. unfold field_of. cbn [fst]. congruence.
  - rewrite IH1 by assumption. apply IH2. eapply Permutation_NoDup; [apply Permutation_map; exact H1|exact Hn].
Qed.

(* any order of calls on distinct fields yields the same options *)
Lemma build_any_order cs cs' : Permutation cs cs' -> NoDup (map field_of cs) -> forall f, build cs f = build cs' f.
Proof. intros H Hn f. apply fold_perm; assumption. Qed.

(* the model is the documented behaviour *)
Lemma fold_spec cs : forall o a f, o f = a ->
  fold_left apply_builder cs o f = fold_left (fun acc c => if sets (fst c) (field_name f) then snd c else acc) (named cs) a.
Proof.
  induction cs as [|[b v] cs IH]; intros o a f H; [exact H|].
  cbn [fold_left named map fst snd]. apply IH. rewrite apply_value, table_sets, H. reflexivity.
Qed.

Lemma build_spec cs f : build cs f = spec_value (named cs) (field_name f).
Proof. unfold build, spec_value. apply fold_spec. apply table_default. Qed.

(* a value set once survives every later call of the other setters *)
Lemma set_survives cs1 b v cs2 : (forall c, In c cs2 -> field_of c <> builder_field b) ->
  build (cs1 ++ (b, v) :: cs2) (builder_field b) = v.
Proof.
  intros H. unfold build. rewrite fold_left_app. cbn [fold_left].
  generalize (fold_left apply_builder cs1 default_options). intros o.
  assert (G : forall cs o, (forall c, In c cs -> field_of c <> builder_field b) -> fold_left apply_builder cs o (builder_field b) = o (builder_field b)).
  { clear. induction cs as [|[b' v'] cs IH]; intros o H; [reflexivity|]. cbn [fold_left]. rewrite IH by (intros c Hc; apply H; right; exact Hc).
    apply apply_preserves. intros E. apply (H (b', v')); [left; reflexivity|]. unfold field_of. cbn [fst]. congruence. }
  rewrite G by exact H. apply apply_sets.
Qed.

(* C12: the timeout limit in force is the documented one, whatever the order of the calls *)
Lemma limit_spec cs : limit_of (build cs) = spec_limit (named cs).
Proof. unfold limit_of, spec_limit. rewrite build_spec. reflexivity. Qed.

Lemma limit_survives cs1 b v cs2 : builder_field b = tcp_limit_field -> (forall c, In c cs2 -> field_of c <> tcp_limit_field) ->
  limit_of (build (cs1 ++ (b, v) :: cs2)) = match v with 0%N => None | n => Some n end.
Proof. intros Hb H. unfold limit_of. rewrite <- Hb. rewrite set_survives; [destruct v; reflexivity|]. rewrite Hb. exact H. Qed.
