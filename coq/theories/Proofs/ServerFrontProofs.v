(* Proofs about the composed server front-end (Model/ServerFront.v). The layers are NOT re-proved:
   the tracker component is related to Model/Tracker.v by a projection and the C15 lemmas are
   applied to it; the filter guard comes from p5's gate lemmas (C16), admission from the C09
   admission lemma, the role of authorization queries from p3's session lemmas (C08/C02). *)
From Coq Require Import NArith List Bool String Ascii Lia.
From Rodbus Require Import Base.Outcome Base.ServerTypes Gen.ServerCtors Model.Filter Spec.FilterSpec Proofs.FilterProofs
  Model.Tracker Spec.TrackerSpec Proofs.TrackerProofs
  Spec.TlsSpec Gen.TlsVersions Gen.TlsModes Model.Tls Proofs.TlsProofs
  Model.Server Spec.Modbus Proofs.ServerProofs Proofs.ServerProps Proofs.ServerTheorems
  Model.ServerFront.
Import ListNotations.
Local Open Scope N_scope.

Section Front.
Context {St : Type}.
Variable H : handler St.
Variable flt : afilter.
Variable tr : transport.

Notation fstep := (fstep H flt tr).
Notation frun := (frun H flt tr).
Notation establish := (establish tr).
Notation tracker_events := (tracker_events H flt tr).

(* ------------------------------------------------------------------ projection onto the tracker model *)
Lemma track_some (f : front (St := St)) evs s' o : track f evs = Some (s', o) ->
  exists tos, Tracker.run (srv f) evs = Some (s', tos) /\ o = map Track tos.
Proof.
  unfold track. destruct (Tracker.run (srv f) evs) as [[s1 o1]|]; [|discriminate].
  intros E. inversion E; subst. now exists o1.
Qed.

Lemma fstep_projects f e f' o : fstep f e = Some (f', o) ->
  exists tos, Tracker.run (srv f) (tracker_events f e) = Some (srv f', tos).
Proof.
  unfold ServerFront.fstep, ServerFront.tracker_events. destruct e as [addr pk|id|id fr|id|id| | |].
  - destruct (track f _) as [[s' o']|] eqn:E; [|discriminate].
    destruct (track_some _ _ _ _ E) as (tos & Er & _).
    destruct (_ && _); intros X; inversion X; subst; cbn [srv]; eauto.
  - destruct (find_conn id (conns f)) as [c|]; [|intros X; inversion X; subst; exists []; reflexivity].
    destruct (c_phase c); try (intros X; inversion X; subst; exists []; reflexivity).
    destruct (c_peer c) eqn:Ep; try (intros X; inversion X; subst; exists []; reflexivity).
    + destruct (alive (srv f) id); [|intros X; inversion X; subst; exists []; reflexivity].
      destruct (establish PeerPlain); [intros X; inversion X; subst; exists []; reflexivity|].
      destruct (track f _) as [[s' o']|] eqn:E; [|discriminate].
      destruct (track_some _ _ _ _ E) as (tos & Er & _). intros X; inversion X; subst; cbn [srv]; eauto.
    + destruct (alive (srv f) id); [|intros X; inversion X; subst; exists []; reflexivity].
      destruct (establish (PeerTls p)); [intros X; inversion X; subst; exists []; reflexivity|].
      destruct (track f _) as [[s' o']|] eqn:E; [|discriminate].
      destruct (track_some _ _ _ _ E) as (tos & Er & _). intros X; inversion X; subst; cbn [srv]; eauto.
  - destruct (find_conn id (conns f)) as [c|]; [|intros X; inversion X; subst; exists []; reflexivity].
    destruct (c_phase c); try (intros X; inversion X; subst; exists []; reflexivity).
    destruct (alive (srv f) id); [|intros X; inversion X; subst; exists []; reflexivity].
    destruct (handle_frame H LTcp a (units f) fr) as [[reply units'] log]. cbn [fst].
    destruct reply.
    + intros X; inversion X; subst; exists []; reflexivity.
    + destruct (track f _) as [[s' o']|] eqn:E; [|discriminate].
      destruct (track_some _ _ _ _ E) as (tos & Er & _). intros X; inversion X; subst; cbn [srv]; eauto.
    + destruct (track f _) as [[s' o']|] eqn:E; [|discriminate].
      destruct (track_some _ _ _ _ E) as (tos & Er & _). intros X; inversion X; subst; cbn [srv]; eauto.
  - destruct (track f _) as [[s' o']|] eqn:E; [|discriminate].
    destruct (track_some _ _ _ _ E) as (tos & Er & _). intros X; inversion X; subst; cbn [srv]; eauto.
  - destruct (track f _) as [[s' o']|] eqn:E; [|discriminate].
    destruct (track_some _ _ _ _ E) as (tos & Er & _). intros X; inversion X; subst; cbn [srv]; eauto.
  - destruct (track f _) as [[s' o']|] eqn:E; [|discriminate].
    destruct (track_some _ _ _ _ E) as (tos & Er & _). intros X; inversion X; subst; cbn [srv]; eauto.
  - destruct (track f _) as [[s' o']|] eqn:E; [|discriminate].
    destruct (track_some _ _ _ _ E) as (tos & Er & _). intros X; inversion X; subst; cbn [srv]; eauto.
  - destruct (track f _) as [[s' o']|] eqn:E; [|discriminate].
    destruct (track_some _ _ _ _ E) as (tos & Er & _). intros X; inversion X; subst; cbn [srv]; eauto.
Qed.

Lemma frun_projects evs : forall f f' o, frun f evs = Some (f', o) ->
  exists tevs tos, Tracker.run (srv f) tevs = Some (srv f', tos).
Proof.
  induction evs as [|e r IH]; intros f f' o Hr; cbn [ServerFront.frun] in Hr.
  - inversion Hr; subst. exists [], []. reflexivity.
  - destruct (fstep f e) as [[f1 o1]|] eqn:E1; [|discriminate].
    destruct (frun f1 r) as [[f2 o2]|] eqn:E2; [|discriminate]. inversion Hr; subst.
    destruct (fstep_projects _ _ _ _ E1) as (t1 & R1). destruct (IH _ _ _ E2) as (tevs & t2 & R2).
    exists (tracker_events f e ++ tevs), (t1 ++ t2). rewrite run_app, R1, R2. reflexivity.
Qed.

Lemma frun_app f a b : frun f (a ++ b) =
  match frun f a with
  | None => None
  | Some (f1, o1) => match frun f1 b with None => None | Some (f2, o2) => Some (f2, o1 ++ o2) end
  end.
Proof.
  revert f. induction a as [|e r IH]; intros f; cbn [app ServerFront.frun].
  - destruct (frun f b) as [[f2 o2]|]; reflexivity.
  - destruct (fstep f e) as [[f1 o1]|]; [|reflexivity]. rewrite IH.
    destruct (frun f1 r) as [[f2 o2]|]; [|reflexivity]. destruct (frun f2 b) as [[f3 o3]|]; [|reflexivity].
    now rewrite app_assoc.
Qed.

(* Front_bound: at most max(1, max_sessions) sessions, handshaking ones included *)
Lemma front_bound m us evs f o : frun (finit m us) evs = Some (f, o) ->
  (List.length (sessions (trk (srv f))) <= Nat.max 1 m)%nat /\
  (List.length (live_ids (sessions (trk (srv f)))) <= Nat.max 1 m)%nat.
Proof.
  intros Hr. destruct (frun_projects _ _ _ _ Hr) as (tevs & tos & R). cbn [finit srv] in R.
  exact (bound m tevs (srv f) tos R).
Qed.

(* a connection the front-end works for is one of the tracker's running sessions *)
Lemma serving_is_tracked (f : front (St := St)) id : alive (srv f) id = true -> In id (live_ids (sessions (trk (srv f)))).
Proof.
  unfold alive. rewrite existsb_exists. intros (x & Hx & He). apply N.eqb_eq in He. now subst.
Qed.

(* ------------------------------------------------------------------ where a Processed output comes from *)
Lemma find_conn_in id cs c : find_conn id cs = Some c -> In c cs /\ c_id c = id.
Proof.
  induction cs as [|x r IH]; cbn [find_conn]; [discriminate|].
  destruct (N.eqb_spec (c_id x) id).
  - intros E; inversion E; subst. split; [now left|reflexivity].
  - intros E. destruct (IH E). split; [now right|assumption].
Qed.

Lemma set_phase_in id ph cs c' : In c' (set_phase id ph cs) ->
  In c' cs \/ exists c0, find_conn id cs = Some c0 /\ c_id c' = c_id c0 /\ c_addr c' = c_addr c0 /\ c_peer c' = c_peer c0 /\ c_phase c' = ph.
Proof.
  induction cs as [|x r IH]; cbn [set_phase find_conn]; [intros []|].
  destruct (N.eqb_spec (c_id x) id).
  - intros [E|Hin]; [|left; now right]. right. exists x. subst c'. cbn. auto.
  - intros [E|Hin]; [left; now left|]. destruct (IH Hin) as [Hi|(c0 & E & R)]; [left; now right|right; now exists c0].
Qed.

Lemma not_processed_in_track id log reply tos : ~ In (Processed id log reply) (map Track tos).
Proof. intros Hin. apply in_map_iff in Hin. destruct Hin as (x & E & _). discriminate. Qed.

(* a frame is processed exactly when its connection is being served and is one of the tracker's running sessions *)
Lemma processed_origin f e f' o id log reply : fstep f e = Some (f', o) -> In (Processed id log reply) o ->
  exists fr c a, e = FFrame id fr /\ find_conn id (conns f) = Some c /\ c_phase c = Serving a /\ alive (srv f) id = true /\
    log = log_of (handle_frame H LTcp a (units f) fr) /\ reply = reply_of (handle_frame H LTcp a (units f) fr).
Proof.
  unfold ServerFront.fstep. destruct e as [addr pk|i|i fr|i|i| | |]; intros Hs Hin;
    try (destruct (track f _) as [[s' o']|] eqn:E; [|discriminate]; destruct (track_some _ _ _ _ E) as (tos & _ & ->);
         (destruct (_ && _) in Hs || idtac); inversion Hs; subst; exfalso; now apply (not_processed_in_track _ _ _ _ Hin)).
  - (* FHandshakeDone *)
    destruct (find_conn i (conns f)) as [c|]; [|inversion Hs; subst; destruct Hin].
    destruct (c_phase c); try (inversion Hs; subst; destruct Hin; fail).
    destruct (c_peer c); try (inversion Hs; subst; destruct Hin; fail).
    + destruct (alive (srv f) i); [|inversion Hs; subst; destruct Hin].
      destruct (establish PeerPlain); [inversion Hs; subst; destruct Hin|].
      destruct (track f _) as [[s' o']|] eqn:E; [|discriminate]. destruct (track_some _ _ _ _ E) as (tos & _ & ->).
      inversion Hs; subst. exfalso; now apply (not_processed_in_track _ _ _ _ Hin).
    + destruct (alive (srv f) i); [|inversion Hs; subst; destruct Hin].
      destruct (establish (PeerTls p)); [inversion Hs; subst; destruct Hin|].
      destruct (track f _) as [[s' o']|] eqn:E; [|discriminate]. destruct (track_some _ _ _ _ E) as (tos & _ & ->).
      inversion Hs; subst. exfalso; now apply (not_processed_in_track _ _ _ _ Hin).
  - (* FFrame *)
    destruct (find_conn i (conns f)) as [c|] eqn:Ef; [|inversion Hs; subst; destruct Hin].
    destruct (c_phase c) eqn:Ep; try (inversion Hs; subst; destruct Hin; fail).
    destruct (alive (srv f) i) eqn:Ea; [|inversion Hs; subst; destruct Hin].
    destruct (handle_frame H LTcp a (units f) fr) as [[rp units'] lg] eqn:Eh.
    assert (Hhead : Processed id log reply = Processed i lg rp ->
              exists fr0 c0 a0, FFrame i fr = FFrame id fr0 /\ find_conn id (conns f) = Some c0 /\ c_phase c0 = Serving a0 /\
                alive (srv f) id = true /\
                log = log_of (handle_frame H LTcp a0 (units f) fr0) /\ reply = reply_of (handle_frame H LTcp a0 (units f) fr0)).
    { intros E. inversion E; subst. exists fr, c, a. rewrite Eh. unfold log_of, reply_of. cbn.
      split; [reflexivity|]. split; [exact Ef|]. split; [exact Ep|]. split; [exact Ea|]. split; reflexivity. }
    destruct rp as [bytes|err|].
    + inversion Hs; subst. destruct Hin as [E|[]]. now apply Hhead.
    + destruct (track f _) as [[s' o']|] eqn:E; [|discriminate]. destruct (track_some _ _ _ _ E) as (tos & _ & ->).
      inversion Hs; subst. destruct Hin as [E2|Hin]; [now apply Hhead|]. exfalso; now apply (not_processed_in_track _ _ _ _ Hin).
    + destruct (track f _) as [[s' o']|] eqn:E; [|discriminate]. destruct (track_some _ _ _ _ E) as (tos & _ & ->).
      inversion Hs; subst. destruct Hin as [E2|Hin]; [now apply Hhead|]. exfalso; now apply (not_processed_in_track _ _ _ _ Hin).
Qed.

(* ------------------------------------------------------------------ every connection was admitted and, if served, established *)
Definition conn_ok (hist : list fevent) (c : conn) : Prop :=
  In (FAccept (c_addr c) (c_peer c)) hist /\ admits flt (c_addr c) /\
  (forall a, c_phase c = Serving a -> establish (c_peer c) = Some a).

Lemma conn_ok_mono hist e c : conn_ok hist c -> conn_ok (hist ++ [e]) c.
Proof. intros (A & B & C). split; [apply in_or_app; now left|]. auto. Qed.

Lemma conn_ok_rephase hist e c0 c' ph : conn_ok hist c0 -> c_addr c' = c_addr c0 -> c_peer c' = c_peer c0 -> c_phase c' = ph ->
  (forall a, ph = Serving a -> establish (c_peer c0) = Some a) -> conn_ok (hist ++ [e]) c'.
Proof.
  intros (A & B & _) Ea Ep Eph Hph. unfold conn_ok. rewrite Ea, Ep, Eph.
  split; [apply in_or_app; now left|]. split; [exact B|exact Hph].
Qed.

Lemma accept_ok_admits addr : existsb is_call_handle (on_accept accept_arm flt addr) = true -> admits flt addr.
Proof.
  intros E. apply existsb_exists in E. destruct E as (x & Hin & Hx).
  apply (gate_served_only_if_admitted flt addr x Hin). destruct x; try discriminate. reflexivity.
Qed.

Lemma step_conn_ok hist f e f' o : (forall c, In c (conns f) -> conn_ok hist c) -> fstep f e = Some (f', o) ->
  forall c, In c (conns f') -> conn_ok (hist ++ [e]) c.
Proof.
  intros Hinv. unfold ServerFront.fstep. destruct e as [addr pk|i|i fr|i|i| | |]; intros Hs c Hc.
  - (* FAccept *)
    destruct (track f _) as [[s' o']|] eqn:E; [|discriminate].
    destruct (existsb is_call_handle (on_accept accept_arm flt addr) && running (srv f)) eqn:Eok; inversion Hs; subst; cbn [conns] in Hc.
    + apply in_app_or in Hc. destruct Hc as [Hc|[Hc|[]]]; [now apply conn_ok_mono, Hinv|]. subst c.
      apply andb_prop in Eok. destruct Eok as [Eok _]. unfold conn_ok; cbn [c_addr c_peer c_phase].
      split; [apply in_or_app; right; now left|]. split; [now apply accept_ok_admits|].
      intros a. unfold ServerFront.establish. destruct tr; intros X; inversion X; reflexivity.
    + now apply conn_ok_mono, Hinv.
  - (* FHandshakeDone *)
    destruct (find_conn i (conns f)) as [c0|] eqn:Ef; [|inversion Hs; subst; now apply conn_ok_mono, Hinv].
    destruct (find_conn_in _ _ _ Ef) as [Hc0 _].
    destruct (c_phase c0); try (inversion Hs; subst; now apply conn_ok_mono, Hinv).
    destruct (c_peer c0) eqn:Ep; try (inversion Hs; subst; now apply conn_ok_mono, Hinv).
    + destruct (alive (srv f) i); [|inversion Hs; subst; now apply conn_ok_mono, Hinv].
      destruct (establish PeerPlain) as [a|] eqn:Ee.
      * inversion Hs; subst; cbn [conns] in Hc. destruct (set_phase_in _ _ _ _ Hc) as [Hi|(c1 & Ef1 & _ & Ea & Epp & Eph)]; [now apply conn_ok_mono, Hinv|].
        rewrite Ef in Ef1. inversion Ef1; subst c1. apply (conn_ok_rephase hist _ c0 c (Serving a)); auto.
        intros a0 X. inversion X; subst. now rewrite Ep.
      * destruct (track f _) as [[s' o']|] eqn:E; [|discriminate]. inversion Hs; subst; cbn [conns] in Hc.
        destruct (set_phase_in _ _ _ _ Hc) as [Hi|(c1 & Ef1 & _ & Ea & Epp & Eph)]; [now apply conn_ok_mono, Hinv|].
        rewrite Ef in Ef1. inversion Ef1; subst c1. apply (conn_ok_rephase hist _ c0 c Over); auto. intros a0 X; discriminate.
    + destruct (alive (srv f) i); [|inversion Hs; subst; now apply conn_ok_mono, Hinv].
      destruct (establish (PeerTls p)) as [a|] eqn:Ee.
      * inversion Hs; subst; cbn [conns] in Hc. destruct (set_phase_in _ _ _ _ Hc) as [Hi|(c1 & Ef1 & _ & Ea & Epp & Eph)]; [now apply conn_ok_mono, Hinv|].
        rewrite Ef in Ef1. inversion Ef1; subst c1. apply (conn_ok_rephase hist _ c0 c (Serving a)); auto.
        intros a0 X. inversion X; subst. now rewrite Ep.
      * destruct (track f _) as [[s' o']|] eqn:E; [|discriminate]. inversion Hs; subst; cbn [conns] in Hc.
        destruct (set_phase_in _ _ _ _ Hc) as [Hi|(c1 & Ef1 & _ & Ea & Epp & Eph)]; [now apply conn_ok_mono, Hinv|].
        rewrite Ef in Ef1. inversion Ef1; subst c1. apply (conn_ok_rephase hist _ c0 c Over); auto. intros a0 X; discriminate.
  - (* FFrame *)
    destruct (find_conn i (conns f)) as [c0|] eqn:Ef; [|inversion Hs; subst; now apply conn_ok_mono, Hinv].
    destruct (find_conn_in _ _ _ Ef) as [Hc0 _].
    destruct (c_phase c0); try (inversion Hs; subst; now apply conn_ok_mono, Hinv).
    destruct (alive (srv f) i); [|inversion Hs; subst; now apply conn_ok_mono, Hinv].
    destruct (handle_frame H LTcp a (units f) fr) as [[rp units'] lg].
    destruct rp as [bytes|err|].
    + inversion Hs; subst; cbn [conns] in Hc. now apply conn_ok_mono, Hinv.
    + destruct (track f _) as [[s' o']|] eqn:E; [|discriminate]. inversion Hs; subst; cbn [conns] in Hc.
      destruct (set_phase_in _ _ _ _ Hc) as [Hi|(c1 & Ef1 & _ & Ea & Epp & Eph)]; [now apply conn_ok_mono, Hinv|].
      rewrite Ef in Ef1. inversion Ef1; subst c1. apply (conn_ok_rephase hist _ c0 c Over); auto. intros a0 X; discriminate.
    + destruct (track f _) as [[s' o']|] eqn:E; [|discriminate]. inversion Hs; subst; cbn [conns] in Hc.
      destruct (set_phase_in _ _ _ _ Hc) as [Hi|(c1 & Ef1 & _ & Ea & Epp & Eph)]; [now apply conn_ok_mono, Hinv|].
      rewrite Ef in Ef1. inversion Ef1; subst c1. apply (conn_ok_rephase hist _ c0 c Over); auto. intros a0 X; discriminate.
  - (* FPeerGone *)
    destruct (track f _) as [[s' o']|] eqn:E; [|discriminate]. inversion Hs; subst; cbn [conns] in Hc.
    destruct (set_phase_in _ _ _ _ Hc) as [Hi|(c1 & Ef1 & _ & Ea & Epp & Eph)]; [now apply conn_ok_mono, Hinv|].
    destruct (find_conn_in _ _ _ Ef1) as [Hc1 _]. apply (conn_ok_rephase hist _ c1 c Over); auto. intros a0 X; discriminate.
  - destruct (track f _) as [[s' o']|] eqn:E; [|discriminate]. inversion Hs; subst. now apply conn_ok_mono, Hinv.
  - destruct (track f _) as [[s' o']|] eqn:E; [|discriminate]. inversion Hs; subst. now apply conn_ok_mono, Hinv.
  - destruct (track f _) as [[s' o']|] eqn:E; [|discriminate]. inversion Hs; subst. now apply conn_ok_mono, Hinv.
  - destruct (track f _) as [[s' o']|] eqn:E; [|discriminate]. inversion Hs; subst. now apply conn_ok_mono, Hinv.
Qed.

Lemma frun_inv m us evs : forall f o, frun (finit m us) evs = Some (f, o) -> forall c, In c (conns f) -> conn_ok evs c.
Proof.
  induction evs as [|e evs IH] using rev_ind; intros f o Hr c Hc.
  - cbn in Hr. inversion Hr; subst. destruct Hc.
  - rewrite frun_app in Hr. destruct (frun (finit m us) evs) as [[f1 o1]|] eqn:E1; [|discriminate].
    cbn [ServerFront.frun] in Hr. destruct (fstep f1 e) as [[f2 o2]|] eqn:E2; [|discriminate]. inversion Hr; subst.
    exact (step_conn_ok evs f1 e f o2 (IH f1 o1 eq_refl) E2 c Hc).
Qed.

Lemma frun_split evs : forall f0 f o x, frun f0 evs = Some (f, o) -> In x o ->
  exists evs1 e evs2 f1 o1 f2 o2, evs = evs1 ++ e :: evs2 /\ frun f0 evs1 = Some (f1, o1) /\ fstep f1 e = Some (f2, o2) /\ In x o2.
Proof.
  induction evs as [|e r IH]; intros f0 f o x Hr Hin; cbn [ServerFront.frun] in Hr.
  - inversion Hr; subst. destruct Hin.
  - destruct (fstep f0 e) as [[f1 o1]|] eqn:E1; [|discriminate].
    destruct (frun f1 r) as [[f2 o2]|] eqn:E2; [|discriminate]. inversion Hr; subst.
    apply in_app_or in Hin. destruct Hin as [Hin|Hin].
    + exists [], e, r, f0, [], f1, o1. repeat split; auto.
    + destruct (IH _ _ _ _ E2 Hin) as (evs1 & e' & evs2 & g1 & p1 & g2 & p2 & -> & R1 & S & Hx).
      exists (e :: evs1), e', evs2, g1, (o1 ++ p1), g2, p2. split; [reflexivity|]. split; [|auto].
      cbn [ServerFront.frun]. rewrite E1, R1. reflexivity.
Qed.

(* what `establish` means in terms of the C09 admission Spec *)
Lemma establish_spec pk a : establish pk = Some a ->
  match tr with
  | PlainTcp => a = NoAuth
  | TlsTransport min mode authz =>
      exists p v role, pk = PeerTls p /\
        expected (endpoint_of ServerSide min mode (is_some authz) false) p = Established v role /\
        a = match authz, role with Some pol, Some r => AuthHandler pol (bytes_of_string r) | _, _ => NoAuth end
  end.
Proof.
  unfold ServerFront.establish. destruct tr as [|min mode authz]; [intros X; inversion X; reflexivity|].
  destruct pk as [| |p]; try discriminate.
  rewrite admission. destruct (expected _ p) as [v role|] eqn:E; [|discriminate].
  intros X. exists p, v, role. split; [reflexivity|]. split; [exact E|].
  destruct authz as [pol|], role as [r|]; inversion X; reflexivity.
Qed.

(* Front_served (only if): a frame of connection id is processed only if the connection was accepted
   from an address the filter admits and its establishment succeeded (plain TCP, or a handshake the
   C09 admission Spec accepts) *)
Lemma front_served_only_if m us evs f o id log reply :
  frun (finit m us) evs = Some (f, o) -> In (Processed id log reply) o ->
  exists addr pk a, In (FAccept addr pk) evs /\ admits flt addr /\ establish pk = Some a.
Proof.
  intros Hr Hin. destruct (frun_split _ _ _ _ _ Hr Hin) as (evs1 & e & evs2 & f1 & o1 & f2 & o2 & -> & R1 & S & Hx).
  destruct (processed_origin _ _ _ _ _ _ _ S Hx) as (fr & c & a & -> & Ef & Eph & Ea & _ & _).
  destruct (find_conn_in _ _ _ Ef) as [Hc _].
  destruct (frun_inv m us evs1 f1 o1 R1 c Hc) as (A & B & C).
  exists (c_addr c), (c_peer c), a. split; [apply in_or_app; now left|]. split; [exact B|now apply C].
Qed.

(* Front_served (step level, iff): exactly the frames of connections that are being served and are
   running sessions of the tracker (not evicted, not shut down) are processed *)
Lemma front_served_step f id fr f' o : fstep f (FFrame id fr) = Some (f', o) ->
  ((exists log reply, In (Processed id log reply) o) <->
   (alive (srv f) id = true /\ exists c a, find_conn id (conns f) = Some c /\ c_phase c = Serving a)).
Proof.
  intros Hs. split.
  - intros (log & reply & Hin). destruct (processed_origin _ _ _ _ _ _ _ Hs Hin) as (fr0 & c & a & _ & Ef & Eph & Ea & _).
    split; [exact Ea|]. now exists c, a.
  - intros (Ea & c & a & Ef & Eph). unfold ServerFront.fstep in Hs. rewrite Ef, Eph, Ea in Hs.
    destruct (handle_frame H LTcp a (units f) fr) as [[rp units'] lg]. exists lg, rp.
    destruct rp as [bytes|err|].
    + inversion Hs; subst. now left.
    + destruct (track f _) as [[s' o']|]; [|discriminate]. inversion Hs; subst. now left.
    + destruct (track f _) as [[s' o']|]; [|discriminate]. inversion Hs; subst. now left.
Qed.

(* ------------------------------------------------------------------ the role of every authorization query *)
Lemma ref_auth_events l a us fr :
  auth_events (log_of (ref_handle_frame H l a us fr)) =
  match decode (f_pdu fr) with Valid _ r => snd (authorize a (dest_value (f_dest fr)) r) | _ => [] end.
Proof.
  unfold ref_handle_frame, log_of. destruct (decode (f_pdu fr)) as [|fc|fc|fc r]; try reflexivity.
  pose proof (authorize_log a (dest_value (f_dest fr)) r) as [_ HA].
  destruct (authorize a (dest_value (f_dest fr)) r) as [ok alog]. cbn [fst snd] in *.
  destruct ok; cbn [negb snd]; [|exact HA].
  destruct (f_dest fr) as [u|].
  - destruct (lookup u (u_map us)) as [h|]; [|exact HA].
    pose proof (ref_exec_log H fc h (u_store us h) r) as L. unfold log_of in L.
    destruct (ref_exec H fc h (u_store us h) r) as [[st' pdu] lg]. cbn [snd] in *. subst lg.
    rewrite auth_events_app, HA. rewrite (no_auth_auth_events (if is_write r then write_call h r else read_calls H h (u_store us h) r)); [apply app_nil_r|].
    destruct (is_write r); [apply write_call_no_auth|apply read_calls_no_auth].
  - destruct (is_write r); [|exact HA].
    pose proof (apply_all_log H r (u_map us) (u_store us)) as L.
    destruct (apply_all H (u_map us) (u_store us) r) as [g' lg]. cbn [snd] in *. subst lg.
    rewrite auth_events_app, HA. rewrite no_auth_auth_events; [apply app_nil_r|apply flat_map_no_auth].
Qed.

Lemma auth_role_of_frame a us fr k u arg r : frame_ok LTcp fr ->
  In (EvAuth k u arg r) (log_of (handle_frame H LTcp a us fr)) -> exists pol, a = AuthHandler pol r.
Proof.
  intros Hok Hin. rewrite (handle_frame_refines H LTcp a us fr Hok) in Hin. rewrite lift3_log in Hin.
  assert (Ha : In (EvAuth k u arg r) (auth_events (log_of (ref_handle_frame H LTcp a us fr)))).
  { unfold auth_events. apply filter_In. split; [exact Hin|reflexivity]. }
  rewrite ref_auth_events in Ha. destruct (decode (f_pdu fr)) as [|fc|fc|fc rq]; try destruct Ha.
  destruct a as [|pol role]; cbn in Ha; [destruct Ha|]. destruct Ha as [E|[]]. inversion E; subst. now exists pol.
Qed.

Definition frames_ok (evs : list fevent) : Prop :=
  forall id fr, In (FFrame id fr) evs -> frame_ok LTcp fr.

(* Front_role: every authorization query made on behalf of a connection carries exactly the role its
   handshake extracted from the presented certificate (and there are queries only in authorization mode) *)
Lemma front_role m us evs f o id log reply k u arg r :
  frames_ok evs -> frun (finit m us) evs = Some (f, o) -> In (Processed id log reply) o -> In (EvAuth k u arg r) log ->
  exists min mode pol addr p v role,
    tr = TlsTransport min mode (Some pol) /\ In (FAccept addr (PeerTls p)) evs /\ admits flt addr /\
    expected (endpoint_of ServerSide min mode true false) p = Established v (Some role) /\ r = bytes_of_string role.
Proof.
  intros Hfr Hr Hin Hev. destruct (frun_split _ _ _ _ _ Hr Hin) as (evs1 & e & evs2 & f1 & o1 & f2 & o2 & -> & R1 & S & Hx).
  destruct (processed_origin _ _ _ _ _ _ _ S Hx) as (fr & c & a & -> & Ef & Eph & Ea & -> & _).
  assert (Hok : frame_ok LTcp fr) by (apply (Hfr id fr); apply in_or_app; right; now left).
  destruct (auth_role_of_frame a (units f1) fr k u arg r Hok Hev) as (pol & ->).
  destruct (find_conn_in _ _ _ Ef) as [Hc _].
  destruct (frun_inv m us evs1 f1 o1 R1 c Hc) as (A & B & C).
  pose proof (establish_spec _ _ (C _ Eph)) as Hs. destruct tr as [|min mode authz]; [discriminate|].
  destruct Hs as (p & v & role & Ep & Ex & Eauth).
  destruct authz as [pol'|]; [|discriminate]. destruct role as [rs|]; [|discriminate]. inversion Eauth; subst.
  exists min, mode, pol', (c_addr c), p, v, rs. rewrite Ep in A.
  split; [reflexivity|]. split; [apply in_or_app; now left|]. split; [exact B|]. split; [exact Ex|reflexivity].
Qed.

(* ------------------------------------------------------------------ Front_shutdown *)
Lemma stopped_srv_stays evs : forall f f' o, running (srv f) = false -> frun f evs = Some (f', o) -> srv f' = srv f.
Proof.
  induction evs as [|e r IH]; intros f f' o Hstop Hr; cbn [ServerFront.frun] in Hr; [inversion Hr; reflexivity|].
  destruct (fstep f e) as [[f1 o1]|] eqn:E1; [|discriminate].
  destruct (frun f1 r) as [[f2 o2]|] eqn:E2; [|discriminate]. inversion Hr; subst.
  destruct (fstep_projects _ _ _ _ E1) as (t1 & R1). rewrite (stopped_stays (srv f) _ Hstop) in R1. inversion R1.
  rewrite (IH f1 f' o2); [congruence| congruence |exact E2].
Qed.

Lemma front_shutdown m us evs f o : frun (finit m us) evs = Some (f, o) -> running (srv f) = false ->
  (forall id, alive (srv f) id = false) /\
  forall evs' f' o', frun f evs' = Some (f', o') -> forall id log reply, ~ In (Processed id log reply) o'.
Proof.
  intros Hr Hstop. destruct (frun_projects _ _ _ _ Hr) as (tevs & tos & R). cbn [finit srv] in R.
  destruct (after_stop m tevs (srv f) tos R Hstop) as [_ Hdead]. split; [exact Hdead|].
  intros evs' f' o' Hr' id log reply Hin.
  destruct (frun_split _ _ _ _ _ Hr' Hin) as (evs1 & e & evs2 & f1 & o1 & f2 & o2 & _ & R1 & S & Hx).
  destruct (processed_origin _ _ _ _ _ _ _ S Hx) as (fr & c & a & _ & _ & _ & Ea & _).
  rewrite (stopped_srv_stays _ _ _ _ Hstop R1), Hdead in Ea. discriminate.
Qed.

(* the stop itself: Shutdown / HandleDropped in a running front-end closes every running session *)
Lemma front_stop_closes f e f' o : running (srv f) = true -> (e = FShutdown \/ e = FHandleDropped) -> fstep f e = Some (f', o) ->
  running (srv f') = false /\ (forall id, alive (srv f') id = false) /\
  (forall id, alive (srv f) id = true -> In (Track (Closed id)) o) /\ In (Track ListenerClosed) o.
Proof.
  intros Hrun He Hs. unfold ServerFront.fstep in Hs.
  assert (X : exists te, (te = Tracker.Shutdown \/ te = Tracker.HandleDropped) /\
              match track f [te] with Some (s', o0) => Some ({| srv := s'; conns := conns f; units := units f |}, o0) | None => None end = Some (f', o)).
  { destruct He as [-> | ->]; [exists Tracker.Shutdown|exists Tracker.HandleDropped]; auto. }
  destruct X as (te & Hte & Hs'). destruct (track f [te]) as [[s' o0]|] eqn:E; [|discriminate].
  destruct (track_some _ _ _ _ E) as (tos & Er & ->). inversion Hs'; subst. cbn [srv].
  cbn [Tracker.run] in Er. destruct (Tracker.step (srv f) te) as [[s1 t1]|] eqn:Es; [|discriminate]. inversion Er; subst.
  destruct (shutdown_closes_all (srv f) te s' t1 Hrun Hte Es) as (A & _ & C & D & Ee & _).
  split; [exact A|]. split; [exact C|]. rewrite app_nil_r. split.
  - intros id Hal. apply in_map. now apply D.
  - now apply in_map.
Qed.

(* ------------------------------------------------------------------ the "if" direction: admitted, valid peers do get served *)
Lemma find_set_phase id ph cs c : find_conn id cs = Some c ->
  find_conn id (set_phase id ph cs) = Some {| c_id := c_id c; c_addr := c_addr c; c_peer := c_peer c; c_phase := ph |}.
Proof.
  induction cs as [|x r IH]; cbn [find_conn set_phase]; [discriminate|].
  destruct (N.eqb_spec (c_id x) id) as [E|E].
  - intros X; inversion X; subst. cbn [find_conn c_id]. now rewrite N.eqb_refl.
  - intros X. cbn [find_conn]. destruct (N.eqb_spec (c_id x) id); [contradiction|]. now apply IH.
Qed.

Lemma find_conn_app_new id cs c : (forall x, In x cs -> c_id x <> id) -> c_id c = id -> find_conn id (cs ++ [c]) = Some c.
Proof.
  intros Hno Hid. induction cs as [|x r IH]; cbn [app find_conn].
  - subst. now rewrite N.eqb_refl.
  - destruct (N.eqb_spec (c_id x) id) as [E|E]; [exfalso; apply (Hno x); [now left|exact E]|].
    apply IH. intros y Hy. apply Hno. now right.
Qed.

(* connection ids are the tracker's ids: always below the tracker's next id *)
Definition ids_below (f : front (St := St)) : Prop := forall c, In c (conns f) -> c_id c < next_id (trk (srv f)).

Lemma tracker_next_id_mono s evs s' o : Tracker.run s evs = Some (s', o) -> next_id (trk s) <= next_id (trk s').
Proof. intros R. rewrite (run_next_id _ _ _ _ R). lia. Qed.

Lemma set_phase_ids id ph cs c' : In c' (set_phase id ph cs) -> exists c0, In c0 cs /\ c_id c' = c_id c0.
Proof.
  intros Hin. destruct (set_phase_in _ _ _ _ Hin) as [Hi|(c0 & Ef & Eid & _)]; [now exists c'|].
  destruct (find_conn_in _ _ _ Ef) as [Hc0 _]. now exists c0.
Qed.

Lemma step_ids_below f e f' o : ids_below f -> fstep f e = Some (f', o) -> ids_below f'.
Proof.
  intros Hinv Hs. destruct (fstep_projects _ _ _ _ Hs) as (tos & R). pose proof (tracker_next_id_mono _ _ _ _ R) as Hmono.
  unfold ids_below in *. unfold ServerFront.fstep in Hs. destruct e as [addr pk|i|i fr|i|i| | |].
  - destruct (track f _) as [[s' o']|] eqn:E; [|discriminate]. destruct (track_some _ _ _ _ E) as (t1 & Er & _).
    destruct (existsb is_call_handle (on_accept accept_arm flt addr) && running (srv f)) eqn:Eok; inversion Hs; subst; cbn [conns srv] in *.
    + intros c Hc. apply in_app_or in Hc. destruct Hc as [Hc|[Hc|[]]]; [specialize (Hinv c Hc); lia|]. subst c. cbn [c_id].
      apply andb_prop in Eok. destruct Eok as [Eh Erun]. rewrite Eh in Er. cbn [Tracker.run] in Er.
      destruct (Tracker.step (srv f) (Accept true)) as [[s1 u1]|] eqn:Es; [|discriminate]. inversion Er; subst.
      rewrite (step_next_id _ _ _ _ Es), Erun. lia.
    + intros c Hc. specialize (Hinv c Hc). lia.
  - destruct (find_conn i (conns f)) as [c0|]; [|inversion Hs; subst; exact Hinv].
    destruct (c_phase c0); try (inversion Hs; subst; exact Hinv).
    destruct (c_peer c0); try (inversion Hs; subst; exact Hinv).
    + destruct (alive (srv f) i); [|inversion Hs; subst; exact Hinv].
      destruct (establish PeerPlain).
      * inversion Hs; subst; cbn [conns srv] in *. intros c Hc. destruct (set_phase_ids _ _ _ _ Hc) as (c1 & H1 & ->). now apply Hinv.
      * destruct (track f _) as [[s' o']|]; [|discriminate]. inversion Hs; subst; cbn [conns srv] in *.
        intros c Hc. destruct (set_phase_ids _ _ _ _ Hc) as (c1 & H1 & ->). specialize (Hinv c1 H1). lia.
    + destruct (alive (srv f) i); [|inversion Hs; subst; exact Hinv].
      destruct (establish (PeerTls p)).
      * inversion Hs; subst; cbn [conns srv] in *. intros c Hc. destruct (set_phase_ids _ _ _ _ Hc) as (c1 & H1 & ->). now apply Hinv.
      * destruct (track f _) as [[s' o']|]; [|discriminate]. inversion Hs; subst; cbn [conns srv] in *.
        intros c Hc. destruct (set_phase_ids _ _ _ _ Hc) as (c1 & H1 & ->). specialize (Hinv c1 H1). lia.
  - destruct (find_conn i (conns f)) as [c0|]; [|inversion Hs; subst; exact Hinv].
    destruct (c_phase c0); try (inversion Hs; subst; exact Hinv).
    destruct (alive (srv f) i); [|inversion Hs; subst; exact Hinv].
    destruct (handle_frame H LTcp a (units f) fr) as [[rp units'] lg]. destruct rp.
    + inversion Hs; subst; cbn [conns srv] in *. exact Hinv.
    + destruct (track f _) as [[s' o']|]; [|discriminate]. inversion Hs; subst; cbn [conns srv] in *.
      intros c Hc. destruct (set_phase_ids _ _ _ _ Hc) as (c1 & H1 & ->). specialize (Hinv c1 H1). lia.
    + destruct (track f _) as [[s' o']|]; [|discriminate]. inversion Hs; subst; cbn [conns srv] in *.
      intros c Hc. destruct (set_phase_ids _ _ _ _ Hc) as (c1 & H1 & ->). specialize (Hinv c1 H1). lia.
  - destruct (track f _) as [[s' o']|]; [|discriminate]. inversion Hs; subst; cbn [conns srv] in *.
    intros c Hc. destruct (set_phase_ids _ _ _ _ Hc) as (c1 & H1 & ->). specialize (Hinv c1 H1). lia.
  - destruct (track f _) as [[s' o']|]; [|discriminate]. inversion Hs; subst; cbn [conns srv] in *. intros c Hc. specialize (Hinv c Hc). lia.
  - destruct (track f _) as [[s' o']|]; [|discriminate]. inversion Hs; subst; cbn [conns srv] in *. intros c Hc. specialize (Hinv c Hc). lia.
  - destruct (track f _) as [[s' o']|]; [|discriminate]. inversion Hs; subst; cbn [conns srv] in *. intros c Hc. specialize (Hinv c Hc). lia.
  - destruct (track f _) as [[s' o']|]; [|discriminate]. inversion Hs; subst; cbn [conns srv] in *. intros c Hc. specialize (Hinv c Hc). lia.
Qed.

Lemma frun_ids_below evs : forall f f' o, ids_below f -> frun f evs = Some (f', o) -> ids_below f'.
Proof.
  induction evs as [|e r IH]; intros f f' o Hinv Hr; cbn [ServerFront.frun] in Hr; [inversion Hr; subst; exact Hinv|].
  destruct (fstep f e) as [[f1 o1]|] eqn:E1; [|discriminate].
  destruct (frun f1 r) as [[f2 o2]|] eqn:E2; [|discriminate]. inversion Hr; subst.
  exact (IH _ _ _ (step_ids_below _ _ _ _ Hinv E1) E2).
Qed.

(* a connection from an admitted address arriving while the server runs gets a session of its own
   (also at the limit), waiting in the handshake (TLS) or served at once (plain TCP) *)
Lemma front_accept_admitted m us evs f o addr pk f' o' :
  frun (finit m us) evs = Some (f, o) -> running (srv f) = true -> admits flt addr ->
  fstep f (FAccept addr pk) = Some (f', o') ->
  let id := next_id (trk (srv f)) in
  alive (srv f') id = true /\
  find_conn id (conns f') = Some {| c_id := id; c_addr := addr; c_peer := pk;
                                    c_phase := match tr with PlainTcp => Serving NoAuth | TlsTransport _ _ _ => Handshaking end |}.
Proof.
  intros Hr Hrun Hadm Hs. cbv zeta.
  assert (Hok : existsb is_call_handle (on_accept accept_arm flt addr) = true).
  { apply existsb_exists. exists CallHandle. split; [now apply gate_admitted_is_handled|reflexivity]. }
  assert (Hbelow : ids_below f) by (apply (frun_ids_below evs (finit m us) f o); [intros c []|exact Hr]).
  destruct (frun_projects _ _ _ _ Hr) as (tevs & tos & R). cbn [finit srv] in R.
  unfold ServerFront.fstep in Hs. rewrite Hok, Hrun in Hs. cbn [andb] in Hs.
  destruct (track f _) as [[s' t']|] eqn:E; [|discriminate]. destruct (track_some _ _ _ _ E) as (t1 & Er & _).
  inversion Hs; subst. cbn [srv conns]. cbn [Tracker.run] in Er.
  destruct (Tracker.step (srv f) (Accept true)) as [[s1 u1]|] eqn:Es; [|discriminate]. inversion Er; subst.
  destruct (accept_spawns m tevs (srv f) tos s' u1 R Hrun Es) as (_ & Hal & _). split; [exact Hal|].
  apply find_conn_app_new; [|reflexivity]. intros x Hx E2. specialize (Hbelow x Hx). lia.
Qed.

(* when the handshake of such a connection completes while it is still a running session, and the C09
   admission Spec accepts the peer, the connection is served from then on with exactly that authorization *)
Lemma front_handshake_establishes f id c a f' o :
  find_conn id (conns f) = Some c -> c_phase c = Handshaking -> c_peer c <> PeerSilent -> alive (srv f) id = true ->
  establish (c_peer c) = Some a -> fstep f (FHandshakeDone id) = Some (f', o) ->
  srv f' = srv f /\ find_conn id (conns f') = Some {| c_id := c_id c; c_addr := c_addr c; c_peer := c_peer c; c_phase := Serving a |}.
Proof.
  intros Ef Eph Hns Hal Hest Hs. unfold ServerFront.fstep in Hs. rewrite Ef, Eph, Hal in Hs.
  destruct (c_peer c) eqn:Ep; [| contradiction |]; rewrite Hest in Hs; inversion Hs; subst; cbn [srv conns];
    (split; [reflexivity|]); rewrite (find_set_phase _ _ _ _ Ef), Ep; reflexivity.
Qed.

End Front.
