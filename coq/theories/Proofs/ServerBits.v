(* Bit packing and the reply / iterator loops of the server model against their Spec forms:
   the BitWriter accumulator loop = pack, the RegisterWriter loop = flat_map be, the BitIterator /
   RegisterIterator drained by a handler = indexed start (bits_of / regs_of). Includes: replies
   never overflow the writer when there is room for them, start + i never overflows inside a
   validated range. *)
From Coq Require Import NArith List Lia Bool Arith ZArith ZifyBool ZifyNat ZifyN.
From Rodbus Require Import Base.Outcome Base.Cursor Base.ServerTypes Model.Server Spec.Modbus Proofs.ServerFormat.
Import ListNotations.
Ltac Zify.zify_post_hook ::= Z.div_mod_to_equations.
Local Open Scope N_scope.
Arguments N.add : simpl never. Arguments N.sub : simpl never. Arguments N.mul : simpl never.
Arguments N.eqb : simpl never. Arguments N.ltb : simpl never. Arguments N.leb : simpl never.
Arguments N.div : simpl never. Arguments N.modulo : simpl never. Arguments N.pow : simpl never.
Arguments N.shiftl : simpl never. Arguments N.lor : simpl never. Arguments N.land : simpl never.
Arguments N.testbit : simpl never. Arguments N.of_nat : simpl never.

(* ---------------------------------------------------------------- bit arithmetic *)
Lemma testbit_small a n m : a < 2 ^ n -> n <= m -> N.testbit a m = false.
Proof.
  intros Ha Hnm. rewrite N.testbit_eqb. rewrite N.div_small; [reflexivity|].
  eapply N.lt_le_trans; [exact Ha|]. apply N.pow_le_mono_r; lia.
Qed.

Lemma lor_pow_add acc i : N.testbit acc i = false -> N.lor acc (N.shiftl 1 i) = acc + 2 ^ i.
Proof.
  intros H. rewrite N.shiftl_1_l. rewrite <- N.lxor_lor, <- N.add_nocarry_lxor; auto;
  apply N.bits_inj; intros n; rewrite N.land_spec, N.pow2_bits_eqb, N.bits_0;
  destruct (N.eqb_spec i n) as [->|]; rewrite ?H, ?andb_false_r; reflexivity.
Qed.

Lemma land_bit v k : negb (N.land v (N.shiftl 1 k) =? 0) = N.testbit v k.
Proof.
  rewrite N.shiftl_1_l. destruct (N.testbit v k) eqn:E.
  - destruct (N.eqb_spec (N.land v (2 ^ k)) 0) as [H|]; [|reflexivity].
    assert (T : N.testbit (N.land v (2 ^ k)) k = true) by (rewrite N.land_spec, E, N.pow2_bits_eqb, N.eqb_refl; reflexivity).
    rewrite H, N.bits_0 in T. discriminate.
  - replace (N.land v (2 ^ k)) with 0; [reflexivity|]. symmetry. apply N.bits_inj. intros n.
    rewrite N.land_spec, N.pow2_bits_eqb, N.bits_0. destruct (N.eqb_spec k n) as [->|]; rewrite ?E, ?andb_false_r; reflexivity.
Qed.

Lemma lor_shift8 h l : l < 256 -> N.lor (N.shiftl h 8) l = h * 256 + l.
Proof.
  intros Hl. rewrite N.shiftl_mul_pow2. change (2 ^ 8) with 256.
  assert (Z : N.land (h * 256) l = 0).
  { apply N.bits_inj. intros n. rewrite N.land_spec, N.bits_0. destruct (N.ltb_spec n 8).
    - change 256 with (2 ^ 8). rewrite N.mul_pow2_bits_low by assumption. reflexivity.
    - rewrite (testbit_small l 8 n) by (try assumption; change (2 ^ 8) with 256; lia). apply andb_false_r. }
  rewrite <- N.lxor_lor, <- N.add_nocarry_lxor by assumption. reflexivity.
Qed.

(* ---------------------------------------------------------------- byte_of / pack *)
Lemma byte_of_snoc pre b : byte_of (pre ++ [b]) = byte_of pre + N.b2n b * 2 ^ N.of_nat (length pre).
Proof.
  induction pre as [|x pre IH]; cbn [byte_of app length].
  - change (N.of_nat 0) with 0. rewrite N.pow_0_r. lia.
  - rewrite IH, Nat2N.inj_succ, N.pow_succ_r'. set (p := 2 ^ N.of_nat (length pre)). destruct b, x; cbn [N.b2n]; lia.
Qed.

Lemma byte_of_lt pre : byte_of pre < 2 ^ N.of_nat (length pre).
Proof.
  induction pre as [|x pre IH]; cbn [byte_of length].
  - change (N.of_nat 0) with 0. rewrite N.pow_0_r. lia.
  - rewrite Nat2N.inj_succ, N.pow_succ_r'. set (p := 2 ^ N.of_nat (length pre)) in *. destruct x; cbn [N.b2n]; lia.
Qed.

(* the accumulator update of the BitWriter loop *)
Lemma acc_update (pre : list bool) (b : bool) :
  (if b then N.lor (byte_of pre) (N.shiftl 1 (N.of_nat (length pre))) else byte_of pre) = byte_of (pre ++ [b]).
Proof.
  rewrite byte_of_snoc. destruct b; cbn [N.b2n]; [|lia].
  rewrite lor_pow_add; [lia|]. apply (testbit_small _ (N.of_nat (length pre))); [apply byte_of_lt|lia].
Qed.

Lemma pack_fuel_indep : forall f1 f2 bits, (length bits <= f1)%nat -> (length bits <= f2)%nat -> pack_fuel f1 bits = pack_fuel f2 bits.
Proof.
  induction f1 as [|f1 IH]; intros f2 bits H1 H2.
  - destruct bits; [destruct f2; reflexivity|cbn [length] in H1; lia].
  - destruct bits as [|b r]; [destruct f2; reflexivity|].
    destruct f2 as [|f2]; [cbn [length] in H2; lia|]. cbn [pack_fuel]. f_equal.
    apply IH; rewrite skipn_length; cbn [length] in *; lia.
Qed.

Lemma pack_fuel_S f b r : pack_fuel (S f) (b :: r) = byte_of (firstn 8 (b :: r)) :: pack_fuel f (skipn 8 (b :: r)).
Proof. reflexivity. Qed.

Lemma pack_nil : pack [] = [].
Proof. reflexivity. Qed.

Lemma pack_short pre : (0 < length pre <= 8)%nat -> pack pre = [byte_of pre].
Proof.
  intros H. unfold pack. destruct pre as [|b r]; [cbn [length] in H; lia|]. cbn [length pack_fuel].
  rewrite firstn_all2 by (cbn [length] in *; lia). rewrite skipn_all2 by (cbn [length] in *; lia).
  destruct (length r); reflexivity.
Qed.

Lemma pack_chunk c rest : length c = 8%nat -> pack (c ++ rest) = byte_of c :: pack rest.
Proof.
  intros Hc. unfold pack. rewrite app_length, Hc.
  destruct c as [|b c']; [discriminate|]. change (8 + length rest)%nat with (S (7 + length rest)).
  change ((b :: c') ++ rest) with (b :: (c' ++ rest)). rewrite pack_fuel_S.
  change (b :: c' ++ rest) with ((b :: c') ++ rest).
  rewrite firstn_app, skipn_app, Hc, Nat.sub_diag.
  rewrite (firstn_all2 (n := 8) (b :: c')) by lia. rewrite (skipn_all2 (n := 8) (b :: c')) by lia.
  rewrite firstn_O, skipn_O, app_nil_r. cbn [app]. f_equal.
  apply pack_fuel_indep; lia.
Qed.

Lemma pack_fuel_length : forall fuel bits, (length bits <= fuel)%nat -> length (pack_fuel fuel bits) = ((length bits + 7) / 8)%nat.
Proof.
  induction fuel as [|fuel IH]; intros bits H.
  - destruct bits; [reflexivity|cbn [length] in H; lia].
  - destruct bits as [|b r]; [reflexivity|]. cbn [pack_fuel length]. rewrite IH by (rewrite skipn_length; cbn [length] in *; lia).
    rewrite skipn_length. cbn [length]. lia.
Qed.
Lemma pack_length bits : length (pack bits) = ((length bits + 7) / 8)%nat.
Proof. apply pack_fuel_length. lia. Qed.

(* ---------------------------------------------------------------- address iteration inside a validated range *)
Lemma addr_next_in cur n : cur + N.of_nat (S n) <= 65536 -> addr_next cur + N.of_nat n <= 65536.
Proof. unfold addr_next. intros H. rewrite Nat2N.inj_succ in H. lia. Qed.

Lemma read_seq_next {A} (get : N -> A + N) mk cur n : cur + N.of_nat (S n) <= 65536 ->
  read_seq get mk (addr_next cur) n = read_seq get mk (cur + 1) n.
Proof.
  intros H. destruct n as [|n]; [reflexivity|]. unfold addr_next. rewrite N.mod_small; [reflexivity|].
  rewrite !Nat2N.inj_succ in H. lia.
Qed.

Lemma read_seq_length {A} (get : N -> A + N) mk : forall n cur vs l, read_seq get mk cur n = (inl vs, l) -> length vs = n.
Proof.
  induction n as [|n IH]; intros cur vs l; cbn [read_seq].
  - intros E; inversion E; reflexivity.
  - destruct (get cur); [|discriminate]. destruct (read_seq get mk (cur + 1) n) as [[vs'|ex] l'] eqn:E; [|discriminate].
    intros E2; inversion E2; subst. cbn [length]. f_equal. eapply IH; eauto.
Qed.

(* ---------------------------------------------------------------- the BitWriter loop *)
Lemma bit_loop_spec get mk : forall n pre cur w log,
  (length pre < 8)%nat -> cur + N.of_nat n <= 65536 ->
  (length (w_out w) + (length pre + n + 7) / 8 <= w_cap w)%nat ->
  bit_loop get mk n cur (byte_of pre) (N.of_nat (length pre)) w log =
    match read_seq get mk cur n with
    | (inl vs, l) => (Ok (wapp w (pack (pre ++ vs))), log ++ l)
    | (inr ex, l) => (Err (EExc ex), log ++ l)
    end.
Proof.
  induction n as [|n IH]; intros pre cur w log Hpre Hcur Hroom; cbn [bit_loop read_seq].
  - rewrite !app_nil_r. destruct pre as [|b r].
    + cbn [length]. change (N.of_nat 0) with 0. cbn. rewrite wapp_nil. reflexivity.
    + destruct (N.ltb_spec 0 (N.of_nat (length (b :: r)))) as [_|H]; [|cbn [length] in H; lia].
      rewrite wr_u8_ok by (cbn [length] in *; lia). cbn [wr of_option]. rewrite pack_short by (cbn [length] in *; lia). reflexivity.
  - destruct (get cur) as [b|ex]; [|reflexivity].
    destruct (N.leb_spec 8 (N.of_nat (length pre))) as [H|_]; [lia|].
    rewrite acc_update.
    destruct (N.eqb_spec (N.of_nat (length pre) + 1) 8) as [H8|H8].
    + assert (L8 : length (pre ++ [b]) = 8%nat) by (rewrite app_length; cbn [length]; lia).
      rewrite wr_u8_ok by lia.
      change 0 with (byte_of []) at 1. change 0 with (N.of_nat (length (@nil bool))).
      rewrite IH; [| cbn [length]; lia | apply addr_next_in; assumption | unfold wapp; cbn [w_out w_cap length]; rewrite app_length; cbn [length]; lia ].
      rewrite read_seq_next by assumption.
      destruct (read_seq get mk (cur + 1) n) as [[vs|ex] l]; rewrite <- !app_assoc; cbn [app]; [|reflexivity].
      rewrite wapp_app. replace (pre ++ b :: vs) with ((pre ++ [b]) ++ vs) by (rewrite <- app_assoc; reflexivity).
      rewrite pack_chunk by assumption. reflexivity.
    + replace (N.of_nat (length pre) + 1) with (N.of_nat (length (pre ++ [b]))) by (rewrite app_length; cbn [length]; lia).
      rewrite IH; [| rewrite app_length; cbn [length]; lia | apply addr_next_in; assumption | rewrite app_length; cbn [length]; lia ].
      rewrite read_seq_next by assumption.
      destruct (read_seq get mk (cur + 1) n) as [[vs|ex] l]; rewrite <- !app_assoc; cbn [app]; reflexivity.
Qed.

(* ---------------------------------------------------------------- the RegisterWriter loop *)
Lemma reg_loop_spec get mk : forall n cur w log,
  cur + N.of_nat n <= 65536 -> (length (w_out w) + 2 * n <= w_cap w)%nat ->
  reg_loop get mk n cur w log =
    match read_seq get mk cur n with
    | (inl vs, l) => (Ok (wapp w (flat_map be vs)), log ++ l)
    | (inr ex, l) => (Err (EExc ex), log ++ l)
    end.
Proof.
  induction n as [|n IH]; intros cur w log Hcur Hroom; cbn [reg_loop read_seq].
  - cbn [flat_map]. rewrite wapp_nil, app_nil_r. reflexivity.
  - destruct (get cur) as [v|ex]; [|reflexivity].
    rewrite wr_u16_be_ok by lia.
    rewrite IH; [| apply addr_next_in; assumption | unfold wapp; cbn [w_out w_cap]; rewrite app_length; cbn [length Cursor.be16]; lia ].
    rewrite read_seq_next by assumption.
    destruct (read_seq get mk (cur + 1) n) as [[vs|ex] l]; rewrite <- !app_assoc; cbn [app]; [|reflexivity].
    rewrite wapp_app. reflexivity.
Qed.

(* ---------------------------------------------------------------- iterators handed to write-multiple handlers *)
Lemma indexed_length {A} (vs : list A) : forall s, length (indexed s vs) = length vs.
Proof. induction vs; intros; cbn [indexed length]; auto. Qed.

Definition bit_at (bytes : list N) (k : nat) : bool := N.testbit (nth (k / 8) bytes 0) (N.of_nat (k mod 8)).

Lemma bit_collect s n bytes : s + n <= 65536 -> length bytes = N.to_nat ((n + 7) / 8) ->
  forall fuel k, (k <= N.to_nat n)%nat -> (N.to_nat n - k < fuel)%nat ->
  iter_collect (bit_iter_next bytes (s, n)) fuel (N.of_nat k) =
    Ok (indexed (s + N.of_nat k) (map (bit_at bytes) (seq k (N.to_nat n - k)))).
Proof.
  intros Hs Hlen. induction fuel as [|fuel IH]; intros k Hk Hf; [lia|].
  cbn [iter_collect]. unfold bit_iter_next at 1. cbn [fst snd].
  destruct (N.eqb_spec (N.of_nat k) n) as [E|E].
  - replace (N.to_nat n - k)%nat with 0%nat by lia. reflexivity.
  - assert (Hlt : (k < N.to_nat n)%nat) by lia.
    replace (N.to_nat (N.of_nat k / 8)) with (k / 8)%nat by lia.
    rewrite (nth_error_nth' bytes 0) by (rewrite Hlen; lia).
    destruct (N.ltb_spec 65535 (s + N.of_nat k)) as [H|_]; [lia|].
    replace (N.of_nat k + 1) with (N.of_nat (S k)) by lia.
    rewrite IH by lia.
    replace (N.to_nat n - k)%nat with (S (N.to_nat n - S k)) by lia.
    cbn [seq map indexed]. rewrite land_bit.
    replace (N.of_nat k mod 8) with (N.of_nat (k mod 8)) by lia.
    replace (s + N.of_nat k + 1) with (s + N.of_nat (S k)) by lia. reflexivity.
Qed.

Lemma bits_of_eq n bytes : bits_of n bytes = map (bit_at bytes) (seq 0 (N.to_nat n)).
Proof. reflexivity. Qed.

Lemma bit_items_spec s n bytes : s + n <= 65536 -> length bytes = N.to_nat ((n + 7) / 8) ->
  bit_items (s, n) bytes = Ok (indexed s (bits_of n bytes)).
Proof.
  intros Hs Hlen. unfold bit_items. cbn [snd]. change 0 with (N.of_nat 0).
  rewrite (bit_collect s n bytes Hs Hlen) by lia. rewrite Nat.sub_0_r, bits_of_eq.
  replace (s + N.of_nat 0) with s by lia. reflexivity.
Qed.

Lemma skipn_add {A} (l : list A) : forall a b, skipn a (skipn b l) = skipn (b + a) l.
Proof.
  intros a b. revert l. induction b as [|b IH]; intros l; [reflexivity|].
  destruct l as [|x l]; [rewrite !skipn_nil; reflexivity|]. cbn [skipn Nat.add]. apply IH.
Qed.

Lemma in_skipn {A} (x : A) : forall n l, In x (skipn n l) -> In x l.
Proof.
  induction n as [|n IH]; intros l H; [exact H|]. destruct l as [|y l]; [exact H|]. right. apply IH. exact H.
Qed.

Lemma reg_collect s n bytes : s + n <= 65536 -> length bytes = (2 * N.to_nat n)%nat -> Forall (fun b => b < 256) bytes ->
  forall fuel k, (k <= N.to_nat n)%nat -> (N.to_nat n - k < fuel)%nat ->
  iter_collect (reg_iter_next bytes (s, n)) fuel (N.of_nat k) =
    Ok (indexed (s + N.of_nat k) (regs_of (skipn (2 * k) bytes))).
Proof.
  intros Hs Hlen Hb. induction fuel as [|fuel IH]; intros k Hk Hf; [lia|].
  cbn [iter_collect]. unfold reg_iter_next at 1. cbn [fst snd].
  destruct (N.eqb_spec (N.of_nat k) n) as [E|E].
  - rewrite skipn_all2 by lia. reflexivity.
  - assert (Hlt : (k < N.to_nat n)%nat) by lia. rewrite Nat2N.id.
    pose proof (skipn_length (2 * k) bytes) as SL.
    destruct (skipn (2 * k) bytes) as [|h [|l rest]] eqn:Esk; cbn [length] in SL; try lia.
    destruct (N.ltb_spec 65535 (N.of_nat k + s)) as [H|_]; [lia|].
    replace (N.of_nat k + 1) with (N.of_nat (S k)) by lia.
    rewrite IH by lia.
    assert (Hl : l < 256).
    { assert (In l (skipn (2 * k) bytes)) by (rewrite Esk; right; left; reflexivity).
      rewrite Forall_forall in Hb. apply Hb. eapply in_skipn; eauto. }
    rewrite lor_shift8 by assumption.
    replace (2 * S k)%nat with (2 * k + 2)%nat by lia. rewrite <- skipn_add, Esk. cbn [skipn regs_of indexed].
    unfold word. replace (N.of_nat k + s) with (s + N.of_nat k) by lia.
    replace (s + N.of_nat k + 1) with (s + N.of_nat (S k)) by lia. reflexivity.
Qed.

Lemma reg_items_spec s n bytes : s + n <= 65536 -> length bytes = (2 * N.to_nat n)%nat -> Forall (fun b => b < 256) bytes ->
  reg_items (s, n) bytes = Ok (indexed s (regs_of bytes)).
Proof.
  intros Hs Hlen Hb. unfold reg_items. cbn [snd]. change 0 with (N.of_nat 0).
  rewrite (reg_collect s n bytes Hs Hlen Hb) by lia. cbn [Nat.mul skipn].
  replace (s + N.of_nat 0) with s by lia. reflexivity.
Qed.

Lemma regs_of_length : forall bytes k, length bytes = (2 * k)%nat -> length (regs_of bytes) = k.
Proof.
  intros bytes k. revert bytes. induction k as [|k IH]; intros bytes H.
  - destruct bytes; [reflexivity|cbn [length] in H; lia].
  - destruct bytes as [|h [|l r]]; cbn [length] in H; try lia. cbn [regs_of length]. f_equal. apply IH. lia.
Qed.
Lemma bits_of_length n bytes : length (bits_of n bytes) = N.to_nat n.
Proof. unfold bits_of. rewrite map_length, seq_length. reflexivity. Qed.
