(* The parser SKELETON tie. Gen/ParserShape.v is regenerated from tcp/frame.rs and serial/frame.rs:
   for each parser function / state arm the list of reads, checks and state changes in the order the
   code performs them. Here each list is given its meaning by a small interpreter, and the
   direct-style parsers (MbapProofs.hdr / sparse, RtuProofs.sfull / soffset / srtu - proved equal to
   the hand-written model Model/Mbap.v, Model/Rtu.v) are shown to BE that interpretation. If the
   code re-orders or drops a check, the regenerated list changes and these theorems stop compiling
   (in addition to the correspondence check finding an input). *)
From Coq Require Import NArith List Bool Arith Lia.
From Rodbus Require Import Base.Outcome Base.Frame Gen.Consts Gen.RtuLengths Gen.ParserShape Model.Buffer Model.Crc Model.Mbap Model.Rtu Spec.Framing
  Proofs.BufferProofs Proofs.MbapProofs Proofs.RtuProofs.
Import ListNotations.

(* ================================================================ MBAP: parse_header *)
Record hfields := { h_tx : N; h_proto : N; h_len : N; h_unit : N; h_adu : option nat }.
Definition hfields0 : hfields := {| h_tx := 0; h_proto := 0; h_len := 0; h_unit := 0; h_adu := None |}.
Definition set_field (fld : hfield) (v : N) (f : hfields) : hfields :=
  match fld with
  | FTxId => {| h_tx := v; h_proto := h_proto f; h_len := h_len f; h_unit := h_unit f; h_adu := h_adu f |}
  | FProtocolId => {| h_tx := h_tx f; h_proto := v; h_len := h_len f; h_unit := h_unit f; h_adu := h_adu f |}
  | FLength => {| h_tx := h_tx f; h_proto := h_proto f; h_len := v; h_unit := h_unit f; h_adu := h_adu f |}
  | FUnitId => {| h_tx := h_tx f; h_proto := h_proto f; h_len := h_len f; h_unit := v; h_adu := h_adu f |}
  end.
Definition field_width (fld : hfield) : nat := match fld with FUnitId => 1 | _ => 2 end.

(* reads take bytes off the front (u16 big endian / u8); a check looks at what has been read so far *)
Fixpoint run_hsteps (steps : list hstep) (bytes : list N) (f : hfields) : (N * N * nat) + ferr :=
  match steps with
  | [] => inr InternalError
  | HRead FUnitId :: r => match bytes with x :: bs => run_hsteps r bs (set_field FUnitId x f) | _ => inr InternalError end
  | HRead fld :: r => match bytes with hi :: lo :: bs => run_hsteps r bs (set_field fld (hi * 256 + lo)%N f) | _ => inr InternalError end
  | HCheck ChkProtocolId :: r =>
      if negb (N.eqb (h_proto f) 0) then inr (UnknownProtocolId (h_proto f)) else run_hsteps r bytes f
  | HCheck ChkLengthTooBig :: r =>
      if Nat.ltb mbap_max_length_field (N.to_nat (h_len f)) then inr (FrameLengthTooBig (N.to_nat (h_len f)) mbap_max_length_field)
      else run_hsteps r bytes f
  | HCheck ChkLengthZero :: r =>
      match N.to_nat (h_len f) with
      | O => inr MbapLengthZero
      | S n => run_hsteps r bytes {| h_tx := h_tx f; h_proto := h_proto f; h_len := h_len f; h_unit := h_unit f; h_adu := Some n |}
      end
  | HReturn :: _ => match h_adu f with Some n => inl (h_tx f, h_unit f, n) | None => inr InternalError end
  end.

(* the header function of the model is the generated step list, for every seven bytes: in particular the
   ORDER of the three checks is the code's *)
Theorem mbap_header_shape : forall h, length h = 7 -> hdr h = run_hsteps mbap_header_steps h hfields0.
Proof.
  intros h H7. destruct h as [|t1 [|t0 [|p1 [|p0 [|l1 [|l0 [|u [|x h]]]]]]]]; try discriminate. clear H7.
  unfold hdr. cbn [mbap_header_steps run_hsteps set_field hfields0 h_tx h_proto h_len h_unit h_adu].
  destruct (negb (N.eqb (p1 * 256 + p0) 0)); [reflexivity|].
  destruct (Nat.ltb mbap_max_length_field (N.to_nat (l1 * 256 + l0))); [reflexivity|].
  destruct (N.to_nat (l1 * 256 + l0)); reflexivity.
Qed.

(* the consume points: every read comes before every check, and together they take exactly the header *)
Fixpoint hsteps_read_bytes (steps : list hstep) : nat :=
  match steps with [] => 0 | HRead f :: r => field_width f + hsteps_read_bytes r | _ :: r => hsteps_read_bytes r end.
Fixpoint no_read_after_check (steps : list hstep) (seen_check : bool) : bool :=
  match steps with
  | [] => true
  | HRead _ :: r => negb seen_check && no_read_after_check r seen_check
  | HCheck _ :: r => no_read_after_check r true
  | HReturn :: r => no_read_after_check r seen_check
  end.
Theorem mbap_header_consumes : hsteps_read_bytes mbap_header_steps = mbap_header_length /\ no_read_after_check mbap_header_steps false = true.
Proof. split; reflexivity. Qed.

(* ================================================================ MBAP: the two arms of parse *)
Fixpoint run_body (steps : list pstep) (n : nat) (b : buf) (data : list N) : buf * list N :=
  match steps with
  | BReadAdu :: r => run_body r n (consume n b) (firstn n (b_pend b))
  | _ => (b, data)
  end.
Fixpoint run_header_arm (steps : list pstep) (tx u : N) (n : nat) (st : pstate) (b : buf) (data : list N) : pstate * buf * sres :=
  match steps with
  | PNeedBody :: r => if Nat.ltb (buf_len b) n then (st, b, SNeed) else run_header_arm r tx u n st b data
  | PParseBody :: r => let '(b', d) := run_body mbap_body_steps n b data in run_header_arm r tx u n st b' d
  | PGotoBegin :: r => run_header_arm r tx u n Begin b data
  | PReturnFrame :: _ => (st, b, SGot (mkf tx u data))
  | _ => (st, b, SNeed)
  end.
(* the Begin arm either returns, or changes the state to Header(..) and the loop goes round again *)
Fixpoint run_begin_arm (steps : list pstep) (b : buf) (h : option (N * N * nat)) : (pstate * buf * sres) + (N * N * nat * buf) :=
  match steps with
  | PNeedHeader :: r => if Nat.ltb (buf_len b) mbap_header_length then inl (Begin, b, SNeed) else run_begin_arm r b h
  | PParseHeader :: r =>
      match run_hsteps mbap_header_steps (firstn mbap_header_length (b_pend b)) hfields0 with
      | inr e => inl (Begin, consume (hsteps_read_bytes mbap_header_steps) b, SBad e)
      | inl x => run_begin_arm r (consume (hsteps_read_bytes mbap_header_steps) b) (Some x)
      end
  | PGotoHeader :: _ => match h with Some (tx, u, n) => inr (tx, u, n, b) | None => inl (Begin, b, SNeed) end
  | _ => inl (Begin, b, SNeed)
  end.

Theorem mbap_parse_shape : forall st b,
  sparse st b =
  match st with
  | Header tx u n => run_header_arm mbap_header_arm tx u n (Header tx u n) b []
  | Begin =>
      match run_begin_arm mbap_begin_arm b None with
      | inl res => res
      | inr (tx, u, n, b') => run_header_arm mbap_header_arm tx u n (Header tx u n) b' []
      end
  end.
Proof.
  intros st b. destruct st as [|tx u n]; cbn [sparse].
  - cbn [mbap_begin_arm run_begin_arm]. change mbap_header_length with 7. change (hsteps_read_bytes mbap_header_steps) with 7.
    destruct (Nat.ltb_spec (buf_len b) 7) as [|H7]; [reflexivity|].
    rewrite <- mbap_header_shape by (rewrite firstn_length; unfold buf_len in H7; lia).
    destruct (hdr (firstn 7 (b_pend b))) as [[[tx u] n]|e]; [|reflexivity].
    cbn [mbap_header_arm run_header_arm mbap_body_steps run_body]. unfold sbody. destruct (Nat.ltb _ n); reflexivity.
  - cbn [mbap_header_arm run_header_arm mbap_body_steps run_body]. unfold sbody. destruct (Nat.ltb _ n); reflexivity.
Qed.

(* ================================================================ RTU: the three arms of parse *)
Record racc := { a_st : rstate; a_buf : buf; a_data : list N; a_rcrc : N; a_ecrc : N }.

(* ReadFullBody(dest, len): the `1 + len > 253` check comes first, then the wait, the reads, the CRC over
   address ++ payload, the comparison *)
Fixpoint run_full_arm (steps : list rstep) (dest : N) (len : nat) (a : racc) : rstate * buf * sres :=
  match steps with
  | FTooBig :: r =>
      if Nat.ltb max_adu_length (rtu_function_code_length + len)
      then (a_st a, a_buf a, SBad (FrameLengthTooBig (rtu_function_code_length + len) max_adu_length))
      else run_full_arm r dest len a
  | FNeed :: r =>
      if Nat.ltb (buf_len (a_buf a)) (rtu_function_code_length + len + rtu_crc_length) then (a_st a, a_buf a, SNeed)
      else run_full_arm r dest len a
  | FReadBody :: r =>
      run_full_arm r dest len {| a_st := a_st a; a_buf := consume (rtu_function_code_length + len) (a_buf a);
                                 a_data := firstn (rtu_function_code_length + len) (b_pend (a_buf a)); a_rcrc := a_rcrc a; a_ecrc := a_ecrc a |}
  | FReadCrc :: r =>
      run_full_arm r dest len {| a_st := a_st a; a_buf := consume rtu_crc_length (a_buf a); a_data := a_data a;
                                 a_rcrc := (nth 1 (b_pend (a_buf a)) 0 * 256 + nth 0 (b_pend (a_buf a)) 0)%N; a_ecrc := a_ecrc a |}
  | FComputeCrc :: r =>
      run_full_arm r dest len {| a_st := a_st a; a_buf := a_buf a; a_data := a_data a; a_rcrc := a_rcrc a; a_ecrc := crc (dest :: a_data a) |}
  | FCompare :: r =>
      if N.eqb (a_rcrc a) (a_ecrc a) then run_full_arm r dest len a
      else (a_st a, a_buf a, SBad (CrcValidationFailure (a_rcrc a) (a_ecrc a)))
  | FGotoStart :: r => run_full_arm r dest len {| a_st := Start; a_buf := a_buf a; a_data := a_data a; a_rcrc := a_rcrc a; a_ecrc := a_ecrc a |}
  | FReturn :: _ => (a_st a, a_buf a, SGot (mkr dest (a_data a)))
  | _ => (a_st a, a_buf a, SNeed)
  end.
Definition racc0 (st : rstate) (b : buf) : racc := {| a_st := st; a_buf := b; a_data := []; a_rcrc := 0; a_ecrc := 0 |}.

Theorem rtu_full_shape : forall dest len b,
  sfull dest len b = run_full_arm rtu_full_arm dest len (racc0 (ReadFullBody dest len) b).
Proof.
  intros dest len b. unfold sfull.
  cbn [rtu_full_arm run_full_arm racc0 a_st a_buf a_data a_rcrc a_ecrc].
  change max_adu_length with 253. change rtu_function_code_length with 1. change rtu_crc_length with 2.
  destruct (Nat.ltb 253 (1 + len)); [reflexivity|]. destruct (Nat.ltb_spec (buf_len b) (1 + len + 2)) as [|Hge]; [reflexivity|].
  rewrite consume_consume. cbn [consume b_pend].
  replace (nth 1 (skipn (1 + len) (b_pend b)) 0%N) with (nth (1 + len + 1) (b_pend b) 0%N) by apply nth_skipn_add.
  replace (nth 0 (skipn (1 + len) (b_pend b)) 0%N) with (nth (1 + len) (b_pend b) 0%N)
    by (rewrite <- (Nat.add_0_r (1 + len)) at 1; apply nth_skipn_add).
  destruct (N.eqb _ _); reflexivity.
Qed.

(* ReadToOffsetForLength(dest, off): wait for the byte count, read it, go to ReadFullBody(dest, off + count) *)
Fixpoint run_offset_arm (steps : list rstep) (dest : N) (off : nat) (b : buf) (extra : nat) (target : option nat) : rstate * buf * sres :=
  match steps with
  | RNeedOffset :: r =>
      if Nat.ltb (buf_len b) (rtu_function_code_length + off) then (ReadToOffsetForLength dest off, b, SNeed)
      else run_offset_arm r dest off b extra target
  | RPeekCount :: r => run_offset_arm r dest off b (N.to_nat (nth (rtu_function_code_length + off - 1) (b_pend b) 0%N)) target
  | RGotoFull :: r => run_offset_arm r dest off b extra (Some (off + extra))
  | RRecurse :: _ =>
      match target with
      | Some len => run_full_arm rtu_full_arm dest len (racc0 (ReadFullBody dest len) b)
      | None => (ReadToOffsetForLength dest off, b, SNeed)
      end
  | _ => (ReadToOffsetForLength dest off, b, SNeed)
  end.
Theorem rtu_offset_shape : forall dest off b,
  soffset dest off b = run_offset_arm rtu_offset_arm dest off b 0 None.
Proof.
  intros dest off b. unfold soffset. cbn [rtu_offset_arm run_offset_arm]. change rtu_function_code_length with 1.
  destruct (Nat.ltb (buf_len b) (1 + off)); [reflexivity|]. replace (1 + off - 1) with off by lia. apply rtu_full_shape.
Qed.

(* Start: two bytes, the address is consumed, the function code only looked at, then by length_mode *)
Definition goto (t : rtag) (dest : N) (x : nat) (b : buf) : rstate * buf * sres :=
  match t with
  | TReadFullBody => run_full_arm rtu_full_arm dest x (racc0 (ReadFullBody dest x) b)
  | TReadToOffsetForLength => run_offset_arm rtu_offset_arm dest x b 0 None
  end.
Fixpoint run_start_arm (p : ptype) (steps : list rstep) (b : buf) (dest fcv : N) (next : option (rtag * nat)) : rstate * buf * sres :=
  match steps with
  | RNeedTwo :: r => if Nat.ltb (buf_len b) 2 then (Start, b, SNeed) else run_start_arm p r b dest fcv next
  | RReadAddress :: r => run_start_arm p r (consume 1 b) (nth 0 (b_pend b) 0%N) fcv next
  | RPeekFunction :: r => run_start_arm p r b dest (nth 0 (b_pend b) 0%N) next
  | RDispatch on_fixed on_offset :: r =>
      match length_mode p fcv with
      | Fixed l => run_start_arm p r b dest fcv (Some (on_fixed, l))
      | Offset o => run_start_arm p r b dest fcv (Some (on_offset, o))
      | Unknown => (Start, b, SBad (UnknownFunctionCode fcv))
      end
  | RRecurse :: _ => match next with Some (t, x) => goto t dest x b | None => (Start, b, SNeed) end
  | _ => (Start, b, SNeed)
  end.
Theorem rtu_start_shape : forall p b, srtu p Start b = run_start_arm p rtu_start_arm b 0%N 0%N None.
Proof.
  intros p b. cbn [srtu rtu_start_arm run_start_arm]. destruct (Nat.ltb (buf_len b) 2); [reflexivity|].
  destruct (length_mode p (nth 0 (b_pend (consume 1 b)) 0%N)); cbn [goto]; [apply rtu_full_shape|apply rtu_offset_shape|reflexivity].
Qed.

(* all of it at once: the direct-style RTU parser is the interpretation of the generated arms *)
Theorem rtu_parse_shape : forall p st b,
  srtu p st b =
  match st with
  | Start => run_start_arm p rtu_start_arm b 0%N 0%N None
  | ReadToOffsetForLength d off => run_offset_arm rtu_offset_arm d off b 0 None
  | ReadFullBody d len => run_full_arm rtu_full_arm d len (racc0 (ReadFullBody d len) b)
  end.
Proof.
  intros p st b. destruct st as [|d len|d off]; [apply rtu_start_shape|apply rtu_full_shape|apply rtu_offset_shape].
Qed.

(* and therefore the MODEL (Model/Mbap.v, Model/Rtu.v), on every reachable state: *)
Corollary mbap_model_shape : forall st b, wf b -> st_ok st ->
  mbap_parse st b =
  (let '(st', b', r) :=
     match st with
     | Header tx u n => run_header_arm mbap_header_arm tx u n (Header tx u n) b []
     | Begin => match run_begin_arm mbap_begin_arm b None with
                | inl res => res
                | inr (tx, u, n, b') => run_header_arm mbap_header_arm tx u n (Header tx u n) b' []
                end
     end in (st', b', lift_s r)).
Proof. intros st b Hwf Hst. rewrite mbap_parse_eq by assumption. now rewrite mbap_parse_shape. Qed.
Corollary rtu_model_shape : forall p st b, wf b -> bytes (b_pend b) -> rst_ok st ->
  rtu_parse p st b =
  (let '(st', b', r) :=
     match st with
     | Start => run_start_arm p rtu_start_arm b 0%N 0%N None
     | ReadToOffsetForLength d off => run_offset_arm rtu_offset_arm d off b 0 None
     | ReadFullBody d len => run_full_arm rtu_full_arm d len (racc0 (ReadFullBody d len) b)
     end in (st', b', lift_s r)).
Proof. intros p st b Hwf Hb Hst. rewrite rtu_parse_eq by assumption. now rewrite rtu_parse_shape. Qed.
