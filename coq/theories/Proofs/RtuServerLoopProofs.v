(* RtuServerTask::run over the session loop: handler state and decode level persist across re-opens,
   Shutdown / a closed channel end the task from the open port and from the wait, decode level
   changes during the wait are applied and neither shorten nor lengthen it. *)
From Coq Require Import NArith List Lia Bool.
From Rodbus Require Import Base.Outcome Base.ServerTypes Base.ServerRun Model.Retry Model.RtuServerLoop Proofs.ServerRunProofs.
Import ListNotations.
Local Open Scope N_scope.

(* ---------------------------------------------------------------- sleep_for *)
Lemma sleep_strip : forall evs rem d d', snd (sleep_for rem d evs) = snd (sleep_for rem d' (wstrip evs)).
Proof.
  induction evs as [|ev rest IH]; intros rem d d'; [reflexivity|].
  destruct ev as [[x|]| |dt]; cbn [wstrip sleep_for]; try reflexivity.
  - apply IH.
  - destruct (rem <=? dt); [reflexivity|apply IH].
Qed.

(* the wait never ends before `remaining` has passed, whatever commands arrive *)
Lemma sleep_not_early : forall evs rem d, advance_total evs < rem -> snd (sleep_for rem d evs) <> SleepElapsed.
Proof.
  induction evs as [|ev rest IH]; intros rem d Ht; [discriminate|].
  destruct ev as [[x|]| |dt]; cbn [sleep_for advance_total] in *; try discriminate.
  - apply IH. exact Ht.
  - destruct (N.leb_spec rem dt); [lia|]. apply IH. lia.
Qed.

Definition no_wend (evs : list wevent) : Prop :=
  Forall (fun ev => match ev with WCommand Shutdown | WClosed => False | _ => True end) evs.

(* ... and it does end once that much time has passed, whatever level changes arrive *)

Lemma sleep_elapses : forall evs rem d, no_wend evs -> 0 < rem -> rem <= advance_total evs -> snd (sleep_for rem d evs) = SleepElapsed.
Proof.
  induction evs as [|ev rest IH]; intros rem d Hn Hpos Ht; [cbn [advance_total] in Ht; lia|].
  inversion Hn as [|? ? Hev Hrest]; subst.
  destruct ev as [[x|]| |dt]; cbn [sleep_for advance_total] in *; try contradiction.
  - apply IH; assumption.
  - destruct (N.leb_spec rem dt); [reflexivity|]. apply IH; [assumption|lia|lia].
Qed.

Definition wends (ev : wevent) : Prop := ev = WCommand Shutdown \/ ev = WClosed.

(* Shutdown / closed channel during the wait end it at once, whatever follows *)
Lemma sleep_shutdown ev post : wends ev -> forall pre rem d,
  sleep_for rem d (pre ++ ev :: post) =
    match sleep_for rem d pre with (d', SleepWaiting _) => (d', SleepShutdown) | x => x end.
Proof.
  intros Hev. induction pre as [|e0 pre IH]; intros rem d.
  - cbn [app]. destruct Hev as [-> | ->]; reflexivity.
  - cbn [app]. destruct e0 as [[x|]| |dt]; cbn [sleep_for]; try reflexivity.
    + apply IH.
    + destruct (rem <=? dt); [reflexivity|apply IH].
Qed.

Lemma step_reset r : step r Reset = Some ({| dmin := dmin r; dmax := dmax r; cur := dmin r |}, None).
Proof. reflexivity. Qed.
Lemma step_disc r : step r Disc = Some (r, Some (dmin r)).
Proof. reflexivity. Qed.

Section Loop.
Context {St E : Type}.
Variable hf : ucfg St -> frame -> outcome E (list N) * ucfg St * list event.
Notation reset r := {| dmin := dmin r; dmax := dmax r; cur := dmin r |}.

(* ---------------------------------------------------------------- persistence across re-opens *)
(* a session that ends with an error (bad frame, read or write error) is followed by a wait of
   after_disconnect() = the strategy's minimum delay; the next open port is served by the SAME
   session task: it starts from the handler states and the decode level the failed one left *)
Theorem reopen_keeps_state units d retry sess wait rest ws u lg d1 e d2 :
  ServerRun.run hf units d MIdle sess = (ws, u, lg, d1, e) -> reopens e = true ->
  sleep_for (dmin retry) d1 wait = (d2, SleepElapsed) ->
  rtu_task hf units d retry (EpOpen sess wait :: rest) =
    (let '(ws', u', lg', d', r, e') := rtu_task hf u d2 (reset retry) rest in (ws :: ws', u', lg ++ lg', d', r, e')).
Proof.
  intros Hrun Hre Hsl. cbn [rtu_task]. rewrite step_reset, Hrun.
  destruct e; try discriminate; rewrite step_disc; cbn [dmin]; rewrite Hsl; reflexivity.
Qed.

(* a failed open attempt changes nothing but the retry strategy and (through commands) the level *)
Theorem open_failure_keeps_state units d retry retry' delay wait rest d2 :
  step retry Fail = Some (retry', Some delay) -> sleep_for delay d wait = (d2, SleepElapsed) ->
  rtu_task hf units d retry (EpOpenFails wait :: rest) =
    (let '(ws, u, lg, d', r, e) := rtu_task hf units d2 retry' rest in ([] :: ws, u, lg, d', r, e)).
Proof. intros Hs Hsl. cbn [rtu_task]. rewrite Hs, Hsl. reflexivity. Qed.

(* ---------------------------------------------------------------- Shutdown from every state *)
(* ... while the port is open (parked in run_one or in a reply write) *)
Theorem shutdown_while_open units d retry pre ev post wait rest ws u lg d1 e :
  ends ev -> ServerRun.run hf units d MIdle pre = (ws, u, lg, d1, e) -> (e = ROpen \/ exists r, e = RBlocked r) ->
  rtu_task hf units d retry (EpOpen (pre ++ ev :: post) wait :: rest) = ([ws], u, lg, d1, reset retry, TShutdown).
Proof.
  intros Hev Hrun He. cbn [rtu_task]. rewrite step_reset. rewrite (shutdown_ends hf ev post Hev pre units d MIdle), Hrun.
  destruct He as [-> | [r ->]]; reflexivity.
Qed.

(* ... while waiting after a session that ended with an error *)
Theorem shutdown_while_waiting_after_session units d retry sess pre ev post rest ws u lg d1 e d2 rem :
  wends ev -> ServerRun.run hf units d MIdle sess = (ws, u, lg, d1, e) -> reopens e = true ->
  sleep_for (dmin retry) d1 pre = (d2, SleepWaiting rem) ->
  rtu_task hf units d retry (EpOpen sess (pre ++ ev :: post) :: rest) = ([ws], u, lg, d2, reset retry, TShutdown).
Proof.
  intros Hev Hrun Hre Hsl. cbn [rtu_task]. rewrite step_reset, Hrun.
  destruct e; try discriminate; rewrite step_disc; cbn [dmin]; rewrite (sleep_shutdown ev post Hev), Hsl; reflexivity.
Qed.

(* ... while waiting after a failed open attempt *)
Theorem shutdown_while_waiting_after_open_failure units d retry retry' delay pre ev post rest d2 rem :
  wends ev -> step retry Fail = Some (retry', Some delay) -> sleep_for delay d pre = (d2, SleepWaiting rem) ->
  rtu_task hf units d retry (EpOpenFails (pre ++ ev :: post) :: rest) = ([[]], units, [], d2, retry', TShutdown).
Proof.
  intros Hev Hs Hsl. cbn [rtu_task]. rewrite Hs, (sleep_shutdown ev post Hev), Hsl. reflexivity.
Qed.

(* ---------------------------------------------------------------- level changes during the wait *)
(* applied (the next session starts with the last level set) ... *)
Theorem wait_applies_level rem d x rest : sleep_for rem d (WCommand (ChangeDecoding x) :: rest) = sleep_for rem x rest.
Proof. reflexivity. Qed.

(* ... and the task as a whole does not depend on them: with every level change removed - from the
   waits and from the sessions - and from any initial level, the same replies, handler calls, handler
   states, retry state and the same end result; in particular no wait is shortened or lengthened *)
Definition tobs (x : list (list (list N)) * ucfg St * list event * N * doubling * task_end E) :=
  let '(ws, u, lg, _, r, e) := x in (ws, u, lg, r, e).
Definition estrip (eps : list episode) : list episode :=
  map (fun ep => match ep with EpOpenFails w => EpOpenFails (wstrip w) | EpOpen s w => EpOpen (strip s) (wstrip w) end) eps.

Theorem levels_unobservable : forall eps units d d' retry,
  tobs (rtu_task hf units d retry eps) = tobs (rtu_task hf units d' retry (estrip eps)).
Proof.
  induction eps as [|ep rest IH]; intros units d d' retry; [reflexivity|].
  destruct ep as [w|s w]; cbn [estrip map rtu_task]; fold (estrip rest).
  - destruct (step retry Fail) as [[retry' [delay|]]|]; try reflexivity.
    pose proof (sleep_strip w delay d d') as Hs.
    destruct (sleep_for delay d w) as [d1 e1]. destruct (sleep_for delay d' (wstrip w)) as [d2 e2]. cbn [snd] in Hs. subst e2.
    destruct e1; try reflexivity.
    specialize (IH units d1 d2 retry').
    destruct (rtu_task hf units d1 retry' rest) as [[[[[ws u] lg] dd] r] e].
    destruct (rtu_task hf units d2 retry' (estrip rest)) as [[[[[ws2 u2] lg2] dd2] r2] e2].
    cbn [tobs] in *. inversion IH; subst. reflexivity.
  - rewrite step_reset.
    pose proof (unobservable hf s units d d' MIdle) as Hr.
    destruct (ServerRun.run hf units d MIdle s) as [[[[ws u] lg] d1] e].
    destruct (ServerRun.run hf units d' MIdle (strip s)) as [[[[ws2 u2] lg2] d2] e2].
    cbn [observable] in Hr. inversion Hr; subst ws2 u2 lg2 e2.
    destruct e; try reflexivity; rewrite step_disc; cbn [dmin];
      pose proof (sleep_strip w (dmin retry) d1 d2) as Hs;
      destruct (sleep_for (dmin retry) d1 w) as [d3 e1]; destruct (sleep_for (dmin retry) d2 (wstrip w)) as [d4 e2]; cbn [snd] in Hs; subst e2;
      destruct e1; try reflexivity;
      specialize (IH u d3 d4 (reset retry));
      destruct (rtu_task hf u d3 (reset retry) rest) as [[[[[ws' u'] lg'] dd] r] e'];
      destruct (rtu_task hf u d4 (reset retry) (estrip rest)) as [[[[[ws2 u2] lg2] dd2] r2] e2];
      cbn [tobs] in *; inversion IH; subst; reflexivity.
Qed.
End Loop.
