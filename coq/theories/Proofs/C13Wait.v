(* C13 - the wait states (WaitAfterFailedConnect / WaitAfterDisconnect, `fail_requests_for(delay)`) end
   exactly at wait_start + delay, whatever commands are handled in between.

   The phase PWaiting u carries the deadline u = now + d computed ONCE, when the listener was told
   (ClientTask.wait_for).  In the code this is the single `tokio::time::sleep(duration)` future that
   `fail_requests_for` creates before its loop and polls in every `select!` round: handling a command
   in the other arm does not re-create it. *)
From Coq Require Import NArith List Lia Bool.
From Rodbus Require Import Model.Retry Spec.Lifecycle Spec.ClientSpec Gen.SessionErrors Model.ClientTask Proofs.ClientBase.
Import ListNotations.
Local Open Scope N_scope.

Section Wait.
Variable cfg : config.

(* the ways a wait state is left other than by its own timer *)
Definition left_early (s' : state) : Prop := ph s' = PDone \/ enabled s' = false.

(* one step from a wait state: the phase - and so the deadline - is unchanged, unless the task ended
   (shutdown, all handles dropped, abort), the channel was disabled, or the step IS the timer firing
   at or after the deadline *)
Lemma wait_step s u e : ph s = PWaiting u ->
  let s' := fst (step cfg s e) in
  ph s' = PWaiting u \/ left_early s' \/ (e = EvTimer /\ fire cfg u <= now s).
Proof.
  intros Hp. unfold left_early. destruct e as [c st| | |ok|tx k|tx k| | | | | |dt| |dt| | |k| ]; cbn [step]; rewrite ?Hp; cbn [listens reading fst ph set_now set_wctl set_handles set_wpark]; auto.
  - (* EvSubmit *)
    destruct (Nat.eqb (handles s) 0); [auto|].
    destruct (is_nil (blocked s) && Nat.ltb (List.length (queue s)) (cfg_cap cfg)); cbn [fst ph set_chan]; auto.
    destruct st; cbn [fst ph set_chan]; auto.
  - (* EvRecv *)
    destruct (queue s) as [|c q] eqn:Hq.
    + destruct (closed s); [|auto]. unfold terminate. cbn [fst ph set_chan set_ph]. auto.
    + unfold take. cbn [ph set_chan]. rewrite Hp.
      destruct c as [r| | |l| ]; cbn [change_setting].
      * cbn [fst ph set_chan]. auto.
      * cbn [set_enabled enabled fst ph set_chan]. auto.
      * cbn [set_enabled enabled]. unfold loop_top. cbn [enabled set_enabled fst set_ph]. auto.
      * match goal with |- context [if ?b then _ else _] => destruct b eqn:He end.
        -- cbn [fst ph set_decode set_chan]. auto.
        -- unfold loop_top. rewrite He. cbn [fst enabled set_ph]. right. left. right.
           cbn [enabled set_decode set_chan] in He |- *. exact He.
      * unfold terminate. cbn [fst ph set_chan set_ph]. auto.
  - (* EvTimer *)
    destruct (N.leb_spec (fire cfg u) (now s)); auto.
  - (* EvWriteRelease *)
    destruct (wpark s) as [|n]; cbn [fst ph set_wpark]; rewrite ?Hp; auto.
Qed.

(* in particular: handling a request, a (redundant) enable or a decode-level change while waiting
   leaves the deadline where it was *)
Lemma wait_command_keeps_deadline s u c q : ph s = PWaiting u -> enabled s = true -> queue s = c :: q ->
  (exists r, c = CReq r) \/ c = CEnable \/ (exists l, c = CDecode l) ->
  ph (fst (step cfg s EvRecv)) = PWaiting u.
Proof.
  intros Hp He Hq Hc. cbn [step]. rewrite Hp, Hq. cbn [listens]. unfold take. cbn [ph set_chan]. rewrite Hp.
  destruct Hc as [[r ->]|[->|[l ->]]]; cbn [change_setting set_enabled set_decode enabled set_chan fst ph]; auto.
  rewrite He. cbn [fst ph set_decode set_chan]. exact Hp.
Qed.

(* the wait ends at the deadline: the timer step does nothing before fires_at(u) and starts the next
   connection attempt (Connecting + dial) from then on *)
Lemma wait_timer s u : ph s = PWaiting u -> enabled s = true ->
  step cfg s EvTimer = if fire cfg u <=? now s then (set_ph s PConnecting, [OListen LConnecting; ODial]) else (s, []).
Proof.
  intros Hp He. cbn [step]. rewrite Hp. destruct (fire cfg u <=? now s); [|reflexivity].
  unfold loop_top. rewrite He. reflexivity.
Qed.

(* over any run that starts in a wait state: either the task is still in the SAME wait state with the
   SAME deadline, or there is a first step that left it - and that step ended the task, disabled the
   channel, or was the timer at or after the deadline *)
Lemma wait_run : forall es s u, ph s = PWaiting u ->
  ph (fst (run cfg s es)) = PWaiting u \/
  exists es1 e es2, es = (es1 ++ e :: es2)%list /\
    let s1 := fst (run cfg s es1) in ph s1 = PWaiting u /\
    (left_early (fst (step cfg s1 e)) \/ (e = EvTimer /\ fire cfg u <= now s1)).
Proof.
  induction es as [|e es IH]; intros s u Hp; [left; exact Hp|].
  destruct (wait_step s u e Hp) as [Hs|Hs].
  - cbn [run]. destruct (step cfg s e) as [s1 o1] eqn:E1. cbn [fst] in Hs.
    destruct (IH s1 u Hs) as [Hk|(es1 & e' & es2 & -> & H1 & H2)].
    + left. destruct (run cfg s1 es) as [s2 o2]. exact Hk.
    + right. exists (e :: es1), e', es2. split; [reflexivity|]. cbn [run app]. rewrite E1.
      destruct (run cfg s1 es1) as [s2 o2]. cbn [fst] in *. auto.
  - right. exists [], e, es. split; [reflexivity|]. cbn [run fst]. auto.
Qed.

End Wait.
