(* Lemmas for C03 (client request encoding). *)
From Coq Require Import NArith List Lia Bool Arith ZArith ZifyBool ZifyNat ZifyN.
From Rodbus Require Import Base.Outcome Base.Cursor Base.ClientTypes Model.Crc Model.Format Model.Range
  Model.ClientRequest Spec.ClientCodecSpec Gen.Consts Gen.ClientTables.
Import ListNotations.
Ltac Zify.zify_post_hook ::= Z.div_mod_to_equations.
Local Open Scope N_scope.
Arguments N.add : simpl never.
Arguments N.sub : simpl never.
Arguments N.mul : simpl never.
Arguments N.eqb : simpl never.
Arguments N.ltb : simpl never.
Arguments N.leb : simpl never.
Arguments N.div : simpl never.
Arguments N.modulo : simpl never.

(* ---- AddressRange::try_from over all of u16 x u16 ---- *)
Lemma try_from_total start count : start < 65536 -> count < 65536 ->
  (try_from start count = inr (start, count) <-> 1 <= count /\ start + count <= 65536).
Proof.
  intros Hs Hc. unfold try_from.
  destruct (N.eqb_spec count 0) as [->|Hz].
  - split; [discriminate|lia].
  - destruct (N.ltb_spec (65535 - (count - 1)) start); split; try discriminate; try reflexivity; lia.
Qed.

Lemma try_from_spec start count : start < 65536 -> count < 65536 ->
  try_from start count =
    if range_ok start count then inr (start, count)
    else if count =? 0 then inl CountOfZero else inl AddressOverflow.
Proof.
  intros Hs Hc. unfold try_from, range_ok.
  destruct (N.eqb_spec count 0) as [->|Hz]; [reflexivity|].
  destruct (N.ltb_spec (65535 - (count - 1)) start), (N.leb_spec 1 count), (N.leb_spec (start + count) 65536);
    cbn [andb]; try reflexivity; lia.
Qed.
