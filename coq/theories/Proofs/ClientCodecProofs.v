(* Lemmas for C03 (client request encoding). *)
From Coq Require Import NArith List Lia Bool Arith ZArith ZifyBool ZifyNat ZifyN.
From Rodbus Require Import Base.Outcome Base.Cursor Base.ClientTypes Model.Crc Model.Format Model.Range
  Model.ClientRequest Spec.ClientCodecSpec Gen.Consts Gen.ClientTables.
Import ListNotations.
Ltac Zify.zify_post_hook ::= Z.div_mod_to_equations.
Local Open Scope N_scope.
Arguments N.add : simpl never.
Arguments N.sub : simpl never.
Arguments N.mul : simpl never.
Arguments N.eqb : simpl never.
Arguments N.ltb : simpl never.
Arguments N.leb : simpl never.
Arguments N.div : simpl never.
Arguments N.modulo : simpl never.

(* ---- AddressRange::try_from over all of u16 x u16 ---- *)
Lemma try_from_total start count : start < 65536 -> count < 65536 ->
  (try_from start count = inr (start, count) <-> 1 <= count /\ start + count <= 65536).
Proof.
  intros Hs Hc. unfold try_from.
  destruct (N.eqb_spec count 0) as [->|Hz].
  - split; [discriminate|lia].
  - destruct (N.ltb_spec (65535 - (count - 1)) start); split; try discriminate; try reflexivity; lia.
Qed.

Lemma try_from_spec start count : start < 65536 -> count < 65536 ->
  try_from start count =
    if range_ok start count then inr (start, count)
    else if count =? 0 then inl CountOfZero else inl AddressOverflow.
Proof.
  intros Hs Hc. unfold try_from, range_ok.
  destruct (N.eqb_spec count 0) as [->|Hz]; [reflexivity|].
  destruct (N.ltb_spec (65535 - (count - 1)) start), (N.leb_spec 1 count), (N.leb_spec (start + count) 65536);
    cbn [andb]; try reflexivity; lia.
Qed.

(* limited_count (repaired): validation first, then the per-type limit, for every u16 x u16 pair *)
Lemma limited_count_spec s n limit : s < 65536 -> n < 65536 ->
  limited_count (s, n) limit =
    if range_ok s n then (if limit <? n then inl CountTooLargeForType else inr (s, n))
    else if n =? 0 then inl CountOfZero else inl AddressOverflow.
Proof.
  intros Hs Hn. unfold limited_count. cbn [fst snd]. rewrite try_from_spec by assumption.
  destruct (range_ok s n); [reflexivity|]. destruct (n =? 0); reflexivity.
Qed.

(* ---- write cursor: a successful write appends ---- *)
Definition wapp (w : wcur) (bs : list N) : wcur := {| w_cap := w_cap w; w_out := w_out w ++ bs |}.

Lemma wapp_nil w : wapp w [] = w.
Proof. destruct w as [c o]; unfold wapp; cbn [w_cap w_out]. now rewrite app_nil_r. Qed.
Lemma wapp_app w a b : wapp (wapp w a) b = wapp w (a ++ b).
Proof. unfold wapp; cbn [w_cap w_out]. now rewrite app_assoc. Qed.

Lemma wr_u8_ok w b : (length (w_out w) < w_cap w)%nat -> wr_u8 w b = Some (wapp w [b]).
Proof. intros H. unfold wr_u8. destruct (Nat.ltb_spec (length (w_out w)) (w_cap w)); [reflexivity|lia]. Qed.

Lemma wr_u16_be_ok w v : (length (w_out w) + 2 <= w_cap w)%nat -> wr_u16_be w v = Some (wapp w (be v)).
Proof.
  intros H. unfold wr_u16_be. rewrite wr_u8_ok by lia.
  rewrite wr_u8_ok by (unfold wapp; cbn [w_out w_cap]; rewrite app_length; cbn [length]; lia).
  now rewrite wapp_app.
Qed.

Lemma wr_u16_le_ok w v : (length (w_out w) + 2 <= w_cap w)%nat -> wr_u16_le w v = Some (wapp w [v mod 256; v / 256]).
Proof.
  intros H. unfold wr_u16_le. rewrite wr_u8_ok by lia.
  rewrite wr_u8_ok by (unfold wapp; cbn [w_out w_cap]; rewrite app_length; cbn [length]; lia).
  now rewrite wapp_app.
Qed.

Lemma wapp_len w bs : length (w_out (wapp w bs)) = (length (w_out w) + length bs)%nat.
Proof. unfold wapp; cbn [w_out]. apply app_length. Qed.
Lemma wapp_cap w bs : w_cap (wapp w bs) = w_cap w.
Proof. reflexivity. Qed.

(* a serializer that, given room, appends exactly bs *)
Definition appends (s : ser) (bs : list N) : Prop :=
  forall w, (length (w_out w) + length bs <= w_cap w)%nat -> s w = Ok (wapp w bs).

Lemma ser_range_appends r : appends (ser_range r) (be (fst r) ++ be (snd r)).
Proof.
  intros w H. cbn [length app be] in H. unfold ser_range, W.
  rewrite wr_u16_be_ok by lia. cbn [of_option obind].
  rewrite wr_u16_be_ok by (rewrite wapp_len, wapp_cap; cbn [length be]; lia). cbn [of_option].
  now rewrite wapp_app.
Qed.

Lemma ser_indexed_u16_appends i v : appends (ser_indexed_u16 i v) (be i ++ be v).
Proof. exact (ser_range_appends (i, v)). Qed.

Lemma ser_indexed_bool_appends i v : appends (ser_indexed_bool i v) (be i ++ (if v then [255; 0] else [0; 0])).
Proof.
  intros w H. assert (Hl : length (be i ++ (if v then [255; 0] else [0; 0])) = 4%nat) by (destruct v; reflexivity).
  rewrite Hl in H. unfold ser_indexed_bool, W.
  rewrite wr_u16_be_ok by lia. cbn [of_option obind].
  rewrite wr_u16_be_ok by (rewrite wapp_len, wapp_cap; cbn [length be]; lia). cbn [of_option].
  rewrite wapp_app. destruct v; reflexivity.
Qed.

(* ---- bit packing: the accumulator loop computes byte_of_bits ---- *)
Lemma lor_pow_add acc i : N.testbit acc i = false -> N.lor acc (N.shiftl 1 i) = acc + 2 ^ i.
Proof.
  intros H. rewrite N.shiftl_1_l. rewrite <- N.lxor_lor, <- N.add_nocarry_lxor; auto;
  apply N.bits_inj; intros n; rewrite N.land_spec, N.pow2_bits_eqb, N.bits_0;
  destruct (N.eqb_spec i n) as [->|]; rewrite ?H, ?andb_false_r; reflexivity.
Qed.

Lemma testbit_lt_pow acc i : acc < 2 ^ i -> N.testbit acc i = false.
Proof.
  intros H. destruct (N.eq_dec acc 0) as [->|Hz]; [apply N.bits_0|].
  apply N.bits_above_log2. apply N.log2_lt_pow2; lia.
Qed.

(* invariant: the accumulator holds the bits seen so far in its low `count` bits *)
Lemma byte_acc_spec bits : forall count acc,
  count + N.of_nat (length bits) <= 8 -> acc < 2 ^ count ->
  byte_acc bits count acc = Ok (acc + 2 ^ count * byte_of_bits bits).
Proof.
  induction bits as [|b rest IH]; intros count acc Hc Ha; cbn [byte_acc byte_of_bits].
  - f_equal. lia.
  - cbn [length] in Hc. assert (Hp : 2 ^ (count + 1) = 2 * 2 ^ count) by (rewrite N.add_1_r; apply N.pow_succ_r').
    destruct b.
    + destruct (N.leb_spec 8 count); [lia|].
      rewrite lor_pow_add by (now apply testbit_lt_pow).
      rewrite IH by lia. f_equal. rewrite Hp. ring.
    + rewrite IH by lia. f_equal. rewrite Hp. ring.
Qed.

Lemma byte_acc_chunk bits : (length bits <= 8)%nat -> byte_acc bits 0 0 = Ok (byte_of_bits bits).
Proof.
  intros H. rewrite byte_acc_spec by (cbn; lia). f_equal. cbn. lia.
Qed.

Lemma pack_aux_cons f bits : bits <> [] ->
  pack_aux (S f) bits = byte_of_bits (firstn 8 bits) :: pack_aux f (skipn 8 bits).
Proof. destruct bits; [congruence|reflexivity]. Qed.
Lemma ser_bits_loop_cons f bits w : bits <> [] ->
  ser_bits_loop (S f) bits w =
  obind (byte_acc (firstn 8 bits) 0 0) (fun acc => obind (W (wr_u8 w acc)) (fun w1 => ser_bits_loop f (skipn 8 bits) w1)).
Proof. destruct bits; [congruence|reflexivity]. Qed.

Lemma pack_aux_length : forall fuel bits, (length bits <= fuel)%nat ->
  length (pack_aux fuel bits) = ((length bits + 7) / 8)%nat.
Proof.
  induction fuel as [|f IH]; intros bits H.
  - destruct bits; [reflexivity|cbn in H; lia].
  - destruct (list_eq_dec Bool.bool_dec bits []) as [->|Hne]; [reflexivity|].
    assert (Hl : (1 <= length bits)%nat) by (destruct bits; [congruence|cbn; lia]).
    rewrite pack_aux_cons by assumption. cbn [length]. rewrite IH by (rewrite skipn_length; lia).
    rewrite skipn_length. lia.
Qed.

Lemma ser_bits_loop_spec : forall fuel bits w, (length bits <= fuel)%nat ->
  (length (w_out w) + length (pack_aux fuel bits) <= w_cap w)%nat ->
  ser_bits_loop fuel bits w = Ok (wapp w (pack_aux fuel bits)).
Proof.
  induction fuel as [|f IH]; intros bits w H Hroom.
  - cbn. now rewrite wapp_nil.
  - destruct (list_eq_dec Bool.bool_dec bits []) as [->|Hne]; [cbn; now rewrite wapp_nil|].
    assert (Hl : (1 <= length bits)%nat) by (destruct bits; [congruence|cbn; lia]).
    rewrite pack_aux_cons in * by assumption. rewrite ser_bits_loop_cons by assumption. cbn [length] in Hroom.
    rewrite byte_acc_chunk by (rewrite firstn_length; lia). cbn [obind]. unfold W.
    rewrite wr_u8_ok by lia. cbn [of_option obind].
    rewrite IH; [now rewrite wapp_app| rewrite skipn_length; lia | rewrite wapp_len, wapp_cap; cbn [length]; lia].
Qed.

Lemma calc_bytes_for_bits_ok n : n <= 2040 -> calc_bytes_for_bits n = Ok (bytes_for_bits n).
Proof.
  intros H. unfold calc_bytes_for_bits, bytes_for_bits.
  destruct (N.eqb_spec (n mod 8) 0) as [E|E].
  - destruct (N.leb_spec (n / 8) 255); [f_equal; lia|lia].
  - destruct (N.leb_spec (n / 8 + 1) 255); [f_equal; lia|lia].
Qed.

Lemma ser_bool_slice_appends bits : len bits <= 2040 ->
  appends (ser_bool_slice bits) (bytes_for_bits (len bits) :: pack bits).
Proof.
  intros Hn w H. cbn [length] in H. unfold pack in *. rewrite pack_aux_length in H by lia.
  unfold ser_bool_slice. fold (len bits). rewrite calc_bytes_for_bits_ok by assumption. cbn [obind]. unfold W.
  rewrite wr_u8_ok by lia. cbn [of_option obind].
  rewrite ser_bits_loop_spec; [now rewrite wapp_app|lia|].
  rewrite wapp_len, wapp_cap, pack_aux_length by lia. cbn [length]. lia.
Qed.

Lemma ser_regs_loop_spec : forall vs w, (length (w_out w) + 2 * length vs <= w_cap w)%nat ->
  ser_regs_loop vs w = Ok (wapp w (flat_map be vs)).
Proof.
  induction vs as [|v rest IH]; intros w H; cbn [ser_regs_loop flat_map].
  - now rewrite wapp_nil.
  - cbn [length] in H. unfold W. rewrite wr_u16_be_ok by lia. cbn [of_option obind].
    rewrite IH by (rewrite wapp_len, wapp_cap; cbn [length be]; lia). now rewrite wapp_app.
Qed.

Lemma flat_map_be_length vs : length (flat_map be vs) = (2 * length vs)%nat.
Proof. induction vs as [|v r IH]; [reflexivity|]. cbn [flat_map length be app]. lia. Qed.

Lemma ser_u16_slice_appends vs : len vs <= 127 ->
  appends (ser_u16_slice vs) (2 * len vs :: flat_map be vs).
Proof.
  intros Hn w H. cbn [length] in H. rewrite flat_map_be_length in H.
  unfold ser_u16_slice, calc_bytes_for_registers. fold (len vs).
  destruct (N.leb_spec (2 * len vs) 255); [|lia]. cbn [obind]. unfold W.
  rewrite wr_u8_ok by lia. cbn [of_option obind].
  rewrite ser_regs_loop_spec by (rewrite wapp_len, wapp_cap; cbn [length]; lia). now rewrite wapp_app.
Qed.

Ltac room := unfold wnew, wapp, buffer_capacity; cbn [w_out w_cap length app be]; lia.

(* ---- framing: a body that appends bs (at most 252 bytes) gives the reference frame ---- *)
Lemma encode_tcp_ok tx uid fcv (body : ser) bs : appends body bs -> (length bs <= 252)%nat ->
  frame_format EInsufficientWriteSpace Tcp tx uid fcv body =
  Ok (be tx ++ [0; 0] ++ be (len (fcv :: bs) + 1) ++ [uid] ++ fcv :: bs).
Proof.
  intros Hb Hl. unfold frame_format, mbap_format, w.
  rewrite wr_u16_be_ok by room. cbn [of_option obind].
  rewrite wr_u16_be_ok by room. cbn [of_option obind].
  rewrite wr_u16_be_ok by room. cbn [of_option obind].
  rewrite wr_u8_ok by room. cbn [of_option obind].
  rewrite wr_u8_ok by room. cbn [of_option obind].
  rewrite !wapp_app. rewrite Hb by room. cbn [obind]. rewrite wapp_app.
  f_equal. unfold wapp, wnew, patch_len. cbn [w_out w_cap app be firstn skipn length Nat.sub mbap_header_length].
  unfold len. cbn [length]. rewrite (N.mod_small (N.of_nat (S (length bs)) + 1) 65536) by lia.
  reflexivity.
Qed.

Lemma encode_rtu_ok tx uid fcv (body : ser) bs : appends body bs -> (length bs <= 252)%nat ->
  frame_format EInsufficientWriteSpace Rtu tx uid fcv body =
  Ok (let b := uid :: fcv :: bs in b ++ [crc b mod 256; crc b / 256]).
Proof.
  intros Hb Hl. unfold frame_format, rtu_format, w.
  rewrite wr_u8_ok by room. cbn [of_option obind].
  rewrite wr_u8_ok by room. cbn [of_option obind].
  rewrite !wapp_app. rewrite Hb by room. cbn [obind]. rewrite wapp_app.
  rewrite wr_u16_le_ok by (rewrite wapp_len, wapp_cap; room).
  cbn [of_option obind]. reflexivity.
Qed.

(* the body bytes of the reference PDU *)
Definition ref_body (c : call) : list N := tl (ref_pdu c).

Lemma range_ok_true s n : range_ok s n = true -> 1 <= n /\ s + n <= 65536.
Proof. unfold range_ok. lia. Qed.

(* construction succeeds within limits, and the serializer appends the reference body *)
Lemma build_within c : call_wf c -> within_limits_b c = true ->
  exists r, build c = Ok r /\ ref_pdu c = function_of r :: ref_body c /\
            appends (serialize r) (ref_body c) /\ (length (ref_body c) <= 252)%nat.
Proof.
  intros Hwf Hlim. destruct c as [s n|s n|s n|s n|i v|i v|s vs|s vs];
    cbn [within_limits_b call_wf] in *; unfold is_u16 in *.
  1,2: apply andb_prop in Hlim as [Hr Hn]; apply range_ok_true in Hr;
       eexists; cbn [build]; unfold of_read_bits, max_read_coils_count; rewrite limited_count_spec by lia;
       replace (range_ok s n) with true by (unfold range_ok; lia);
       destruct (N.ltb_spec 2000 n); [lia|]; cbn [of_range obind];
       (split; [reflexivity|]); (split; [reflexivity|]); (split; [apply ser_range_appends|cbn; lia]).
  1,2: apply andb_prop in Hlim as [Hr Hn]; apply range_ok_true in Hr;
       eexists; cbn [build]; unfold of_read_registers, max_read_registers_count; rewrite limited_count_spec by lia;
       replace (range_ok s n) with true by (unfold range_ok; lia);
       destruct (N.ltb_spec 125 n); [lia|]; cbn [of_range obind];
       (split; [reflexivity|]); (split; [reflexivity|]); (split; [apply ser_range_appends|cbn; lia]).
  - eexists. split; [reflexivity|]. split; [reflexivity|]. split; [apply ser_indexed_bool_appends|destruct v; cbn; lia].
  - eexists. split; [reflexivity|]. split; [reflexivity|]. split; [apply ser_indexed_u16_appends|cbn; lia].
  - apply andb_prop in Hlim as [Hr Hn]. apply range_ok_true in Hr. fold (len vs) in *.
    eexists. cbn [build]. unfold write_multiple_from. fold (len vs).
    destruct (N.ltb_spec 65535 (len vs)); [lia|]. rewrite try_from_spec by lia.
    replace (range_ok s (len vs)) with true by (unfold range_ok; lia). cbn [of_range obind].
    split; [reflexivity|]. split; [reflexivity|]. split.
    + intros w Hw. cbn [serialize]. unfold ser_write_multiple_bool, max_write_coils_count. cbn [snd].
      destruct (N.ltb_spec 1968 (len vs)); [lia|].
      unfold ref_body in *. cbn [ref_pdu tl] in *.
      rewrite !app_length in Hw. cbn [length be] in Hw.
      rewrite (ser_range_appends (s, len vs)) by (cbn [fst snd length app be]; lia). cbn [obind fst snd].
      rewrite ser_bool_slice_appends; [|lia|].
      * rewrite wapp_app. now rewrite <- !app_assoc.
      * rewrite wapp_len, wapp_cap. cbn [length app be] in *. lia.
    + unfold ref_body. cbn [ref_pdu tl]. rewrite !app_length. unfold pack. rewrite pack_aux_length by lia.
      cbn [length be]. unfold len in *. lia.
  - destruct Hwf as [Hs Hvs]. apply andb_prop in Hlim as [Hr Hn]. apply range_ok_true in Hr. fold (len vs) in *.
    eexists. cbn [build]. unfold write_multiple_from. fold (len vs).
    destruct (N.ltb_spec 65535 (len vs)); [lia|]. rewrite try_from_spec by lia.
    replace (range_ok s (len vs)) with true by (unfold range_ok; lia). cbn [of_range obind].
    split; [reflexivity|]. split; [reflexivity|]. split.
    + intros w Hw. cbn [serialize]. unfold ser_write_multiple_u16, max_write_registers_count. cbn [snd].
      destruct (N.ltb_spec 123 (len vs)); [lia|].
      unfold ref_body in *. cbn [ref_pdu tl] in *.
      rewrite !app_length in Hw. cbn [length be] in Hw. rewrite flat_map_be_length in Hw.
      rewrite (ser_range_appends (s, len vs)) by (cbn [fst snd length app be]; lia). cbn [obind fst snd].
      rewrite ser_u16_slice_appends; [|lia|].
      * rewrite wapp_app. now rewrite <- !app_assoc.
      * rewrite wapp_len, wapp_cap. cbn [length app be] in *. rewrite flat_map_be_length. lia.
    + unfold ref_body. cbn [ref_pdu tl]. rewrite !app_length, flat_map_be_length.
      cbn [length be]. unfold len in *. lia.
Qed.

(* everything at once: within the limits the frame is exactly the reference encoding *)
Theorem submit_within f tx uid c : call_wf c -> within_limits c ->
  client_submit f tx uid c = Ok (match f with Tcp => ref_encode_tcp tx uid c | Rtu => ref_encode_rtu uid c end).
Proof.
  intros Hwf Hlim. destruct (build_within c Hwf Hlim) as (r & Hb & Hp & Ha & Hl).
  unfold client_submit. rewrite Hb. cbn [obind]. unfold client_encode. destruct f.
  - rewrite (encode_tcp_ok tx uid _ _ _ Ha Hl). unfold ref_encode_tcp. now rewrite Hp.
  - rewrite (encode_rtu_ok tx uid _ _ _ Ha Hl). unfold ref_encode_rtu. now rewrite Hp.
Qed.

(* outside the limits: an error, before anything is handed to the transport *)
Theorem submit_outside f tx uid c : call_wf c -> ~ within_limits c ->
  exists e, client_submit f tx uid c = Err e /\ submit_wire f tx uid c = [].
Proof.
  intros Hwf Hlim. unfold within_limits in Hlim. apply not_true_is_false in Hlim.
  assert (Hw : forall e, client_submit f tx uid c = Err e -> submit_wire f tx uid c = []).
  { intros e. unfold client_submit, submit_wire, transmit. destruct (build c) as [r| |]; cbn [obind]; [|reflexivity|reflexivity].
    intros ->. reflexivity. }
  assert (exists e, client_submit f tx uid c = Err e) as [e He]; [|eauto].
  unfold client_submit.
  destruct c as [s n|s n|s n|s n|i v|i v|s vs|s vs]; cbn [within_limits_b call_wf] in *; unfold is_u16 in *; try discriminate.
  1,2: cbn [build]; unfold of_read_bits, max_read_coils_count; rewrite limited_count_spec by lia; destruct (range_ok s n) eqn:Hr;
       [apply range_ok_true in Hr;
        destruct (N.ltb_spec 2000 n); [cbn; eauto|cbn [andb] in Hlim; lia]
       | destruct (n =? 0); cbn; eauto].
  1,2: cbn [build]; unfold of_read_registers, max_read_registers_count; rewrite limited_count_spec by lia; destruct (range_ok s n) eqn:Hr;
       [apply range_ok_true in Hr;
        destruct (N.ltb_spec 125 n); [cbn; eauto|cbn [andb] in Hlim; lia]
       | destruct (n =? 0); cbn; eauto].
  - cbn [build]. unfold write_multiple_from. fold (len vs) in *.
    destruct (N.ltb_spec 65535 (len vs)); [cbn; eauto|]. rewrite try_from_spec by lia.
    destruct (range_ok s (len vs)) eqn:Hr; [|destruct (len vs =? 0); cbn; eauto].
    cbn [of_range obind andb] in *. unfold client_encode.
    assert (Hser : forall w, serialize (RWriteMultipleCoils (s, len vs) vs) w = Err ECountTooBigForType).
    { intros w. cbn [serialize]. unfold ser_write_multiple_bool, max_write_coils_count. cbn [snd].
      destruct (N.ltb_spec 1968 (len vs)); [reflexivity|lia]. }
    destruct f; unfold frame_format, mbap_format, rtu_format, Format.w.
    + do 3 (rewrite wr_u16_be_ok by room; cbn [of_option obind]).
      do 2 (rewrite wr_u8_ok by room; cbn [of_option obind]). rewrite Hser. cbn; eauto.
    + do 2 (rewrite wr_u8_ok by room; cbn [of_option obind]). rewrite Hser. cbn; eauto.
  - destruct Hwf as [Hs _]. cbn [build]. unfold write_multiple_from. fold (len vs) in *.
    destruct (N.ltb_spec 65535 (len vs)); [cbn; eauto|]. rewrite try_from_spec by lia.
    destruct (range_ok s (len vs)) eqn:Hr; [|destruct (len vs =? 0); cbn; eauto].
    cbn [of_range obind andb] in *. unfold client_encode.
    assert (Hser : forall w, serialize (RWriteMultipleRegisters (s, len vs) vs) w = Err ECountTooBigForType).
    { intros w. cbn [serialize]. unfold ser_write_multiple_u16, max_write_registers_count. cbn [snd].
      destruct (N.ltb_spec 123 (len vs)); [reflexivity|lia]. }
    destruct f; unfold frame_format, mbap_format, rtu_format, Format.w.
    + do 3 (rewrite wr_u16_be_ok by room; cbn [of_option obind]).
      do 2 (rewrite wr_u8_ok by room; cbn [of_option obind]). rewrite Hser. cbn; eauto.
    + do 2 (rewrite wr_u8_ok by room; cbn [of_option obind]). rewrite Hser. cbn; eauto.
Qed.

Definition ref_encode (f : framing) (tx uid : N) (c : call) : list N :=
  match f with Tcp => ref_encode_tcp tx uid c | Rtu => ref_encode_rtu uid c end.

Lemma within_dec c : {within_limits c} + {~ within_limits c}.
Proof. unfold within_limits. destruct (within_limits_b c); [left; reflexivity|right; discriminate]. Qed.

Theorem submit_exact f tx uid c bs : call_wf c ->
  client_submit f tx uid c = Ok bs -> bs = ref_encode f tx uid c /\ within_limits c.
Proof.
  intros Hwf H. destruct (within_dec c) as [Hl|Hl].
  - rewrite (submit_within f tx uid c Hwf Hl) in H. inversion H. now split.
  - destruct (submit_outside f tx uid c Hwf Hl) as (e & He & _). congruence.
Qed.

Theorem submit_total f tx uid c : call_wf c -> client_submit f tx uid c <> Panic.
Proof.
  intros Hwf. destruct (within_dec c) as [Hl|Hl].
  - rewrite (submit_within f tx uid c Hwf Hl). discriminate.
  - destruct (submit_outside f tx uid c Hwf Hl) as (e & He & _). congruence.
Qed.

(* what reaches the transport: exactly the one frame, or nothing *)
Theorem submit_wire_spec f tx uid c :
  submit_wire f tx uid c = match client_submit f tx uid c with Ok bs => [bs] | _ => [] end.
Proof.
  unfold submit_wire, client_submit, transmit. destruct (build c) as [r| |]; cbn [obind]; try reflexivity.
  destruct (client_encode f tx uid r); reflexivity.
Qed.

Lemma ref_encode_length f tx uid c : call_wf c -> within_limits c ->
  (length (ref_encode f tx uid c) <= match f with Tcp => 260 | Rtu => 256 end)%nat.
Proof.
  intros Hwf Hl. destruct (build_within c Hwf Hl) as (r & _ & Hp & _ & Hlen).
  destruct f; unfold ref_encode, ref_encode_tcp, ref_encode_rtu; rewrite Hp;
    cbn [length app be]; rewrite ?app_length; cbn [length]; lia.
Qed.

Theorem submit_size f tx uid c bs : call_wf c -> client_submit f tx uid c = Ok bs ->
  (length bs <= match f with Tcp => 260 | Rtu => 256 end)%nat.
Proof.
  intros Hwf H. destruct (submit_exact f tx uid c bs Hwf H) as [-> Hl]. now apply ref_encode_length.
Qed.
