(* The packing Spec `pack` (Horner form, Spec/ClientCodecSpec.v) stated bitwise: coil k is bit
   (k mod 8) of byte (k / 8), every padding bit is 0, and there are ceil(n/8) bytes. Depends on
   the Spec only. *)
From Coq Require Import NArith List Lia Bool Arith ZArith ZifyBool ZifyNat ZifyN.
From Rodbus Require Import Base.ClientTypes Spec.ClientCodecSpec.
Import ListNotations.
Ltac Zify.zify_post_hook ::= Z.div_mod_to_equations.
Local Open Scope N_scope.
Arguments N.add : simpl never.
Arguments N.mul : simpl never.

Lemma byte_of_bits_testbit bits : forall i, N.testbit (byte_of_bits bits) (N.of_nat i) = nth i bits false.
Proof.
  induction bits as [|b r IH]; intros i; cbn [byte_of_bits].
  - rewrite N.bits_0. destruct i; reflexivity.
  - replace ((if b then 1 else 0) + 2 * byte_of_bits r) with (2 * byte_of_bits r + N.b2n b) by (destruct b; cbn [N.b2n]; lia).
    destruct i as [|i].
    + cbn [nth N.of_nat]. apply N.testbit_0_r.
    + rewrite Nat2N.inj_succ, N.testbit_succ_r. cbn [nth]. apply IH.
Qed.

Lemma nth_firstn_lt {A} n : forall (l : list A) k d, (k < n)%nat -> nth k (firstn n l) d = nth k l d.
Proof.
  induction n as [|n IH]; intros l k d H; [lia|]. destruct l as [|x l]; [reflexivity|].
  destruct k; cbn [firstn nth]; [reflexivity|apply IH; lia].
Qed.

Lemma nth_skipn_add {A} n : forall (l : list A) k d, nth k (skipn n l) d = nth (n + k) l d.
Proof.
  induction n as [|n IH]; intros l k d; [reflexivity|]. destruct l as [|x l]; cbn [skipn plus nth]; [destruct k; reflexivity|apply IH].
Qed.

Lemma pack_aux_step f bits : bits <> [] ->
  pack_aux (S f) bits = byte_of_bits (firstn 8 bits) :: pack_aux f (skipn 8 bits).
Proof. destruct bits; [congruence|reflexivity]. Qed.

Lemma pack_aux_bit : forall fuel bits k, (length bits <= fuel)%nat ->
  N.testbit (nth (k / 8) (pack_aux fuel bits) 0) (N.of_nat (k mod 8)) = nth k bits false.
Proof.
  induction fuel as [|f IH]; intros bits k H.
  - destruct bits; [|cbn in H; lia]. cbn [pack_aux]. destruct (k / 8)%nat, k; cbn [nth]; apply N.bits_0.
  - destruct (list_eq_dec Bool.bool_dec bits []) as [->|Hne].
    { cbn [pack_aux]. destruct (k / 8)%nat, k; cbn [nth]; apply N.bits_0. }
    assert (Hl : (1 <= length bits)%nat) by (destruct bits; [congruence|cbn; lia]).
    rewrite pack_aux_step by assumption.
    destruct (Nat.lt_ge_cases k 8) as [Hk|Hk].
    + replace (k / 8)%nat with 0%nat by lia. replace (k mod 8)%nat with k by lia. cbn [nth].
      rewrite byte_of_bits_testbit. now apply nth_firstn_lt.
    + replace (k / 8)%nat with (S ((k - 8) / 8)) by lia. replace (k mod 8)%nat with ((k - 8) mod 8)%nat by lia. cbn [nth].
      rewrite IH by (rewrite skipn_length; lia). rewrite nth_skipn_add. f_equal. lia.
Qed.

(* LSB-first packing, for every bit position of every byte (positions beyond the last coil are 0) *)
Theorem pack_bit bits k :
  N.testbit (nth (k / 8) (pack bits) 0) (N.of_nat (k mod 8)) = nth k bits false.
Proof. unfold pack. now apply pack_aux_bit. Qed.

Lemma pack_aux_len : forall fuel bits, (length bits <= fuel)%nat ->
  length (pack_aux fuel bits) = ((length bits + 7) / 8)%nat.
Proof.
  induction fuel as [|f IH]; intros bits H.
  - destruct bits; [reflexivity|cbn in H; lia].
  - destruct (list_eq_dec Bool.bool_dec bits []) as [->|Hne]; [reflexivity|].
    assert (Hl : (1 <= length bits)%nat) by (destruct bits; [congruence|cbn; lia]).
    rewrite pack_aux_step by assumption. cbn [length]. rewrite IH by (rewrite skipn_length; lia).
    rewrite skipn_length. lia.
Qed.

Theorem pack_length bits : len (pack bits) = bytes_for_bits (len bits).
Proof. unfold pack, len, bytes_for_bits. rewrite pack_aux_len by lia. lia. Qed.

(* every packed byte is a byte *)
Lemma byte_of_bits_lt bits : (length bits <= 8)%nat -> byte_of_bits bits < 2 ^ N.of_nat (length bits).
Proof.
  induction bits as [|b r IH]; intros H; cbn [byte_of_bits length]; [cbn; lia|].
  cbn [length] in H. rewrite Nat2N.inj_succ, N.pow_succ_r'. specialize (IH ltac:(lia)). destruct b; lia.
Qed.
