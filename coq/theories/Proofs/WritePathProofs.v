(* C06, transmit side: whatever the transport does and whatever commands arrive, what has been handed to the
   transport is a PREFIX of the one serialisation of the frame, and when the write returns Ok it is the whole
   frame exactly once. Proved from the regenerated tables of Gen/WritePath.v: every arm of PhysLayer::write is
   write_all with its result returned; write_reply creates the write future once. *)
From Coq Require Import NArith List Bool Arith Lia.
From Rodbus Require Import Gen.WritePath Model.WritePath.
Import ListNotations.

(* ---- write_all ---- *)
Lemma write_all_prefix : forall ts rem out r, write_all rem ts = (out, r) -> exists rest, rem = out ++ rest /\ (r = WDone -> rest = []).
Proof.
  induction ts as [|k ts IH]; intros rem out r; destruct rem as [|x rem']; cbn [write_all]; intros H.
  - inversion H; subst. exists []; split; [reflexivity|auto].
  - inversion H; subst. exists (x :: rem'). split; [reflexivity|discriminate].
  - inversion H; subst. exists []; split; [reflexivity|auto].
  - destruct (write_all (skipn k (x :: rem')) ts) as [o r'] eqn:E. inversion H; subst.
    destruct (IH _ _ _ E) as (rest & Hr & Hd). exists rest. split; [|exact Hd].
    rewrite <- app_assoc, <- Hr. symmetry. apply firstn_skipn.
Qed.

Lemma write_once_prefix : forall ts data out r, write_once data ts = (out, r) -> exists rest, data = out ++ rest.
Proof.
  induction ts as [|k ts IH]; intros data out r H; cbn [write_once] in H.
  - inversion H; subst. now exists data.
  - destruct k as [|k].
    + destruct data; [inversion H; subst; now exists []|]. eapply IH; eassumption.
    + inversion H; subst. exists (skipn (S k) data). symmetry. exact (firstn_skipn (S k) data).
Qed.

(* every transport arm of PhysLayer::write hands over all the bytes or does not return Ok *)
Lemma every_arm_is_write_all : forall v, phys_write_arm v = WriteAllReturned.
Proof. intros v. destruct v; reflexivity. Qed.

Theorem phys_write_complete : forall v data ts out r, phys_write v data ts = (out, r) ->
  exists rest, data = out ++ rest /\ (r = WDone -> out = data).
Proof.
  intros v data ts out r H. unfold phys_write in H. rewrite every_arm_is_write_all in H.
  destruct (write_all_prefix _ _ _ _ H) as (rest & Hd & Hdone). exists rest. split; [exact Hd|].
  intros Hr. rewrite (Hdone Hr) in Hd. now rewrite app_nil_r in Hd.
Qed.

(* ... which is false of a single `write` whose count is dropped: a transport that takes 2 of 4 bytes *)
Lemma write_once_loses_bytes : exists data ts out, write_once data ts = (out, WDone) /\ out <> data.
Proof. exists [1; 2; 3; 4]%N, [2], [1; 2]%N. split; [reflexivity|discriminate]. Qed.

(* ---- write_reply ---- *)
Definition is_take (e : wevent) : bool := match e with Take _ => true | Cmd CChangeDecoding => false | Cmd _ => true end.

(* with the write future created once, decode-level changes are invisible in what is emitted *)
Lemma write_reply_once_ignores_decoding : forall evs data rem,
  write_reply WriteOnceRacedAgainstCommands data rem evs = write_reply WriteOnceRacedAgainstCommands data rem (filter is_take evs).
Proof.
  induction evs as [|e evs IH]; intros data rem; [reflexivity|]. destruct rem as [|x rem']; [destruct (filter is_take (e :: evs)); reflexivity|].
  destruct e as [k|c]; cbn [filter is_take].
  - cbn [write_reply]. now rewrite IH.
  - destruct c; cbn [filter is_take write_reply]; [apply IH|reflexivity|reflexivity].
Qed.

Lemma write_reply_once_prefix : forall evs data rem out r, write_reply WriteOnceRacedAgainstCommands data rem evs = (out, r) ->
  exists rest, rem = out ++ rest /\ (r = RDone -> rest = []).
Proof.
  induction evs as [|e evs IH]; intros data rem out r; destruct rem as [|x rem']; cbn [write_reply]; intros H.
  - inversion H; subst. exists []; split; [reflexivity|auto].
  - inversion H; subst. exists (x :: rem'). split; [reflexivity|discriminate].
  - inversion H; subst. exists []; split; [reflexivity|auto].
  - destruct e as [k|c].
    + destruct (write_reply WriteOnceRacedAgainstCommands data (skipn k (x :: rem')) evs) as [o r'] eqn:E. inversion H; subst.
      destruct (IH _ _ _ _ E) as (rest & Hr & Hd). exists rest. split; [|exact Hd].
      rewrite <- app_assoc, <- Hr. symmetry. apply firstn_skipn.
    + destruct c.
      * exact (IH _ _ _ _ H).
      * inversion H; subst. exists (x :: rem'). split; [reflexivity|discriminate].
      * inversion H; subst. exists (x :: rem'). split; [reflexivity|discriminate].
Qed.

(* CANCEL-SAFETY of the server's reply write, for the code as it is (regenerated shape): for every reply and every
   interleaving of transport progress and commands, what has been emitted is a prefix of the reply - the reply
   itself, exactly once, when the write completes - and it does not depend on the decode-level changes *)
Theorem server_write_reply_safe : forall data evs out r, server_write_reply data evs = (out, r) ->
  (exists rest, data = out ++ rest /\ (r = RDone -> out = data)) /\
  server_write_reply data (filter is_take evs) = (out, r).
Proof.
  intros data evs out r H. unfold server_write_reply in *.
  change write_reply_shape with WriteOnceRacedAgainstCommands in *.
  split.
  - destruct (write_reply_once_prefix _ _ _ _ _ H) as (rest & Hd & Hdone). exists rest. split; [exact Hd|].
    intros Hr. rewrite (Hdone Hr) in Hd. now rewrite app_nil_r in Hd.
  - now rewrite <- write_reply_once_ignores_decoding.
Qed.

(* ... which is false when the write is re-created after every command (seeded change c06_6): 2 bytes taken, a
   decode-level change, then the transport takes everything: fragment + whole reply *)
Lemma write_reply_recreated_refuted : exists data evs out,
  write_reply WriteRecreatedAfterEveryCommand data data evs = (out, RDone) /\ out <> data.
Proof. exists [1; 2; 3; 4]%N, [Take 2; Cmd CChangeDecoding; Take 9], [1; 2; 1; 2; 3; 4]%N. split; [reflexivity|discriminate]. Qed.

(* ---- the client's request write, bounded by the request timeout (F14) ---- *)
From Rodbus Require Import Gen.ClientFatal.

Lemma client_write_prefix : forall evs shape rem out r, client_write shape rem evs = (out, r) ->
  exists rest, rem = out ++ rest /\ (r = CDone -> rest = []).
Proof.
  induction evs as [|e evs IH]; intros shape rem out r; destruct rem as [|x rem']; cbn [client_write]; intros H.
  - inversion H; subst. exists []; split; [reflexivity|auto].
  - inversion H; subst. exists (x :: rem'). split; [reflexivity|discriminate].
  - inversion H; subst. exists []; split; [reflexivity|auto].
  - destruct e as [k|].
    + destruct (client_write shape (skipn k (x :: rem')) evs) as [o r'] eqn:E. inversion H; subst.
      destruct (IH _ _ _ _ E) as (rest & Hr & Hd). exists rest. split; [|exact Hd].
      rewrite <- app_assoc, <- Hr. symmetry. exact (firstn_skipn k (x :: rem')).
    + destruct shape.
      * exact (IH _ _ _ _ H).
      * inversion H; subst. exists (x :: rem'). split; [reflexivity|discriminate].
Qed.

(* what one request write hands to the transport is a prefix of the one frame; the frame itself when it completes *)
Theorem client_request_write_prefix : forall data evs out r, client_request_write data evs = (out, r) ->
  exists rest, data = out ++ rest /\ (r = CDone -> out = data).
Proof.
  intros data evs out r H. destruct (client_write_prefix _ _ _ _ _ H) as (rest & Hd & Hdone). exists rest. split; [exact Hd|].
  intros Hr. rewrite (Hdone Hr) in Hd. now rewrite app_nil_r in Hd.
Qed.

(* with the bound, a transport that stops taking bytes cannot hold the client for ever: once the timeout elapses the
   call has ended (done or timed out), never still parked *)
Theorem client_write_bounded : forall evs rem out r, client_write ClientWriteBoundedByRequestTimeout rem evs = (out, r) ->
  In CTimeout evs -> r <> CParked.
Proof.
  induction evs as [|e evs IH]; intros rem out r H Hin; [destruct Hin|]. destruct rem as [|x rem']; cbn [client_write] in H.
  - inversion H; subst. discriminate.
  - destruct e as [k|].
    + destruct (client_write ClientWriteBoundedByRequestTimeout (skipn k (x :: rem')) evs) as [o r'] eqn:E. inversion H; subst.
      destruct Hin as [Hd|Hin]; [discriminate|]. exact (IH _ _ _ E Hin).
    + inversion H; subst. discriminate.
Qed.
Theorem client_request_write_bounded : forall data evs out r, client_request_write data evs = (out, r) -> In CTimeout evs -> r <> CParked.
Proof. intros data evs out r H Hin. unfold client_request_write in H. change client_write_shape with ClientWriteBoundedByRequestTimeout in H. exact (client_write_bounded evs data out r H Hin). Qed.

(* a whole connection: complete frames, then at most one cut frame - and if a frame was cut by the timeout the session is
   over: NO further frame is emitted on that connection (an I/O error ends the client session: Gen/ClientFatal) *)
Theorem client_conn_emit_shape : forall reqs out alive, client_conn_emit io_error_ends_session reqs = (out, alive) ->
  exists k cut rest, out = concat (map fst (firstn k reqs)) ++ cut /\
                     (cut = [] \/ fst (nth k reqs ([], [])) = cut ++ rest) /\
                     (alive = false -> exists evs, In CTimeout evs /\ snd (nth k reqs ([], [])) = evs).
Proof.
  change io_error_ends_session with true.
  induction reqs as [|[data evs] reqs IH]; intros out alive H; cbn [client_conn_emit] in H.
  - inversion H; subst. exists 0, [], []. cbn. repeat split; auto. discriminate.
  - destruct (client_request_write data evs) as [o r] eqn:E. destruct (client_request_write_prefix _ _ _ _ E) as (rest & Hd & Hdone).
    destruct r.
    + destruct (client_conn_emit true reqs) as [o' a'] eqn:E'. inversion H; subst.
      destruct (IH _ _ eq_refl) as (k & cut & rest' & Ho & Hc & Ha). exists (S k), cut, rest'.
      cbn [firstn map concat fst nth]. split; [rewrite <- (Hdone eq_refl), Ho, app_assoc; reflexivity|]. split; assumption.
    + injection H as <- <-. exists 0, o, rest. cbn [firstn map concat app nth fst]. split; [reflexivity|]. split; [right; exact Hd|discriminate].
    + injection H as <- <-. exists 0, o, rest. cbn [firstn map concat app nth fst snd]. split; [reflexivity|]. split; [right; exact Hd|].
      intros _. exists evs. split; [|reflexivity].
      (* the call timed out, so a timeout event is in its script *)
      clear -E. unfold client_request_write in E. revert data o E. induction evs as [|e evs IHe]; intros data o E; destruct data as [|x d]; cbn [client_write] in E; try discriminate.
      destruct e as [k|]; [|left; reflexivity].
      destruct (client_write client_write_shape (skipn k (x :: d)) evs) as [o2 r2] eqn:E2. inversion E; subst. right. exact (IHe _ _ E2).
Qed.
