(* C13 for the serial channel: the PortState trace of every run of the serial system is legal. *)
From Coq Require Import NArith List Bool Arith Lia.
From Rodbus Require Import Model.Retry Spec.Lifecycle Spec.ClientSpec Gen.SessionErrors Model.ClientTask Model.SerialTask
  Proofs.ClientBase Proofs.C13Proofs.
Import ListNotations.
Local Open Scope N_scope.
Local Arguments listens_of o : simpl nomatch.

(* ---------- every step of the TCP system makes at most one listener notification ---------- *)
Definition lc (r : state * list output) : Prop := (length (listens_of (snd r)) <= 1)%nat.

Lemma listens_map_complete (l : list request) : listens_of (map (fun r => OComplete (rq_id r) (RErr drop_error)) l) = [].
Proof. induction l as [|x l IH]; [reflexivity|]. cbn [map]. rewrite listens_cons, IH. reflexivity. Qed.

Ltac lc_tac := unfold lc; cbn [snd fst]; rewrite ?listens_app, ?listens_cons, ?listens_drop, ?listens_map_complete, ?listens_app, ?listens_cons, ?listens_drop;
               cbn [app length listens_of flat_map]; rewrite ?listens_drop; cbn [app length]; try lia.

Section LC.
Variable cfg : config.

Lemma crash_lc s : lc (crash s).
Proof. unfold crash. lc_tac. Qed.
Lemma terminate_lc s pre : listens_of pre = [] -> lc (terminate s pre).
Proof. intros H. unfold terminate. lc_tac. rewrite H. cbn. lia. Qed.
Lemma loop_top_lc s : lc (loop_top s).
Proof. unfold loop_top, start_connecting. destruct (enabled s); lc_tac. Qed.
Lemma wait_for_lc s l o pre : listens_of pre = [] -> lc (wait_for s l o pre).
Proof.
  intros H. unfold wait_for. destruct (retry_call s o) as [[s1 d]|].
  - lc_tac. rewrite H. cbn. lia.
  - pose proof (crash_lc s) as C. destruct (crash s) as [s' out]. unfold lc in *. cbn [snd] in *. rewrite listens_app, H. exact C.
Qed.
Lemma end_session_lc s e : lc (end_session s e).
Proof.
  unfold end_session. destruct e; try (apply wait_for_lc; reflexivity).
  - pose proof (loop_top_lc s) as C. destruct (loop_top s) as [s' o]. unfold lc in *. cbn [snd] in *. rewrite listens_cons. exact C.
  - apply terminate_lc. reflexivity.
Qed.
Lemma lc_cons_silent s' o x : listens_of [x] = [] -> lc (s', o) -> lc (s', x :: o).
Proof. intros H C. unfold lc in *. cbn [snd] in *. change (x :: o) with ([x] ++ o). rewrite listens_app, H. exact C. Qed.
Lemma finish_lc s r res : lc (finish s r res).
Proof.
  unfold finish.
  assert (Hend : forall s0 se, lc (let '(s', o) := end_session s0 se in (s', [OComplete (rq_id r) res] ++ o))).
  { intros s0 se. pose proof (end_session_lc s0 se) as C. destruct (end_session s0 se) as [s' o]. apply lc_cons_silent; [reflexivity|exact C]. }
  destruct res as [|e]; [lc_tac|]. destruct (from_request_err e) as [se|]; [apply Hend|].
  destruct (request_error_beq e counted_error); [|lc_tac].
  destruct (tc_increment (tcount (set_ph s PIdle))) as [t' stop]. destruct stop; [apply Hend|lc_tac].
Qed.
Lemma transmit_lc s r : lc (transmit s r).
Proof.
  unfold transmit. destruct (txid_next (txid s)) as [v' tx]. destruct (rq_kind r).
  - destruct (wfail (set_txid s v')).
    + pose proof (finish_lc (set_wctl (set_txid s v') false 0) r (RErr ReIo)) as C. destruct (finish _ r _) as [s' o].
      apply lc_cons_silent; [reflexivity|]. apply lc_cons_silent; [reflexivity|exact C].
    + destruct (write_now (set_txid s v')); lc_tac.
  - pose proof (finish_lc (set_txid s v') r (RErr ReBadRequest)) as C. destruct (finish _ r _) as [s' o]. apply lc_cons_silent; [reflexivity|exact C].
Qed.
Lemma take_lc s c : lc (take s c).
Proof.
  unfold take. destruct (ph s); destruct c; cbn [change_setting]; try lc_tac;
  try apply transmit_lc; try apply end_session_lc; try (apply terminate_lc; reflexivity);
  try (destruct (enabled _); try lc_tac; try apply loop_top_lc; try apply end_session_lc; unfold start_connecting; lc_tac);
  try apply loop_top_lc.
Qed.
Lemma step_lc s e : lc (step cfg s e).
Proof.
  destruct e; cbn [step]; try lc_tac.
  - destruct (Nat.eqb (handles s) 0); [lc_tac|]. destruct (ph s); try lc_tac; (destruct (_ && _); [lc_tac|]; destruct st; lc_tac).
  - destruct (listens (ph s)); [|lc_tac]. destruct (queue s); [|apply take_lc].
    destruct (closed s); [|lc_tac]. destruct (ph s); try (apply terminate_lc; reflexivity); apply end_session_lc.
  - destruct (ph s); try lc_tac. destruct ok; [|apply wait_for_lc; reflexivity].
    destruct (retry_call s Reset) as [[s1 d]|]; [lc_tac|apply crash_lc].
  - destruct (reading (ph s)); [|lc_tac]. destruct (partial s); [lc_tac|]. unfold on_frame. destruct (ph s); try lc_tac.
    destruct (tx =? tx0); [apply finish_lc|lc_tac].
  - destruct (reading (ph s)); [|lc_tac]. destruct (partial s); lc_tac.
  - destruct (reading (ph s)); [|lc_tac]. destruct (partial s) as [[t k]|]; [|lc_tac]. unfold on_frame. cbn [ph set_partial]. destruct (ph s); try lc_tac.
    destruct (t =? tx); [apply finish_lc|lc_tac].
  - destruct (reading (ph s)); [|lc_tac]. destruct (partial s); [lc_tac|]. unfold on_read_error. destruct (ph s); try lc_tac; [|apply finish_lc].
    cbn [from_request_err]. apply end_session_lc.
  - destruct (reading (ph s)); [|lc_tac]. unfold on_read_error. destruct (ph s); try lc_tac; [|apply finish_lc]. cbn [from_request_err]. apply end_session_lc.
  - destruct (reading (ph s)); [|lc_tac]. unfold on_read_error. destruct (ph s); try lc_tac; [|apply finish_lc]. cbn [from_request_err]. apply end_session_lc.
  - destruct (ph s); try lc_tac.
    + destruct (Nat.eqb (wpark s) 0 && (fire cfg until <=? now s)); [unfold written; lc_tac|].
      destruct (fire cfg (wdl s) <=? now s); [apply finish_lc|lc_tac].
    + destruct (fire cfg deadline <=? now s); [apply finish_lc|lc_tac].
    + destruct (fire cfg until <=? now s); [apply loop_top_lc|lc_tac].
  - destruct (ph s); try apply crash_lc. lc_tac.
  - destruct (wpark s) as [|n]; [lc_tac|]. cbn [ph set_wpark]. destruct (ph s); try lc_tac.
    destruct (Nat.eqb n 0 && _); [unfold written|]; lc_tac.
Qed.
End LC.

(* ---------- the PortState trace ---------- *)
Definition pimg (l : cstate) : pstate :=
  match l with
  | LDisabled | LConnecting => SDisabled
  | LConnected => SOpen
  | LWaitFailed d | LWaitDisc d => SWait d
  | LShutdown => SShutdown
  end.
Definition pfinal (last : pstate) (l : list pstate) : pstate := fold_left (fun _ x => x) l last.

Lemma ppath_app a l1 l2 : ppath a (l1 ++ l2) = ppath a l1 && ppath (pfinal a l1) l2.
Proof. revert a; induction l1 as [|x l1 IH]; intros a; cbn; [reflexivity|]. rewrite IH, andb_assoc. reflexivity. Qed.
Lemma port_trace_app a b : port_trace (a ++ b) = port_trace a ++ port_trace b.
Proof. unfold port_trace. rewrite listens_app, flat_map_app. reflexivity. Qed.

Section SerialProofs.
Variable cfg : config.

Lemma crash_listens s : listens_of (snd (crash s)) = [].
Proof. unfold crash. cbn [snd]. rewrite listens_app, listens_map_complete, listens_drop. reflexivity. Qed.

(* the open result: Open, or the failed-open wait, (or the task crashed in the retry strategy) *)
Lemma connect_step s ok : ph s = PConnecting ->
  ph (fst (step cfg s (EvConnect ok))) <> PConnecting /\
  (listens_of (snd (step cfg s (EvConnect ok))) = [] /\ ph (fst (step cfg s (EvConnect ok))) = PDone \/
   listens_of (snd (step cfg s (EvConnect ok))) = [LConnected] \/
   exists d, listens_of (snd (step cfg s (EvConnect ok))) = [LWaitFailed d]).
Proof.
  intros Hp. cbn [step]. rewrite Hp. destruct ok.
  - destruct (retry_call s Reset) as [[s1 d]|].
    + cbn. split; [discriminate|]. right. left. reflexivity.
    + split; [unfold crash; cbn; discriminate|]. left. split; [apply crash_listens|reflexivity].
  - unfold wait_for. destruct (retry_call s Fail) as [[s1 d]|].
    + cbn. split; [discriminate|]. right. right. exists d. reflexivity.
    + pose proof (crash_listens s) as C. destruct (crash s) as [s' out] eqn:E. cbn [fst snd app] in *.
      assert (Hd : ph s' = PDone) by (unfold crash in E; inversion E; reflexivity).
      split; [rewrite Hd; discriminate|]. left. split; [exact C|exact Hd].
Qed.

Definition sinv (x : sstate) (last : cstate) : Prop :=
  ph (ss x) <> PConnecting /\ (ph (ss x) <> PDone -> consistent (ss x) last /\ last <> LConnecting).

Lemma one_or_none {A} (l : list A) : (length l <= 1)%nat -> l = [] \/ exists y, l = [y].
Proof. destruct l as [|y [|z l]]; cbn; intros H; [left; reflexivity|right; eexists; reflexivity|lia]. Qed.

Lemma settle_open_other ok r : ph (fst r) <> PConnecting -> settle_open cfg ok r = r.
Proof. intros H. unfold settle_open. destruct (ph (fst r)); try reflexivity. congruence. Qed.
Lemma settle_open_conn ok r : ph (fst r) = PConnecting ->
  settle_open cfg ok r = (fst (step cfg (fst r) (EvConnect ok)), snd r ++ snd (step cfg (fst r) (EvConnect ok))).
Proof. intros H. unfold settle_open. rewrite H. destruct (step cfg (fst r) (EvConnect ok)). reflexivity. Qed.

Lemma sinv_intro s1 ok last : ph s1 <> PConnecting -> (ph s1 <> PDone -> consistent s1 last /\ last <> LConnecting) ->
  sinv {| ss := s1; open_ok := ok |} last.
Proof. intros H1 H2. split; assumption. Qed.

(* one step of the serial system: the port notifications are a legal continuation *)
Lemma sstep_port x e last : sinv x last -> ph (ss x) <> PDone ->
  let '(x', o) := sstep cfg x (SEnv e) in
  ppath (pimg last) (port_trace o) = true /\
  sinv x' (final last (listens_of o)) /\
  (ph (ss x') <> PDone -> pfinal (pimg last) (port_trace o) = pimg (final last (listens_of o))).
Proof.
  intros [Hnc Hinv] Hnd. destruct (Hinv Hnd) as [Hc Hlast]. cbn [sstep].
  pose proof (step_good cfg (ss x) (rtu_event (ss x) e) last Hc Hnd) as (G1 & G2 & _). pose proof (step_lc cfg (ss x) (rtu_event (ss x) e)) as LC1.
  destruct (step cfg (ss x) (rtu_event (ss x) e)) as [s1 o1]. unfold lc in LC1. cbn [fst snd] in *.
  destruct (one_or_none _ LC1) as [E1|[y E1]].
  - (* no notification: the phase cannot be Connecting *)
    rewrite E1 in *. cbn [final fold_left] in G2.
    assert (Hnc1 : ph s1 <> PConnecting).
    { intros E. unfold consistent in G2. rewrite E in G2. destruct G2 as [G2 _]. congruence. }
    assert (Hres : ppath (pimg last) (port_trace o1) = true /\ sinv {| ss := s1; open_ok := open_ok x |} (final last (listens_of o1)) /\
                   (ph s1 <> PDone -> pfinal (pimg last) (port_trace o1) = pimg (final last (listens_of o1)))).
    { unfold port_trace. rewrite E1. cbn. split; [reflexivity|]. split; [|reflexivity]. apply sinv_intro; [exact Hnc1|]. intros _. split; [exact G2|exact Hlast]. }
    rewrite (settle_open_other (open_ok x) (s1, o1) Hnc1). exact Hres.
  - rewrite E1 in *. cbn [final fold_left path] in G1, G2. rewrite andb_true_r in G1.
    assert (Hcase : ph s1 = PConnecting \/ ph s1 <> PConnecting) by (destruct (ph s1); auto; right; discriminate).
    destruct Hcase as [Eph1|Hnc1].
    + (* Connecting: the port is opened at once *)
      rewrite (settle_open_conn (open_ok x) (s1, o1) Eph1). cbn [fst snd].
      assert (Ey : y = LConnecting) by (unfold consistent in G2; rewrite Eph1 in G2; tauto). subst y.
      pose proof (connect_step s1 (open_ok x) Eph1) as (C1 & C2).
      assert (Hnd1 : ph s1 <> PDone) by (rewrite Eph1; discriminate).
      pose proof (step_good cfg s1 (EvConnect (open_ok x)) LConnecting G2 Hnd1) as (K1 & K2 & _).
      destruct (step cfg s1 (EvConnect (open_ok x))) as [s2 o2]. cbn [fst snd ss] in *.
      unfold port_trace. rewrite listens_app, E1. cbn [app flat_map port_of].
      destruct C2 as [[E2 Hd2]|[E2|[d E2]]]; rewrite E2 in *; cbn [app flat_map port_of ppath pfinal fold_left final] in *.
      * split; [reflexivity|]. split; [|intros H; contradiction]. apply sinv_intro; [exact C1|intros H; contradiction].
      * split; [destruct last; try discriminate; try congruence; reflexivity|]. split; [|reflexivity]. apply sinv_intro; [exact C1|]. intros _. split; [exact K2|discriminate].
      * split; [destruct last; try discriminate; try congruence; reflexivity|]. split; [|reflexivity]. apply sinv_intro; [exact C1|]. intros _. split; [exact K2|discriminate].
    + assert (Hres : ppath (pimg last) (port_trace o1) = true /\ sinv {| ss := s1; open_ok := open_ok x |} (final last (listens_of o1)) /\
                     (ph s1 <> PDone -> pfinal (pimg last) (port_trace o1) = pimg (final last (listens_of o1)))).
      { assert (Hy : ph s1 <> PDone -> y <> LConnecting).
        { intros Hd1 ->. unfold consistent in G2. destruct (ph s1); try congruence; try (destruct G2 as [G2 _]; discriminate). }
        unfold port_trace. rewrite E1. cbn [flat_map app final fold_left].
        split; [destruct last, y; cbn in *; try discriminate; try congruence; reflexivity|].
        split; [apply sinv_intro; [exact Hnc1|intros Hd1; split; [exact G2|apply Hy; exact Hd1]]|].
        intros Hd1. specialize (Hy Hd1). destruct y; cbn; try reflexivity; congruence. }
      rewrite (settle_open_other (open_ok x) (s1, o1) Hnc1). exact Hres.
Qed.


Lemma sdone : forall es x, ph (ss x) = PDone -> port_trace (snd (srun cfg x es)) = [].
Proof.
  induction es as [|e es IH]; intros x Hd; [reflexivity|]. cbn [srun].
  destruct e as [e|ok]; cbn [sstep].
  - destruct (done_silent cfg (ss x) (rtu_event (ss x) e) Hd) as (H1 & H2 & _).
    rewrite (settle_open_other (open_ok x) (step cfg (ss x) (rtu_event (ss x) e))) by (rewrite H1; discriminate).
    destruct (step cfg (ss x) (rtu_event (ss x) e)) as [s1 o1]. cbn [fst snd] in *.
    specialize (IH {| ss := s1; open_ok := open_ok x |} H1). destruct (srun cfg _ es) as [x2 o2]. cbn [snd] in *.
    rewrite port_trace_app, IH. unfold port_trace. rewrite H2. reflexivity.
  - specialize (IH {| ss := ss x; open_ok := ok |} Hd). destruct (srun cfg _ es) as [x2 o2]. cbn [snd app] in *. exact IH.
Qed.

Theorem srun_port : forall es x last, sinv x last -> ppath (pimg last) (port_trace (snd (srun cfg x es))) = true.
Proof.
  induction es as [|e es IH]; intros x last Hi; [reflexivity|].
  assert (Hcase : ph (ss x) = PDone \/ ph (ss x) <> PDone) by (destruct (ph (ss x)); auto; right; discriminate).
  destruct Hcase as [Hd|Hnd]; [rewrite (sdone (e :: es) x Hd); reflexivity|].
  cbn [srun]. destruct e as [e|ok].
  - pose proof (sstep_port x e last Hi Hnd) as H. destruct (sstep cfg x (SEnv e)) as [x1 o1]. destruct H as (P1 & I1 & F1).
    assert (Hcase1 : ph (ss x1) = PDone \/ ph (ss x1) <> PDone) by (destruct (ph (ss x1)); auto; right; discriminate).
    destruct Hcase1 as [Hd1|Hnd1].
    + pose proof (sdone es x1 Hd1) as D. destruct (srun cfg x1 es) as [x2 o2]. cbn [snd] in *. rewrite port_trace_app, D, app_nil_r. exact P1.
    + specialize (IH x1 _ I1). destruct (srun cfg x1 es) as [x2 o2]. cbn [snd] in *.
      rewrite port_trace_app, ppath_app, P1, (F1 Hnd1), IH. reflexivity.
  - cbn [sstep]. assert (I1 : sinv {| ss := ss x; open_ok := ok |} last) by exact Hi.
    specialize (IH _ _ I1). destruct (srun cfg _ es) as [x2 o2]. cbn [snd app] in *. exact IH.
Qed.

Theorem serial_legal hn rmin rmax es :
  plegal (port_trace (init_outputs ++ snd (srun cfg (sinit hn rmin rmax) es))) = true.
Proof.
  rewrite port_trace_app. change (port_trace init_outputs) with [SDisabled]. cbn [app plegal].
  apply (srun_port es (sinit hn rmin rmax) LDisabled). split; [cbn; discriminate|]. intros _. split; [|discriminate].
  unfold consistent. cbn. auto.
Qed.

(* a serial run IS a run of the TCP system: the same outputs and the same final task state are
   produced by `run` on the event list with the open results inserted, so every theorem stated
   for all TCP event lists (C10, C12, the TCP-shaped C13) applies to the serial channel *)
Definition is_connecting (p : phase) : bool := match p with PConnecting => true | _ => false end.
Fixpoint expand (x : sstate) (es : list sevent) : list event :=
  match es with
  | [] => []
  | SSetOpen ok :: r => expand {| ss := ss x; open_ok := ok |} r
  | SEnv e0 :: r =>
      let e := rtu_event (ss x) e0 in
      let s1 := fst (step cfg (ss x) e) in
      if is_connecting (ph s1)
      then e :: EvConnect (open_ok x) :: expand {| ss := fst (step cfg s1 (EvConnect (open_ok x))); open_ok := open_ok x |} r
      else e :: expand {| ss := s1; open_ok := open_ok x |} r
  end.

Theorem serial_is_tcp_run : forall es x,
  snd (srun cfg x es) = snd (run cfg (ss x) (expand x es)) /\ ss (fst (srun cfg x es)) = fst (run cfg (ss x) (expand x es)).
Proof.
  induction es as [|e es IH]; intros x; [split; reflexivity|].
  destruct e as [e|ok].
  - cbn [srun expand sstep]. cbv zeta. destruct (step cfg (ss x) (rtu_event (ss x) e)) as [s1 o1] eqn:E1. cbn [fst].
    destruct (is_connecting (ph s1)) eqn:Ec.
    + assert (Hc : ph s1 = PConnecting) by (destruct (ph s1); try discriminate; reflexivity).
      rewrite (settle_open_conn (open_ok x) (s1, o1) Hc). cbn [fst snd run]. rewrite E1.
      destruct (step cfg s1 (EvConnect (open_ok x))) as [s2 o2]. cbn [fst snd].
      destruct (IH {| ss := s2; open_ok := open_ok x |}) as [I1 I2]. cbn [ss] in *.
      destruct (srun cfg {| ss := s2; open_ok := open_ok x |} es) as [x3 o3].
      destruct (run cfg s2 (expand {| ss := s2; open_ok := open_ok x |} es)) as [s4 o4]. cbn [fst snd] in *. subst. rewrite app_assoc. split; reflexivity.
    + assert (Hn : ph s1 <> PConnecting) by (intros E; rewrite E in Ec; discriminate).
      rewrite (settle_open_other (open_ok x) (s1, o1) Hn). cbn [run]. rewrite E1.
      destruct (IH {| ss := s1; open_ok := open_ok x |}) as [I1 I2]. cbn [ss] in *.
      destruct (srun cfg {| ss := s1; open_ok := open_ok x |} es) as [x3 o3].
      destruct (run cfg s1 (expand {| ss := s1; open_ok := open_ok x |} es)) as [s4 o4]. cbn [fst snd] in *. subst. split; reflexivity.
  - cbn [srun sstep expand]. destruct (IH {| ss := ss x; open_ok := ok |}) as [I1 I2]. cbn [ss] in *.
    destruct (srun cfg {| ss := ss x; open_ok := ok |} es) as [x3 o3]. cbn [fst snd app] in *. split; assumption.
Qed.

End SerialProofs.
