(* Final statements about the MODEL of the code (handle_frame / session), obtained from the lemmas
   about the reference server through the refinement; plus the reply shape and the bitwise
   characterisation of the packing. *)
From Coq Require Import NArith List Lia Bool Arith ZArith ZifyBool ZifyNat ZifyN.
From Rodbus Require Import Base.Outcome Base.Cursor Base.ServerTypes Model.Server Gen.Consts Gen.AuthzTable Spec.Modbus
  Proofs.ServerFormat Proofs.ServerBits Proofs.ServerParse Proofs.ServerProofs Proofs.ServerProps.
Import ListNotations.
Ltac Zify.zify_post_hook ::= Z.div_mod_to_equations.
Local Open Scope N_scope.
Arguments N.add : simpl never. Arguments N.mul : simpl never. Arguments N.of_nat : simpl never.
Arguments N.div : simpl never. Arguments N.modulo : simpl never. Arguments N.testbit : simpl never.

(* ---------------------------------------------------------------- packing, bit by bit *)
Lemma byte_of_testbit : forall l i, N.testbit (byte_of l) (N.of_nat i) = nth i l false.
Proof.
  induction l as [|b r IH]; intros i.
  - cbn [byte_of]. rewrite N.bits_0. destruct i; reflexivity.
  - cbn [byte_of]. replace (N.b2n b + 2 * byte_of r) with (2 * byte_of r + N.b2n b) by lia. destruct i as [|i].
    + change (N.of_nat 0) with 0. rewrite N.testbit_0_r. reflexivity.
    + rewrite Nat2N.inj_succ, N.testbit_succ_r. cbn [nth]. apply IH.
Qed.

Lemma nth_firstn {A} (d : A) : forall n l k, (k < n)%nat -> nth k (firstn n l) d = nth k l d.
Proof.
  induction n as [|n IH]; intros l k Hk; [lia|]. destruct l as [|x l]; [reflexivity|].
  destruct k as [|k]; [reflexivity|]. cbn [firstn nth]. apply IH. lia.
Qed.
Lemma nth_skipn {A} (d : A) : forall n l k, nth k (skipn n l) d = nth (n + k) l d.
Proof.
  induction n as [|n IH]; intros l k; [reflexivity|]. destruct l as [|x l]; [destruct k; reflexivity|].
  cbn [skipn Nat.add nth]. apply IH.
Qed.

Lemma pack_fuel_testbit : forall fuel bits k, (length bits <= fuel)%nat -> (k < length bits)%nat ->
  N.testbit (nth (k / 8) (pack_fuel fuel bits) 0) (N.of_nat (k mod 8)) = nth k bits false.
Proof.
  induction fuel as [|fuel IH]; intros bits k Hf Hk; [lia|].
  destruct bits as [|b r]; [cbn [length] in Hk; lia|]. rewrite pack_fuel_S.
  destruct (Nat.ltb_spec k 8) as [Hlt|Hge].
  - rewrite Nat.div_small, Nat.mod_small by assumption.
    change (nth 0 (byte_of (firstn 8 (b :: r)) :: pack_fuel fuel (skipn 8 (b :: r))) 0) with (byte_of (firstn 8 (b :: r))).
    rewrite byte_of_testbit. apply nth_firstn. assumption.
  - replace (k / 8)%nat with (S ((k - 8) / 8)) by lia. replace (k mod 8)%nat with ((k - 8) mod 8)%nat by lia.
    change (nth (S ((k - 8) / 8)) (byte_of (firstn 8 (b :: r)) :: pack_fuel fuel (skipn 8 (b :: r))) 0)
      with (nth ((k - 8) / 8) (pack_fuel fuel (skipn 8 (b :: r))) 0).
    rewrite IH; [| rewrite skipn_length; cbn [length] in *; lia | rewrite skipn_length; cbn [length] in *; lia ].
    rewrite nth_skipn. f_equal. lia.
Qed.

(* reply data of the bit reads: bit k of the answer sits at bit (k mod 8), counted from the least
   significant, of data byte k / 8 *)
Theorem pack_lsb_first bits k : (k < length bits)%nat ->
  N.testbit (nth (k / 8) (pack bits) 0) (N.of_nat (k mod 8)) = nth k bits false.
Proof. intros Hk. apply pack_fuel_testbit; [lia|assumption]. Qed.

(* ---------------------------------------------------------------- reply shape *)
Inductive pdu_shape (fc : N) : list N -> Prop :=
| ShBits (bits : list bool) : pdu_shape fc (fc :: N.of_nat (length (pack bits)) :: pack bits)
| ShRegisters (regs : list N) : pdu_shape fc (fc :: 2 * N.of_nat (length regs) :: flat_map be regs)
| ShEcho (a b : N) : pdu_shape fc (fc :: be a ++ be b)
| ShException (code : N) : pdu_shape fc [N.lor fc 128; code].

Lemma decode_head pdu :
  match decode pdu with
  | Empty => pdu = []
  | Unsupported fc | Invalid fc | Valid fc _ => exists body, pdu = fc :: body
  end.
Proof.
  destruct pdu as [|fc body]; [reflexivity|]. unfold decode.
  repeat (match goal with
          | |- context [if ?c then _ else _] => destruct c
          | |- context [match ?b with [] => _ | _ :: _ => _ end] => destruct b
          end); eexists; reflexivity.
Qed.

Section Shape.
Context {St : Type}.
Variable H : handler St.

Lemma ref_exec_shape fc u st r : pdu_shape fc (snd (fst (ref_exec H fc u st r))).
Proof.
  destruct r; cbn [ref_exec];
    try (destruct (read_seq _ _ _ _) as [[vs|ex] lg]; cbn [bits_response regs_response fst snd]; constructor);
    destruct (apply_write H st _) as [st' [ex|]]; cbn [write_response fst snd]; constructor.
Qed.

Theorem ref_reply_shape l a units fr :
  reply_of (ref_handle_frame H l a units fr) = [] \/
  exists fc body pdu, f_pdu fr = fc :: body /\ pdu_shape fc pdu /\
    reply_of (ref_handle_frame H l a units fr) = adu l (f_tx fr) (dest_value (f_dest fr)) pdu.
Proof.
  unfold ref_handle_frame, reply_of. pose proof (decode_head (f_pdu fr)) as Hh.
  destruct (decode (f_pdu fr)) as [|fc|fc|fc r]; [left; reflexivity| | |].
  - destruct Hh as [body Hb]. destruct (f_dest fr) as [u|]; [|left; reflexivity].
    destruct (lookup u (u_map units)); [|left; reflexivity]. right. exists fc, body, (exception_pdu fc 1). repeat split; [assumption|constructor].
  - destruct Hh as [body Hb]. destruct (f_dest fr) as [u|]; [|left; reflexivity].
    destruct (lookup u (u_map units)); [|left; reflexivity]. right. exists fc, body, (exception_pdu fc 3). repeat split; [assumption|constructor].
  - destruct Hh as [body Hb]. destruct (authorize a (dest_value (f_dest fr)) r) as [ok alog]. destruct ok; cbn [negb].
    + destruct (f_dest fr) as [u|].
      * destruct (lookup u (u_map units)) as [h|]; [|left; reflexivity].
        pose proof (ref_exec_shape fc h (u_store units h) r) as Sh. destruct (ref_exec H fc h (u_store units h) r) as [[st' pdu] lg]. cbn [fst snd] in *.
        right. exists fc, body, pdu. repeat split; assumption.
      * left. destruct (is_write r); [destruct (apply_all H (u_map units) (u_store units) r)|]; reflexivity.
    + destruct (dest_is_broadcast (f_dest fr)); [left; reflexivity|].
      right. exists fc, body, (exception_pdu fc 1). repeat split; [assumption|constructor].
Qed.
End Shape.

(* ---------------------------------------------------------------- statements about the model *)
Section Model.
Context {St : Type}.
Variable H : handler St.

(* C01 *)
Theorem session_never_fails l a units frames : Forall (frame_ok l) frames ->
  snd (session H l a units frames) = SOpen.
Proof.
  intros Hok. rewrite session_refines by assumption. destruct (ref_session H l a units frames) as [[rs u] lg]. reflexivity.
Qed.

Theorem reply_shape l a units fr : frame_ok l fr ->
  reply_of (handle_frame H l a units fr) = Ok [] \/
  exists fc body pdu, f_pdu fr = fc :: body /\ pdu_shape fc pdu /\
    reply_of (handle_frame H l a units fr) = Ok (adu l (f_tx fr) (dest_value (f_dest fr)) pdu).
Proof.
  intros Hok. rewrite handle_frame_refines by assumption. rewrite lift3_reply.
  destruct (ref_reply_shape H l a units fr) as [E|(fc & body & pdu & E1 & E2 & E3)]; [left; rewrite E; reflexivity|].
  right. exists fc, body, pdu. rewrite E3. auto.
Qed.

(* C08 *)
Theorem query p role l units fr fc r : frame_ok l fr -> decode (f_pdu fr) = Valid fc r ->
  exists rest, log_of (handle_frame H l (AuthHandler p role) units fr)
                 = EvAuth (kind_of r) (dest_value (f_dest fr)) (arg_of r) role :: rest /\ auth_events rest = [].
Proof.
  intros Hok Hd. rewrite handle_frame_refines by assumption. rewrite lift3_log.
  destruct (ref_query H p role l units fr fc r Hd) as (rest & E & Hn). exists rest. split; [exact E|]. apply no_auth_auth_events. exact Hn.
Qed.

Theorem no_query p role l units fr : frame_ok l fr -> (forall fc r, decode (f_pdu fr) <> Valid fc r) ->
  log_of (handle_frame H l (AuthHandler p role) units fr) = [].
Proof. intros Hok Hd. rewrite handle_frame_refines by assumption. rewrite lift3_log. apply ref_no_query. exact Hd. Qed.

Theorem deny p role l units fr fc r : frame_ok l fr -> decode (f_pdu fr) = Valid fc r ->
  p (kind_of r) (dest_value (f_dest fr)) (arg_of r) role = false ->
  let x := handle_frame H l (AuthHandler p role) units fr in
  handler_events (log_of x) = [] /\ units_of x = units /\
  reply_of x = Ok (if dest_is_broadcast (f_dest fr) then [] else adu l (f_tx fr) (dest_value (f_dest fr)) (exception_pdu fc 1)).
Proof.
  intros Hok Hd Hp. cbv zeta. rewrite handle_frame_refines by assumption. rewrite lift3_log, lift3_units, lift3_reply.
  destruct (ref_deny H p role l units fr fc r Hd Hp) as (A & B & C). rewrite A, B, C. auto.
Qed.

Theorem allow p role l units fr fc r : frame_ok l fr -> decode (f_pdu fr) = Valid fc r ->
  p (kind_of r) (dest_value (f_dest fr)) (arg_of r) role = true ->
  let x := handle_frame H l (AuthHandler p role) units fr in
  let y := handle_frame H l NoAuth units fr in
  reply_of x = reply_of y /\ units_of x = units_of y /\ handler_events (log_of x) = log_of y.
Proof.
  intros Hok Hd Hp. cbv zeta. rewrite !handle_frame_refines by assumption. rewrite !lift3_log, !lift3_units, !lift3_reply.
  destruct (ref_allow H p role l units fr fc r Hd Hp) as (A & B & C). rewrite A, B, C. auto.
Qed.

Theorem per_request l p p' role units frames : Forall (frame_ok l) frames -> Forall (same_decision p p' role) frames ->
  session H l (AuthHandler p role) units frames = session H l (AuthHandler p' role) units frames.
Proof.
  intros Hok Hs. rewrite !session_refines by assumption. rewrite (ref_per_request_session H l p p' role frames units Hs). reflexivity.
Qed.

Theorem per_request_frame l p p' role units fr : frame_ok l fr -> same_decision p p' role fr ->
  handle_frame H l (AuthHandler p role) units fr = handle_frame H l (AuthHandler p' role) units fr.
Proof. intros Hok Hs. rewrite !handle_frame_refines by assumption. rewrite (ref_per_request H l p p' role units fr Hs). reflexivity. Qed.

(* the carve-out C01 mentions: the veto comes before the unit lookup *)
Theorem deny_unconfigured p role l units fr fc r u : frame_ok l fr -> decode (f_pdu fr) = Valid fc r ->
  f_dest fr = DUnit u -> lookup u (u_map units) = None -> p (kind_of r) u (arg_of r) role = false ->
  reply_of (handle_frame H l (AuthHandler p role) units fr) = Ok (adu l (f_tx fr) u (exception_pdu fc 1)).
Proof.
  intros Hok Hd Ed _ Hp. pose proof (deny p role l units fr fc r Hok Hd) as D. rewrite Ed in D. cbn [dest_value dest_is_broadcast] in D.
  destruct (D Hp) as (_ & _ & R). exact R.
Qed.

(* C17 *)
Theorem silent l units fr : frame_ok l fr -> reply_of (handle_frame H l NoAuth units fr) <> Ok [] ->
  exists u, f_dest fr = DUnit u /\ lookup u (u_map units) <> None.
Proof.
  intros Hok. rewrite handle_frame_refines by assumption. rewrite lift3_reply. intros E. apply (ref_silent H l units fr).
  intros E2. apply E. rewrite E2. reflexivity.
Qed.

Theorem broadcast_never_answered l a units fr : frame_ok l fr -> f_dest fr = DBroadcast ->
  reply_of (handle_frame H l a units fr) = Ok [].
Proof. intros Hok Ed. rewrite handle_frame_refines by assumption. rewrite lift3_reply, ref_broadcast_silent by assumption. reflexivity. Qed.

Theorem broadcast_write l units fr fc r : frame_ok l fr -> f_dest fr = DBroadcast -> decode (f_pdu fr) = Valid fc r -> is_write r = true ->
  let x := handle_frame H l NoAuth units fr in
  reply_of x = Ok [] /\ log_of x = flat_map (fun uh => write_call (snd uh) r) (u_map units) /\
  units_of x = with_store units (broadcast_store H r (u_map units) (u_store units)).
Proof.
  intros Hok Ed Hd W. cbv zeta. rewrite handle_frame_refines by assumption. rewrite lift3_log, lift3_units, lift3_reply.
  destruct (ref_broadcast_write H l units fr fc r Ed Hd W) as (A & B & C). rewrite A, B, C. auto.
Qed.

Theorem broadcast_other l units fr : frame_ok l fr -> f_dest fr = DBroadcast ->
  (forall fc r, decode (f_pdu fr) = Valid fc r -> is_write r = false) ->
  let x := handle_frame H l NoAuth units fr in reply_of x = Ok [] /\ log_of x = [] /\ units_of x = units.
Proof.
  intros Hok Ed Hd. cbv zeta. rewrite handle_frame_refines by assumption. rewrite lift3_log, lift3_units, lift3_reply.
  destruct (ref_broadcast_other H l units fr Ed Hd) as (A & B & C). rewrite A, B, C. auto.
Qed.

Theorem unit_effect l units fr fc r u h : frame_ok l fr -> f_dest fr = DUnit u -> lookup u (u_map units) = Some h ->
  decode (f_pdu fr) = Valid fc r ->
  let x := handle_frame H l NoAuth units fr in
  u_map (units_of x) = u_map units /\
  u_store (units_of x) h = fst (fst (ref_exec H fc h (u_store units h) r)) /\
  (forall k, k <> h -> u_store (units_of x) k = u_store units k).
Proof.
  intros Hok Ed Lk Hd. cbv zeta. rewrite handle_frame_refines by assumption. rewrite lift3_units.
  exact (ref_unit_effect H l units fr fc r u h Ed Lk Hd).
Qed.

Theorem silent_session l units frames : Forall (frame_ok l) frames ->
  Forall2 (fun fr reply => reply <> [] -> exists u, f_dest fr = DUnit u /\ In u (map fst (u_map units)))
          frames (fst (fst (fst (session H l NoAuth units frames)))).
Proof.
  intros Hok. rewrite session_refines by assumption. pose proof (ref_silent_session H l frames units) as S. unfold reply_of in S.
  destruct (ref_session H l NoAuth units frames) as [[rs u] lg]. exact S.
Qed.
End Model.
