(* C05: the statements of Properties/C05.v, assembled from MbapProofs / ReaderGeneric. *)
From Coq Require Import NArith List Bool Arith Lia.
From Rodbus Require Import Base.Outcome Base.Frame Gen.Consts Model.Buffer Model.Mbap Model.Reader Spec.Framing
  Proofs.BufferProofs Proofs.ReaderGeneric Proofs.MbapProofs.
Import ListNotations.

Definition lift_frames (r : list frame * ending) : list item * ending := (map IFrame (fst r), snd r).
Definition nonempty_chunks (chunks : list (list N)) : Prop := Forall (fun c => c <> []) chunks.

(* ---- chunking ---- *)
Theorem tcp_any_schedule : forall chunks fi,
  run_session KTcp false chunks fi = lift_frames (ref_frames (fst (sched_stream chunks fi)) (snd (sched_stream chunks fi))).
Proof.
  intros chunks fi. rewrite sched_stream_eq. cbn [fst snd]. unfold run_session, ref_frames.
  exact (mbap_session_ref chunks fi (S (length (sbytes chunks))) ltac:(lia)).
Qed.

Theorem tcp_chunking : forall s chunks fi,
  concat chunks = s -> nonempty_chunks chunks ->
  run_session KTcp false chunks fi = lift_frames (ref_frames s fi).
Proof.
  intros s chunks fi Hs Hne. rewrite tcp_any_schedule, sched_stream_eq. cbn [fst snd].
  destruct (sbytes_nonempty chunks Hne) as [-> Hf]. now rewrite Hf, Hs.
Qed.

Corollary tcp_chunking_independent : forall c1 c2 fi,
  concat c1 = concat c2 -> nonempty_chunks c1 -> nonempty_chunks c2 ->
  run_session KTcp false c1 fi = run_session KTcp false c2 fi.
Proof. intros c1 c2 fi E H1 H2. rewrite (tcp_chunking (concat c2) c1 fi E H1), (tcp_chunking (concat c2) c2 fi eq_refl H2). reflexivity. Qed.

(* ---- reject ---- *)
(* a stream that starts with complete, well-formed frames *)
Definition prepend (fs : list frame) (r : list frame * ending) : list frame * ending := (fs ++ fst r, snd r).

Lemma framed_len pre fs : framed pre fs -> length fs <= length pre.
Proof. induction 1; cbn [length app]; [lia|]. rewrite !app_length. lia. Qed.

Lemma ref_framed pre fs : framed pre fs -> forall F t fi, length (pre ++ t) < F ->
  ref F (pre ++ t) fi = prepend fs (ref (F - length fs) t fi).
Proof.
  induction 1 as [|t1 t0 l1 l0 u pdu s fs Hl Hp Hfr IH]; intros F t fi HF.
  - cbn [app length prepend fst snd]. rewrite Nat.sub_0_r. now destruct (ref F t fi).
  - destruct F as [|F]; [lia|]. cbn [app ref]. change (be 0 0) with 0%N. cbn [N.eqb negb].
    rewrite Hl. destruct (Nat.ltb_spec 254 (S (length pdu))); [lia|]. cbn [Nat.eqb].
    replace (S (length pdu) - 1) with (length pdu) by lia. rewrite <- app_assoc.
    destruct (Nat.ltb_spec (length (pdu ++ s ++ t)) (length pdu)) as [Hlt|_]; [rewrite app_length in Hlt; lia|].
    rewrite skipn_app_le, skipn_all, firstn_app_le, firstn_all by lia. cbn [app].
    cbn [app length] in HF. rewrite !app_length in HF.
    rewrite IH by (rewrite app_length; lia). cbn [length Nat.sub prepend fst snd app]. reflexivity.
Qed.

(* the Spec is not degenerate: a stream made of complete well-formed frames yields exactly those frames *)
Theorem ref_frames_framed pre fs fi : framed pre fs -> ref_frames pre fi = (fs, end_of fi).
Proof.
  intros Hfr. unfold ref_frames. pose proof (framed_len _ _ Hfr) as Hl.
  assert (Hlen : length (pre ++ []) < S (length pre)) by (rewrite app_nil_r; lia).
  pose proof (ref_framed pre fs Hfr (S (length pre)) [] fi Hlen) as H. rewrite app_nil_r in H. rewrite H.
  destruct (S (length pre) - length fs) as [|k] eqn:E; [lia|]. unfold prepend. cbn. now rewrite app_nil_r.
Qed.

Lemma bad_header_err h : bad_header h -> exists e, hdr h = inr e /\ e <> InternalError.
Proof.
  intros (t1 & t0 & p1 & p0 & l1 & l0 & u & -> & Hbad). unfold hdr, be in *.
  destruct (N.eqb_spec (p1 * 256 + p0) 0) as [Ep|Ep]; cbn [negb]; [|eexists; split; [reflexivity|discriminate]].
  unfold mbap_max_length_field. destruct (Nat.ltb_spec 254 (N.to_nat (l1 * 256 + l0))) as [|Hle]; [eexists; split; [reflexivity|discriminate]|].
  destruct (N.to_nat (l1 * 256 + l0)) eqn:E; [eexists; split; [reflexivity|discriminate]|].
  exfalso. destruct Hbad as [H|[H|H]]; [congruence|lia|lia].
Qed.

(* after any number of complete frames a malformed header ends the run exactly there, whatever follows
   and however the stream is cut into reads; the frames before it are all delivered *)
Theorem tcp_reject : forall pre fs h rest chunks fi,
  framed pre fs -> bad_header h -> concat chunks = pre ++ h ++ rest -> nonempty_chunks chunks ->
  exists e, e <> InternalError /\ run_session KTcp false chunks fi = (map IFrame fs, EndBad e).
Proof.
  intros pre fs h rest chunks fi Hfr Hbad Hs Hne.
  destruct (bad_header_err h Hbad) as (e & He & Hne'). exists e. split; [assumption|].
  rewrite (tcp_chunking _ chunks fi Hs Hne). unfold ref_frames.
  rewrite (ref_framed pre fs Hfr) by lia.
  assert (H7 : length h = 7) by (destruct Hbad as (? & ? & ? & ? & ? & ? & ? & -> & _); reflexivity).
  pose proof (framed_len _ _ Hfr) as Hfl.
  rewrite (ref_bad _ (h ++ rest) fi e).
  - unfold lift_frames, prepend; cbn [fst snd]. now rewrite app_nil_r.
  - rewrite !app_length. lia.
  - rewrite app_length. lia.
  - rewrite firstn_app_le by lia. rewrite firstn_all2 by lia. exact He.
Qed.

(* ---- no loss ---- *)
(* a parse call only ever removes a prefix of the pending bytes (and never touches anything else) *)
Theorem tcp_parse_consumes_prefix : forall st b st' b' r, wf b -> st_ok st -> mbap_parse st b = (st', b', r) ->
  exists k, k <= buf_len b /\ b' = consume k b /\ b_pend b = firstn k (b_pend b) ++ b_pend b' /\ wf b' /\ st_ok st'.
Proof.
  intros st b st' b' r Hwf Hst Ep.
  assert (H : exists k, b' = consume k b /\ k <= buf_len b /\ st_ok st').
  { destruct r as [[f|]|e|].
    - destruct (mbap_some _ _ _ _ _ Hwf Hst Ep) as (-> & (k & -> & Hk & _) & _). exists k. repeat split; auto.
    - destruct (mbap_none _ _ _ _ Hwf Hst Ep) as (Hst' & _ & (k & -> & Hk & _) & _). exists k. repeat split; auto.
    - destruct (mbap_err _ _ _ _ _ Hwf Hst Ep) as ((k & -> & Hk & _) & _). exists k. repeat split; auto.
      rewrite (mbap_parse_eq _ _ Hwf Hst) in Ep. destruct (sparse st b) as [[s0 b0] r0] eqn:Es. inversion Ep; subst.
      destruct st as [|tx u n]; cbn [sparse] in Es.
      + destruct (Nat.ltb (buf_len b) 7); [inversion Es; subst; exact I|].
        destruct (hdr _) as [[[tx u] n]|e0]; [|inversion Es; subst; exact I].
        unfold sbody in Es. destruct (Nat.ltb _ _); inversion Es; subst; discriminate.
      + unfold sbody in Es. destruct (Nat.ltb _ _); inversion Es; subst; discriminate.
    - exfalso. exact (mbap_panic _ _ _ _ Hwf Hst Ep). }
  destruct H as (k & -> & Hk & Hst'). exists k. split; [assumption|]. split; [reflexivity|].
  split; [cbn [consume b_pend]; now rewrite firstn_skipn|]. split; [now apply consume_wf|assumption].
Qed.

(* a read appends a non-empty prefix of what the source offers after the pending bytes; the rest stays first in line *)
Theorem read_appends : forall b c, wf b -> buf_len b < cap -> c <> [] ->
  exists k b'', read_some b c = (b'', RsOk k (skipn k c)) /\ 1 <= k <= length c /\
                b_pend b'' ++ skipn k c = b_pend b ++ c /\ wf b''.
Proof.
  intros b c Hwf Hl Hc. destruct (read_some_ok b c Hwf Hl Hc) as (k & b'' & H1 & H2 & H3 & H4).
  exists k, b''. repeat split; try assumption; try lia. now rewrite H3, <- app_assoc, firstn_skipn.
Qed.

(* the invariant over a whole next_frame call (any number of parse / read iterations): what was
   pending plus what the source still holds = what this call consumed ++ what is pending now ++
   what the source holds now. Nothing is lost, duplicated or re-read. *)
Theorem tcp_no_loss : forall st b n fi r' n' res, wf b -> st_ok st ->
  next_frame (nf_fuel n) {| r_parser := PTcp st; r_buf := b |} n fi = (r', n', res) ->
  match res with
  | NfFrame _ | NfEnd (EndBad _) => exists consumed, b_pend b ++ sbytes n = consumed ++ b_pend (r_buf r') ++ sbytes n'
  | _ => True
  end.
Proof.
  intros st b n fi r' n' res Hwf Hst E.
  pose proof (mbap_nf_ref (nf_fuel n) st b n fi (S (length (b_pend b ++ sbytes n))) Hwf Hst ltac:(unfold nf_fuel; lia) ltac:(lia)) as H.
  unfold rd in H. rewrite E in H. unfold nf_post in H. cbv zeta in H. destruct res as [f|e].
  - destruct H as (b' & -> & _ & _ & _ & _ & _ & _ & Hc). exact Hc.
  - destruct e; try exact I. destruct H as (_ & b' & -> & _ & _ & _ & _ & Hc & _). exact Hc.
Qed.

Corollary tcp_no_loss' : forall st b n fi r' n' res, wf b -> st_ok st ->
  next_frame (nf_fuel n) {| r_parser := PTcp st; r_buf := b |} n fi = (r', n', res) ->
  match res with
  | NfFrame _ | NfEnd (EndBad _) =>
      exists consumed, b_pend b ++ fst (sched_stream n fi) = consumed ++ b_pend (r_buf r') ++ fst (sched_stream n' fi)
  | _ => True
  end.
Proof. intros st b n fi r' n' res Hwf Hst E. rewrite !sched_stream_eq. cbn [fst]. exact (tcp_no_loss st b n fi r' n' res Hwf Hst E). Qed.

(* ---- never full ---- *)
Theorem tcp_never_full : forall st b st' b', wf b -> st_ok st -> mbap_parse st b = (st', b', Ok None) ->
  buf_len b' < cap /\
  forall c, c <> [] -> exists k b'', read_some b' c = (b'', RsOk k (skipn k c)) /\ 1 <= k <= length c.
Proof.
  intros st b st' b' Hwf Hst Ep.
  destruct (mbap_none _ _ _ _ Hwf Hst Ep) as (Hst' & Hlt & (k & -> & Hk & _) & _).
  pose proof (mbap_need_cap _ Hst'). split; [lia|]. intros c Hc.
  destruct (read_some_ok (consume k b) c (consume_wf _ _ Hwf Hk) ltac:(lia) Hc) as (j & b'' & H1 & H2 & _).
  exists j, b''. split; assumption.
Qed.

(* ---- the client: one reader for all connections, reset at every connection start ---- *)
Definition is_tcp (r : reader) : Prop := match r_parser r with PTcp _ => True | _ => False end.

Lemma next_frame_tcp : forall fuel r n fi, is_tcp r -> is_tcp (fst (fst (next_frame fuel r n fi))).
Proof.
  induction fuel as [|fuel IH]; intros r n fi Hr; [exact Hr|].
  destruct r as [[st|t st] b]; [|destruct Hr]. cbn [next_frame parser_parse r_parser r_buf].
  destruct (mbap_parse st b) as [[st' b'] res]. destruct res as [[f|]|e|]; try exact I.
  destruct n as [|c n'].
  - destruct (read_some b' []) as [b2 rs]. exact I.
  - destruct (read_some b' c) as [b2 rs]. destruct rs as [k rest| |]; try exact I.
    destruct rest; apply IH; exact I.
Qed.
Lemma run_reader_st_tcp : forall fuel r n fi, is_tcp r -> is_tcp (fst (run_reader_st fuel r n fi)).
Proof.
  induction fuel as [|fuel IH]; intros r n fi Hr; [exact Hr|]. cbn [run_reader_st].
  pose proof (next_frame_tcp (nf_fuel n) r n fi Hr) as H.
  destruct (next_frame (nf_fuel n) r n fi) as [[r' n'] res]. cbn [fst] in H. destruct res as [f|e]; [|exact H].
  specialize (IH r' n' fi H). destruct (run_reader_st fuel r' n' fi) as [r'' [l e]]. exact IH.
Qed.
Lemma run_reader_st_snd : forall fuel r n fi, snd (run_reader_st fuel r n fi) = run_reader fuel false r n fi.
Proof.
  induction fuel as [|fuel IH]; intros r n fi; [reflexivity|]. cbn [run_reader_st run_reader].
  destruct (next_frame (nf_fuel n) r n fi) as [[r' n'] res]. destruct res as [f|e].
  - specialize (IH r' n' fi). destruct (run_reader_st fuel r' n' fi) as [r'' [l e]]. cbn [snd] in *. now rewrite <- IH.
  - destruct e; reflexivity.
Qed.

Theorem client_every_connection_fresh : forall conns r, is_tcp r ->
  client_connections true r conns =
  map (fun c => lift_frames (ref_frames (fst (sched_stream (fst c) (snd c))) (snd (sched_stream (fst c) (snd c))))) conns.
Proof.
  induction conns as [|[n fi] conns IH]; intros r Hr; [reflexivity|]. cbn [client_connections map fst snd].
  assert (Hreset : reader_reset r = reader_new KTcp) by (destruct r as [[st|t st] b]; [reflexivity|destruct Hr]).
  rewrite Hreset.
  pose proof (run_reader_st_snd (run_fuel (reader_new KTcp) n) (reader_new KTcp) n fi) as Hs.
  pose proof (run_reader_st_tcp (run_fuel (reader_new KTcp) n) (reader_new KTcp) n fi I) as Ht.
  destruct (run_reader_st (run_fuel (reader_new KTcp) n) (reader_new KTcp) n fi) as [r' res]. cbn [fst snd] in *.
  rewrite (IH r' Ht). f_equal. rewrite Hs. exact (tcp_any_schedule n fi).
Qed.

(* the same statement is FALSE for the code before the repair of F5 (reader not reset): the
   two-connection history found by experiment *)
Lemma client_stale_refuted : exists conns,
  client_connections false (reader_new KTcp) conns <>
  map (fun c => lift_frames (ref_frames (fst (sched_stream (fst c) (snd c))) (snd (sched_stream (fst c) (snd c))))) conns.
Proof.
  exists [([[0;0;0;0;0;5;1;3;2]%N], FinEof); ([[0;1;0;0;0;5;1;3;2;18;52]%N], FinPending)].
  vm_compute. discriminate.
Qed.

(* ================================================================================================
   Cancel-safety and compositionality (TCP)
   ================================================================================================ *)
Definition tcp_rd (st : pstate) (b : buf) : reader := {| r_parser := PTcp st; r_buf := b |}.

(* a next_frame call abandoned while it waits + a fresh call = one uninterrupted call *)
Theorem tcp_cancel_safe : forall st b n1 n2 fi r1 n1',
  wf b -> st_ok st ->
  next_frame (nf_fuel n1) (tcp_rd st b) n1 FinPending = (r1, n1', NfEnd EndPending) ->
  next_frame (nf_fuel n2) r1 n2 fi = next_frame (nf_fuel (n1 ++ n2)) (tcp_rd st b) (n1 ++ n2) fi /\
  n1' = [] /\ exists st1 b1, r1 = tcp_rd st1 b1 /\ wf b1 /\ st_ok st1.
Proof.
  intros st b n1 n2 fi r1 n1' Hwf Hst E.
  destruct (mbap_nf_cancel_safe st b n1 n2 fi r1 n1' (nf_fuel n1) (nf_fuel n2) (nf_fuel (n1 ++ n2)) Hwf Hst
              ltac:(unfold nf_fuel; lia) ltac:(unfold nf_fuel; lia) ltac:(unfold nf_fuel; lia) E) as [Heq Hw].
  split; [exact Heq|].
  pose proof (mbap_nf_app (nf_fuel n1) st b n1 [] FinPending 1 Hwf Hst ltac:(unfold nf_fuel; lia) ltac:(cbn; lia)) as Happ.
  unfold rd, tcp_rd in *. rewrite E in Happ. destruct Happ as (Hn & _). split; [exact Hn|].
  destruct Hw as (st1 & b1 & -> & Hwf1 & _ & Hst1 & _). exists st1, b1. repeat split; assumption.
Qed.

(* ... and for whole sessions: abandoning the waiting call at EVERY chunk boundary changes nothing *)
Theorem tcp_cancel_safe_session : forall chunks fi,
  run_cancel (reader_new KTcp) chunks fi = run_session KTcp false chunks fi.
Proof.
  intros chunks fi. unfold run_session. pose proof (sbytes_le chunks) as Hs.
  change (reader_new KTcp) with (rd pstate PTcp Begin buf_new).
  set (G := run_fuel (rd pstate PTcp Begin buf_new) chunks).
  assert (HG : G = length (concat chunks) + 2) by reflexivity.
  rewrite <- (run_reader_st_snd G).
  rewrite (mbap_run_st_fuel_indep G (S G) Begin buf_new chunks fi wf_new I);
    [|unfold rmeasure; cbn [buf_new b_pend app cons_need]; lia|unfold rmeasure; cbn [buf_new b_pend app cons_need]; lia].
  rewrite run_reader_st_snd.
  apply (mbap_run_cancel_eq chunks Begin buf_new fi (S G) wf_new I). cbn [buf_new b_pend length]. lia.
Qed.

(* --- the Spec over s1 ++ s2 --- *)
Theorem ref_frames_app : forall s1 s2 fi,
  ref_frames (s1 ++ s2) fi =
  match ref_frames s1 FinPending with
  | (fs1, EndPending) => (fs1 ++ fst (ref_frames (mbap_tail s1 ++ s2) fi), snd (ref_frames (mbap_tail s1 ++ s2) fi))
  | x => x
  end.
Proof.
  intros s1 s2 fi. unfold ref_frames. pose proof (mbap_tail_len s1) as Ht.
  rewrite (mbap_ref_app (S (length (s1 ++ s2))) s1 s2 fi) by lia.
  rewrite (ref_fuel (S (length (s1 ++ s2))) (S (length s1)) s1) by (rewrite ?app_length; lia).
  rewrite (ref_fuel (S (length (s1 ++ s2))) (S (length (mbap_tail s1 ++ s2))) (mbap_tail s1 ++ s2)) by (rewrite ?app_length; lia).
  reflexivity.
Qed.

(* at a frame boundary nothing is left over *)
Lemma ref_tail_framed pre fs : framed pre fs -> forall F, length pre < F -> ref_tail F pre = [].
Proof.
  induction 1 as [|t1 t0 l1 l0 u pdu s fs Hl Hp Hfr IH]; intros F HF; [destruct F; reflexivity|].
  destruct F as [|F]; [lia|]. cbn [app ref_tail]. change (be 0 0) with 0%N. cbn [N.eqb negb]. rewrite Hl.
  destruct (Nat.ltb_spec 254 (S (length pdu))); [lia|]. cbn [Nat.eqb]. replace (S (length pdu) - 1) with (length pdu) by lia.
  destruct (Nat.ltb_spec (length (pdu ++ s)) (length pdu)) as [Hlt|_]; [rewrite app_length in Hlt; lia|].
  rewrite skipn_app_le, skipn_all by lia. cbn [app]. apply IH.
  cbn [length app] in HF. rewrite !app_length in HF. lia.
Qed.
Lemma mbap_tail_framed pre fs : framed pre fs -> mbap_tail pre = [].
Proof. intros Hfr. unfold mbap_tail. apply (ref_tail_framed pre fs Hfr). lia. Qed.

Theorem ref_frames_framed_app : forall pre fs s2 fi, framed pre fs ->
  ref_frames (pre ++ s2) fi = (fs ++ fst (ref_frames s2 fi), snd (ref_frames s2 fi)).
Proof.
  intros pre fs s2 fi Hfr. rewrite ref_frames_app, (ref_frames_framed pre fs FinPending Hfr). cbn [end_of].
  now rewrite (mbap_tail_framed pre fs Hfr).
Qed.

(* --- a connection that goes on: the reader after a run that ends waiting --- *)
Definition tcp_represents (r : reader) (t : list N) : Prop := mbap_represents r t.

Theorem tcp_represents_fresh : tcp_represents (reader_new KTcp) [].
Proof. exact mbap_represents_fresh. Qed.

Theorem tcp_run_represents : forall r t n fi, tcp_represents r t ->
  run_reader (run_fuel r n) false r n fi = lift_frames (ref_frames (t ++ sbytes n) (sfin n fi)) /\
  snd (run_reader_st (run_fuel r n) r n fi) = lift_frames (ref_frames (t ++ sbytes n) (sfin n fi)).
Proof.
  intros r t n fi Hrep. pose proof (sbytes_le n).
  assert (H1 : run_reader (run_fuel r n) false r n fi = lift_frames (ref_frames (t ++ sbytes n) (sfin n fi))).
  { unfold ref_frames. apply (mbap_run_represents r t n fi (run_fuel r n) (S (length (t ++ sbytes n))) Hrep); unfold run_fuel; lia. }
  split; [exact H1|]. now rewrite run_reader_st_snd.
Qed.

Theorem tcp_represents_step : forall r t n r1 l1, tcp_represents r t ->
  run_reader_st (run_fuel r n) r n FinPending = (r1, (l1, EndPending)) ->
  tcp_represents r1 (mbap_tail (t ++ sbytes n)) /\
  l1 = map IFrame (fst (ref_frames (t ++ sbytes n) FinPending)) /\
  snd (ref_frames (t ++ sbytes n) FinPending) = EndPending.
Proof.
  intros r t n r1 l1 Hrep E. pose proof (sbytes_le n).
  exact (mbap_represents_step r t n (run_fuel r n) r1 l1 Hrep ltac:(unfold run_fuel; lia) E).
Qed.

(* ================================================================================================
   The client ends the connection at a malformed header (tie: Gen/ClientFatal.v, regenerated from
   client/task.rs SessionError::from_request_err)
   ================================================================================================ *)
From Rodbus Require Import Gen.ClientFatal.

Definition kind_of_ferr (e : ferr) : option frame_error_kind :=
  match e with
  | UnknownProtocolId _ => Some FkUnknownProtocolId
  | FrameLengthTooBig _ _ => Some FkFrameLengthTooBig
  | MbapLengthZero => Some FkMbapLengthZero
  | UnknownFunctionCode _ => Some FkUnknownFunctionCode
  | CrcValidationFailure _ _ => Some FkCrcValidationFailure
  | InternalError => None
  end.
(* ClientLoop::run returns (the connection ends) as soon as poll / run_one_request yields an error that
   from_request_err maps to a session error *)
Definition client_connection_survives (e : ending) : bool :=
  match e with
  | EndBad fe => match kind_of_ferr fe with Some k => negb (frame_error_ends_session k) | None => true end
  | EndIo _ => negb io_error_ends_session
  | _ => true
  end.

Theorem client_framing_errors_fatal : (forall k, frame_error_ends_session k = true) /\ io_error_ends_session = true.
Proof. split; [intros k; destruct k; reflexivity|reflexivity]. Qed.

Lemma client_never_survives_a_framing_error e : e <> InternalError -> client_connection_survives (EndBad e) = false.
Proof.
  intros Hne. unfold client_connection_survives. destruct (kind_of_ferr e) as [k|] eqn:E.
  - now rewrite (proj1 client_framing_errors_fatal k).
  - destruct e; try discriminate. congruence.
Qed.

(* the three kinds of malformed MBAP header, wherever they occur in the stream and however it is cut: the reader
   reports the error exactly there (tcp_reject) and the client ends the connection on it, so nothing behind the
   header is ever interpreted on that connection (the next connection starts from a reset reader: C05_client) *)
Theorem client_ends_at_malformed_header : forall pre fs h rest chunks fi,
  framed pre fs -> bad_header h -> concat chunks = pre ++ h ++ rest -> nonempty_chunks chunks ->
  exists e, run_session KTcp false chunks fi = (map IFrame fs, EndBad e) /\ client_connection_survives (EndBad e) = false.
Proof.
  intros pre fs h rest chunks fi Hfr Hbad Hs Hne.
  destruct (tcp_reject pre fs h rest chunks fi Hfr Hbad Hs Hne) as (e & Hni & Hrun).
  exists e. split; [exact Hrun|now apply client_never_survives_a_framing_error].
Qed.

(* ================================================================================================
   Error exits of MbapParser::parse and the parser state (seeded c07_5 is about the RTU parser)
   ================================================================================================ *)
(* every error exit of the MBAP parser leaves it in Begin: parse_header fails BEFORE `self.state = Header(..)`,
   and the Header arm has no error exit (cursor.read(adu_length) cannot fail after the length check). So
   next_frame's `parser.reset()` on error is a no-op for MBAP: there is no stale-state analogue of the RTU case *)
Theorem mbap_error_leaves_begin : forall st b st' b' e, wf b -> st_ok st -> mbap_parse st b = (st', b', Err e) -> st' = Begin.
Proof.
  intros st b st' b' e Hwf Hst Ep. rewrite (mbap_parse_eq _ _ Hwf Hst) in Ep.
  destruct (sparse st b) as [[s0 b0] r0] eqn:Es. destruct r0; inversion Ep; subst.
  destruct st as [|tx u n]; cbn [sparse] in Es.
  - destruct (Nat.ltb (buf_len b) 7); [discriminate|].
    destruct (hdr _) as [[[tx u] n]|e0]; [|inversion Es; reflexivity].
    unfold sbody in Es. destruct (Nat.ltb _ _); discriminate.
  - unfold sbody in Es. destruct (Nat.ltb _ _); discriminate.
Qed.
