(* One caller-owned rodbus_bit_list / rodbus_register_list object across several write-multiple calls
   (Model/FfiClient.list_calls over the regenerated `list_args`) against Spec/FfiSpec.list_calls_spec. *)
From Coq Require Import NArith List String Bool.
From Rodbus Require Import Gen.FfiTables Spec.FfiSpec Model.FfiClient.
Import ListNotations.
Local Open Scope N_scope.

(* ---- one list object, several calls: passing the list to a call leaves it unchanged ---- *)
Definition list_fns : list string := ["write_multiple_coils"; "write_multiple_registers"]%string.

Lemma list_unchanged : forall fn, In fn list_fns -> forall A (l : list A), list_read fn l = Some l /\ list_left fn l = Some l.
Proof.
  intros fn [<-|[<-|[]]] A l; split; reflexivity.
Qed.

Lemma list_reuse : forall fn, In fn list_fns -> forall A (steps : list (list_step A)) (l : list A),
  list_calls fn (Some l) steps = map (fun p => (fst p, Some (snd p))) (list_calls_spec l steps).
Proof.
  intros fn Hfn A steps. induction steps as [|[x|s] rest IH]; intro l; cbn [list_calls list_calls_spec map option_map].
  - reflexivity.
  - apply IH.
  - destruct (list_unchanged fn Hfn A l) as [-> ->]. cbn [fst snd]. f_equal. apply IH.
Qed.

(* the borrow is immutable, so nothing the function does can change the object *)
Lemma list_borrowed_immutably : forall fn, In fn list_fns -> fst (list_use fn) = "as_ref"%string.
Proof. intros fn [<-|[<-|[]]]; reflexivity. Qed.

Lemma list_args_complete : map (fun r => fst (fst r)) list_args = list_fns.
Proof. reflexivity. Qed.
