(* Model/Server.v follows the skeletons regenerated from the code (Gen/ServerFlow.v). *)
From Coq Require Import NArith List Bool Arith.
From Rodbus Require Import Base.Outcome Base.Cursor Base.ServerTypes Model.Range Model.Server Model.ServerFlow Gen.Consts Gen.AuthzTable Gen.ServerFlow.
Import ListNotations.
Local Open Scope N_scope.

(* SessionTask::handle_frame: the order of the early-return points, their guards, function fields
   and exception codes are those of the generated list *)
Theorem handle_frame_follows_flow {St} (H : handler St) l a units fr :
  handle_frame H l a units fr = run_flow H l a units fr fctx0 handle_frame_flow.
Proof.
  unfold handle_frame, handle_frame_flow. cbn [run_flow]. destruct (f_pdu fr) as [|fv body]; [reflexivity|].
  cbn [c_fv fctx0]. destruct (fcode_get fv) as [f|]; [|reflexivity].
  cbn [c_f c_body]. destruct (parse f body) as [req|]; [|reflexivity].
  cbn [c_req]. destruct (is_authorized a (dest_value (f_dest fr)) req) as [[[|] alog]|e|]; try reflexivity.
  all: try (cbn [c_alog c_req]; destruct (f_dest fr) as [u|]; reflexivity).
  cbn [do_action guard_holds option_map c_fv negb]. unfold reply_with_error_generic.
  destruct (dest_is_broadcast (f_dest fr)); reflexivity.
Qed.

(* reply_with_error_generic: nothing is written for a broadcast *)
Theorem error_reply_broadcast l fr f ex : dest_is_broadcast (f_dest fr) = true ->
  reply_with_error_generic l fr f ex = if error_replies_suppressed_on_broadcast then Ok [] else format_ex l (f_tx fr) (f_dest fr) f ex.
Proof. intros Hb. unfold reply_with_error_generic. rewrite Hb. reflexivity. Qed.

(* Request::parse: every arm performs exactly the generated steps, with the generated limits, in order *)
Theorem parse_follows_flow f c : parse f c = run_pflow f (parse_flow f) c pctx0.
Proof.
  destruct f; cbn [parse parse_flow run_pflow].
  - unfold parse_read. destruct (parse_address_range c) as [[r c1]|]; [|reflexivity]. cbn [p_range].
    unfold of_read_bits. destruct (limited_count r max_read_coils_count); [reflexivity|]. destruct (expect_empty c1); reflexivity.
  - unfold parse_read. destruct (parse_address_range c) as [[r c1]|]; [|reflexivity]. cbn [p_range].
    unfold of_read_bits. destruct (limited_count r max_read_coils_count); [reflexivity|]. destruct (expect_empty c1); reflexivity.
  - unfold parse_read. destruct (parse_address_range c) as [[r c1]|]; [|reflexivity]. cbn [p_range].
    unfold of_read_registers. destruct (limited_count r max_read_registers_count); [reflexivity|]. destruct (expect_empty c1); reflexivity.
  - unfold parse_read. destruct (parse_address_range c) as [[r c1]|]; [|reflexivity]. cbn [p_range].
    unfold of_read_registers. destruct (limited_count r max_read_registers_count); [reflexivity|]. destruct (expect_empty c1); reflexivity.
  - destruct (parse_indexed_bool c) as [[[i b] c1]|]; [|reflexivity]. destruct (expect_empty c1); reflexivity.
  - destruct (parse_indexed_u16 c) as [[[i v] c1]|]; [|reflexivity]. destruct (expect_empty c1); reflexivity.
  - unfold parse_write_multiple. destruct (parse_address_range c) as [[r c1]|]; [|reflexivity]. cbn [p_range].
    destruct (max_write_coils_count <? snd r); [reflexivity|]. destruct (rd_u8 c1) as [[x c2]|]; [|reflexivity].
    cbn [p_range parse_all_flow run_aflow nbytes_of]. unfold parse_all.
    destruct (rd_bytes (num_bytes_for_bits (snd r)) c2) as [[b c3]|]; [|reflexivity]. destruct (expect_empty c3); reflexivity.
  - unfold parse_write_multiple. destruct (parse_address_range c) as [[r c1]|]; [|reflexivity]. cbn [p_range].
    destruct (max_write_registers_count <? snd r); [reflexivity|]. destruct (rd_u8 c1) as [[x c2]|]; [|reflexivity].
    cbn [p_range parse_all_flow run_aflow nbytes_of]. unfold parse_all.
    destruct (rd_bytes (2 * N.to_nat (snd r)) c2) as [[b c3]|]; [|reflexivity]. destruct (expect_empty c3); reflexivity.
Qed.
