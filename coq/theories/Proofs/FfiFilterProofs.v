From Coq Require Import NArith List String Bool.
From Rodbus Require Import Gen.FfiTables Model.Filter Spec.FfiFilterSpec Model.FfiFilter.
Import ListNotations.

Lemma create_is_spec v6 s : ffi_filter_create v6 s = filter_create_spec v6 s.
Proof.
  unfold ffi_filter_create, filter_create_spec. cbn.
  destruct (parse_ip v6 s); [reflexivity|]. destruct (parse_wildcard s); reflexivity.
Qed.

Lemma add_is_spec v6 f s : ffi_filter_add v6 f s = filter_add_spec v6 f s.
Proof.
  unfold ffi_filter_add, filter_add_spec, add_by. destruct (parse_ip v6 s); [|destruct f; reflexivity].
  destruct f; reflexivity.
Qed.

Lemma adds_ext (add1 add2 : afilter -> str -> afilter * bool) : (forall f s, add1 f s = add2 f s) ->
  forall adds f, adds_with add1 f adds = adds_with add2 f adds.
Proof.
  intros H adds. induction adds as [|a rest IH]; intro f; cbn; [reflexivity|].
  rewrite H. destruct (add2 f a) as [f1 ok]. now rewrite IH.
Qed.

Theorem build_is_spec v6 s adds : ffi_filter_build v6 s adds = filter_build_spec v6 s adds.
Proof.
  unfold ffi_filter_build, filter_build_spec. rewrite create_is_spec.
  destruct (filter_create_spec v6 s); cbn; [|reflexivity]. f_equal. apply adds_ext. apply add_is_spec.
Qed.

Theorem arms_known : add_arms_known filter_add_arms = true /\ map fst filter_add_arms = ["Any"; "AnyOf"; "WildcardIpv4"]%string.
Proof. split; reflexivity. Qed.

(* a plain IPv4 string gives the one-element set, and that set can be extended *)
Theorem plain_ip_extendable v6 s a t b : parse_ipv4 s = Some a -> parse_ip v6 t = Some b ->
  ffi_filter_build v6 s [t] = Some (AnyOf [a; b], [true]).
Proof.
  intros Hs Ht. rewrite build_is_spec. unfold filter_build_spec, filter_create_spec, parse_ip at 1. rewrite Hs. cbn.
  unfold filter_add_spec. now rewrite Ht.
Qed.
