(* The C-ABI client (Model/FfiClient.v) composed with the verified client core:
     (1) values cross the boundary unchanged (list.rs, iterator.rs);
     (2) the C function against the Rust API (Model/ClientPaths.submit_via) and the generated statement order;
     (3) the bytes on the wire are those of C03;
     (4) what the C callback receives for a reply is what C04 says the client computes;
     (5) every completion callback fires exactly once, composed with the task model (C10);
     (6) non-vacuity examples. *)
From Coq Require Import NArith List String Bool Arith Lia.
From Rodbus Require Import Base.Outcome Base.ClientTypes Model.Format Model.Range Model.ClientRequest Model.ClientPaths
  Model.ClientSession Spec.ClientCodecSpec Gen.Consts Gen.ClientTables Gen.SessionErrors Gen.FfiTables Model.Ffi Spec.FfiSpec
  Proofs.FfiProofs Model.FfiClient Proofs.ClientPathsProofs Proofs.ClientSessionProofs.
From Rodbus Require Model.ClientTask Spec.ClientSpec Proofs.C10Proofs Properties.C03 Properties.C04 Properties.C10.
Import ListNotations.
Module CT := Rodbus.Model.ClientTask.
Module P10 := Rodbus.Proofs.C10Proofs.
Module C03 := Rodbus.Properties.C03.
Module C04 := Rodbus.Properties.C04.
Module C10 := Rodbus.Properties.C10.
Local Open Scope N_scope.

(* ================================================================ (1) values cross the boundary unchanged *)
Lemma fold_list_add {A} : forall (items acc : list A), fold_left list_add items acc = (acc ++ items)%list.
Proof.
  induction items as [|x items IH]; intros acc; cbn [fold_left].
  - rewrite app_nil_r. reflexivity.
  - rewrite IH. unfold list_add. rewrite <- app_assoc. reflexivity.
Qed.

(* rodbus_*_list_create, then one ..._list_add per element: the Vec holds exactly the elements, in order *)
Theorem list_of_adds_id : forall A (items : list A), list_of_adds items = items.
Proof. intros A items. unfold list_of_adds, list_create. apply fold_list_add. Qed.
Print Assumptions list_of_adds_id.

(* ..._iterator_next: the next element of the inner iterator, copied into `current`; the rest stays *)
Lemma vi_next_some : forall A (x : N * A) rest cur,
  vi_next {| vi_inner := x :: rest; vi_current := cur |} = Some (x, {| vi_inner := rest; vi_current := x |}).
Proof. intros A [i v] rest cur. reflexivity. Qed.

(* NULL exactly at the end *)
Lemma vi_next_null : forall A (it : value_iter A), vi_next it = None <-> vi_inner it = [].
Proof.
  intros A [inner cur]. unfold vi_next. cbn [vi_inner]. destruct inner as [|x rest]; split; intros H; try reflexivity; discriminate.
Qed.
Print Assumptions vi_next_null.

(* the k-th call of next returns the k-th element, the call after the last one returns NULL *)
Fixpoint vi_nth {A} (k : nat) (it : value_iter A) : option (N * A) :=
  match vi_next it with
  | None => None
  | Some (v, it') => match k with O => Some v | S k' => vi_nth k' it' end
  end.
Lemma vi_nth_spec : forall A (l : list (N * A)) cur k, vi_nth k {| vi_inner := l; vi_current := cur |} = nth_error l k.
Proof.
  intros A l. induction l as [|x rest IH]; intros cur k.
  - destruct k; reflexivity.
  - destruct k as [|k]; cbn [vi_nth]; rewrite vi_next_some; [reflexivity|]. cbn [nth_error]. apply IH.
Qed.

Lemma vi_drain_all : forall A (l : list (N * A)) cur fuel, (List.length l < fuel)%nat ->
  vi_drain fuel {| vi_inner := l; vi_current := cur |} = l.
Proof.
  intros A l. induction l as [|x rest IH]; intros cur fuel H.
  - destruct fuel; [inversion H|reflexivity].
  - destruct fuel as [|fuel]; [inversion H|]. cbn [vi_drain]. rewrite vi_next_some. f_equal. apply IH. cbn [List.length] in H. lia.
Qed.

(* the C callback's `while ((v = next(it)) != NULL)` loop reads exactly the values, in order *)
Theorem vi_all_id : forall A (l : list (N * A)) z, vi_all l z = l.
Proof. intros A l z. unfold vi_all, vi_new. apply vi_drain_all. lia. Qed.
Print Assumptions vi_all_id.

Theorem vi_next_in_order : forall A (l : list (N * A)) z k,
  vi_nth k (vi_new l z) = nth_error l k /\ (vi_nth k (vi_new l z) = None <-> (List.length l <= k)%nat).
Proof.
  intros A l z k. unfold vi_new. rewrite vi_nth_spec. split; [reflexivity|apply nth_error_None].
Qed.
Print Assumptions vi_next_in_order.

Theorem to_call_values :
  (forall s adds, to_call (CcWriteMultipleCoils s (Some adds)) = Some (CWriteMultipleCoils s adds)) /\
  (forall s adds, to_call (CcWriteMultipleRegisters s (Some adds)) = Some (CWriteMultipleRegisters s adds)) /\
  (forall cc, to_call cc = None <-> items_null cc = true).
Proof.
  repeat split; intros; cbn [to_call]; rewrite ?list_of_adds_id; try reflexivity.
  - destruct cc as [| | | | | |s [l|]|s [l|]]; try discriminate; reflexivity.
  - destruct cc as [| | | | | |s [l|]|s [l|]]; try discriminate; reflexivity.
Qed.
Print Assumptions to_call_values.

(* ================================================================ (2) the C function against the Rust API *)
Lemma ft_of_in : forall cc, In (ft_of cc) future_types.
Proof. destruct cc; vm_compute; auto. Qed.
Lemma ft_of_ok : forall cc, shape_ok (ft_of cc).
Proof. intros cc. apply future_types_ok, ft_of_in. Qed.
Lemma steps_of_in : forall cc, In (c_name cc, steps_of cc) client_calls.
Proof. destruct cc; vm_compute; auto 10. Qed.

Lemma to_call_not_null : forall cc c, to_call cc = Some c -> items_null cc = false.
Proof. intros cc c H. destruct cc as [| | | | | |s [l|]|s [l|]]; try reflexivity; discriminate. Qed.

Definition cc_is_read (cc : c_call) : bool :=
  match cc with
  | CcReadCoils _ _ | CcReadDiscreteInputs _ _ | CcReadHoldingRegisters _ _ | CcReadInputRegisters _ _ => true
  | _ => false
  end.
Definition cc_is_write_multiple (cc : c_call) : bool :=
  match cc with CcWriteMultipleCoils _ _ | CcWriteMultipleRegisters _ _ => true | _ => false end.
Lemma is_read_c_name : forall cc, is_read (c_name cc) = cc_is_read cc.
Proof. destruct cc; reflexivity. Qed.

(* try_from never answers CountTooLargeForType *)
Lemma try_from_err : forall s n e, try_from s n = inl e -> e = CountOfZero \/ e = AddressOverflow.
Proof.
  intros s n e. unfold try_from. destruct (n =? 0); [intros H; injection H as <-; auto|].
  destruct (65535 - (n - 1) <? s); intros H; [injection H as <-; auto|discriminate].
Qed.

(* how `build` of a read relates to the two checks the C function and FfiChannel perform *)
Lemma limited_count_cases : forall s n limit,
  match limited_count (s, n) limit with
  | inr r => try_from s n = inr (s, n) /\ r = (s, n)
  | inl e => (try_from s n = inl e /\ (e = CountOfZero \/ e = AddressOverflow)) \/
             (exists r, try_from s n = inr r) /\ e = CountTooLargeForType
  end.
Proof.
  intros s n limit. unfold limited_count. cbn [fst snd].
  destruct (try_from s n) as [e|r] eqn:E.
  - left. split; [reflexivity|]. eapply try_from_err; eassumption.
  - assert (r = (s, n)) as ->.
    { unfold try_from in E. destruct (n =? 0); [discriminate|]. destruct (65535 - (n - 1) <? s); [discriminate|]. congruence. }
    cbn [snd]. destruct (limit <? n); [right; split; [eexists; reflexivity|reflexivity]|split; reflexivity].
Qed.

Lemma write_multiple_from_cases {A} : forall s (l : list A),
  match write_multiple_from s l with
  | Ok _ => True
  | Err e => e = ECountTooBigForU16 \/ e = ECountOfZero \/ e = EAddressOverflow
  | Panic => False
  end.
Proof.
  intros s l. unfold write_multiple_from. destruct (65535 <? N.of_nat (List.length l)); [auto|].
  destruct (try_from s (N.of_nat (List.length l))) as [e|r] eqn:E; cbn [of_range obind]; [|exact I].
  destruct (try_from_err _ _ _ E) as [-> | ->]; cbn [of_range_err]; auto.
Qed.

(* the environment of a call whose request the Rust API can build *)
Lemma env_of_built : forall cc c r snd_ task_, to_call cc = Some c -> build c = Ok r ->
  passes_validation (env_of false cc snd_ task_) /\ over_limit (env_of false cc snd_ task_) = false.
Proof.
  intros cc c r snd_ task_ Hc Hb. unfold passes_validation, env_of. cbn [null_args failing_validation over_limit].
  rewrite (to_call_not_null cc c Hc). cbn [app].
  destruct cc as [s n|s n|s n|s n|i v|i v|s [l|]|s [l|]]; cbn [to_call] in Hc; try discriminate; injection Hc as <-;
    cbn [failing_step over_read_limit build] in *.
  1,2: unfold of_read_bits in *; pose proof (limited_count_cases s n max_read_coils_count) as L;
       destruct (limited_count (s, n) max_read_coils_count) as [e|r']; [discriminate|]; destruct L as [-> _]; auto.
  1,2: unfold of_read_registers in *; pose proof (limited_count_cases s n max_read_registers_count) as L;
       destruct (limited_count (s, n) max_read_registers_count) as [e|r']; [discriminate|]; destruct L as [-> _]; auto.
  1,2: auto.
  1,2: destruct (write_multiple_from s (list_of_adds l)) as [[rg vs]|e|]; [auto|discriminate|discriminate].
Qed.

(* A call the Rust API accepts: the C function queues the same request, returns what try_send allows and the C
   callback fires exactly once - with the first completion the client task produces, else Shutdown *)
Theorem c_submit_queued : forall cc c r snd_ task_, to_call cc = Some c -> build c = Ok r ->
  submit_via ViaFfi c = Queued r /\ submit_via ViaChannel c = Queued r /\
  c_function false cc snd_ task_ = expected (ft_of cc) (is_read (c_name cc)) (env_of false cc snd_ task_) /\
  c_function false cc snd_ task_ =
    match snd_ with
    | Accepted => (FPE_Ok, [fire (ft_of cc) (first_completion task_)])
    | QueueFull => (FPE_TooManyRequests, [OnFailure FRE_Shutdown])
    | ChannelClosed => (FPE_Shutdown, [OnFailure FRE_Shutdown])
    end.
Proof.
  intros cc c r snd_ task_ Hc Hb.
  rewrite !C03.C03_path_submit, Hb. split; [reflexivity|]. split; [reflexivity|].
  destruct (env_of_built cc c r snd_ task_ Hc Hb) as [Hp Ho].
  assert (E : c_function false cc snd_ task_ = expected (ft_of cc) (is_read (c_name cc)) (env_of false cc snd_ task_)).
  { unfold c_function. apply (once_all (c_name cc, steps_of cc) (steps_of_in cc) (ft_of cc) (ft_of_ok cc) _ Hp). }
  split; [exact E|]. rewrite E. unfold expected. rewrite Ho, andb_false_r. reflexivity.
Qed.
Print Assumptions c_submit_queued.

(* the two ways the C function itself can refuse a call with a non-null channel and list *)
Lemma c_function_validation : forall cc w snd_ task_, items_null cc = false -> failing_step cc = Some w ->
  In (Validate w) (steps_of cc) -> c_function false cc snd_ task_ = (validation_error w, []).
Proof.
  intros cc w snd_ task_ Hn Hw Hin. unfold c_function.
  destruct (param_error_no_callback (c_name cc, steps_of cc) (steps_of_in cc) (ft_of cc) (env_of false cc snd_ task_)) as [_ H].
  apply H; [unfold env_of; cbn [null_args]; rewrite Hn; reflexivity|exact Hw|exact Hin].
Qed.

Lemma c_function_validated : forall cc snd_ task_, items_null cc = false -> failing_step cc = None ->
  c_function false cc snd_ task_ = expected (ft_of cc) (is_read (c_name cc)) (env_of false cc snd_ task_).
Proof.
  intros cc snd_ task_ Hn Hw. unfold c_function.
  apply (once_all (c_name cc, steps_of cc) (steps_of_in cc) (ft_of cc) (ft_of_ok cc)).
  split; [unfold env_of; cbn [null_args]; rewrite Hn; reflexivity|exact Hw].
Qed.

Lemma rejection_of_channel : forall c e, rejection_of ViaChannel c e = {| rj_returned := Some e; rj_completion := None |}.
Proof. destruct c; reflexivity. Qed.

Lemma c_read_rejected : forall cc s n limit e snd_ task_,
  cc_is_read cc = true -> failing_step cc = (match try_from s n with inl _ => Some "AddressRange::try_from"%string | inr _ => None end) ->
  over_read_limit cc = (match try_from s n, limited_count (s, n) limit with inr _, inl _ => true | _, _ => false end) ->
  of_range (limited_count (s, n) limit) = Err e ->
  ((e = ECountOfZero \/ e = EAddressOverflow) /\ c_function false cc snd_ task_ = (FPE_InvalidRange, [])) \/
  (e = ECountTooLargeForType /\ c_function false cc snd_ task_ = (FPE_InvalidRange, [OnFailure FRE_Shutdown])).
Proof.
  intros cc s n limit e snd_ task_ Hr Hf Ho Hb.
  assert (Hn : items_null cc = false) by (destruct cc; try discriminate Hr; reflexivity).
  pose proof (limited_count_cases s n limit) as L.
  destruct (limited_count (s, n) limit) as [e0|r']; [|discriminate]. cbn [of_range] in Hb. injection Hb as <-.
  destruct L as [[Ht He]|[[r Ht] ->]].
  - left. split; [destruct He as [-> | ->]; auto|].
    rewrite Ht in Hf. rewrite (c_function_validation cc _ snd_ task_ Hn Hf); [reflexivity|].
    destruct cc; try discriminate Hr; vm_compute; auto.
  - right. split; [reflexivity|]. rewrite Ht in Hf, Ho.
    rewrite (c_function_validated cc snd_ task_ Hn Hf). unfold expected.
    rewrite is_read_c_name, Hr. unfold env_of at 1. cbn [over_limit]. rewrite Ho. reflexivity.
Qed.

Lemma c_write_multiple_rejected : forall cc A s (l : list A) e snd_ task_,
  items_null cc = false -> In (Validate "WriteMultiple::from") (steps_of cc) ->
  failing_step cc = (match write_multiple_from s l with Ok _ => None | _ => Some "WriteMultiple::from"%string end) ->
  write_multiple_from s l = Err e ->
  (e = ECountTooBigForU16 \/ e = ECountOfZero \/ e = EAddressOverflow) /\ c_function false cc snd_ task_ = (FPE_InvalidRequest, []).
Proof.
  intros cc A s l e snd_ task_ Hn Hin Hf Hb. pose proof (write_multiple_from_cases s l) as W. rewrite Hb in W, Hf.
  split; [exact W|]. rewrite (c_function_validation cc _ snd_ task_ Hn Hf Hin). reflexivity.
Qed.

(* A call the Rust API rejects (build c = Err e): the Channel API returns e, FfiChannel queues nothing, and the C function
   returns - whatever the queue or the task would do -
     reads, empty or overflowing range (caught by AddressRange::try_from in the C function):  InvalidRange, NO callback;
     reads above the Modbus limit (caught by FfiChannel's of_read_bits / of_read_registers, AFTER sfio_promise::wrap):
                                                                InvalidRange and EXACTLY ONE on_failure(Shutdown);
     write-multiple (caught by WriteMultiple::from in the C function):                        InvalidRequest, NO callback;
   and these are the only errors `build` can produce (single writes are never rejected). *)
Theorem c_submit_rejected : forall cc c e snd_ task_, to_call cc = Some c -> build c = Err e ->
  submit_via ViaChannel c = Rejected {| rj_returned := Some e; rj_completion := None |} /\
  submit_via ViaFfi c = Rejected (rejection_of ViaFfi c e) /\
  match cc with
  | CcReadCoils _ _ | CcReadDiscreteInputs _ _ | CcReadHoldingRegisters _ _ | CcReadInputRegisters _ _ =>
      ((e = ECountOfZero \/ e = EAddressOverflow) /\ c_function false cc snd_ task_ = (FPE_InvalidRange, [])) \/
      (e = ECountTooLargeForType /\ c_function false cc snd_ task_ = (FPE_InvalidRange, [OnFailure FRE_Shutdown]))
  | CcWriteMultipleCoils _ _ | CcWriteMultipleRegisters _ _ =>
      (e = ECountTooBigForU16 \/ e = ECountOfZero \/ e = EAddressOverflow) /\
      c_function false cc snd_ task_ = (FPE_InvalidRequest, [])
  | CcWriteSingleCoil _ _ | CcWriteSingleRegister _ _ => False
  end.
Proof.
  intros cc c e snd_ task_ Hc Hb.
  rewrite !C03.C03_path_submit, Hb, rejection_of_channel. split; [reflexivity|]. split; [reflexivity|].
  destruct cc as [s n|s n|s n|s n|i v|i v|s [l|]|s [l|]]; cbn [to_call] in Hc; try discriminate; injection Hc as <-; cbn [build] in Hb.
  - apply (c_read_rejected _ s n max_read_coils_count); try reflexivity.
    fold (of_read_bits (s, n)). destruct (of_range (of_read_bits (s, n))); [discriminate|cbn [obind] in Hb; congruence|discriminate].
  - apply (c_read_rejected _ s n max_read_coils_count); try reflexivity.
    fold (of_read_bits (s, n)). destruct (of_range (of_read_bits (s, n))); [discriminate|cbn [obind] in Hb; congruence|discriminate].
  - apply (c_read_rejected _ s n max_read_registers_count); try reflexivity.
    fold (of_read_registers (s, n)). destruct (of_range (of_read_registers (s, n))); [discriminate|cbn [obind] in Hb; congruence|discriminate].
  - apply (c_read_rejected _ s n max_read_registers_count); try reflexivity.
    fold (of_read_registers (s, n)). destruct (of_range (of_read_registers (s, n))); [discriminate|cbn [obind] in Hb; congruence|discriminate].
  - discriminate.
  - discriminate.
  - apply (c_write_multiple_rejected _ bool s (list_of_adds l)); [reflexivity|vm_compute; auto 10|reflexivity|].
    destruct (write_multiple_from s (list_of_adds l)) as [[rg vs]|e'|]; [discriminate|cbn [obind] in Hb; congruence|discriminate].
  - apply (c_write_multiple_rejected _ N s (list_of_adds l)); [reflexivity|vm_compute; auto 10|reflexivity|].
    destruct (write_multiple_from s (list_of_adds l)) as [[rg vs]|e'|]; [discriminate|cbn [obind] in Hb; congruence|discriminate].
Qed.
Print Assumptions c_submit_rejected.

(* The over-limit read (the path a defect that moves sfio_promise::wrap into the closure breaks). At the Rust level the two
   FfiChannel methods differ: read_bits checks the limit BEFORE it builds its promise (the closure is dropped uncalled),
   read_registers builds the promise first (its Drop calls the closure with Shutdown) - C03_rejection_signals. At the C level
   both end in exactly one on_failure(Shutdown): in the first case it is the dropped sfio promise that fires. *)
Theorem c_over_limit_exactly_one : forall cc c snd_ task_, to_call cc = Some c -> build c = Err ECountTooLargeForType ->
  c_function false cc snd_ task_ = (FPE_InvalidRange, [OnFailure FRE_Shutdown]) /\
  cc_is_read cc = true /\
  exists rj, submit_via ViaFfi c = Rejected rj /\ rj_returned rj = Some ECountTooLargeForType /\
    rj_completion rj = match cc with CcReadCoils _ _ | CcReadDiscreteInputs _ _ => None | _ => Some CShutdown end.
Proof.
  intros cc c snd_ task_ Hc Hb. destruct (c_submit_rejected cc c _ snd_ task_ Hc Hb) as (_ & Hf & H).
  assert (G : c_function false cc snd_ task_ = (FPE_InvalidRange, [OnFailure FRE_Shutdown]) /\ cc_is_read cc = true).
  { destruct cc; try (destruct H as [[[?|?] _]|[_ H]]; [discriminate|discriminate|split; [exact H|reflexivity]]);
      try contradiction; destruct H as [[?|[?|?]] _]; discriminate. }
  destruct G as [G1 G2]. split; [exact G1|]. split; [exact G2|].
  eexists. split; [exact Hf|]. rewrite C03.C03_rejection_signals.
  destruct cc as [| | | | | |s [l|]|s [l|]]; try discriminate G2; cbn [to_call] in Hc; injection Hc as <-; split; reflexivity.
Qed.
Print Assumptions c_over_limit_exactly_one.

(* NULL arguments: NullParameter, no callback, nothing else happens *)
Theorem c_null : forall cc snd_ task_,
  c_function true cc snd_ task_ = (FPE_NullParameter, []) /\
  (items_null cc = true -> c_function false cc snd_ task_ = (FPE_NullParameter, [])).
Proof.
  intros cc snd_ task_. split.
  - unfold c_function.
    destruct (param_error_no_callback (c_name cc, steps_of cc) (steps_of_in cc) (ft_of cc) (env_of true cc snd_ task_)) as [H _].
    apply H. unfold env_of. cbn [null_args app]. left. reflexivity.
  - intros Hn. destruct cc as [| | | | | |s [l|]|s [l|]]; try discriminate Hn; vm_compute; reflexivity.
Qed.
Print Assumptions c_null.

(* ================================================================ (3) bytes on the wire *)
(* one call: whichever API submits it, the transport sees the protocol encoding of the call, or nothing *)
Theorem c_wire : forall cc c tx uid, to_call cc = Some c -> call_wf c ->
  path_wire ViaFfi Tcp tx uid c = path_wire ViaChannel Tcp tx uid c /\
  path_wire ViaFfi Tcp tx uid c = submit_wire Tcp tx uid c /\
  (within_limits c -> path_wire ViaFfi Tcp tx uid c = [ref_encode_tcp tx uid c]) /\
  (~ within_limits c -> path_wire ViaFfi Tcp tx uid c = []).
Proof.
  intros cc c tx uid _ Hwf. rewrite !C03.C03_path_wire. split; [reflexivity|]. split; [reflexivity|]. split.
  - intros Hl. rewrite C03.C03_one_frame_or_nothing, (C03.C03_complete Tcp tx uid c Hwf Hl). reflexivity.
  - intros Hl. destruct (C03.C03_limits Tcp tx uid c Hwf Hl) as (e & _ & H). exact H.
Qed.
Print Assumptions c_wire.

(* a sequence of C calls (unit id, call) on a connected channel, as Rust calls: a call with a NULL list returns
   NullParameter (c_null) and never reaches FfiChannel *)
Definition rust_calls (l : list (N * c_call)) : list (N * call) :=
  flat_map (fun x => match to_call (snd x) with Some c => [(fst x, c)] | None => [] end) l.
Definition via (p : path) (cs : list (N * call)) : list (path * N * call) := map (fun x => (p, fst x, snd x)) cs.

Lemma strip_via : forall p cs, strip (via p cs) = cs.
Proof.
  intros p cs. unfold strip, via. rewrite map_map. cbn [fst snd]. rewrite <- (map_id cs) at 2.
  apply map_ext. intros [u c]. reflexivity.
Qed.

(* the wire log of the session is the Spec's (frames of the calls within the limits, in order, the k-th request that reaches
   the task carrying transaction id k mod 65536) and is the log the Channel API would produce for the same calls *)
Theorem c_session_wire : forall l, Forall (fun x => call_wf (snd x)) (rust_calls l) ->
  session_wire Tcp 0 (via ViaFfi (rust_calls l)) = ref_session_wire true 0 (rust_calls l) /\
  session_wire Tcp 0 (via ViaFfi (rust_calls l)) = session_wire Tcp 0 (via ViaChannel (rust_calls l)).
Proof.
  intros l Hwf. split.
  - rewrite C03.C03_session_wire; [rewrite strip_via; reflexivity|].
    unfold via. rewrite Forall_map. cbn [snd]. exact Hwf.
  - apply C03.C03_session_paths. fold (strip (via ViaFfi (rust_calls l))). fold (strip (via ViaChannel (rust_calls l))).
    rewrite !strip_via. reflexivity.
Qed.
Print Assumptions c_session_wire.

(* ... from any point of a session on *)
Theorem c_session_wire_from : forall l k, Forall (fun x => call_wf (snd x)) (rust_calls l) ->
  session_wire Tcp (k mod 65536) (via ViaFfi (rust_calls l)) = ref_session_wire true k (rust_calls l) /\
  session_wire Tcp (k mod 65536) (via ViaFfi (rust_calls l)) = session_wire Tcp (k mod 65536) (via ViaChannel (rust_calls l)).
Proof.
  intros l k Hwf. split.
  - rewrite C03.C03_session_wire_from; [rewrite strip_via; reflexivity|].
    unfold via. rewrite Forall_map. cbn [snd]. exact Hwf.
  - apply C03.C03_session_paths. fold (strip (via ViaFfi (rust_calls l))). fold (strip (via ViaChannel (rust_calls l))).
    rewrite !strip_via. reflexivity.
Qed.
Print Assumptions c_session_wire_from.

(* the k-th request reaching the task is stamped k mod 65536 *)
Theorem c_session_ids : forall k, CT.txid_next (k mod 65536) = ((k + 1) mod 65536, k mod 65536).
Proof. exact C03.C03_session_ids. Qed.
Print Assumptions c_session_ids.

(* ================================================================ (4) what the C callback receives for a reply *)
Theorem c_deliver_agrees : forall r pdu, request_wf r -> Forall is_u8 pdu ->
  c_deliver (deliver_via ViaFfi r pdu) = c_deliver (handle_response r pdu).
Proof. intros r pdu Hr Hp. cbn [deliver_via]. rewrite (C04.C04_paths_agree r pdu Hr Hp). reflexivity. Qed.
Print Assumptions c_deliver_agrees.

(* success: the callback reads exactly the values the client core computed (C04), element by element; writes: on_complete(Nothing) *)
Theorem c_deliver_values : forall r pdu, request_wf r -> Forall is_u8 pdu ->
  (forall l, handle_response r pdu = Ok (RespBits l) -> c_deliver (deliver_via ViaFfi r pdu) = Some (CvBits l)) /\
  (forall l, handle_response r pdu = Ok (RespRegisters l) -> c_deliver (deliver_via ViaFfi r pdu) = Some (CvRegisters l)) /\
  (forall i v, handle_response r pdu = Ok (RespCoil i v) -> c_deliver (deliver_via ViaFfi r pdu) = Some CvNothing) /\
  (forall i v, handle_response r pdu = Ok (RespRegister i v) -> c_deliver (deliver_via ViaFfi r pdu) = Some CvNothing) /\
  (forall s n, handle_response r pdu = Ok (RespRange s n) -> c_deliver (deliver_via ViaFfi r pdu) = Some CvNothing).
Proof.
  intros r pdu Hr Hp. rewrite (c_deliver_agrees r pdu Hr Hp).
  repeat split; intros; match goal with H : handle_response _ _ = _ |- _ => rewrite H end; cbn [c_deliver]; rewrite ?vi_all_id; reflexivity.
Qed.
Print Assumptions c_deliver_values.

(* the name of a C-side error value against the Rust error it stands for *)
Definition ffi_error_same_named (e : rust_request_error) : bool :=
  match e with
  | RRE_Exception x => exception_name_ok (name_rust_exception_code x) (name_ffi_request_error (request_error_to_ffi e))
  | _ => request_error_name_ok (name_rust_request_error e) (name_ffi_request_error (request_error_to_ffi e))
  end.
Lemma ffi_error_same_named_all : forall e, ffi_error_same_named e = true.
Proof. exact (proj1 (proj2 names_all)). Qed.

(* failure: on_failure with the same-named counterpart of the error class, never Ok; and never a panic *)
Theorem c_deliver_error : forall r pdu e, request_wf r -> Forall is_u8 pdu -> handle_response r pdu = Err e ->
  c_deliver (deliver_via ViaFfi r pdu) = Some (CvFailure (request_error_to_ffi (class_of_codec e))) /\
  ffi_error_same_named (class_of_codec e) = true /\
  request_error_to_ffi (class_of_codec e) <> FRE_Ok.
Proof.
  intros r pdu e Hr Hp H. rewrite (c_deliver_agrees r pdu Hr Hp), H.
  split; [reflexivity|]. split; [apply ffi_error_same_named_all|apply request_error_never_ok].
Qed.
Print Assumptions c_deliver_error.

Theorem c_deliver_total : forall r pdu, request_wf r -> Forall is_u8 pdu -> c_deliver (deliver_via ViaFfi r pdu) <> None.
Proof.
  intros r pdu Hr Hp. rewrite (c_deliver_agrees r pdu Hr Hp). pose proof (C04.C04_total r pdu Hr) as T.
  destruct (handle_response r pdu) as [[]|e|]; cbn [c_deliver]; try discriminate. contradiction.
Qed.
Print Assumptions c_deliver_total.

(* the two generated exception tables (rodbus exception.rs as read for the client core / for the C ABI) agree *)
Lemma exception_tables_agree : forall b, exception_from_u8 (u8_of_excode (excode_of_u8 b)) = exception_from_u8 b.
Proof. intros b. rewrite C04.C04_exception_code. reflexivity. Qed.
Print Assumptions exception_tables_agree.
Lemma exception_tables_same_names : forall ex, name_rust_exception_code (exception_from_u8 (u8_of_excode ex)) =
  match ex with
  | ExIllegalFunction => "IllegalFunction" | ExIllegalDataAddress => "IllegalDataAddress" | ExIllegalDataValue => "IllegalDataValue"
  | ExServerDeviceFailure => "ServerDeviceFailure" | ExAcknowledge => "Acknowledge" | ExServerDeviceBusy => "ServerDeviceBusy"
  | ExMemoryParityError => "MemoryParityError" | ExGatewayPathUnavailable => "GatewayPathUnavailable"
  | ExGatewayTargetDeviceFailedToRespond => "GatewayTargetDeviceFailedToRespond"
  | ExUnknown v => name_rust_exception_code (exception_from_u8 v)
  end%string.
Proof. destruct ex; reflexivity. Qed.

Lemma reply_fc_small : forall r, reply_fc r + 128 < 256.
Proof. destruct r; cbn [reply_fc]; lia. Qed.

(* all 256 exception codes: an exception reply with code b reaches the C callback as ModbusException<standard name of b> *)
Theorem c_deliver_exception_bytes : forall r b, request_wf r -> b < 256 ->
  c_deliver (deliver_via ViaFfi r [reply_fc r + 128; b]) =
    Some (CvFailure (request_error_to_ffi (RRE_Exception (exception_from_u8 b)))) /\
  name_ffi_request_error (request_error_to_ffi (RRE_Exception (exception_from_u8 b))) =
    ("ModbusException" ++ standard_exception_name b)%string.
Proof.
  intros r b Hr Hb.
  assert (Hp : Forall is_u8 [reply_fc r + 128; b]).
  { repeat constructor; unfold is_u8; [apply reply_fc_small|exact Hb]. }
  destruct (c_deliver_error r _ _ Hr Hp (C04.C04_exception r b)) as (H & _ & _).
  rewrite H. cbn [class_of_codec]. rewrite exception_tables_agree. split; [reflexivity|].
  exact (proj1 (proj2 (exception_bytes b Hb))).
Qed.
Print Assumptions c_deliver_exception_bytes.

(* the task-level error classes (C10's OComplete results) as C values: same-named, never Ok, class preserved *)
Theorem class_of_task_names : forall e ex,
  ffi_error_same_named (class_of_task e ex) = true /\
  request_error_to_ffi (class_of_task e ex) <> FRE_Ok /\
  name_rust_request_error (class_of_task e ex) =
    match e with
    | ReIo => "Io" | ReException => "Exception" | ReBadRequest => "BadRequest" | ReBadFrame => "BadFrame"
    | ReBadResponse => "BadResponse" | ReInternal => "Internal" | ReResponseTimeout => "ResponseTimeout"
    | ReNoConnection => "NoConnection" | ReShutdown => "Shutdown"
    end%string.
Proof.
  intros e ex. split; [apply ffi_error_same_named_all|]. split; [apply request_error_never_ok|]. destruct e; reflexivity.
Qed.
Print Assumptions class_of_task_names.

(* ================================================================ (5) exactly once, composed with the task model (C10) *)
(* the results the task produces for request `id`, and the C callback invocation each one stands for *)
Definition results_of (outs : list CT.output) (id : nat) : list CT.result :=
  flat_map (fun o => match o with CT.OComplete i res => if Nat.eqb i id then [res] else [] | _ => [] end) outs.
Definition cb_of (ex : rust_exception_code) (res : CT.result) : cb_event :=
  match res with CT.ROk => OnComplete | CT.RErr e => OnFailure (request_error_to_ffi (class_of_task e ex)) end.

Lemma cb_of_known : forall ex res, cb_of ex res <> ShapeUnknown.
Proof. intros ex [|e]; discriminate. Qed.

Lemma c_callbacks_map : forall ft kind ex outs id, shape_ok ft -> promise_drop_error kind = Some RRE_Shutdown ->
  c_callbacks ft kind ex outs id = map (cb_of ex) (results_of outs id).
Proof.
  intros ft kind ex outs id Hft Hk. unfold c_callbacks, results_of.
  induction outs as [|o outs IH]; [reflexivity|]. cbn [flat_map]. rewrite map_app, IH. f_equal.
  destruct o as [i res| | | | | |]; try reflexivity. destruct (Nat.eqb i id); [|reflexivity].
  rewrite (run_task_once ft kind _ Hft Hk). cbn [first_completion map]. rewrite (fire_ok ft _ Hft).
  destruct res; reflexivity.
Qed.

Lemma results_length : forall outs id, List.length (results_of outs id) = count_occ Nat.eq_dec (CT.completed outs) id.
Proof.
  intros outs id. unfold results_of, CT.completed. induction outs as [|o outs IH]; [reflexivity|].
  cbn [flat_map]. rewrite app_length, count_occ_app, IH. f_equal.
  destruct o as [i res| | | | | |]; try reflexivity. cbn [count_occ].
  destruct (Nat.eq_dec i id) as [->|Hne]; [rewrite Nat.eqb_refl; reflexivity|].
  apply Nat.eqb_neq in Hne. rewrite Hne. reflexivity.
Qed.

Lemma results_in : forall outs id res, In res (results_of outs id) -> In (CT.OComplete id res) outs.
Proof.
  intros outs id res. unfold results_of. rewrite in_flat_map. intros (o & Ho & H).
  destruct o as [i r| | | | | |]; try contradiction. destruct (Nat.eqb i id) eqn:E; [|contradiction].
  apply Nat.eqb_eq in E. subst i. destruct H as [->|[]]. exact Ho.
Qed.

Lemma c_callbacks_of_completed : forall ft kind ex outs id, shape_ok ft -> promise_drop_error kind = Some RRE_Shutdown ->
  NoDup (CT.completed outs) ->
  (In id (CT.completed outs) ->
     exists ev, c_callbacks ft kind ex outs id = [ev] /\ ev <> ShapeUnknown /\
                exists res, In (CT.OComplete id res) outs /\ ev = cb_of ex res) /\
  (~ In id (CT.completed outs) -> c_callbacks ft kind ex outs id = []).
Proof.
  intros ft kind ex outs id Hft Hk Hnd. rewrite (c_callbacks_map ft kind ex outs id Hft Hk).
  pose proof (results_length outs id) as L. split; intros Hin.
  - rewrite (proj1 (NoDup_count_occ' Nat.eq_dec (CT.completed outs)) Hnd id Hin) in L.
    destruct (results_of outs id) as [|res [|res' rest]] eqn:E; try discriminate L.
    exists (cb_of ex res). split; [reflexivity|]. split; [apply cb_of_known|].
    exists res. split; [|reflexivity]. apply results_in. rewrite E. left. reflexivity.
  - apply (count_occ_not_In Nat.eq_dec) in Hin. rewrite Hin in L.
    destruct (results_of outs id); [reflexivity|discriminate L].
Qed.

(* whatever the interleaving of submissions, task steps, replies, faults, shutdown and abort: the C completion callback of a
   request never fires twice *)
Theorem c_once_at_most : forall ft kind ex cfg hn mt rmin rmax es,
  shape_ok ft -> promise_drop_error kind = Some RRE_Shutdown ->
  NoDup (P10.all_accepted cfg (CT.init hn mt rmin rmax) es) ->
  forall id, (List.length (c_callbacks ft kind ex (snd (CT.run cfg (CT.init hn mt rmin rmax) es)) id) <= 1)%nat.
Proof.
  intros ft kind ex cfg hn mt rmin rmax es Hft Hk Hnd id.
  rewrite (c_callbacks_map ft kind ex _ id Hft Hk), map_length, results_length.
  apply NoDup_count_occ. apply C10.C10_at_most_once. exact Hnd.
Qed.
Print Assumptions c_once_at_most.

(* once nothing is pending, every accepted request's callback has fired exactly once - with the same-named counterpart of the
   task's result - and no other callback has fired *)
Theorem c_once_terminal : forall ft kind ex cfg hn mt rmin rmax es,
  shape_ok ft -> promise_drop_error kind = Some RRE_Shutdown ->
  NoDup (P10.all_accepted cfg (CT.init hn mt rmin rmax) es) ->
  CT.pending (fst (CT.run cfg (CT.init hn mt rmin rmax) es)) = [] ->
  forall id,
    (In id (P10.all_accepted cfg (CT.init hn mt rmin rmax) es) ->
       exists ev, c_callbacks ft kind ex (snd (CT.run cfg (CT.init hn mt rmin rmax) es)) id = [ev] /\ ev <> ShapeUnknown /\
                  exists res, In (CT.OComplete id res) (snd (CT.run cfg (CT.init hn mt rmin rmax) es)) /\ ev = cb_of ex res) /\
    (~ In id (P10.all_accepted cfg (CT.init hn mt rmin rmax) es) ->
       c_callbacks ft kind ex (snd (CT.run cfg (CT.init hn mt rmin rmax) es)) id = []).
Proof.
  intros ft kind ex cfg hn mt rmin rmax es Hft Hk Hnd Hp id.
  destruct (C10.C10_terminal cfg hn mt rmin rmax es Hnd) as [T _]. specialize (T Hp id).
  destruct (c_callbacks_of_completed ft kind ex (snd (CT.run cfg (CT.init hn mt rmin rmax) es)) id Hft Hk
              (C10.C10_at_most_once cfg hn mt rmin rmax es Hnd)) as [H1 H2].
  split; intros Hin; [apply H1, T, Hin|apply H2; intros Hc; apply Hin, T, Hc].
Qed.
Print Assumptions c_once_terminal.

(* in particular after the task has terminated or was aborted *)
Theorem c_once_done : forall ft kind ex cfg hn mt rmin rmax es,
  shape_ok ft -> promise_drop_error kind = Some RRE_Shutdown ->
  NoDup (P10.all_accepted cfg (CT.init hn mt rmin rmax) es) ->
  CT.ph (fst (CT.run cfg (CT.init hn mt rmin rmax) es)) = CT.PDone ->
  forall id,
    (In id (P10.all_accepted cfg (CT.init hn mt rmin rmax) es) ->
       exists ev, c_callbacks ft kind ex (snd (CT.run cfg (CT.init hn mt rmin rmax) es)) id = [ev] /\ ev <> ShapeUnknown /\
                  exists res, In (CT.OComplete id res) (snd (CT.run cfg (CT.init hn mt rmin rmax) es)) /\ ev = cb_of ex res) /\
    (~ In id (P10.all_accepted cfg (CT.init hn mt rmin rmax) es) ->
       c_callbacks ft kind ex (snd (CT.run cfg (CT.init hn mt rmin rmax) es)) id = []).
Proof.
  intros ft kind ex cfg hn mt rmin rmax es Hft Hk Hnd Hd.
  apply c_once_terminal; try assumption.
  destruct (C10.C10_terminal cfg hn mt rmin rmax es Hnd) as [_ T]. exact (T Hd).
Qed.
Print Assumptions c_once_done.

(* while the task is running: a callback that has not fired belongs to a request that is still pending (never lost), and a
   callback only fires for a request that was submitted *)
Theorem c_once_accounted : forall ft kind ex cfg hn mt rmin rmax es,
  shape_ok ft -> promise_drop_error kind = Some RRE_Shutdown ->
  NoDup (P10.all_accepted cfg (CT.init hn mt rmin rmax) es) ->
  forall id,
    (In id (P10.all_accepted cfg (CT.init hn mt rmin rmax) es) ->
       (exists ev, c_callbacks ft kind ex (snd (CT.run cfg (CT.init hn mt rmin rmax) es)) id = [ev] /\ ev <> ShapeUnknown) \/
       (c_callbacks ft kind ex (snd (CT.run cfg (CT.init hn mt rmin rmax) es)) id = [] /\
        In id (CT.pending (fst (CT.run cfg (CT.init hn mt rmin rmax) es))))) /\
    (~ In id (P10.all_accepted cfg (CT.init hn mt rmin rmax) es) ->
       c_callbacks ft kind ex (snd (CT.run cfg (CT.init hn mt rmin rmax) es)) id = []).
Proof.
  intros ft kind ex cfg hn mt rmin rmax es Hft Hk Hnd id.
  destruct (c_callbacks_of_completed ft kind ex (snd (CT.run cfg (CT.init hn mt rmin rmax) es)) id Hft Hk
              (C10.C10_at_most_once cfg hn mt rmin rmax es Hnd)) as [H1 H2].
  split; intros Hin.
  - destruct (in_dec Nat.eq_dec id (CT.completed (snd (CT.run cfg (CT.init hn mt rmin rmax) es)))) as [Hc|Hc].
    + left. destruct (H1 Hc) as (ev & E & K & _). exists ev. auto.
    + right. split; [apply H2, Hc|]. destruct (C10.C10_accounted cfg hn mt rmin rmax es id Hnd Hin) as [?|?]; [contradiction|assumption].
  - apply H2. intros Hc. apply Hin. exact (proj2 (C10.C10_completed_is_final cfg hn mt rmin rmax es id Hnd Hc)).
Qed.
Print Assumptions c_once_accounted.

(* the hypotheses on ft and kind hold for everything the generator found *)
Lemma c_once_hypotheses :
  (forall cc, shape_ok (ft_of cc)) /\ (forall ft, In ft future_types -> shape_ok ft) /\
  (forall cc, promise_drop_error (promise_kind (channel_method_of (c_name cc))) = Some RRE_Shutdown).
Proof. split; [exact ft_of_ok|]. split; [exact future_types_ok|]. destruct cc; reflexivity. Qed.
Print Assumptions c_once_hypotheses.

(* ================================================================ (6) non-vacuity *)
(* over-limit read of coils (FfiChannel::read_bits rejects BEFORE its promise exists) and of registers (AFTER): one callback each *)
Example ex_read_2001_coils :
  c_function false (CcReadCoils 0 2001) Accepted [TComplete ROk] = (FPE_InvalidRange, [OnFailure FRE_Shutdown]) /\
  submit_via ViaFfi (CReadCoils 0 2001) = Rejected {| rj_returned := Some ECountTooLargeForType; rj_completion := None |}.
Proof. vm_compute. split; reflexivity. Qed.
Example ex_read_126_registers :
  c_function false (CcReadHoldingRegisters 0 126) QueueFull [] = (FPE_InvalidRange, [OnFailure FRE_Shutdown]) /\
  submit_via ViaFfi (CReadHoldingRegisters 0 126) = Rejected {| rj_returned := Some ECountTooLargeForType; rj_completion := Some CShutdown |}.
Proof. vm_compute. split; reflexivity. Qed.
(* empty / overflowing range: caught by the C function, no callback *)
Example ex_read_0 : c_function false (CcReadDiscreteInputs 7 0) Accepted [TComplete ROk] = (FPE_InvalidRange, []).
Proof. vm_compute. reflexivity. Qed.
Example ex_read_overflow : c_function false (CcReadInputRegisters 65535 2) Accepted [] = (FPE_InvalidRange, []).
Proof. vm_compute. reflexivity. Qed.
(* write-multiple: NULL list, empty list, accepted list *)
Example ex_write_null : c_function false (CcWriteMultipleRegisters 5 None) Accepted [TComplete ROk] = (FPE_NullParameter, []) /\
                        c_function true (CcWriteSingleCoil 5 true) Accepted [TComplete ROk] = (FPE_NullParameter, []).
Proof. vm_compute. split; reflexivity. Qed.
Example ex_write_empty : c_function false (CcWriteMultipleCoils 5 (Some [])) Accepted [TComplete ROk] = (FPE_InvalidRequest, []).
Proof. vm_compute. reflexivity. Qed.
Example ex_write_accepted :
  c_function false (CcWriteMultipleCoils 3 (Some [true; false; true])) Accepted [TComplete ROk; TComplete (RErr RRE_Io)] = (FPE_Ok, [OnComplete]) /\
  to_call (CcWriteMultipleCoils 3 (Some [true; false; true])) = Some (CWriteMultipleCoils 3 [true; false; true]).
Proof. vm_compute. split; reflexivity. Qed.
(* accepted read completing with an exception; accepted and never completed; queue full; channel shut down *)
Example ex_read_exception :
  c_function false (CcReadHoldingRegisters 0 10) Accepted [TComplete (RErr (RRE_Exception (exception_from_u8 2)))]
  = (FPE_Ok, [OnFailure FRE_ModbusExceptionIllegalDataAddress]).
Proof. vm_compute. reflexivity. Qed.
Example ex_read_dropped : c_function false (CcReadCoils 0 10) Accepted [] = (FPE_Ok, [OnFailure FRE_Shutdown]).
Proof. vm_compute. reflexivity. Qed.
Example ex_queue_full : c_function false (CcWriteSingleRegister 1 2) QueueFull [TComplete ROk] = (FPE_TooManyRequests, [OnFailure FRE_Shutdown]).
Proof. vm_compute. reflexivity. Qed.
Example ex_closed : c_function false (CcReadCoils 0 10) ChannelClosed [] = (FPE_Shutdown, [OnFailure FRE_Shutdown]).
Proof. vm_compute. reflexivity. Qed.

Example ex_vi_all : vi_all [(10, true); (11, false); (12, true); (13, true); (14, false); (15, false); (16, true); (17, true); (18, false)] false
  = [(10, true); (11, false); (12, true); (13, true); (14, false); (15, false); (16, true); (17, true); (18, false)].
Proof. vm_compute. reflexivity. Qed.
Example ex_list_of_adds : list_of_adds [1; 258; 65535] = [1; 258; 65535].
Proof. vm_compute. reflexivity. Qed.

(* a session of C calls: read (id 0), NULL list (NullParameter: not a request), 2001 coils (rejected by FfiChannel: no id),
   write two registers (id 1) *)
Example ex_session :
  session_wire Tcp 0 (via ViaFfi (rust_calls [(1, CcReadHoldingRegisters 16 2); (1, CcWriteMultipleCoils 0 None); (1, CcReadCoils 0 2001);
                                              (9, CcWriteMultipleRegisters 7 (Some [1; 258]))]))
  = [[0;0; 0;0; 0;6; 1; 3; 0;16; 0;2]; [0;1; 0;0; 0;11; 9; 16; 0;7; 0;2; 4; 0;1; 1;2]].
Proof. vm_compute. reflexivity. Qed.

(* replies as the C callback sees them *)
Example ex_deliver_registers : c_deliver (deliver_via ViaFfi (RReadHoldingRegisters (16, 2)) [3; 4; 0; 10; 1; 2]) = Some (CvRegisters [(16, 10); (17, 258)]).
Proof. vm_compute. reflexivity. Qed.
Example ex_deliver_bits : c_deliver (deliver_via ViaFfi (RReadCoils (19, 3)) [1; 1; 5]) = Some (CvBits [(19, true); (20, false); (21, true)]).
Proof. vm_compute. reflexivity. Qed.
Example ex_deliver_write : c_deliver (deliver_via ViaFfi (RWriteMultipleRegisters (1, 2) [10; 258]) [16; 0; 1; 0; 2]) = Some CvNothing.
Proof. vm_compute. reflexivity. Qed.
Example ex_deliver_exception : c_deliver (deliver_via ViaFfi (RReadCoils (19, 3)) [129; 11]) = Some (CvFailure FRE_ModbusExceptionGatewayTargetDeviceFailedToRespond) /\
                               c_deliver (deliver_via ViaFfi (RReadCoils (19, 3)) [129; 7]) = Some (CvFailure FRE_ModbusExceptionUnknown).
Proof. vm_compute. split; reflexivity. Qed.
Example ex_deliver_bad : c_deliver (deliver_via ViaFfi (RReadCoils (19, 3)) [1; 1; 5; 0]) = Some (CvFailure FRE_BadResponse).
Proof. vm_compute. reflexivity. Qed.

(* the run of C10_nonvacuous (Properties/C10.v): requests 3 and 4 are submitted through the C ABI (SFfi); request 3 is queued
   behind a shutdown, request 4 is submitted after the task is gone: each callback fires exactly once, with Shutdown;
   request 1 completed normally; id 5 was never submitted *)
Definition nonvacuous_run : CT.state * list CT.output :=
  let cfg := {| CT.cfg_cap := 4; CT.cfg_res := 1 |} in
  let rq i := CT.CReq {| CT.rq_id := i; CT.rq_kind := CT.KRead; CT.rq_timeout := 100 |} in
  CT.run cfg (CT.init 1 None 5 9)
    [CT.EvSubmit CT.CEnable CT.SFuture; CT.EvRecv; CT.EvConnect true; CT.EvSubmit (rq 1%nat) CT.SFuture; CT.EvRecv;
     CT.EvSubmit CT.CShutdown CT.SFuture; CT.EvSubmit (rq 2%nat) CT.SCallback; CT.EvSubmit (rq 3%nat) CT.SFfi;
     CT.EvFrame 0 CT.RpGenuine; CT.EvRecv; CT.EvSubmit (rq 4%nat) CT.SFfi].
Example ex_callbacks :
  map (c_callbacks (ft_of (CcReadCoils 0 1)) "read_bits" REC_IllegalFunction (snd nonvacuous_run)) [1; 2; 3; 4; 5]%nat
  = [[OnComplete]; [OnFailure FRE_Shutdown]; [OnFailure FRE_Shutdown]; [OnFailure FRE_Shutdown]; []] /\
  CT.ph (fst nonvacuous_run) = CT.PDone.
Proof. vm_compute. split; reflexivity. Qed.
