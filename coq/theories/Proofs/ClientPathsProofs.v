(* The three submit paths build the same request / put the same bytes on the wire, and the two
   result paths deliver the same values (Model/ClientPaths.v). *)
From Coq Require Import NArith List Lia Bool Arith ZArith ZifyBool ZifyNat ZifyN.
From Rodbus Require Import Base.Outcome Base.Cursor Base.ClientTypes Model.Format Model.Range
  Model.ClientRequest Model.ClientPaths Spec.ClientCodecSpec Proofs.ClientReplyProofs.
Import ListNotations.
Ltac Zify.zify_post_hook ::= Z.div_mod_to_equations.
Local Open Scope N_scope.
Arguments N.add : simpl never.
Arguments N.sub : simpl never.
Arguments N.mul : simpl never.
Arguments N.eqb : simpl never.
Arguments N.ltb : simpl never.
Arguments N.leb : simpl never.
Arguments N.div : simpl never.
Arguments N.modulo : simpl never.

(* the signals of a rejected call, per API (the table in the header of Model/ClientPaths.v) *)
Definition rejection_of (p : path) (c : call) (e : req_err) : rejection :=
  match c with
  | CReadCoils _ _ | CReadDiscreteInputs _ _ =>
      match p with
      | ViaChannel | ViaFfi => {| rj_returned := Some e; rj_completion := None |}
      | ViaCallback => {| rj_returned := None; rj_completion := Some (CErr e) |}
      end
  | CReadHoldingRegisters _ _ | CReadInputRegisters _ _ =>
      match p with
      | ViaChannel => {| rj_returned := Some e; rj_completion := None |}
      | ViaCallback => {| rj_returned := None; rj_completion := Some (CErr e) |}
      | ViaFfi => {| rj_returned := Some e; rj_completion := Some CShutdown |}
      end
  | _ => {| rj_returned := Some e; rj_completion := None |}
  end.

Lemma build_total c : build c <> Panic.
Proof.
  destruct c as [s n|s n|s n|s n|i v|i v|s vs|s vs]; cbn [build]; try discriminate.
  1,2: destruct (of_read_bits (s, n)) as [e|r]; cbn; discriminate.
  1,2: destruct (of_read_registers (s, n)) as [e|r]; cbn; discriminate.
  1,2: unfold write_multiple_from; destruct (_ <? _); cbn [obind]; [discriminate|];
       destruct (try_from s _) as [e|r]; cbn; discriminate.
Qed.

(* every path queues exactly the request `build` constructs, or rejects exactly when `build` fails *)
Theorem submit_via_spec p c :
  submit_via p c = match build c with
                   | Ok r => Queued r
                   | Err e => Rejected (rejection_of p c e)
                   | Panic => Rejected {| rj_returned := None; rj_completion := None |}
                   end.
Proof.
  destruct c as [s n|s n|s n|s n|i v|i v|s vs|s vs]; cbn [submit_via build rejection_of]; try reflexivity.
  1,2: unfold read_via; destruct (of_read_bits (s, n)) as [e|r]; cbn [of_range obind]; [destruct p|]; reflexivity.
  1,2: unfold read_via; destruct (of_read_registers (s, n)) as [e|r]; cbn [of_range obind]; [destruct p|]; reflexivity.
  1,2: unfold write_multiple_via; destruct (write_multiple_from s vs) as [[r vs']|e|]; reflexivity.
Qed.

Theorem paths_same_request p q c r : submit_via p c = Queued r -> submit_via q c = Queued r.
Proof.
  rewrite !submit_via_spec. destruct (build c); [auto|discriminate|discriminate].
Qed.

Theorem path_encode_spec p f tx uid c :
  path_encode p f tx uid c = match build c with Ok r => Some (client_encode f tx uid r) | _ => None end.
Proof. unfold path_encode. rewrite submit_via_spec. destruct (build c); reflexivity. Qed.

(* same bytes, whichever API submits the call *)
Theorem path_wire_spec p f tx uid c : path_wire p f tx uid c = submit_wire f tx uid c.
Proof. unfold path_wire, submit_wire. rewrite submit_via_spec. destruct (build c); reflexivity. Qed.

Theorem paths_agree p q f tx uid c :
  path_encode p f tx uid c = path_encode q f tx uid c /\ path_wire p f tx uid c = path_wire q f tx uid c.
Proof. now rewrite !path_encode_spec, !path_wire_spec. Qed.

(* ... and they are the bytes of the Channel path's client_submit *)
Theorem path_encode_submit p f tx uid c :
  match path_encode p f tx uid c with
  | Some o => client_submit f tx uid c = o
  | None => exists e, client_submit f tx uid c = Err e /\ submit_via p c = Rejected (rejection_of p c e)
  end.
Proof.
  rewrite path_encode_spec. unfold client_submit. pose proof (build_total c) as Ht. pose proof (submit_via_spec p c) as Hs.
  destruct (build c) as [r|e|]; cbn [obind]; [reflexivity| |contradiction]. exists e. now split.
Qed.

(* ------------------------------------------------------------------ results *)
Lemma lor_shift8 h l : l < 256 -> N.lor (N.shiftl h 8) l = h * 256 + l.
Proof.
  intros Hl. rewrite N.shiftl_mul_pow2. change (2 ^ 8) with 256.
  assert (Hland : N.land (h * 256) l = 0).
  { apply N.bits_inj. intros n. rewrite N.land_spec, N.bits_0.
    destruct (N.lt_ge_cases n 8) as [Hn|Hn].
    - change 256 with (2 ^ 8). rewrite N.mul_pow2_bits_low by assumption. reflexivity.
    - replace (N.testbit l n) with false; [apply andb_false_r|]. symmetry.
      destruct (N.eq_dec l 0) as [->|Hz]; [apply N.bits_0|]. apply N.bits_above_log2.
      apply N.lt_le_trans with 8; [|assumption]. apply N.log2_lt_pow2; [lia|]. change (2 ^ 8) with 256. assumption. }
  rewrite <- N.lxor_lor by assumption. symmetry. apply N.add_nocarry_lxor. assumption.
Qed.

Lemma firstn2_skipn {A} (l : list A) k d : (k + 2 <= length l)%nat ->
  firstn 2 (skipn k l) = [nth k l d; nth (k + 1) l d].
Proof.
  revert l. induction k as [|k IH]; intros l H.
  - destruct l as [|a [|b l]]; cbn in H; try lia. reflexivity.
  - destruct l as [|a l]; cbn in H; [lia|]. cbn [skipn nth plus]. apply IH. lia.
Qed.

Lemma reg_next_collect_spec bytes s n : is_u16 n -> s + n <= 65536 -> Forall is_u8 bytes ->
  length bytes = (2 * N.to_nat n)%nat ->
  forall fuel pos, pos + N.of_nat fuel = n ->
  reg_next_collect fuel bytes s n pos =
  Ok (map (fun k => (s + N.of_nat k, reg_at bytes k)) (seq (N.to_nat pos) fuel)).
Proof.
  unfold is_u16. intros Hn Hs Hb Hlen. induction fuel as [|f IH]; intros pos Hp; [reflexivity|].
  cbn [reg_next_collect seq map].
  destruct (N.eqb_spec pos n); [lia|].
  rewrite (firstn2_skipn bytes (2 * N.to_nat pos) 0) by lia.
  destruct (N.ltb_spec 65535 (pos + s)); [lia|]. destruct (N.ltb_spec 65535 (pos + 1)); [lia|].
  rewrite IH by lia. cbn [obind].
  replace (N.to_nat (pos + 1)) with (S (N.to_nat pos)) by lia.
  f_equal. f_equal. f_equal; [lia|].
  unfold reg_at. apply lor_shift8.
  assert (Hin : In (nth (2 * N.to_nat pos + 1) bytes 0) bytes) by (apply nth_In; lia).
  rewrite Forall_forall in Hb. exact (Hb _ Hin).
Qed.

Lemma parse_registers_iter_closed s n rest : range_wf (s, n) -> Forall is_u8 rest ->
  parse_registers_response_iter (s, n) rest =
  match rest with
  | [] => Err EInsufficientBytes
  | _ :: data => if len data <? 2 * n then Err EInsufficientBytes
                 else if 2 * n <? len data then Err ETrailingBytes
                 else Ok (RespRegisters (indexed s (reg_at data) n))
  end.
Proof.
  unfold range_wf, is_u16. cbn [fst snd]. intros (Hs & Hn & H1 & Hov) Hb.
  unfold parse_registers_response_iter. destruct rest as [|bc data]; [reflexivity|].
  inversion Hb as [|? ? _ Hd]; subst.
  cbn [rd_u8 R of_option obind fst snd].
  rewrite (read_exact (2 * N.to_nat n) data
             (fun bytes => obind (reg_next_collect (N.to_nat n) bytes s n 0) (fun l => Ok (RespRegisters l)))).
  unfold len.
  destruct (Nat.ltb_spec (length data) (2 * N.to_nat n)), (N.ltb_spec (N.of_nat (length data)) (2 * n)); try lia; [reflexivity|].
  destruct (Nat.ltb_spec (2 * N.to_nat n) (length data)), (N.ltb_spec (2 * n) (N.of_nat (length data))); try lia; [reflexivity|].
  rewrite (reg_next_collect_spec data s n) by (unfold is_u16; lia || assumption). reflexivity.
Qed.

(* the callback that iterates the RegisterIterator sees what the Channel path's Vec holds *)
Theorem handle_response_iter_eq r pdu : request_wf r -> Forall is_u8 pdu ->
  handle_response_iter r pdu = handle_response r pdu.
Proof.
  intros Hwf Hb. unfold handle_response_iter, handle_response. destruct pdu as [|f rest]; [reflexivity|].
  inversion Hb as [|? ? _ Hr]; subst. cbn [rd_u8]. destruct (negb _); [reflexivity|].
  destruct r as [[s n]|[s n]|[s n]|[s n]|i x|i x|[s n] vs|[s n] vs]; cbn [details_handle_response_iter details_handle_response request_wf] in *;
    try reflexivity.
  all: rewrite parse_registers_iter_closed, parse_registers_closed by assumption; reflexivity.
Qed.

Theorem deliver_via_eq p q r pdu : request_wf r -> Forall is_u8 pdu -> deliver_via p r pdu = deliver_via q r pdu.
Proof.
  intros Hwf Hb. destruct p, q; cbn [deliver_via]; rewrite ?handle_response_iter_eq by assumption; reflexivity.
Qed.
