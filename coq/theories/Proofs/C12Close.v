(* C12: "the connection is dropped after N timeouts in a row" - dropped means CLOSED, before anybody is told and before
   the reconnect delay starts. *)
From Coq Require Import NArith List Bool.
From Rodbus Require Import Model.Retry Spec.Lifecycle Spec.ClientSpec Gen.SessionErrors Gen.ClientScope Model.ClientTask Model.ClientClose
  Proofs.ClientBase Proofs.C10Proofs Proofs.C12Proofs Proofs.C13Close.
Import ListNotations.
Local Open Scope N_scope.

(* the source: the arm taken for MaxTimeouts drops the PhysLayer first (TCP / TLS); the serial task has no limit but the
   same arm *)
Lemma limit_arm_closes_first : closed_first (tcp_arm SeMaxTimeouts) = true /\ closed_first (serial_arm SeMaxTimeouts) = true.
Proof. split; reflexivity. Qed.

(* the request whose timeout is the N-th in a row: its completion, the end of the session, the close, and only then the
   WaitAfterDisconnect notification - scanning the outputs of that step from "connection open" finds the notification
   with the connection closed, and the connection is closed afterwards *)
Lemma limit_drop_closes s r t' : tc_step (tcount s) Timeout = (t', true) ->
  scan tcp_arm true (snd (finish s r (RErr ReResponseTimeout))) = (false, true) /\
  In (OEnd SeMaxTimeouts) (snd (finish s r (RErr ReResponseTimeout))).
Proof.
  intros Ht. pose proof (finish_counter s r Timeout) as E. cbn [outcome_result] in E. rewrite E, Ht.
  pose proof (end_session_C tcp_arm tcp_arms_close_first (set_tc (set_ph s PIdle) t') SeMaxTimeouts true) as C.
  pose proof (end_session_drops (set_tc (set_ph s PIdle) t') SeMaxTimeouts) as D.
  destruct (end_session (set_tc (set_ph s PIdle) t') SeMaxTimeouts) as [s' o]. cbn [snd app] in *. split.
  - cbn [scan]. exact C.
  - right. exact (proj2 D).
Qed.
