From Coq Require Import NArith List String Bool.
From Rodbus Require Import Gen.FfiTables Spec.FfiSpec.
Import ListNotations.
Local Open Scope string_scope.

Theorem listeners_forward : map (fun r => (fst (fst r), listener_adapter_ok r)) listener_adapters
  = [("ClientStateListener", true); ("PortStateListener", true)].
Proof. reflexivity. Qed.

Theorem settings_always_sent : ffi_channel_settings = ffi_settings_spec /\ ffi_channel_fields = ["tx"].
Proof. split; reflexivity. Qed.
