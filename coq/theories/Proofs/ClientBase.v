(* Shared lemmas about the client task model: list bookkeeping and one structural summary of the
   helper transitions (terminate, crash, loop_top, wait_for, end_session, finish), from which the
   conservation law (C10), FIFO (C11) and the tx-id law (C11) are derived. *)
From Coq Require Import NArith List Bool Arith Lia Permutation.
From Rodbus Require Import Model.Retry Spec.Lifecycle Spec.ClientSpec Gen.SessionErrors Model.ClientTask.
Import ListNotations.
Local Open Scope N_scope.

Lemma completed_app a b : completed (a ++ b) = completed a ++ completed b.
Proof. apply flat_map_app. Qed.
Lemma queued_app a b : queued (a ++ b) = queued a ++ queued b.
Proof. apply flat_map_app. Qed.
Lemma wire_ids_app a b : wire_ids (a ++ b) = wire_ids a ++ wire_ids b.
Proof. apply flat_map_app. Qed.
Lemma stamps_app a b : stamps (a ++ b) = stamps a ++ stamps b.
Proof. apply flat_map_app. Qed.
Lemma listens_app a b : listens_of (a ++ b) = listens_of a ++ listens_of b.
Proof. apply flat_map_app. Qed.

Lemma completed_drop q : completed (drop_queue q) = queued q.
Proof. induction q as [|c q IH]; [reflexivity|]. destruct c; cbn; try assumption. f_equal. assumption. Qed.
Lemma wire_ids_drop q : wire_ids (drop_queue q) = [].
Proof. induction q as [|c q IH]; [reflexivity|]. destruct c; cbn; assumption. Qed.
Lemma stamps_drop q : stamps (drop_queue q) = [].
Proof. induction q as [|c q IH]; [reflexivity|]. destruct c; cbn; assumption. Qed.
Lemma listens_drop q : listens_of (drop_queue q) = [].
Proof. induction q as [|c q IH]; [reflexivity|]. destruct c; cbn; assumption. Qed.
Lemma in_drop_queue x q : In x (drop_queue q) -> exists id, x = OComplete id (RErr drop_error).
Proof.
  induction q as [|c q IH]; cbn; [tauto|]. destruct c; cbn; auto.
  intros [<-|H]; [eexists; reflexivity|auto].
Qed.

Lemma completed_cons x o : completed (x :: o) = match x with OComplete id _ => [id] | _ => [] end ++ completed o.
Proof. reflexivity. Qed.
Lemma queued_cons c q : queued (c :: q) = match c with CReq r => [rq_id r] | _ => [] end ++ queued q.
Proof. reflexivity. Qed.
Lemma wire_ids_cons x o : wire_ids (x :: o) = match x with OWire _ id => [id] | _ => [] end ++ wire_ids o.
Proof. reflexivity. Qed.
Lemma stamps_cons x o : stamps (x :: o) = match x with OStamp tx _ => [tx] | _ => [] end ++ stamps o.
Proof. reflexivity. Qed.
Lemma listens_cons x o : listens_of (x :: o) = match x with OListen l => [l] | _ => [] end ++ listens_of o.
Proof. reflexivity. Qed.

Lemma firstn_skipn_queued (b : list command) : queued (firstn 1 b) ++ queued (skipn 1 b) = queued b.
Proof. rewrite <- queued_app, firstn_skipn. reflexivity. Qed.

Global Opaque drop_queue.
Arguments completed : simpl never.
Arguments queued : simpl never.
Arguments wire_ids : simpl never.
Arguments stamps : simpl never.
Arguments listens_of : simpl never.

Ltac norm :=
  repeat (rewrite ?completed_app, ?completed_drop, ?queued_app, ?completed_cons, ?queued_cons,
                  ?wire_ids_app, ?wire_ids_drop, ?wire_ids_cons, ?stamps_app, ?stamps_drop, ?stamps_cons,
                  ?listens_app, ?listens_drop, ?listens_cons, ?app_nil_r, <- ?app_assoc;
          cbn [app inflight inflight_req map fst snd ph queue blocked txid handles enabled tcount retry decode now partial wfail wdelay wpark wdl
               set_ph set_chan set_handles set_enabled set_txid set_tc set_retry set_decode set_now set_partial set_wctl set_wpark set_wdl]).

(* ---------- structural summary of a helper transition ----------
   Nothing is in flight afterwards, nothing is written or stamped, the tx counter is untouched, and
   either the queue is untouched and exactly `ids` complete, or the task is gone and `ids` plus
   everything queued complete. *)
Definition summary (s s' : state) (o : list output) (ids : list nat) : Prop :=
  inflight (ph s') = [] /\ wire_ids o = [] /\ stamps o = [] /\ txid s' = txid s /\ handles s' = handles s /\
  ((ph s' <> PDone /\ queue s' = queue s /\ blocked s' = blocked s /\ completed o = ids) \/
   (ph s' = PDone /\ queue s' = [] /\ blocked s' = [] /\ completed o = ids ++ queued (queue s) ++ queued (blocked s))).

Definition silent (pre : list output) := wire_ids pre = [] /\ stamps pre = [].

Section Helpers.
Variable cfg : config.

Lemma terminate_summary s pre : silent pre -> let '(s', o) := terminate s pre in summary s s' o (completed pre).
Proof.
  intros [Hw Hs]. unfold terminate, summary. norm. rewrite Hw, Hs. repeat split; try reflexivity. right. repeat split.
Qed.

Lemma crash_summary s : let '(s', o) := crash s in summary s s' o (inflight (ph s)).
Proof.
  unfold crash, summary. norm.
  assert (Hc : forall l, completed (map (fun r => OComplete (rq_id r) (RErr drop_error)) l) = map rq_id l)
    by (induction l as [|x l IH]; [reflexivity|]; cbn [map]; rewrite completed_cons, IH; reflexivity).
  assert (Hw : forall l, wire_ids (map (fun r => OComplete (rq_id r) (RErr drop_error)) l) = [])
    by (induction l as [|x l IH]; [reflexivity|]; cbn [map]; rewrite wire_ids_cons, IH; reflexivity).
  assert (Hs : forall l, stamps (map (fun r => OComplete (rq_id r) (RErr drop_error)) l) = [])
    by (induction l as [|x l IH]; [reflexivity|]; cbn [map]; rewrite stamps_cons, IH; reflexivity).
  rewrite Hc, Hw, Hs. repeat split; try reflexivity. right. repeat split.
Qed.

Lemma loop_top_summary s : let '(s', o) := loop_top s in summary s s' o [].
Proof.
  unfold loop_top, start_connecting, summary. destruct (enabled s); norm; repeat split; try reflexivity; left; repeat split; discriminate.
Qed.

Lemma retry_call_frame s o s1 d : retry_call s o = Some (s1, d) ->
  ph s1 = ph s /\ queue s1 = queue s /\ blocked s1 = blocked s /\ txid s1 = txid s /\ handles s1 = handles s /\
  enabled s1 = enabled s /\ now s1 = now s /\ tcount s1 = tcount s /\ partial s1 = partial s.
Proof.
  unfold retry_call. destruct (Retry.step (retry s) o) as [[d' [v|]]|]; intros E; inversion E; subst; cbn; repeat split.
Qed.

Lemma wait_for_summary s l o pre : inflight (ph s) = [] -> silent pre ->
  let '(s', out) := wait_for s l o pre in summary s s' out (completed pre).
Proof.
  intros Hi [Hw Hs]. unfold wait_for. destruct (retry_call s o) as [[s1 d]|] eqn:E.
  - apply retry_call_frame in E. destruct E as (Hp & Hq & Hb & Ht & Hh & _). unfold summary. norm. rewrite Hw, Hs, Hq, Hb, Ht, Hh.
    repeat split; try reflexivity. left. repeat split. discriminate.
  - pose proof (crash_summary s) as H. destruct (crash s) as [s' out]. unfold summary in *. norm.
    destruct H as (H1 & H2 & H3 & H4 & H5 & H6). rewrite Hw, Hs, H2, H3. repeat split; try assumption.
    rewrite Hi in H6. destruct H6 as [(Hn & Hq & Hb & Hc)|(Hn & Hq & Hb & Hc)]; [left|right]; repeat split; try assumption; rewrite Hc, ?app_nil_r; reflexivity.
Qed.

Lemma end_session_summary s e : inflight (ph s) = [] ->
  let '(s', o) := end_session s e in summary s s' o [].
Proof.
  intros Hi. unfold end_session. destruct e.
  - apply (wait_for_summary s LWaitDisc Disc [OEnd SeIoError] Hi). split; reflexivity.
  - apply (wait_for_summary s LWaitDisc Disc [OEnd SeBadFrame] Hi). split; reflexivity.
  - pose proof (loop_top_summary s) as H. destruct (loop_top s) as [s' o]. unfold summary in *. norm. exact H.
  - apply (wait_for_summary s LWaitDisc Disc [OEnd SeMaxTimeouts] Hi). split; reflexivity.
  - apply (terminate_summary s [OEnd SeShutdown]). split; reflexivity.
Qed.

Lemma summary_cons_complete s s' o id res : summary s s' o [] -> summary s s' (OComplete id res :: o) [id].
Proof.
  unfold summary. norm. intros (H1 & H2 & H3 & H4 & H5 & H6). repeat split; try assumption.
  destruct H6 as [(Hn & Hq & Hb & Hc)|(Hn & Hq & Hb & Hc)]; [left|right]; repeat split; try assumption; rewrite Hc; reflexivity.
Qed.

Lemma summary_pre_state s0 s s' o ids :
  queue s0 = queue s -> blocked s0 = blocked s -> txid s0 = txid s -> handles s0 = handles s ->
  summary s0 s' o ids -> summary s s' o ids.
Proof. unfold summary. intros -> -> -> ->. auto. Qed.

Lemma finish_summary s r res : let '(s', o) := finish s r res in summary s s' o [rq_id r].
Proof.
  unfold finish.
  assert (Halive : forall t, summary s (set_tc (set_ph s PIdle) t) [OComplete (rq_id r) res] [rq_id r]).
  { intros t. unfold summary. norm. repeat split; try reflexivity. left. repeat split. discriminate. }
  assert (Hend : forall s0 se, inflight (ph s0) = [] -> queue s0 = queue s -> blocked s0 = blocked s -> txid s0 = txid s -> handles s0 = handles s ->
            let '(s', o) := end_session s0 se in summary s s' ([OComplete (rq_id r) res] ++ o) [rq_id r]).
  { intros s0 se Hi Hq Hb Ht Hh. pose proof (end_session_summary s0 se Hi) as H. destruct (end_session s0 se) as [s' o].
    cbn [app]. apply summary_cons_complete. eapply summary_pre_state; eauto. }
  destruct res as [|e]; [apply Halive|].
  destruct (from_request_err e) as [se|].
  - specialize (Hend (set_ph s PIdle) se). destruct (end_session (set_ph s PIdle) se) as [s' o]. apply Hend; reflexivity.
  - destruct (request_error_beq e counted_error); [|apply Halive].
    destruct (tc_increment (tcount (set_ph s PIdle))) as [t' stop]. destruct stop; [|apply Halive].
    specialize (Hend (set_tc (set_ph s PIdle) t') SeMaxTimeouts). destruct (end_session _ _) as [s' o]. apply Hend; reflexivity.
Qed.

End Helpers.

Arguments loop_top : simpl never.
Arguments end_session : simpl never.
Arguments terminate : simpl never.
Arguments crash : simpl never.
Arguments wait_for : simpl never.
Arguments finish : simpl never.
Arguments transmit : simpl never.
Arguments start_connecting : simpl never.
