(* Exports for C07 (no panic / progress) of everything modelled for C05/C06: buffer accessors,
   read_some, both parsers, the next_frame loop. Every lemma is for ALL inputs under the
   representation invariants (wf: end <= capacity; st_ok / rst_ok: states a run can reach;
   bytes: every element below 256 - only needed for RTU, where a byte count is added to an
   offset). Names are stable; the C07 round assembles them. *)
From Coq Require Import NArith List Bool Arith Lia.
From Rodbus Require Import Base.Outcome Base.Frame Gen.Consts Gen.RtuLengths Model.Buffer Model.Mbap Model.Rtu Model.Reader Spec.Framing
  Proofs.BufferProofs Proofs.ReaderGeneric Proofs.MbapProofs Proofs.RtuProofs Proofs.C05Proofs.
Import ListNotations.

(* buffer: indexing, begin + count, slice ranges *)
Definition c07_buf_read_no_panic := buf_read_no_panic.
Definition c07_buf_read_u8_no_panic := buf_read_u8_no_panic.
Definition c07_buf_peek_no_panic := buf_peek_no_panic.
Definition c07_read_some_no_panic := read_some_no_panic.
(* read_some_progress: with fewer than `cap` bytes pending, a non-empty chunk yields >= 1 byte *)
Definition read_some_progress := read_some_ok.

(* parsers: Ok / Err, never Panic; the invariants are preserved by every call *)
Definition c07_mbap_parse_no_panic := mbap_parse_no_panic.
Definition c07_rtu_parse_no_panic := rtu_parse_no_panic.

Lemma mbap_parse_preserves st b st' b' r : wf b -> st_ok st -> mbap_parse st b = (st', b', r) -> wf b' /\ st_ok st'.
Proof. intros Hwf Hst Ep. destruct (tcp_parse_consumes_prefix _ _ _ _ _ Hwf Hst Ep) as (k & _ & _ & _ & H1 & H2). now split. Qed.

(* no internal error either: the `?` on buffer accessors never fires *)
Lemma mbap_parse_no_internal st b : wf b -> st_ok st -> snd (mbap_parse st b) <> Err InternalError.
Proof.
  intros Hwf Hst. rewrite mbap_parse_eq by assumption. destruct (sparse st b) as [[st' b'] r] eqn:Es. cbn [snd].
  destruct r as [|f|e]; try discriminate. intros H; inversion H; subst.
  destruct st as [|tx u n]; cbn [sparse] in Es.
  - destruct (Nat.ltb_spec (buf_len b) 7) as [|H7]; [discriminate|].
    destruct (hdr (firstn 7 (b_pend b))) as [[[tx u] n]|e0] eqn:Eh.
    + unfold sbody in Es. destruct (Nat.ltb _ _); discriminate.
    + inversion Es; subst. apply (hdr_internal (firstn 7 (b_pend b))); [|exact Eh]. rewrite firstn_length. unfold buf_len in H7. lia.
  - unfold sbody in Es. destruct (Nat.ltb _ _); discriminate.
Qed.

(* progress of the reader loop: when the parser asks for more bytes the buffer can take >= 1 byte
   (C05_never_full), so every iteration of next_frame returns, errors, or consumes a new byte *)
Definition c07_tcp_never_full := tcp_never_full.
Theorem rtu_never_full : forall p st b st' b', wf b -> bytes (b_pend b) -> rst_ok st -> rtu_parse p st b = (st', b', Ok None) ->
  buf_len b' < cap /\ rst_ok st' /\ wf b' /\
  forall c, c <> [] -> exists k b'', read_some b' c = (b'', RsOk k (skipn k c)) /\ 1 <= k <= length c.
Proof.
  intros p st b st' b' Hwf Hb Hst Ep.
  destruct (rtu_none p _ _ _ _ Hwf Hb Hst Ep) as (Hst' & Hlt & (k & -> & Hk & _) & _).
  pose proof (rneed_cap _ Hst'). pose proof (consume_wf _ _ Hwf Hk) as Hwf'. split; [lia|]. split; [assumption|]. split; [assumption|].
  intros c Hc. destruct (read_some_ok (consume k b) c Hwf' ltac:(lia) Hc) as (j & b'' & H1 & H2 & _).
  exists j, b''. split; assumption.
Qed.

(* next_frame: for every schedule, never Panic and never out of fuel (no wedge) *)
Definition next_frame_no_panic_tcp := mbap_nf_no_panic.
Definition next_frame_no_panic_rtu := rtu_nf_no_panic.

(* whole sessions, both modes (stop at the first error / keep polling after framing errors), every
   schedule: the run never panics and never runs out of fuel, i.e. the loop cannot wedge *)
Theorem session_total_tcp : forall resume n fi,
  snd (run_session KTcp resume n fi) <> EndPanic /\ snd (run_session KTcp resume n fi) <> EndOutOfFuel.
Proof.
  intros resume n fi. unfold run_session. apply (mbap_run_total _ resume buf_new n fi wf_new).
  unfold run_fuel. cbn [reader_new r_buf buf_new buf_len b_pend app length]. pose proof (sbytes_le n). lia.
Qed.
Theorem session_total_rtu : forall p resume n fi, Forall bytes n ->
  snd (run_session (match p with Request => KRtuRequest | Response => KRtuResponse end) resume n fi) <> EndPanic /\
  snd (run_session (match p with Request => KRtuRequest | Response => KRtuResponse end) resume n fi) <> EndOutOfFuel.
Proof.
  intros p resume n fi Hb. unfold run_session.
  assert (H := rtu_run_total p (run_fuel (reader_new (match p with Request => KRtuRequest | Response => KRtuResponse end)) n) resume buf_new n fi wf_new bytes_nil Hb).
  destruct p; apply H; unfold run_fuel; cbn [reader_new r_buf buf_new buf_len b_pend app length]; pose proof (sbytes_le n); lia.
Qed.
