(* Structural tie for the two places below the frame level whose shape the session's behaviour over a whole
   connection (and over RTU port re-opens) depends on: FramedReader::next_frame and the compaction step of
   ReadBuffer::read_some (regenerated in Gen/ReaderLoop.v). The reader models of C05/C06 (Model/Reader.v,
   Model/Buffer.v) have exactly this shape. *)
From Coq Require Import List String.
From Rodbus Require Import Gen.ReaderLoop.
Import ListNotations.
Local Open Scope string_scope.

Lemma reader_loop_shape :
  next_frame_resets_parser_on_entry = false /\ next_frame_resets_parser_on_error = true /\
  read_some_compaction =
    ["let length = self.len()"; "self.buffer.copy_within(self.begin..self.end, 0)"; "self.begin = 0"; "self.end = length"].
Proof. repeat split. Qed.
