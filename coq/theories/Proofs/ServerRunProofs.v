(* The session with its command channel: decode level changes are unobservable, Shutdown / a closed
   channel end the session at once (also in the middle of a blocked reply write), and the whole
   loop refines the same loop over the reference server. *)
From Coq Require Import NArith List Lia Bool.
From Rodbus Require Gen.WritePath.
From Rodbus Require Import Base.Outcome Base.ServerTypes Base.ServerRun Model.Server Model.ServerRun Spec.Modbus
  Proofs.ServerProofs.
Import ListNotations.
Local Open Scope N_scope.

Section Generic.
Context {St E : Type}.
Variable hf : ucfg St -> frame -> outcome E (list N) * ucfg St * list event.

(* ---------------------------------------------------------------- ChangeDecoding is unobservable *)
Lemma unobservable : forall evs units d d' m,
  observable (run hf units d m evs) = observable (run hf units d' m (strip evs)).
Proof.
  induction evs as [|ev rest IH]; intros units d d' m; [destruct m; reflexivity|].
  destruct ev as [f| |[lvl|]| | |]; cbn [strip run].
  - destruct m as [|r].
    + destruct (hf units f) as [[[bytes|e|] units'] lg]; try reflexivity.
      specialize (IH units' d d' (match bytes with [] => MIdle | _ => MWriting bytes end)).
      destruct (run hf units' d _ rest) as [[[[ws u] lg'] dd] e].
      destruct (run hf units' d' _ (strip rest)) as [[[[ws2 u2] lg2] dd2] e2].
      cbn [observable] in *. inversion IH; subst. reflexivity.
    + apply IH.
  - destruct m as [|r]; [reflexivity|apply IH].
  - apply IH.
  - reflexivity.
  - reflexivity.
  - destruct m as [|r]; [apply IH|].
    specialize (IH units d d' MIdle).
    destruct (run hf units d MIdle rest) as [[[[ws u] lg'] dd] e].
    destruct (run hf units d' MIdle (strip rest)) as [[[[ws2 u2] lg2] dd2] e2].
    cbn [observable] in *. inversion IH; subst. reflexivity.
  - destruct m as [|r]; [apply IH|reflexivity].
Qed.

(* inserting a ChangeDecoding anywhere changes nothing observable *)
Lemma insert_unobservable pre post lvl units d m :
  observable (run hf units d m (pre ++ ECommand (ChangeDecoding lvl) :: post)) = observable (run hf units d m (pre ++ post)).
Proof.
  rewrite (unobservable (pre ++ ECommand (ChangeDecoding lvl) :: post) units d d m).
  rewrite (unobservable (pre ++ post) units d d m).
  f_equal. f_equal. clear. induction pre as [|ev pre IH]; [reflexivity|].
  destruct ev as [f| |[l|]| | |]; cbn [app strip]; rewrite ?IH; reflexivity.
Qed.

(* ---------------------------------------------------------------- Shutdown / closed channel *)
Definition close (x : list (list N) * ucfg St * list event * N * run_end E) :=
  let '(ws, u, lg, d, e) := x in
  (ws, u, lg, d, match e with ROpen | RBlocked _ => RShutdown | other => other end).

Definition ends (ev : sevent) : Prop := ev = ECommand Shutdown \/ ev = EClosed.

(* whatever follows a Shutdown or the closing of the channel is irrelevant: no further frame is
   handled, nothing further is written, a reply whose write is pending is dropped *)
Lemma shutdown_ends ev post : ends ev -> forall pre units d m,
  run hf units d m (pre ++ ev :: post) = close (run hf units d m pre).
Proof.
  intros Hev. induction pre as [|e0 pre IH]; intros units d m.
  - cbn [app]. destruct Hev as [-> | ->]; destruct m; reflexivity.
  - cbn [app]. destruct e0 as [f| |[lvl|]| | |]; cbn [run].
    + destruct m as [|r]; [|apply IH].
      destruct (hf units f) as [[[bytes|e|] units'] lg]; try reflexivity.
      rewrite IH. destruct (run hf units' d _ pre) as [[[[ws u] lg'] dd] e]. reflexivity.
    + destruct m as [|r]; [reflexivity|apply IH].
    + apply IH.
    + reflexivity.
    + reflexivity.
    + destruct m as [|r]; [apply IH|]. rewrite IH.
      destruct (run hf units d MIdle pre) as [[[[ws u] lg'] dd] e]. reflexivity.
    + destruct m as [|r]; [apply IH|reflexivity].
Qed.

(* write_reply: while a reply is pending any number of decode level changes may arrive; a Shutdown
   (or the closing of the channel) then ends the session with the handler's effects in place and the
   reply NOT delivered *)
Definition changes (levels : list N) : list sevent := map (fun x => ECommand (ChangeDecoding x)) levels.

Lemma last_cons_default {A} : forall (l : list A) a d d', last (a :: l) d = last (a :: l) d'.
Proof. induction l as [|b l IH]; intros a d d'; [reflexivity|]. change (last (b :: l) d = last (b :: l) d'). apply IH. Qed.

Lemma run_changes levels : forall units d m rest,
  run hf units d m (changes levels ++ rest) = run hf units (last levels d) m rest.
Proof.
  induction levels as [|x levels IH]; intros units d m rest; [reflexivity|].
  cbn [changes map app run]. fold (changes levels). rewrite IH.
  destruct levels as [|n levels]; [reflexivity|]. rewrite (last_cons_default levels n x d). reflexivity.
Qed.

Lemma write_cut units d f b bs units' lg levels ev post : hf units f = (Ok (b :: bs), units', lg) -> ends ev ->
  run hf units d MIdle (EFrame f :: changes levels ++ ev :: post) = ([], units', lg, last levels d, RShutdown).
Proof.
  intros Hf Hev. cbn [run]. rewrite Hf. rewrite run_changes.
  destruct Hev as [-> | ->]; cbn [run]; rewrite app_nil_r; reflexivity.
Qed.

(* ... if the write FAILS, the session ends with the I/O error: handler effects in place, reply not
   delivered, nothing further handled *)
Lemma write_failed units d f b bs units' lg levels post : hf units f = (Ok (b :: bs), units', lg) ->
  run hf units d MIdle (EFrame f :: changes levels ++ EWriteFailed :: post) = ([], units', lg, last levels d, RIo).
Proof.
  intros Hf. cbn [run]. rewrite Hf. rewrite run_changes. cbn [run]. rewrite app_nil_r. reflexivity.
Qed.

(* ... and if the write completes instead, the reply is delivered and the loop goes on *)
Lemma write_done units d f b bs units' lg levels rest : hf units f = (Ok (b :: bs), units', lg) ->
  run hf units d MIdle (EFrame f :: changes levels ++ EWriteDone :: rest) =
    (let '(ws, u, lg', dd, e) := run hf units' (last levels d) MIdle rest in ((b :: bs) :: ws, u, lg ++ lg', dd, e)).
Proof.
  intros Hf. cbn [run]. rewrite Hf. rewrite run_changes. cbn [run].
  destruct (run hf units' (last levels d) MIdle rest) as [[[[ws u] lg'] dd] e]. reflexivity.
Qed.
End Generic.

(* ---------------------------------------------------------------- the write step and the code's write_reply *)
(* In the transition system ONE write is pending per reply: a ChangeDecoding that arrives meanwhile leaves the
   mode `MWriting r` - the same pending reply, nothing re-sent - and EWriteDone delivers r exactly once. This is
   the shape `WriteOnceRacedAgainstCommands` that the translator reads off server/task.rs::write_reply
   (Gen/WritePath.v): one io.write future raced against a command loop. A write that is re-created after every
   command (the other shape) would re-send the bytes already taken by the transport. *)
Lemma write_step_once {St E} (hf : ucfg St -> frame -> outcome E (list N) * ucfg St * list event) units d r lvl rest :
  Rodbus.Gen.WritePath.write_reply_shape = Rodbus.Gen.WritePath.WriteOnceRacedAgainstCommands /\
  run hf units d (MWriting r) (ECommand (ChangeDecoding lvl) :: rest) = run hf units lvl (MWriting r) rest /\
  run hf units d (MWriting r) (EWriteDone :: rest) =
    (let '(ws, u, lg, dd, e) := run hf units d MIdle rest in (r :: ws, u, lg, dd, e)).
Proof. repeat split. Qed.

(* ---------------------------------------------------------------- two handlers that agree *)
Lemma run_ext {St E} (hf hf' : ucfg St -> frame -> outcome E (list N) * ucfg St * list event) (P : frame -> Prop) :
  (forall u f, P f -> hf u f = hf' u f) ->
  forall evs units d m, Forall (fun ev => match ev with EFrame f => P f | _ => True end) evs ->
  run hf units d m evs = run hf' units d m evs.
Proof.
  intros Hagree. induction evs as [|ev rest IH]; intros units d m Hall; [reflexivity|].
  inversion Hall as [|? ? Hev Hrest]; subst. destruct ev as [f| |[lvl|]| | |]; cbn [run]; try reflexivity.
  - destruct m as [|r]; [|apply IH; assumption]. rewrite <- Hagree by assumption.
    destruct (hf units f) as [[[bytes|e|] units'] lg]; try reflexivity. rewrite IH by assumption. reflexivity.
  - destruct m as [|r]; [reflexivity|apply IH; assumption].
  - apply IH; assumption.
  - destruct m as [|r]; [apply IH; assumption|]. rewrite IH by assumption. reflexivity.
  - destruct m as [|r]; [apply IH; assumption|reflexivity].
Qed.

Section Model.
Context {St : Type}.
Variable H : handler St.

Definition events_ok (l : link) (evs : list sevent) : Prop :=
  Forall (fun ev => match ev with EFrame f => frame_ok l f | _ => True end) evs.

(* the session with commands = the same loop over the reference server *)
Theorem session_run_refines l a units d evs : events_ok l evs ->
  session_run H l a units d evs = run (fun u f => ok_result (ref_handle_frame H l a u f)) units d MIdle evs.
Proof.
  intros Hok. unfold session_run. apply (run_ext _ _ (frame_ok l)); [|exact Hok].
  intros u f Hf. rewrite handle_frame_refines by assumption.
  destruct (ref_handle_frame H l a u f) as [[x y] z]. reflexivity.
Qed.

(* so it never fails to format a reply and never panics *)
Definition no_failure (e : run_end serr) : Prop := match e with RError _ | RPanic => False | _ => True end.

Lemma ok_run_end l a : forall evs units d m,
  no_failure (snd (run (fun u f => ok_result (E := serr) (ref_handle_frame H l a u f)) units d m evs)).
Proof.
  induction evs as [|ev rest IH]; intros units d m; [destruct m; exact I|].
  destruct ev as [f| |[lvl|]| | |]; cbn [run]; try exact I.
  - destruct m as [|r]; [|apply IH]. destruct (ref_handle_frame H l a units f) as [[bytes units'] lg]. cbn [ok_result].
    specialize (IH units' d (match bytes with [] => MIdle | _ => MWriting bytes end)).
    destruct (run _ units' d _ rest) as [[[[ws u] lg'] dd] e]. exact IH.
  - destruct m as [|r]; [exact I|apply IH].
  - apply IH.
  - destruct m as [|r]; [apply IH|]. specialize (IH units d MIdle).
    destruct (run _ units d MIdle rest) as [[[[ws u] lg'] dd] e]. exact IH.
  - destruct m as [|r]; [apply IH|exact I].
Qed.

Theorem session_run_never_fails l a units d evs : events_ok l evs -> no_failure (snd (session_run H l a units d evs)).
Proof. intros Hok. rewrite session_run_refines by assumption. apply ok_run_end. Qed.

(* the generic lemmas at the session's entry point *)
Theorem session_unobservable l a units d d' evs :
  observable (session_run H l a units d evs) = observable (session_run H l a units d' (strip evs)).
Proof. apply unobservable. Qed.

Theorem session_insert_unobservable l a units d pre post lvl :
  observable (session_run H l a units d (pre ++ ECommand (ChangeDecoding lvl) :: post)) = observable (session_run H l a units d (pre ++ post)).
Proof. apply insert_unobservable. Qed.

Theorem session_shutdown_ends l a units d pre ev post : ends ev ->
  session_run H l a units d (pre ++ ev :: post) = close (session_run H l a units d pre).
Proof. intros Hev. apply shutdown_ends. exact Hev. Qed.

Theorem session_write_cut l a units d f b bs units' lg levels ev post :
  handle_frame H l a units f = (Ok (b :: bs), units', lg) -> ends ev ->
  session_run H l a units d (EFrame f :: changes levels ++ ev :: post) = ([], units', lg, last levels d, RShutdown).
Proof. apply write_cut. Qed.

Theorem session_write_failed l a units d f b bs units' lg levels post :
  handle_frame H l a units f = (Ok (b :: bs), units', lg) ->
  session_run H l a units d (EFrame f :: changes levels ++ EWriteFailed :: post) = ([], units', lg, last levels d, RIo).
Proof. apply write_failed. Qed.

Theorem session_write_done l a units d f b bs units' lg levels rest :
  handle_frame H l a units f = (Ok (b :: bs), units', lg) ->
  session_run H l a units d (EFrame f :: changes levels ++ EWriteDone :: rest) =
    (let '(ws, u, lg', dd, e) := session_run H l a units' (last levels d) rest in ((b :: bs) :: ws, u, lg ++ lg', dd, e)).
Proof. apply write_done. Qed.

(* without commands and with every write completing at once it is the plain session of C01 *)
Definition delivered (rs : list (list N)) : list (list N) := filter (fun r => match r with [] => false | _ => true end) rs.
Definition end_of (e : session_end) : run_end serr :=
  match e with SOpen => ROpen | SError x => RError x | SPanic => RPanic end.

Theorem plain_run_is_session l a d : forall frames units,
  observable (session_run H l a units d (plain frames)) =
    (let '(rs, u, lg, e) := session H l a units frames in (delivered rs, u, lg, end_of e)).
Proof.
  unfold session_run. induction frames as [|f rest IH]; intros units; [reflexivity|].
  cbn [plain flat_map app run session]. fold (plain rest).
  destruct (handle_frame H l a units f) as [[[bytes|e|] units'] lg]; try reflexivity.
  specialize (IH units'). destruct (session H l a units' rest) as [[[rs u] lg'] e].
  destruct bytes as [|b bs]; cbn [run delivered filter].
  - destruct (run (handle_frame H l a) units' d MIdle (plain rest)) as [[[[ws u2] lg2] dd] e2].
    cbn [observable] in *. inversion IH; subst. reflexivity.
  - destruct (run (handle_frame H l a) units' d MIdle (plain rest)) as [[[[ws u2] lg2] dd] e2].
    cbn [observable] in *. inversion IH; subst. reflexivity.
Qed.
End Model.
