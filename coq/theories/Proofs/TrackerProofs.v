From Coq Require Import NArith List Lia Bool Arith ZArith ZifyBool ZifyNat ZifyN Sorted.
From Rodbus Require Import Model.Tracker Spec.TrackerSpec.
Import ListNotations.
Local Open Scope N_scope.

Definition ids (l : list (N * bool)) : list N := map fst l.

(* the BTreeMap invariant + the limit *)
Definition inv (t : tracker) : Prop :=
  (1 <= max_sessions t)%nat /\
  (length (sessions t) <= max_sessions t)%nat /\
  StronglySorted N.lt (ids (sessions t)) /\
  Forall (fun i => i < next_id t) (ids (sessions t)).

(* ------------------------------------------------------------------ list lemmas *)
Lemma insert_last id a l : Forall (fun i => i < id) (ids l) -> insert id a l = l ++ [(id, a)].
Proof.
  induction l as [|[j b] r IH]; intros H; [reflexivity|].
  cbn [ids map fst] in H. inversion H as [|? ? Hj Hr]; subst.
  cbn [insert]. destruct (N.ltb_spec id j); [lia|]. destruct (N.eqb_spec id j); [lia|].
  cbn [app]. f_equal. now apply IH.
Qed.

Lemma remove_id_notin id l : ~ In id (ids l) -> remove_id id l = l.
Proof.
  induction l as [|[j b] r IH]; intros H; [reflexivity|].
  unfold remove_id in *. cbn [filter fst]. cbn [ids map fst In] in H.
  destruct (N.eqb_spec j id); [exfalso; apply H; now left|]. cbn [negb]. f_equal. apply IH. tauto.
Qed.

Lemma sorted_head_notin j r : StronglySorted N.lt (j :: r) -> ~ In j r.
Proof.
  intros H Hin. inversion H as [|? ? _ Hall]; subst.
  rewrite Forall_forall in Hall. specialize (Hall _ Hin). lia.
Qed.

Lemma remove_id_head j b r : StronglySorted N.lt (ids ((j, b) :: r)) -> remove_id j ((j, b) :: r) = r.
Proof.
  intros H. unfold remove_id. cbn [filter fst]. rewrite N.eqb_refl. cbn [negb].
  apply (remove_id_notin j r). now apply sorted_head_notin.
Qed.

Lemma ids_remove_id id l : ids (remove_id id l) = filter (fun j => negb (j =? id)) (ids l).
Proof.
  induction l as [|[j b] r IH]; [reflexivity|]. unfold remove_id in *. cbn [filter ids map fst].
  destruct (j =? id); cbn [negb]; [exact IH|]. cbn [ids map fst]. f_equal. exact IH.
Qed.

Lemma sorted_filter (f : N -> bool) l : StronglySorted N.lt l -> StronglySorted N.lt (filter f l).
Proof.
  induction 1 as [|a l Hs IH Hall]; [constructor|]. cbn [filter]. destruct (f a); [|exact IH].
  constructor; [exact IH|]. rewrite Forall_forall in *. intros x Hx. apply filter_In in Hx. now apply Hall.
Qed.

Lemma forall_filter {A} (P : A -> Prop) (f : A -> bool) l : Forall P l -> Forall P (filter f l).
Proof.
  rewrite !Forall_forall. intros H x Hx. apply filter_In in Hx. now apply H.
Qed.

Lemma filter_length_le' {A} (f : A -> bool) l : (length (filter f l) <= length l)%nat.
Proof. induction l as [|a r IH]; [apply le_n|]. cbn [filter]. destruct (f a); cbn [length]; lia. Qed.

Lemma length_remove_id id l : (length (remove_id id l) <= length l)%nat.
Proof. unfold remove_id. apply filter_length_le'. Qed.

Lemma ids_mark_dead id l : ids (mark_dead id l) = ids l.
Proof.
  induction l as [|[j b] r IH]; [reflexivity|]. cbn [mark_dead map ids fst] in *.
  destruct (j =? id); cbn [fst]; f_equal; exact IH.
Qed.

Lemma length_mark_dead id l : length (mark_dead id l) = length l.
Proof. unfold mark_dead. apply map_length. Qed.

Lemma sorted_app_last l id : StronglySorted N.lt l -> Forall (fun i => i < id) l -> StronglySorted N.lt (l ++ [id]).
Proof.
  induction 1 as [|a l Hs IH Hall]; intros Hlt; cbn [app]; [repeat constructor|].
  inversion Hlt; subst. constructor; [now apply IH|].
  rewrite Forall_forall in *. intros x Hx. apply in_app_or in Hx. destruct Hx as [Hx|[<-|[]]]; [now apply Hall|assumption].
Qed.

Lemma ids_app l1 l2 : ids (l1 ++ l2) = ids l1 ++ ids l2.
Proof. apply map_app. Qed.

(* ------------------------------------------------------------------ SessionTracker *)
Lemma inv_new m : inv (tracker_new m).
Proof.
  unfold inv, tracker_new; cbn. repeat split; try constructor. destruct m; lia. lia.
Qed.

Lemma max_new m : max_sessions (tracker_new m) = Nat.max 1 m.
Proof. destruct m; cbn; lia. Qed.

(* what `add` does on a well-formed tracker, in closed form *)
Lemma add_spec t : inv t -> next_id t <> u128_max ->
  exists kept ev,
    add t = Some ({| max_sessions := max_sessions t; next_id := next_id t + 1;
                     sessions := kept ++ [(next_id t, true)] |}, next_id t, ev) /\
    ((length (sessions t) < max_sessions t)%nat /\ kept = sessions t /\ ev = None \/
     (length (sessions t) = max_sessions t) /\
     exists v a, sessions t = (v, a) :: kept /\ ev = Some (v, a)).
Proof.
  intros (H1 & Hlen & Hs & Hlt) Hid. unfold add.
  destruct (Nat.leb_spec (max_sessions t) (length (sessions t))) as [Hfull|Hfree].
  - destruct (sessions t) as [|[v a] r] eqn:E; [cbn in Hfull; lia|].
    rewrite remove_id_head by exact Hs.
    unfold get_next_id; cbn [next_id max_sessions sessions]. destruct (N.eqb_spec (next_id t) u128_max); [contradiction|].
    exists r, (Some (v, a)). split.
    + rewrite insert_last; [reflexivity|]. cbn [ids map] in Hlt. now inversion Hlt.
    + right. split; [lia|]. now exists v, a.
  - unfold get_next_id; cbn [next_id max_sessions sessions]. destruct (N.eqb_spec (next_id t) u128_max); [contradiction|].
    exists (sessions t), None. split.
    + rewrite insert_last by exact Hlt. reflexivity.
    + left. auto.
Qed.

Lemma add_inv t t' id ev : inv t -> add t = Some (t', id, ev) ->
  inv t' /\ id = next_id t /\ next_id t' = next_id t + 1 /\ max_sessions t' = max_sessions t.
Proof.
  intros Hinv Hadd.
  assert (Hid : next_id t <> u128_max).
  { intros E. unfold add in Hadd. unfold get_next_id in Hadd.
    destruct (if (max_sessions t <=? length (sessions t))%nat then _ else _) as [ss e0] in Hadd.
    cbn [next_id] in Hadd. rewrite E, N.eqb_refl in Hadd. discriminate. }
  destruct (add_spec t Hinv Hid) as (kept & ev' & Heq & Hcases). rewrite Heq in Hadd. inversion Hadd; subst. clear Hadd.
  split; [|auto]. destruct Hinv as (H1 & Hlen & Hs & Hlt). unfold inv; cbn [max_sessions next_id sessions].
  assert (Hk : (length kept < max_sessions t)%nat /\ StronglySorted N.lt (ids kept) /\ Forall (fun i => i < next_id t) (ids kept)).
  { destruct Hcases as [(Hl & -> & _)|(Hl & v & a & E & _)]; [auto|].
    rewrite E in *. cbn [length ids map] in *. inversion Hs; inversion Hlt; subst. repeat split; [lia|assumption|assumption]. }
  destruct Hk as (Hkl & Hks & Hkf). repeat split; [assumption| | |].
  - rewrite app_length; cbn; lia.
  - rewrite ids_app. cbn [ids map fst]. now apply sorted_app_last.
  - rewrite ids_app. apply Forall_app. split; [|constructor; [cbn; lia|constructor]].
    eapply Forall_impl; [|exact Hkf]. cbn; intros; lia.
Qed.

Lemma remove_inv t id : inv t -> inv (remove t id).
Proof.
  intros (H1 & Hlen & Hs & Hlt). unfold inv, remove; cbn [max_sessions next_id sessions].
  repeat split; [assumption| | |].
  - pose proof (length_remove_id id (sessions t)). lia.
  - rewrite ids_remove_id. now apply sorted_filter.
  - rewrite ids_remove_id. now apply forall_filter.
Qed.

(* ------------------------------------------------------------------ the server system *)
Ltac case_running s Hr H :=
  assert (running s = true \/ running s = false) as [Hr|Hr] by (destruct (running s); auto);
  rewrite Hr in H; cbn [negb] in H.

Definition sinv (s : server) : Prop :=
  inv (trk s) /\ (running s = false -> sessions (trk s) = []).

Lemma sinv_init m : sinv (init m).
Proof. split; [apply inv_new|discriminate]. Qed.

Lemma step_inv s e s' o : sinv s -> step s e = Some (s', o) ->
  sinv s' /\ max_sessions (trk s') = max_sessions (trk s).
Proof.
  intros [Hinv Hstop] H. unfold step in H. case_running s Hr H.
  2:{ inversion H; subst. split; [split; assumption|reflexivity]. }
  destruct e as [[|]| id | | | | id | id v].
  - destruct (add (trk s)) as [[[t' id] ev]|] eqn:Ha; [|discriminate]. inversion H; subst.
    destruct (add_inv _ _ _ _ Hinv Ha) as (Hi & _ & _ & Hm). split; [split; [exact Hi|discriminate]|exact Hm].
  - inversion H; subst. split; [split; [assumption|congruence]|reflexivity].
  - inversion H; subst. split; [split; [now apply remove_inv|discriminate]|reflexivity].
  - inversion H; subst. split; [split; [assumption|congruence]|reflexivity].
  - inversion H; subst. split; [|reflexivity]. split; [|reflexivity].
    destruct Hinv as (H1 & _). unfold inv; cbn. repeat split; try constructor; lia.
  - inversion H; subst. split; [|reflexivity]. split; [|reflexivity].
    destruct Hinv as (H1 & _). unfold inv; cbn. repeat split; try constructor; lia.
  - inversion H; subst. split; [|reflexivity]. split; [|cbn; congruence].
    destruct Hinv as (H1 & Hlen & Hs & Hlt). unfold inv, with_sessions; cbn [trk max_sessions next_id sessions].
    rewrite ids_mark_dead, length_mark_dead. auto.
  - destruct (alive s id); inversion H; subst; (split; [split; [assumption|cbn; congruence]|reflexivity]).
Qed.

Lemma run_inv evs : forall s s' o, sinv s -> run s evs = Some (s', o) ->
  sinv s' /\ max_sessions (trk s') = max_sessions (trk s).
Proof.
  induction evs as [|e r IH]; intros s s' o Hs H; cbn [run] in H.
  - inversion H; subst. auto.
  - destruct (step s e) as [[s1 o1]|] eqn:E1; [|discriminate].
    destruct (run s1 r) as [[s2 o2]|] eqn:E2; [|discriminate]. inversion H; subst.
    destruct (step_inv _ _ _ _ Hs E1) as [Hs1 Hm1]. destruct (IH _ _ _ Hs1 E2) as [Hs2 Hm2].
    split; [assumption|congruence].
Qed.

Lemma live_ids_length l : (length (live_ids l) <= length l)%nat.
Proof. unfold live_ids. rewrite map_length. apply filter_length_le'. Qed.

(* C15_bound *)
Lemma bound m evs s o : run (init m) evs = Some (s, o) ->
  (length (sessions (trk s)) <= Nat.max 1 m)%nat /\ (length (live_ids (sessions (trk s))) <= Nat.max 1 m)%nat.
Proof.
  intros H. destruct (run_inv _ _ _ _ (sinv_init m) H) as [[(H1 & Hlen & _) _] Hm].
  cbn [init trk] in Hm. rewrite max_new in Hm. pose proof (live_ids_length (sessions (trk s))). lia.
Qed.

(* ------------------------------------------------------------------ ids = acceptance numbers *)
Fixpoint accepts_processed (s : server) (evs : list event) : N :=
  match evs with
  | [] => 0
  | e :: r => match step s e with
              | None => 0
              | Some (s1, _) => (match e with Accept true => if running s then 1 else 0 | _ => 0 end) + accepts_processed s1 r
              end
  end.

Lemma step_next_id s e s' o : step s e = Some (s', o) ->
  next_id (trk s') = next_id (trk s) + (match e with Accept true => if running s then 1 else 0 | _ => 0 end).
Proof.
  intros H. unfold step in H. case_running s Hr H.
  2:{ inversion H; subst. rewrite Hr. destruct e as [[|]| | | | | |]; lia. }
  rewrite Hr.
  destruct e as [[|]| id | | | | id | id v]; try (inversion H; subst; cbn; lia).
  - unfold add in H. destruct (if (max_sessions (trk s) <=? length (sessions (trk s)))%nat then _ else _) as [ss e0] in H.
    unfold get_next_id in H. cbn [next_id] in H. destruct (next_id (trk s) =? u128_max); [discriminate|].
    inversion H; subst. cbn. lia.
  - destruct (alive s id); inversion H; subst; cbn; lia.
Qed.

Lemma run_next_id evs : forall s s' o, run s evs = Some (s', o) ->
  next_id (trk s') = next_id (trk s) + accepts_processed s evs.
Proof.
  induction evs as [|e r IH]; intros s s' o H; cbn [run accepts_processed] in *.
  - inversion H; subst. lia.
  - destruct (step s e) as [[s1 o1]|] eqn:E1; [|discriminate].
    destruct (run s1 r) as [[s2 o2]|] eqn:E2; [|discriminate]. inversion H; subst.
    rewrite (IH _ _ _ E2), (step_next_id _ _ _ _ E1). lia.
Qed.

(* C15_oldest: the state in which an Accept arrives is any reachable one *)
Lemma oldest m evs s o t' id v a :
  run (init m) evs = Some (s, o) -> add (trk s) = Some (t', id, Some (v, a)) ->
  length (sessions (trk s)) = Nat.max 1 m /\
  In (v, a) (sessions (trk s)) /\
  (forall j b, In (j, b) (sessions (trk s)) -> v <= j) /\
  (forall j b, In (j, b) (sessions (trk s)) -> j < id) /\
  sessions t' = tl (sessions (trk s)) ++ [(id, true)] /\
  ~ In v (ids (sessions t')) /\
  id = accepts_processed (init m) evs.
Proof.
  intros Hrun Hadd. destruct (run_inv _ _ _ _ (sinv_init m) Hrun) as [[Hinv _] Hm].
  cbn [init trk] in Hm. rewrite max_new in Hm.
  assert (Hid : next_id (trk s) <> u128_max).
  { intros E. unfold add, get_next_id in Hadd.
    destruct (if (max_sessions (trk s) <=? length (sessions (trk s)))%nat then _ else _) as [ss e0] in Hadd.
    cbn [next_id] in Hadd. rewrite E, N.eqb_refl in Hadd. discriminate. }
  destruct (add_spec _ Hinv Hid) as (kept & ev & Heq & Hc). rewrite Heq in Hadd. inversion Hadd; subst. clear Hadd.
  destruct Hc as [(_ & _ & Hn)|(Hl & v' & a' & E & Hev)]; [discriminate|]. inversion Hev; subst. clear Hev.
  destruct Hinv as (H1 & Hlen & Hs & Hlt). rewrite E in *. cbn [ids map fst] in Hs, Hlt.
  inversion Hs as [|? ? Hs' Hall]; subst. rewrite Forall_forall in Hall, Hlt.
  split; [lia|]. split; [now left|]. split.
  { intros j b [Hj|Hj]; [inversion Hj; lia|]. assert (v' < j) by (apply Hall; change j with (fst (j, b)); now apply in_map). lia. }
  split.
  { intros j b Hj. apply Hlt. change j with (fst (j, b)). apply (in_map fst _ _ Hj). }
  split; [reflexivity|]. split.
  { cbn [sessions]. rewrite ids_app. intros Hin. apply in_app_or in Hin. destruct Hin as [Hin|[Hin|[]]].
    - specialize (Hall _ Hin). lia.
    - cbn in Hin. assert (v' < next_id (trk s)) by (apply Hlt; now left). lia. }
  rewrite (run_next_id _ _ _ _ Hrun). cbn. lia.
Qed.

(* no eviction below the limit, eviction exactly at the limit *)
Lemma evicts_iff m evs s o t' id ev :
  run (init m) evs = Some (s, o) -> add (trk s) = Some (t', id, ev) ->
  (ev = None <-> (length (sessions (trk s)) < Nat.max 1 m)%nat).
Proof.
  intros Hrun Hadd. destruct (run_inv _ _ _ _ (sinv_init m) Hrun) as [[Hinv _] Hm].
  cbn [init trk] in Hm. rewrite max_new in Hm.
  assert (Hid : next_id (trk s) <> u128_max).
  { intros E. unfold add, get_next_id in Hadd.
    destruct (if (max_sessions (trk s) <=? length (sessions (trk s)))%nat then _ else _) as [ss e0] in Hadd.
    cbn [next_id] in Hadd. rewrite E, N.eqb_refl in Hadd. discriminate. }
  destruct (add_spec _ Hinv Hid) as (kept & ev' & Heq & Hc). rewrite Heq in Hadd. inversion Hadd; subst. clear Hadd.
  destruct Hc as [(Hl & _ & ->)|(Hl & v & a & _ & ->)]; split; intros; try lia; try reflexivity; discriminate.
Qed.

(* C15_no_panic: the id counter cannot overflow in fewer than 2^128 events *)
Lemma step_next_id_le s e s' o : step s e = Some (s', o) -> next_id (trk s') <= next_id (trk s) + 1.
Proof. intros H. rewrite (step_next_id _ _ _ _ H). destruct e as [[|]| | | | | |]; try lia. destruct (running s); lia. Qed.

Lemma step_total s e : next_id (trk s) <> u128_max -> step s e <> None.
Proof.
  intros Hid. unfold step. destruct (running s); cbn [negb]; [|discriminate].
  destruct e as [[|]| id | | | | id | id v]; try discriminate.
  - unfold add, get_next_id.
    destruct (if (max_sessions (trk s) <=? length (sessions (trk s)))%nat then _ else _) as [ss e0].
    cbn [next_id]. destruct (N.eqb_spec (next_id (trk s)) u128_max); [contradiction|discriminate].
  - destruct (alive s id); discriminate.
Qed.

Lemma run_total evs : forall s, next_id (trk s) + N.of_nat (length evs) <= u128_max -> run s evs <> None.
Proof.
  induction evs as [|e r IH]; intros s H; cbn [run]; [discriminate|].
  cbn [length] in H. destruct (step s e) as [[s1 o1]|] eqn:E1.
  - pose proof (step_next_id_le _ _ _ _ E1). specialize (IH s1).
    destruct (run s1 r) as [[s2 o2]|] eqn:E2; [discriminate|]. exfalso. apply IH; [lia|reflexivity].
  - exfalso. apply (step_total s e); [lia|exact E1].
Qed.

Lemma no_panic m evs : N.of_nat (length evs) <= u128_max -> run (init m) evs <> None.
Proof. intros H. apply run_total. change (next_id (trk (init m))) with 0. lia. Qed.

(* ------------------------------------------------------------------ shutdown *)
Lemma stopped_stays s evs : running s = false -> run s evs = Some (s, []).
Proof.
  intros Hr. induction evs as [|e r IH]; [reflexivity|]. cbn [run]. unfold step. rewrite Hr. cbn [negb]. now rewrite IH.
Qed.

(* C15_shutdown *)
Lemma shutdown_closes_all s e s' o : running s = true -> (e = Shutdown \/ e = HandleDropped) -> step s e = Some (s', o) ->
  running s' = false /\ sessions (trk s') = [] /\ (forall id, alive s' id = false) /\
  (forall id, alive s id = true -> In (Closed id) o) /\ In ListenerClosed o /\
  (forall evs, run s' evs = Some (s', [])).
Proof.
  intros Hr He H. unfold step in H. rewrite Hr in H. cbn [negb] in H.
  assert (Hs : s' = {| trk := {| max_sessions := max_sessions (trk s); next_id := next_id (trk s); sessions := [] |};
                      running := false; store := store s |} /\
               o = map Closed (live_ids (sessions (trk s))) ++ [ListenerClosed]).
  { destruct He as [-> | ->]; inversion H; auto. }
  destruct Hs as [-> ->]. cbn [running trk sessions]. repeat split; try reflexivity.
  - intros id Ha. apply in_or_app. left. unfold alive in Ha. apply existsb_exists in Ha. destruct Ha as (x & Hx & Hxe).
    apply N.eqb_eq in Hxe. subst. now apply in_map.
  - apply in_or_app. right. now left.
  - intros evs. now apply stopped_stays.
Qed.

Lemma after_stop m evs s o : run (init m) evs = Some (s, o) -> running s = false ->
  sessions (trk s) = [] /\ forall id, alive s id = false.
Proof.
  intros H Hr. destruct (run_inv _ _ _ _ (sinv_init m) H) as [[_ Hstop] _]. specialize (Hstop Hr).
  split; [exact Hstop|]. intros id. unfold alive. now rewrite Hstop.
Qed.

(* ------------------------------------------------------------------ isolation (frame property) *)
Lemma alive_iff s id : alive s id = true <-> In (id, true) (sessions (trk s)).
Proof.
  unfold alive, live_ids. rewrite existsb_exists. split.
  - intros (x & Hx & He). apply N.eqb_eq in He. subst x. apply in_map_iff in Hx. destruct Hx as ([j b] & Hj & Hin).
    apply filter_In in Hin. destruct Hin as [Hin Hb]. cbn in *. now subst.
  - intros Hin. exists id. split; [|apply N.eqb_refl]. apply in_map_iff. exists (id, true). split; [reflexivity|].
    apply filter_In. now split.
Qed.

Lemma in_remove_id p id l : In p (remove_id id l) <-> In p l /\ fst p <> id.
Proof.
  unfold remove_id. rewrite filter_In. split; intros [H1 H2]; split; try assumption.
  - destruct (N.eqb_spec (fst p) id); [discriminate|assumption].
  - destruct (N.eqb_spec (fst p) id); [contradiction|reflexivity].
Qed.

Lemma in_mark_dead b id l : b <> id -> (In (b, true) (mark_dead id l) <-> In (b, true) l).
Proof.
  intros Hne. unfold mark_dead. rewrite in_map_iff. split.
  - intros ([j c] & Hj & Hin). cbn [fst] in Hj. destruct (N.eqb_spec j id); inversion Hj; subst; assumption.
  - intros Hin. exists (b, true). split; [|assumption]. cbn [fst]. destruct (N.eqb_spec b id); [contradiction|reflexivity].
Qed.

(* the only events that end session b: its own end, the notification of its end, a stop of the
   server, or an Accept at the limit while b is the oldest entry *)
Lemma isolation m evs s o e s' o' b :
  run (init m) evs = Some (s, o) -> step s e = Some (s', o') ->
  alive s b = true -> alive s' b = false ->
  e = PeerGone b \/ e = SessionEnded b \/ e = Shutdown \/ e = HandleDropped \/
  (e = Accept true /\ length (sessions (trk s)) = Nat.max 1 m /\ forall j c, In (j, c) (sessions (trk s)) -> b <= j).
Proof.
  intros Hrun Hstep Ha Hd. destruct (run_inv _ _ _ _ (sinv_init m) Hrun) as [[Hinv Hstop] Hm].
  cbn [init trk] in Hm. rewrite max_new in Hm.
  assert (Hr : running s = true).
  { destruct (running s) eqn:E; [reflexivity|]. rewrite alive_iff, (Hstop eq_refl) in Ha. destruct Ha. }
  assert (Hd' : ~ In (b, true) (sessions (trk s'))) by (rewrite <- alive_iff, Hd; discriminate).
  rewrite alive_iff in Ha. unfold step in Hstep. rewrite Hr in Hstep. cbn [negb] in Hstep.
  destruct e as [[|]| id | | | | id | id v]; auto.
  - (* Accept true *)
    do 4 right. destruct (add (trk s)) as [[[t' id] ev]|] eqn:Hadd; [|discriminate]. inversion Hstep; subst. cbn [trk] in Hd'.
    assert (Hid : next_id (trk s) <> u128_max).
    { intros E. unfold add, get_next_id in Hadd.
      destruct (if (max_sessions (trk s) <=? length (sessions (trk s)))%nat then _ else _) as [ss e0] in Hadd.
      cbn [next_id] in Hadd. rewrite E, N.eqb_refl in Hadd. discriminate. }
    destruct (add_spec _ Hinv Hid) as (kept & ev' & Heq & Hc). rewrite Heq in Hadd. inversion Hadd; subst. clear Hadd.
    cbn [sessions] in Hd'. destruct Hc as [(_ & -> & _)|(Hl & v & a & E & _)].
    + exfalso. apply Hd'. apply in_or_app. now left.
    + split; [reflexivity|]. split; [lia|]. rewrite E in Ha. destruct Ha as [Ha|Ha].
      2:{ exfalso. apply Hd'. apply in_or_app. now left. }
      inversion Ha; subst. destruct Hinv as (_ & _ & Hs & _). rewrite E in Hs. cbn [ids map fst] in Hs.
      inversion Hs as [|? ? _ Hall]; subst. rewrite Forall_forall in Hall.
      intros j c Hj. rewrite E in Hj. destruct Hj as [Hj|Hj]; [inversion Hj; lia|].
      assert (b < j) by (apply Hall; change j with (fst (j, c)); now apply in_map). lia.
  - exfalso. inversion Hstep; subst. now apply Hd'.
  - (* SessionEnded id *)
    inversion Hstep; subst. cbn [trk remove sessions] in Hd'. destruct (N.eq_dec id b) as [->|Hne]; [auto|].
    exfalso. apply Hd'. apply in_remove_id. split; [assumption|]. cbn. congruence.
  - exfalso. inversion Hstep; subst. now apply Hd'.
  - (* PeerGone id *)
    inversion Hstep; subst. cbn [with_sessions trk sessions] in Hd'. destruct (N.eq_dec id b) as [->|Hne]; [auto|].
    exfalso. apply Hd'. apply in_mark_dead; [congruence|assumption].
  - exfalso. destruct (alive s id); inversion Hstep; subst; now apply Hd'.
Qed.

(* a request on a session that is not alive never reaches the handler and changes nothing;
   a request on an alive one reaches it exactly once *)
Lemma request_effect s id v s' o : step s (Request id v) = Some (s', o) ->
  (alive s id = true /\ running s = true -> o = [HandlerCall id v] /\ store s' = v /\ trk s' = trk s) /\
  (alive s id = false -> o = [] /\ s' = s).
Proof.
  intros H. unfold step in H. case_running s Hr H.
  - destruct (alive s id) eqn:Ha; inversion H; subst; split; intros; try discriminate; auto. destruct H0; discriminate.
  - inversion H; subst. split; [intros [_ ?]; congruence|auto].
Qed.

(* events of other sessions never produce a handler call or change the stored value *)
Lemma no_handler_call_unless_request s e s' o : step s e = Some (s', o) ->
  (forall id v, e <> Request id v) -> store s' = store s /\ forall id v, ~ In (HandlerCall id v) o.
Proof.
  intros H Hne. unfold step in H. case_running s Hr H.
  2:{ inversion H; subst. split; [reflexivity|intros ? ? []]. }
  destruct e as [[|]| id | | | | id | id v].
  - destruct (add (trk s)) as [[[t' id] ev]|]; [|discriminate]. inversion H; subst. split; [reflexivity|].
    intros i v Hin. apply in_app_or in Hin. destruct Hin as [Hin|[Hin|[]]]; [|discriminate].
    destruct ev as [[? [|]]|]; cbn in Hin; try contradiction. destruct Hin as [Hin|[]]; discriminate.
  - inversion H; subst. split; [reflexivity|]. intros i v [Hin|[]]; discriminate.
  - inversion H; subst. split; [reflexivity|]. intros i v Hin. destruct (alive s id); [destruct Hin as [Hin|[]]; discriminate|destruct Hin].
  - inversion H; subst. split; [reflexivity|]. intros i v Hin. apply in_map_iff in Hin. destruct Hin as (? & ? & _); discriminate.
  - inversion H; subst. split; [reflexivity|]. intros i v Hin. apply in_app_or in Hin. destruct Hin as [Hin|[Hin|[]]]; [|discriminate].
    apply in_map_iff in Hin. destruct Hin as (? & ? & _); discriminate.
  - inversion H; subst. split; [reflexivity|]. intros i v Hin. apply in_app_or in Hin. destruct Hin as [Hin|[Hin|[]]]; [|discriminate].
    apply in_map_iff in Hin. destruct Hin as (? & ? & _); discriminate.
  - inversion H; subst. split; [reflexivity|]. intros i v [].
  - exfalso. now apply (Hne id v).
Qed.

(* ------------------------------------------------------------------ refinement of the Spec on prompt schedules *)
Definition all_alive (l : list (N * bool)) : Prop := Forall (fun p => snd p = true) l.

Lemma live_ids_all_alive l : all_alive l -> live_ids l = ids l.
Proof.
  unfold all_alive, live_ids, ids. induction 1 as [|[j b] r Hb _ IH]; [reflexivity|]. cbn in Hb. subst. cbn [filter snd map fst]. now f_equal.
Qed.

Definition rel (m : nat) (s : server) (ss : sstate) : Prop :=
  sinv s /\ max_sessions (trk s) = Nat.max 1 m /\ all_alive (sessions (trk s)) /\
  ids (sessions (trk s)) = served ss /\ next_id (trk s) = accepted ss /\ running s = up ss /\ store s = value ss.

Lemma rel_view m s ss : rel m s ss -> view s = sview ss.
Proof.
  intros (_ & _ & Hal & Hids & _ & Hr & Hst). unfold view, sview. rewrite (live_ids_all_alive _ Hal). congruence.
Qed.

Lemma all_alive_remove id l : all_alive l -> all_alive (remove_id id l).
Proof. apply forall_filter. Qed.

Lemma remove_mark_dead id l : remove_id id (mark_dead id l) = remove_id id l.
Proof.
  induction l as [|[j b] r IH]; [reflexivity|]. unfold remove_id, mark_dead in *. cbn [map filter fst].
  destruct (N.eqb_spec j id); cbn [fst].
  - subst. rewrite N.eqb_refl. cbn [negb]. exact IH.
  - destruct (N.eqb_spec j id); [contradiction|]. cbn [negb]. f_equal. exact IH.
Qed.

Lemma existsb_ids id l : all_alive l -> existsb (N.eqb id) (live_ids l) = existsb (N.eqb id) (ids l).
Proof. intros H. now rewrite live_ids_all_alive. Qed.

Lemma tl_ids l : ids (tl l) = tl (ids l).
Proof. destruct l; reflexivity. Qed.

Lemma rel_intro m s ss :
  inv (trk s) -> (running s = false -> sessions (trk s) = []) -> max_sessions (trk s) = Nat.max 1 m ->
  all_alive (sessions (trk s)) -> ids (sessions (trk s)) = served ss -> next_id (trk s) = accepted ss ->
  running s = up ss -> store s = value ss -> rel m s ss.
Proof. unfold rel, sinv. tauto. Qed.

Lemma inv_empty t : inv t -> inv {| max_sessions := max_sessions t; next_id := next_id t; sessions := [] |}.
Proof. intros (H1 & _). unfold inv; cbn. split; [assumption|]. split; [lia|]. split; constructor. Qed.

Lemma step_refines m s ss o s' outs : rel m s ss -> run s (expand o) = Some (s', outs) -> rel m s' (sstep m ss o).
Proof.
  intros (Hsinv & Hmax & Hal & Hids & Hnext & Hrun & Hst) H.
  assert (running s = true \/ running s = false) as [Hr|Hr] by (destruct (running s); auto).
  2:{ (* stopped: nothing happens on either side *)
    rewrite (stopped_stays s (expand o) Hr) in H. inversion H; subst. unfold sstep. rewrite <- Hrun, Hr. cbn [negb].
    destruct Hsinv. apply rel_intro; assumption. }
  unfold sstep. rewrite <- Hrun, Hr. cbn [negb].
  destruct Hsinv as [Hinv Hstop].
  assert (Hconnect : forall s' outs, run s [Accept true] = Some (s', outs) ->
            rel m s' {| served := (if (capacity m <=? length (served ss))%nat then tl (served ss) else served ss) ++ [accepted ss];
                        accepted := accepted ss + 1; up := true; value := value ss |}).
  { clear H s' outs. intros s' outs H. cbn [run] in H. unfold step in H. rewrite Hr in H. cbn [negb] in H.
    destruct (add (trk s)) as [[[t' id] ev]|] eqn:Hadd; [|discriminate]. inversion H; subst. clear H.
    assert (Hid : next_id (trk s) <> u128_max).
      { intros E. unfold add, get_next_id in Hadd.
      destruct (if (max_sessions (trk s) <=? length (sessions (trk s)))%nat then _ else _) as [x e0] in Hadd.
      cbn [next_id] in Hadd. rewrite E, N.eqb_refl in Hadd. discriminate. }
    destruct (add_inv _ _ _ _ Hinv Hadd) as (Hi' & _ & _ & Hm').
    destruct (add_spec _ Hinv Hid) as (kept & ev' & Heq & Hc). rewrite Heq in Hadd. inversion Hadd; subst. clear Hadd.
    assert (Hlen : length (served ss) = length (sessions (trk s))) by (rewrite <- Hids; apply map_length).
    assert (Hk : all_alive kept /\ ids kept = (if (capacity m <=? length (served ss))%nat then tl (served ss) else served ss)).
      { unfold capacity. rewrite Hlen, <- Hmax. destruct Hc as [(Hl & -> & _)|(Hl & v & a & E & _)].
      - destruct (Nat.leb_spec (max_sessions (trk s)) (length (sessions (trk s)))); [lia|]. auto.
      - destruct (Nat.leb_spec (max_sessions (trk s)) (length (sessions (trk s)))); [|lia].
        rewrite E in Hal, Hids. split; [now inversion Hal|]. rewrite <- Hids. reflexivity. }
    destruct Hk as [Hka Hki].
    apply rel_intro; cbn [trk running store max_sessions next_id sessions served accepted up value].
      + exact Hi'.
      + discriminate.
      + exact Hmax.
      + apply Forall_app. split; [exact Hka|repeat constructor].
      + rewrite ids_app, Hki. cbn. now rewrite Hnext.
      + now rewrite Hnext.
      + reflexivity.
      + exact Hst.
  }
  destruct o as [| |k|k|k v|k|k| | | |]; try (cbn [expand] in H; exact (Hconnect _ _ H));
    cbn [expand run] in H; unfold step in H; try rewrite Hr in H; cbn [negb] in H.
  - (* ClientClose *)
    cbn [negb with_sessions running] in H. rewrite Hr in H. cbn [negb] in H. inversion H; subst. clear H.
    apply rel_intro; unfold remove; cbn [trk running store with_sessions max_sessions next_id sessions served accepted up value];
      rewrite ?remove_mark_dead; try assumption; try discriminate; try reflexivity.
    + apply (remove_inv (trk s) k Hinv).
    + now apply all_alive_remove.
    + rewrite ids_remove_id, Hids. reflexivity.
  - (* Garbage *)
    cbn [negb with_sessions running] in H. rewrite Hr in H. cbn [negb] in H. inversion H; subst. clear H.
    apply rel_intro; unfold remove; cbn [trk running store with_sessions max_sessions next_id sessions served accepted up value];
      rewrite ?remove_mark_dead; try assumption; try discriminate; try reflexivity.
    + apply (remove_inv (trk s) k Hinv).
    + now apply all_alive_remove.
    + rewrite ids_remove_id, Hids. reflexivity.
  - (* Req *)
    unfold alive in H. rewrite (existsb_ids k _ Hal), Hids in H.
    destruct (existsb (N.eqb k) (served ss)); inversion H; subst; clear H;
      apply rel_intro; cbn [trk running store served accepted up value]; try assumption; try reflexivity; try congruence.
  - (* Flood *)
    inversion H; subst. apply rel_intro; assumption.
  - (* Park *)
    inversion H; subst. apply rel_intro; assumption.
  - (* Release *)
    inversion H; subst. apply rel_intro; assumption.
  - (* SetDecode *)
    inversion H; subst. apply rel_intro; assumption.
  - (* Stop *)
    inversion H; subst. clear H.
    apply rel_intro; cbn [trk running store max_sessions next_id sessions served accepted up value];
      [now apply inv_empty|reflexivity|assumption|constructor|reflexivity|assumption|reflexivity|assumption].
  - (* DropHandle *)
    inversion H; subst. clear H.
    apply rel_intro; cbn [trk running store max_sessions next_id sessions served accepted up value];
      [now apply inv_empty|reflexivity|assumption|constructor|reflexivity|assumption|reflexivity|assumption].
Qed.

Lemma rel_init m : rel m (init m) sinit.
Proof.
  unfold rel. cbn. repeat split; try reflexivity; try constructor; try apply inv_new; try discriminate.
  destruct m; lia.
Qed.

Lemma trace_refines m ops : forall s ss t, rel m s ss -> trace s ops = Some t -> t = strace m ss ops.
Proof.
  induction ops as [|o r IH]; intros s ss t Hrel H; cbn [trace strace] in *; [now inversion H|].
  destruct (run s (expand o)) as [[s1 o1]|] eqn:E1; [|discriminate].
  destruct (trace s1 r) as [t1|] eqn:E2; [|discriminate]. inversion H; subst.
  pose proof (step_refines _ _ _ _ _ _ Hrel E1) as Hrel1.
  rewrite (rel_view _ _ _ Hrel1). f_equal. now apply (IH s1).
Qed.

Lemma refines m ops t : trace (init m) ops = Some t -> t = strace m sinit ops.
Proof. apply trace_refines. apply rel_init. Qed.

(* the race the Spec does not show: a session that has ended but whose notification has not been
   processed still occupies a slot, so an Accept can evict a running session although fewer than
   max sessions are running *)
Lemma stale_slot_witness :
  exists evs s o, run (init 2) evs = Some (s, o) /\ In (Closed 0) o /\ live_ids (sessions (trk s)) = [2].
Proof.
  exists [Accept true; Accept true; PeerGone 1; Accept true; SessionEnded 1]. eexists. eexists.
  split; [vm_compute; reflexivity|]. split; [cbn; tauto|reflexivity].
Qed.

(* ------------------------------------------------------------------ no session is leaked *)
Lemma run_app s a b : run s (a ++ b) =
  match run s a with
  | None => None
  | Some (s1, o1) => match run s1 b with None => None | Some (s2, o2) => Some (s2, o1 ++ o2) end
  end.
Proof.
  revert s. induction a as [|e r IH]; intros s; cbn [app run].
  - destruct (run s b) as [[s2 o2]|]; reflexivity.
  - destruct (step s e) as [[s1 o1]|]; [|reflexivity]. rewrite IH.
    destruct (run s1 r) as [[s2 o2]|]; [|reflexivity]. destruct (run s2 b) as [[s3 o3]|]; [|reflexivity].
    now rewrite app_assoc.
Qed.

(* every session ever spawned is, at any later time, still running, or has been closed by the
   server (its sender dropped), or has ended on its own *)
Lemma no_session_leaked m evs : forall s o, run (init m) evs = Some (s, o) ->
  forall id, In (Spawned id) o -> alive s id = true \/ In (Closed id) o \/ In (PeerGone id) evs.
Proof.
  induction evs as [|e evs IH] using rev_ind; intros s o Hrun id Hsp.
  - cbn in Hrun. inversion Hrun; subst. destruct Hsp.
  - rewrite run_app in Hrun. destruct (run (init m) evs) as [[s1 o1]|] eqn:E1; [|discriminate].
    cbn [run] in Hrun. destruct (step s1 e) as [[s2 o2]|] eqn:E2; [|discriminate]. inversion Hrun; subst. clear Hrun.
    rewrite app_nil_r in *.
    destruct (run_inv _ _ _ _ (sinv_init m) E1) as [[Hinv Hstop] _].
    assert (Hold : In (Spawned id) o1 -> alive s id = true \/ In (Closed id) (o1 ++ o2) \/ In (PeerGone id) (evs ++ [e])).
    { intros Hin. destruct (IH _ _ eq_refl id Hin) as [Ha|[Hc|Hp]].
      2:{ right. left. apply in_or_app. now left. }
      2:{ right. right. apply in_or_app. now left. }
      (* it was running before this step *)
      assert (Hr : running s1 = true).
      { destruct (running s1) eqn:E; [reflexivity|]. rewrite alive_iff, (Hstop eq_refl) in Ha. destruct Ha. }
      destruct (alive s id) eqn:Ha2; [now left|]. right.
      destruct (isolation m evs s1 o1 e s o2 id E1 E2 Ha Ha2) as [->|[->|[->|[->|(-> & Hlen & Hmin)]]]].
      - right. apply in_or_app. right. now left.
      - left. apply in_or_app. right. unfold step in E2. rewrite Hr in E2. cbn [negb] in E2. rewrite Ha in E2. inversion E2; subst. now left.
      - left. apply in_or_app. right. unfold step in E2. rewrite Hr in E2. cbn [negb] in E2. inversion E2; subst.
        apply in_or_app. left. apply in_map. unfold alive in Ha. apply existsb_exists in Ha. destruct Ha as (x & Hx & He).
        apply N.eqb_eq in He. now subst.
      - left. apply in_or_app. right. unfold step in E2. rewrite Hr in E2. cbn [negb] in E2. inversion E2; subst.
        apply in_or_app. left. apply in_map. unfold alive in Ha. apply existsb_exists in Ha. destruct Ha as (x & Hx & He).
        apply N.eqb_eq in He. now subst.
      - (* evicted: it was the oldest entry and it was running, so closed_of reports it *)
        left. apply in_or_app. right. unfold step in E2. rewrite Hr in E2. cbn [negb] in E2.
        destruct (add (trk s1)) as [[[t' nid] ev]|] eqn:Hadd; [|discriminate]. inversion E2; subst. clear E2.
        assert (Hid : next_id (trk s1) <> u128_max).
        { intros E. unfold add, get_next_id in Hadd.
          destruct (if (max_sessions (trk s1) <=? length (sessions (trk s1)))%nat then _ else _) as [ss e0] in Hadd.
          cbn [next_id] in Hadd. rewrite E, N.eqb_refl in Hadd. discriminate. }
        destruct (add_spec _ Hinv Hid) as (kept & ev' & Heq & Hc). rewrite Heq in Hadd. inversion Hadd; subst. clear Hadd.
        rewrite alive_iff in Ha. destruct Hc as [(Hl & -> & _)|(Hl & v & a & E & ->)].
        + exfalso. assert (Hx : alive {| trk := {| max_sessions := max_sessions (trk s1); next_id := next_id (trk s1) + 1;
                                                     sessions := sessions (trk s1) ++ [(next_id (trk s1), true)] |};
                                        running := true; store := store s1 |} id = true).
          { apply alive_iff. cbn. apply in_or_app. now left. }
          congruence.
        + rewrite E in Ha. destruct Ha as [Ha|Ha].
          * inversion Ha; subst. apply in_or_app. left. cbn. now left.
          * exfalso. assert (Hx : alive {| trk := {| max_sessions := max_sessions (trk s1); next_id := next_id (trk s1) + 1;
                                                       sessions := kept ++ [(next_id (trk s1), true)] |};
                                          running := true; store := store s1 |} id = true).
            { apply alive_iff. cbn. apply in_or_app. now left. }
            congruence. }
    apply in_app_or in Hsp. destruct Hsp as [Hsp|Hsp]; [now apply Hold|].
    (* spawned by this very step: it is running now *)
    left. unfold step in E2. destruct (running s1) eqn:Hr; cbn [negb] in E2; [|inversion E2; subst; destruct Hsp].
    destruct e as [[|]| i | | | | i | i v]; try (inversion E2; subst; cbn in Hsp; repeat (destruct Hsp as [Hsp|Hsp]; try discriminate Hsp); try contradiction; fail).
    + destruct (add (trk s1)) as [[[t' nid] ev]|] eqn:Hadd; [|discriminate]. inversion E2; subst. clear E2.
      apply in_app_or in Hsp. destruct Hsp as [Hsp|[Hsp|[]]].
      { destruct ev as [[? [|]]|]; cbn in Hsp; try contradiction. destruct Hsp as [Hsp|[]]; discriminate. }
      inversion Hsp; subst.
      assert (Hid : next_id (trk s1) <> u128_max).
      { intros E. unfold add, get_next_id in Hadd.
        destruct (if (max_sessions (trk s1) <=? length (sessions (trk s1)))%nat then _ else _) as [ss e0] in Hadd.
        cbn [next_id] in Hadd. rewrite E, N.eqb_refl in Hadd. discriminate. }
      destruct (add_spec _ Hinv Hid) as (kept & ev' & Heq & Hc). rewrite Heq in Hadd. inversion Hadd; subst.
      apply alive_iff. cbn. apply in_or_app. right. now left.
    + inversion E2; subst. destruct (alive s1 i); cbn in Hsp; repeat (destruct Hsp as [Hsp|Hsp]; try discriminate Hsp); contradiction.
    + inversion E2; subst. apply in_map_iff in Hsp. destruct Hsp as (? & ? & _). discriminate.
    + inversion E2; subst. apply in_app_or in Hsp. destruct Hsp as [Hsp|[Hsp|[]]]; [|discriminate].
      apply in_map_iff in Hsp. destruct Hsp as (? & ? & _). discriminate.
    + inversion E2; subst. apply in_app_or in Hsp. destruct Hsp as [Hsp|[Hsp|[]]]; [|discriminate].
      apply in_map_iff in Hsp. destruct Hsp as (? & ? & _). discriminate.
    + destruct (alive s1 i); inversion E2; subst; cbn in Hsp; repeat (destruct Hsp as [Hsp|Hsp]; try discriminate Hsp); contradiction.
Qed.

Lemma all_closed_when_stopped m evs s o : run (init m) evs = Some (s, o) -> running s = false ->
  forall id, In (Spawned id) o -> In (Closed id) o \/ In (PeerGone id) evs.
Proof.
  intros Hrun Hr id Hsp. destruct (no_session_leaked m evs s o Hrun id Hsp) as [Ha|H]; [|exact H].
  destruct (after_stop m evs s o Hrun Hr) as [_ Hdead]. rewrite Hdead in Ha. discriminate.
Qed.

(* a connection arriving while the server runs is always accepted - also at the limit *)
Lemma accept_spawns m evs s o s' o' : run (init m) evs = Some (s, o) -> running s = true ->
  step s (Accept true) = Some (s', o') ->
  In (Spawned (next_id (trk s))) o' /\ alive s' (next_id (trk s)) = true /\ running s' = true.
Proof.
  intros Hrun Hr Hstep. destruct (run_inv _ _ _ _ (sinv_init m) Hrun) as [[Hinv _] _].
  unfold step in Hstep. rewrite Hr in Hstep. cbn [negb] in Hstep.
  destruct (add (trk s)) as [[[t' id] ev]|] eqn:Hadd; [|discriminate]. inversion Hstep; subst. clear Hstep.
  assert (Hid : next_id (trk s) <> u128_max).
  { intros E. unfold add, get_next_id in Hadd.
    destruct (if (max_sessions (trk s) <=? length (sessions (trk s)))%nat then _ else _) as [ss e0] in Hadd.
    cbn [next_id] in Hadd. rewrite E, N.eqb_refl in Hadd. discriminate. }
  destruct (add_spec _ Hinv Hid) as (kept & ev' & Heq & _). rewrite Heq in Hadd. inversion Hadd; subst. clear Hadd.
  split; [apply in_or_app; right; now left|]. split; [|reflexivity].
  apply alive_iff. cbn. apply in_or_app. right. now left.
Qed.
