(* The TCP/TLS server task with sessions that are BUSY: inside an application request handler that has not returned
   (rodbus/src/tcp/server.rs ServerTask::{run, apply_command, handle} around the tracker model Model/Tracker.v).
   A busy session does not read its command queue and cannot be ended before the handler returns: when the tracker
   drops it (eviction, shutdown, handle dropped) its socket stays open until then.
   How apply_command hands a command to the sessions is the generated Gen/ServerForward.v:
     ForwardTrySend    sender.try_send(command): never waits; the command is dropped for a session whose queue is full
     ForwardSendAwait  sender.send(command).await: the SERVER TASK waits for room in that session's queue - with a
                       busy session whose queue is full it waits until the handler returns: no accept, no command,
                       no shutdown is processed meanwhile.
   `bstep` takes the forwarding as a parameter; `bstep_gen` is the one the source has. *)
From Coq Require Import NArith List Bool Arith.
From Rodbus Require Import Model.Tracker Gen.ServerForward.
Import ListNotations.
Local Open Scope N_scope.

Inductive bevent :=
| BBase (e : event)        (* an event of the tracker model *)
| BPark (id : N)           (* session id enters a request handler that does not return until BRelease *)
| BRelease.                (* the parked handlers return *)

Inductive boutput :=
| BOut (o : output)
| BDeferred                (* the server task is waiting inside apply_command: the event is not processed *)
| BDropped (id : N)        (* try_send: the queue of session id was full, the command is not delivered *)
| BAnswered (id : N)       (* the parked request of a session that is still tracked is answered *)
| BSocketClosed (id : N).  (* the socket of a session the tracker dropped while it was busy closes now *)

Record bserver := {
  base : server;
  busy : list N;              (* sessions inside a handler *)
  fill : list (N * nat);      (* commands sitting in the queue of a busy session *)
  waiting : bool              (* the server task is inside sender.send(..).await on a full queue *)
}.

Definition binit (m : nat) : bserver := {| base := init m; busy := []; fill := []; waiting := false |}.

Definition mem (k : N) (l : list N) : bool := existsb (N.eqb k) l.
Definition fill_of (c : bserver) (id : N) : nat :=
  match find (fun p => fst p =? id) (fill c) with Some (_, n) => n | None => 0%nat end.
Definition set_fill (l : list (N * nat)) (id : N) (n : nat) : list (N * nat) :=
  (id, n) :: filter (fun p => negb (fst p =? id)) l.

(* forwarding one command to the busy sessions that are still tracked, oldest first (the others drain their queue at
   once): the new fill levels, what was dropped, and whether the server task ends up waiting *)
Fixpoint forward (f : forwarding) (targets : list N) (fl : list (N * nat)) : list (N * nat) * list boutput * bool :=
  match targets with
  | [] => (fl, [], false)
  | id :: r =>
      let n := match find (fun p => fst p =? id) fl with Some (_, n) => n | None => 0%nat end in
      if (n <? session_command_queue)%nat then forward f r (set_fill fl id (S n))
      else match f with
           | ForwardTrySend => let '(fl', o, w) := forward f r fl in (fl', BDropped id :: o, w)
           | ForwardSendAwait => (fl, [], true)           (* parked here until that handler returns *)
           end
  end.

Definition bstep (f : forwarding) (c : bserver) (e : bevent) : option (bserver * list boutput) :=
  match e with
  | BRelease =>
      Some ({| base := base c; busy := []; fill := []; waiting := false |},
            map (fun id => if alive (base c) id then BAnswered id else BSocketClosed id) (rev (busy c)))
  | _ =>
    if waiting c then Some (c, [BDeferred]) else
    match e with
    | BPark id =>
        if alive (base c) id && negb (mem id (busy c))
        then Some ({| base := base c; busy := id :: busy c; fill := fill c; waiting := false |}, [])
        else Some (c, [])
    | BBase ev =>
        match step (base c) ev with
        | None => None
        | Some (s', o) =>
            match ev with
            | Command =>
                if running (base c) then
                  let '(fl, d, w) := forward f (filter (fun id => mem id (busy c)) (live_ids (sessions (trk s')))) (fill c) in
                  Some ({| base := s'; busy := busy c; fill := fl; waiting := w |}, map BOut o ++ d)
                else Some ({| base := s'; busy := busy c; fill := fill c; waiting := false |}, map BOut o)
            | PeerGone id | SessionEnded id =>
                (* the peer of a busy session went away: nothing keeps that socket open *)
                Some ({| base := s'; busy := filter (fun k => negb (k =? id)) (busy c); fill := fill c; waiting := false |}, map BOut o)
            | _ => Some ({| base := s'; busy := busy c; fill := fill c; waiting := false |}, map BOut o)
            end
        end
    | BRelease => Some (c, [])
    end
  end.

Fixpoint brun (f : forwarding) (c : bserver) (evs : list bevent) : option (bserver * list boutput) :=
  match evs with
  | [] => Some (c, [])
  | e :: r => match bstep f c e with
              | None => None
              | Some (c1, o1) => match brun f c1 r with
                                 | None => None
                                 | Some (c2, o2) => Some (c2, o1 ++ o2)
                                 end
              end
  end.

(* the forwarding the source has *)
Definition bstep_gen := bstep apply_command_forwarding.
Definition brun_gen := brun apply_command_forwarding.

(* ---- scripts (the alphabet of Model/Tracker.v) *)
(* an ended session tells the server task with the generated kind of notice (Gen/ServerForward.v session_close_notice):
   `send(..).await` always arrives (SessionEnded: the record is removed); a `try_send` notice may be dropped when the
   server's queue is full, and then nothing ever removes that record *)
Definition close_notice_events (n : close_notice) (k : N) : list event :=
  match n with NoticeSendAwait => [SessionEnded k] | NoticeTrySend => [] end.

Definition bexpand_with (n : close_notice) (o : sop) : list bevent :=
  match o with
  | Park k => [BPark k]
  | Release => [BRelease]
  | ClientClose k | Garbage k => map BBase (PeerGone k :: close_notice_events n k)
  | _ => map BBase (expand o)
  end.
Definition bexpand := bexpand_with session_close_notice.

(* the sockets that are open: sessions the tracker holds, and sessions it dropped while they were busy *)
Definition open_sockets (c : bserver) : list N :=
  filter (fun k => alive (base c) k || mem k (busy c)) (map N.of_nat (seq 0 (N.to_nat (next_id (trk (base c)))))).

(* what the correspondence observes after an operation: open sockets, whether the port accepts, the value, and (at a
   Release) which parked requests are answered *)
Definition bview (c : bserver) (o : list boutput) : list N * bool * N * list (N * bool) :=
  (open_sockets c, running (base c), store (base c),
   flat_map (fun x => match x with BAnswered id => [(id, true)] | BSocketClosed id => [(id, false)] | _ => [] end) o).

Fixpoint btrace (f : forwarding) (c : bserver) (ops : list sop) : option (list (list N * bool * N * list (N * bool))) :=
  match ops with
  | [] => Some []
  | o :: r => match brun f c (bexpand o) with
              | None => None
              | Some (c1, out) => match btrace f c1 r with None => None | Some t => Some (bview c1 out :: t) end
              end
  end.
Definition btrace_gen := btrace apply_command_forwarding.
