(* The submit paths of a client request up to the queue, interpreted from the regenerated statement order
   (Gen/SubmitPaths.v: impl Channel = future style, impl CallbackSession = callback style; the third path,
   FfiChannel / C ABI, is Model/Ffi.v over Gen/FfiTables.v).
   A promise (client/message.rs, requests/read_bits.rs, read_registers.rs) owns the callback from Promise::new on;
   `failure` / `success` consume it, and dropping an unconsumed promise calls failure(Shutdown) (rodbus_promise_drop).
   A callback that was never put into a promise is simply dropped: nothing is invoked. Definitions only. *)
From Coq Require Import NArith List String Bool.
From Rodbus Require Import Gen.FfiTables Gen.SubmitPaths Model.Ffi.
Import ListNotations.
Local Open Scope string_scope.

Record sub_env := {
  valid : bool;                 (* range.of_read_bits() / of_read_registers() succeeds *)
  reaches_task : bool;          (* tx.send(command).await succeeds: the channel task is alive *)
  stask : list task_op          (* what the task does with the command (Model/Ffi.v): first completion wins, else dropped *)
}.

Inductive cb_out := Done (r : result) | Unknown.
Inductive pstate := NoPromise | Armed | Moved.

(* everything the function still owns is dropped when it returns *)
Definition drop_locals (st : pstate) : list cb_out :=
  match st with Armed => [Done (RErr RRE_Shutdown)] | _ => [] end.

Fixpoint cb_run (env : sub_env) (st : pstate) (steps : list cb_step) : list cb_out :=
  match steps with
  | [] => drop_locals st
  | CbMakePromise :: rest => match st with NoPromise => cb_run env Armed rest | _ => [Unknown] end
  | CbValidate _ on_err :: rest =>
      if valid env then cb_run env st rest
      else match on_err with
           | FailPromise => match st with Armed => [Done (RErr RRE_BadRequest)] | _ => [Unknown] end
           | ReturnOnly _ => drop_locals st
           end
  | CbSend :: rest =>
      match st with
      | Armed =>
          (if reaches_task env then [Done (first_completion (stask env))]
           else if callback_send_drops_on_error then [Done (RErr RRE_Shutdown)] else [Unknown]) ++ cb_run env Moved rest
      | _ => [Unknown]
      end
  | CbOther _ :: _ => [Unknown]
  end.

Definition cb_steps (m : string) : list cb_step :=
  match find (fun p => String.eqb (fst p) m) callback_methods with Some p => snd p | None => [CbOther "unknown method"] end.
(* every invocation of the caller's callback caused by CallbackSession::<m>(args, callback) *)
Definition cb_call (m : string) (env : sub_env) : list cb_out := cb_run env NoPromise (cb_steps m).

(* the value an `async fn` of Channel returns (None: shape not understood) *)
Inductive fstate := NoOneshot | HaveBoth | TxInRequest | Sent.
Fixpoint fut_run (env : sub_env) (st : fstate) (steps : list fut_step) : option result :=
  match steps with
  | [] => None
  | FutOneshot :: rest => match st with NoOneshot => fut_run env HaveBoth rest | _ => None end
  | FutValidate _ returned :: rest =>
      if valid env then fut_run env st rest else if returned then Some (RErr RRE_BadRequest) else None
  | FutBuild :: rest => match st with HaveBoth => fut_run env TxInRequest rest | _ => None end
  | FutSend :: rest =>
      match st with
      | TxInRequest => if reaches_task env then fut_run env Sent rest else Some (RErr RRE_Shutdown)
      | _ => None
      end
  | FutAwait :: _ => match st with Sent => Some (first_completion (stask env)) | _ => None end
  | FutOther _ :: _ => None
  end.
Definition fut_steps (m : string) : list fut_step :=
  match find (fun p => String.eqb (fst p) m) future_methods with Some p => snd p | None => [FutOther "unknown method"] end.
Definition fut_call (m : string) (env : sub_env) : option result := fut_run env NoOneshot (fut_steps m).

Definition request_methods : list string :=
  ["read_coils"; "read_discrete_inputs"; "read_holding_registers"; "read_input_registers";
   "write_single_coil"; "write_single_register"; "write_multiple_coils"; "write_multiple_registers"].
Definition validated (m : string) : bool :=
  existsb (String.eqb m) ["read_coils"; "read_discrete_inputs"; "read_holding_registers"; "read_input_registers"].

(* the channel task ends only when it is told to shut down *)
Definition exits_only_on_shutdown (l : list exit_cond) : bool :=
  forallb (fun e => match e with ExitOnShutdownOf _ => true | ExitOther _ => false end) l.
