(* C13: when, relative to the listener notifications, the connection is closed.

   `ClientLoop::run(&mut phys)` returning is the model output `OEnd e`.  The PhysLayer (the socket / the serial port) is
   owned by run_connection (TCP, TLS) / try_open_and_run (serial); Gen/ClientScope.v records, for every arm of the match on
   `e`, the order of drop(phys) / listener.update / fail_requests_for until the owner returns, and checks that the callers'
   notifications (run_inner: Disabled, run: Shutdown) are made after the call has returned.

   `scan arm open o` walks a run's outputs: the connection is open from the Connected notification until the OEnd whose
   arm closes it before notifying anybody; every other notification must find it closed. *)
From Coq Require Import NArith List Bool.
From Rodbus Require Import Gen.SessionErrors Gen.ClientScope Spec.Lifecycle Model.ClientTask.
Import ListNotations.

(* the PhysLayer is gone before the arm notifies the listener or starts to wait *)
Definition closed_first (l : list scope_effect) : bool :=
  match l with
  | FxDrop :: _ | FxScopeEnd :: _ => true
  | FxNotify :: _ | FxWait :: _ => false
  | [] => true
  end.

(* (is the connection open afterwards, did every notification other than Connected find it closed) *)
Fixpoint scan (arm : session_error -> list scope_effect) (open : bool) (o : list output) : bool * bool :=
  match o with
  | [] => (open, true)
  | OListen LConnected :: r => scan arm true r
  | OListen _ :: r => let '(op, ok) := scan arm open r in (op, negb open && ok)
  | OEnd e :: r => scan arm (open && negb (closed_first (arm e))) r
  | _ :: r => scan arm open r
  end.

Definition notified_closed (arm : session_error -> list scope_effect) (o : list output) : bool := snd (scan arm false o).
