(* The C-ABI server as an instance of the verified server core.

   Base/ServerTypes.v `handler St` is the application interface of Model/Server.v (SessionTask::
   handle_frame, Request::get_reply, ...), parametric in an arbitrary handler state machine. Here St
   and the eight handler functions are those of ffi/rodbus-ffi/src/server.rs:

     struct RequestHandlerWrapper { database: Database, write_handler: ffi::WriteHandler }
     impl RequestHandler for RequestHandlerWrapper { read_* from the four maps (absent ->
       IllegalDataAddress); write_* call the application's C callback with &mut self.database and
       turn its WriteResult into the handler result (Gen/FfiTables.v write_wrappers + convert_to_result;
       a NULL callback -> IllegalFunction) }

   The application's C callbacks are arbitrary functions of an application state A (what `ctx`
   points to), the database (they receive `*mut Database` and may call any rodbus_database function on it)
   and the request's arguments, returning the new application state, the new database and a
   WriteResult. Definitions only. *)
From Coq Require Import NArith List String Bool.
From Rodbus Require Import Base.ServerTypes Base.Show Gen.FfiTables Model.Ffi Model.DbTypes Model.Database.
From Rodbus Require Spec.FfiWireSpec.
Import ListNotations.
Local Open Scope N_scope.

(* WriteResult { success, exception, raw_exception } *)
Definition c_result := (bool * ffi_modbus_exception * N)%type.

Section App.
Variable A : Type.

Record c_write_handler := {
  c_write_single_coil : option (A -> database -> N -> bool -> A * database * c_result);
  c_write_single_register : option (A -> database -> N -> N -> A * database * c_result);
  (* start address and the items the iterator yields *)
  c_write_multiple_coils : option (A -> database -> N -> list (N * bool) -> A * database * c_result);
  c_write_multiple_registers : option (A -> database -> N -> list (N * N) -> A * database * c_result) }.

(* one unit of the device map: its database and whatever its callbacks' ctx points to *)
Definition unit_state := (database * A)%type.

Definition wrapper_of (method : string) : option write_wrapper :=
  find (fun w => String.eqb (ww_method w) method) write_wrappers.

(* the tail of a RequestHandlerWrapper write method: `cb` = what the C callback did (None = pointer
   not set); the handler result is the generated arm applied to the WriteResult, as the exception
   byte (None = Ok(())). A generated arm the model does not understand yields code 0 so that the
   system theorems cannot be proved over it. *)
Definition finish_write (method : string) (st : unit_state) (cb : option (A * database * c_result)) : unit_state * option N :=
  let st' := match cb with Some (a', d', _) => (d', a') | None => st end in
  let res := match wrapper_of method with
             | Some w => match wrapper_result w (option_map snd cb) with
                         | Some r => reply_exception_byte r
                         | None => Some 0
                         end
             | None => Some 0
             end in
  (st', res).

Variable W : c_write_handler.

Definition ffi_handler : handler unit_state := {|
  ServerTypes.read_coil := fun st a => Database.read_coil (fst st) a;
  ServerTypes.read_discrete_input := fun st a => Database.read_discrete_input (fst st) a;
  ServerTypes.read_holding_register := fun st a => Database.read_holding_register (fst st) a;
  ServerTypes.read_input_register := fun st a => Database.read_input_register (fst st) a;
  ServerTypes.write_single_coil := fun st i v =>
    finish_write "write_single_coil" st (option_map (fun f => f (snd st) (fst st) i v) (c_write_single_coil W));
  ServerTypes.write_single_register := fun st i v =>
    finish_write "write_single_register" st (option_map (fun f => f (snd st) (fst st) i v) (c_write_single_register W));
  ServerTypes.write_multiple_coils := fun st start _count items =>
    finish_write "write_multiple_coils" st (option_map (fun f => f (snd st) (fst st) start items) (c_write_multiple_coils W));
  ServerTypes.write_multiple_registers := fun st start _count items =>
    finish_write "write_multiple_registers" st (option_map (fun f => f (snd st) (fst st) start items) (c_write_multiple_registers W))
|}.
End App.

Arguments c_write_single_coil {A}. Arguments c_write_single_register {A}.
Arguments c_write_multiple_coils {A}. Arguments c_write_multiple_registers {A}.
Arguments ffi_handler {A}. Arguments finish_write {A}.

(* ---------------------------------------------------------------- a programmable application *)
(* The application used by the correspondence check (mirrored by harness/src/cmd/ffi_wire.rs): its
   write callbacks store what they are given with the rodbus_database_update functions and answer by address:
     address < 100        : update the point; success iff the point exists, else IllegalDataAddress
     100 <= address < 110 : no change; failure with the (address-100)-th standard exception
     110 <= address < 366 : no change; failure with exception Unknown and raw code address-110
     address >= 366       : add-or-update the point (rodbus_database_add, then update); success
   write-multiple applies this to every item in order and reports the first failure (earlier items
   stay written: the callback does not roll back). The application state counts the callbacks. *)
Definition std_exceptions : list ffi_modbus_exception :=
  [FME_IllegalFunction; FME_IllegalDataAddress; FME_IllegalDataValue; FME_ServerDeviceFailure; FME_Acknowledge;
   FME_ServerDeviceBusy; FME_MemoryParityError; FME_GatewayPathUnavailable; FME_GatewayTargetDeviceFailedToRespond; FME_Unknown].

Definition c_ok : c_result := (true, FME_Unknown, 0).

Definition prog_point (t : ptype) (d : database) (i : N) (v : value) : database * c_result :=
  if i <? 100 then
    let '(d', r) := exec d (Update t i v) in
    (d', match r with RBool true => c_ok | _ => (false, FME_IllegalDataAddress, 0) end)
  else if i <? 110 then (d, (false, nth (N.to_nat (i - 100)) std_exceptions FME_Unknown, 0))
  else if i <? 366 then (d, (false, FME_Unknown, i - 110))
  else
    let d1 := fst (exec d (Add t i v)) in
    (fst (exec d1 (Update t i v)), c_ok).

Fixpoint prog_points (t : ptype) (d : database) (items : list (N * value)) : database * c_result :=
  match items with
  | [] => (d, c_ok)
  | (i, v) :: rest =>
      let '(d1, r) := prog_point t d i v in
      match r with
      | (true, _, _) => prog_points t d1 rest
      | _ => (d1, r)
      end
  end.

Definition prog_handler : c_write_handler N := {|
  c_write_single_coil := Some (fun n d i v => let '(d', r) := prog_point Coil d i (VBit v) in (n + 1, d', r));
  c_write_single_register := Some (fun n d i v => let '(d', r) := prog_point Holding d i (VReg v) in (n + 1, d', r));
  c_write_multiple_coils := Some (fun n d _ items =>
    let '(d', r) := prog_points Coil d (map (fun p => (fst p, VBit (snd p))) items) in (n + 1, d', r));
  c_write_multiple_registers := Some (fun n d _ items =>
    let '(d', r) := prog_points Holding d (map (fun p => (fst p, VReg (snd p))) items) in (n + 1, d', r))
|}.

(* the richer programmable application of Spec/FfiWireSpec.v (write callbacks that also change discrete inputs and
   input registers) as C callbacks: the exception NAME of its WriteResult becomes the C enum value of that name *)
Definition fme_of_name (name : string) : ffi_modbus_exception :=
  match find (fun e => String.eqb (name_ffi_modbus_exception e) name) all_ffi_modbus_exception with
  | Some e => e
  | None => FME_Unknown
  end.
Definition c_of_sp (r : FfiWireSpec.sp_result) : c_result := let '(s, name, raw) := r in (s, fme_of_name name, raw).

Definition prog2_handler : c_write_handler N := {|
  c_write_single_coil := Some (fun n d i v => let '(d', r) := FfiWireSpec.prog2_point Coil d i (VBit v) in (n + 1, d', c_of_sp r));
  c_write_single_register := Some (fun n d i v => let '(d', r) := FfiWireSpec.prog2_point Holding d i (VReg v) in (n + 1, d', c_of_sp r));
  c_write_multiple_coils := Some (fun n d _ items =>
    let '(d', r) := FfiWireSpec.prog2_points Coil d (map (fun p => (fst p, VBit (snd p))) items) in (n + 1, d', c_of_sp r));
  c_write_multiple_registers := Some (fun n d _ items =>
    let '(d', r) := FfiWireSpec.prog2_points Holding d (map (fun p => (fst p, VReg (snd p))) items) in (n + 1, d', c_of_sp r))
|}.

(* an application that sets no callback at all *)
Definition null_handler : c_write_handler N := {|
  c_write_single_coil := None; c_write_single_register := None;
  c_write_multiple_coils := None; c_write_multiple_registers := None |}.

(* ---------------------------------------------------------------- the authorization wrapper as a policy of the core *)
(* AuthorizationHandlerWrapper (ONE object per server, shared by all its sessions) turns the application's eight C
   authorization callbacks into the core's `policy` (Base/ServerTypes.v: kind -> unit id -> argument -> role -> bool).
   A C callback sees (unit id, range or index, role string) and answers Allow / Deny; a NULL callback denies.
   The generated rows (Gen/FfiTables.authz_wrappers) say where each argument comes from; a row whose role is NOT the
   role parameter of the very call is interpreted with a role the policy cannot know (modelled as the empty role), so
   that the role theorems cannot be proved over it. *)
Definition c_authz_handler := kind -> option (N -> auth_arg -> role -> bool).

Definition method_of_kind (k : kind) : string :=
  match k with
  | KReadCoils => "read_coils" | KReadDiscreteInputs => "read_discrete_inputs"
  | KReadHoldingRegisters => "read_holding_registers" | KReadInputRegisters => "read_input_registers"
  | KWriteSingleCoil => "write_single_coil" | KWriteSingleRegister => "write_single_register"
  | KWriteMultipleCoils => "write_multiple_coils" | KWriteMultipleRegisters => "write_multiple_registers"
  end%string.

Definition authz_row (k : kind) : option authz_wrapper :=
  find (fun w => String.eqb (aw_method w) (method_of_kind k)) authz_wrappers.

Definition ffi_policy (C : c_authz_handler) : policy := fun k u arg r =>
  match authz_row k with
  | None => false
  | Some w =>
      let shown := match aw_role w with RoleOfThisCall => r | OtherRoleSource _ => [] end in
      match (if String.eqb (aw_callback w) (aw_method w) then C k else None) with
      | Some f => f u arg shown
      | None => negb (aw_unset_denies w) && false
      end
  end.
