(* Model of rodbus's own TLS logic (rodbus/src/tcp/tls/{mod,client,server}.rs, tcp/server.rs
   run_session, tcp/client.rs try_connect_and_run):
   - which protocol versions a configured minimum enables    (table: Gen/TlsVersions.v)
   - which verifier a certificate mode selects, with which name check (tables: Gen/TlsModes.v)
   - role extraction from the peer certificate's extensions    (extract_modbus_role)
   - the order handshake -> role -> session                    (session-establishment system)
   Chain building, signatures, validity period, name matching and the byte comparison are done by
   rustls / webpki / sfio-rustls-config, outside the repository: they enter as the three oracles
   of Section Handshake. *)
From Coq Require Import List String Bool NArith.
From Rodbus Require Import Base.Outcome Spec.TlsSpec Gen.TlsVersions Gen.TlsModes.
Import ListNotations.

(* the documented meaning of the enum variants ("/// TLS 1.2", "/// TLS 1.3") *)
Definition min_meaning (m : min_tls_version) : tls_version := match m with V1_2 => TLS12 | V1_3 => TLS13 end.
Definition mode_meaning (m : certificate_mode) : cert_mode := match m with AuthorityBased => ModeAuthority | SelfSigned => ModeSelfSigned end.

(* sfio_rustls_config::ProtocolVersions as (v1_2, v1_3) *)
Definition enabled (vs : bool * bool) (v : tls_version) : bool := match v with TLS12 => fst vs | TLS13 => snd vs end.

(* rustls picks the highest version enabled on both sides *)
Definition negotiate (vs : bool * bool) (p : peer) : option tls_version :=
  if enabled vs TLS13 && offers13 p then Some TLS13
  else if enabled vs TLS12 && offers12 p then Some TLS12
  else None.

(* ---- tcp/tls/server.rs: extract_modbus_role *)
Inductive role_error := NoExtensions | NoRoleExtension | MoreThanOneRole.

Definition extract_role (exts : option (list extension)) : outcome role_error string :=
  match exts with
  | None => Err NoExtensions                                  (* .extensions.as_ref().ok_or_else(..) *)
  | Some l =>
      let it := roles_of l in                                 (* filter_map ModbusRole(role) => Some(role.role) *)
      match it with
      | [] => Err NoRoleExtension                             (* it.next().ok_or_else(..) *)
      | role :: rest =>
          match rest with
          | _ :: _ => Err MoreThanOneRole                     (* if it.next().is_some() *)
          | [] => Ok role
          end
      end
  end.

Section Handshake.
  (* outside the repository *)
  Variable chain_verifier : peer_cert -> bool.        (* WebPkiServerVerifier / WebPkiClientVerifier: chain, signatures, validity *)
  Variable name_verifier : peer_cert -> bool.         (* SAN-or-CN match against the configured server name *)
  Variable self_signed_verifier : peer_cert -> bool.  (* SelfSignedVerifier: byte-identical and within validity *)

  Definition verifier_accepts (u : ctor_use) (c : peer_cert) : bool :=
    let '(ctor, narg, _) := u in
    match ctor with
    | SfioAuthority =>
        chain_verifier c &&
        match narg with
        | ServerSanOrCommonName | ServerSanExtOnly => name_verifier c
        | ServerNameDisabled | ClientNameNone | NoNameArg => true
        end
    | SfioSelfSigned => self_signed_verifier c
    end.

  (* TlsServerConfig::new + handle_connection *)
  Definition server_handshake (min : min_tls_version) (mode : certificate_mode) (authz : bool) (p : peer) : result :=
    match negotiate (versions_of min) p with
    | None => Refused
    | Some v =>
        if verifier_accepts (server_new mode) (presented p) then        (* connector.accept(socket).await *)
          if authz then
            match extract_role (cert_exts (presented p)) with
            | Ok role => Established v (Some role)                       (* AuthorizationType::Handler(handler, role) *)
            | _ => Refused                                               (* Err(..)?: connection dropped *)
            end
          else Established v None                                        (* AuthorizationType::None *)
        else Refused
    end.

  (* TlsClientConfig::full_pki / self_signed + handle_connection *)
  Definition client_use (mode : certificate_mode) (name_given : bool) : ctor_use :=
    match mode with AuthorityBased => client_full_pki name_given | SelfSigned => client_self_signed end.

  Definition client_handshake (min : min_tls_version) (mode : certificate_mode) (name_given : bool) (p : peer) : result :=
    match negotiate (versions_of min) p with
    | None => Refused
    | Some v => if verifier_accepts (client_use mode name_given) (presented p) then Established v None else Refused
    end.
End Handshake.

(* the oracles instantiated with the ground truth (what rustls/webpki are trusted to compute) *)
Definition true_chain (c : peer_cert) : bool := chains_to_authority c && within_validity c.
Definition true_name (c : peer_cert) : bool := name_matches c.
Definition true_self_signed (c : peer_cert) : bool := identical_to_configured c && within_validity c.

Definition endpoint_of (s : side) (min : min_tls_version) (mode : certificate_mode) (authz name_given : bool) : endpoint :=
  {| e_side := s; e_min := min_meaning min; e_mode := mode_meaning mode; e_authz := authz; e_expects_name := name_given |}.

Definition handshake (s : side) (min : min_tls_version) (mode : certificate_mode) (authz name_given : bool) (p : peer) : result :=
  match s with
  | ServerSide => server_handshake true_chain true_name true_self_signed min mode authz p
  | ClientSide => client_handshake true_chain true_name true_self_signed min mode name_given p
  end.

(* ---- session establishment: tcp/server.rs run_session (handler.handle(socket).await, then
   SessionTask::run) and tcp/client.rs try_connect_and_run (connection_handler.handle, then
   run_connection). Atomic steps = await points. *)
Inductive phase := AwaitHandshake | InSession (role : option string) | Finished.

Inductive sevent :=
| BytesFromPeer (n : nat)                 (* the peer sent n bytes *)
| HandshakeDone (r : result)              (* the handshake future resolved (Refused = Err) *)
| PeerClosed.

Inductive slog :=
| FrameParsed (n : nat)
| AuthCall (role : string) (n : nat)
| HandlerCall (n : nat)
| Dropped.

Definition sstep (ph : phase) (e : sevent) : phase * list slog :=
  match ph, e with
  | AwaitHandshake, BytesFromPeer _ => (AwaitHandshake, [])        (* consumed by rustls, the Modbus reader does not exist yet *)
  | AwaitHandshake, HandshakeDone (Established _ role) => (InSession role, [])
  | AwaitHandshake, HandshakeDone Refused => (Finished, [Dropped])
  | AwaitHandshake, PeerClosed => (Finished, [Dropped])
  | InSession role, BytesFromPeer n =>
      (InSession role, FrameParsed n :: match role with Some r => [AuthCall r n] | None => [] end ++ [HandlerCall n])
  | InSession role, HandshakeDone _ => (InSession role, [])
  | InSession _, PeerClosed => (Finished, [Dropped])
  | Finished, _ => (Finished, [])
  end.

Fixpoint srun (ph : phase) (evs : list sevent) : phase * list slog :=
  match evs with
  | [] => (ph, [])
  | e :: r => let '(ph1, l1) := sstep ph e in let '(ph2, l2) := srun ph1 r in (ph2, l1 ++ l2)
  end.

Definition is_modbus_activity (l : slog) : bool := match l with Dropped => false | _ => true end.
