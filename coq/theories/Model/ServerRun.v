(* SessionTask::run with its command channel: the transition system of Base/ServerRun.v over the
   model of SessionTask::handle_frame. apply_command: ChangeDecoding(level) => self.decode = level;
   Shutdown => Err(Shutdown). write_reply: see Base/ServerRun.v. The decode level is session state
   that only the logging code reads (C20); nothing in handle_frame's result depends on it. *)
From Coq Require Import NArith List.
From Rodbus Require Import Base.Outcome Base.ServerTypes Base.ServerRun Model.Retry Model.RtuServerLoop Model.Server.
Import ListNotations.

Section SRun.
Context {St : Type}.
Variable H : handler St.

Definition session_run (l : link) (a : auth) (units : ucfg St) (decode : N) (evs : list sevent)
  : list (list N) * ucfg St * list event * N * run_end serr :=
  ServerRun.run (handle_frame H l a) units decode MIdle evs.

(* serial/server.rs: RtuServerTask::run over the serial session (no authorization on serial links) *)
Definition rtu_server_task (units : ucfg St) (decode : N) (retry : doubling) (eps : list episode) :=
  rtu_task (handle_frame H LRtu NoAuth) units decode retry eps.
End SRun.
