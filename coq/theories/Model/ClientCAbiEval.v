(* Evaluation glue for the C-ABI family of lib/checks/c03.py (kept apart from Model/ClientShow.v so that
   the other correspondences do not depend on Gen/FfiTables.v). *)
From Coq Require Import NArith List Bool String.
From Rodbus Require Import Base.Show Base.ClientTypes Model.Format Model.ClientShow Model.ClientCAbi Spec.ClientCodecSpec.
Import ListNotations.
Local Open Scope string_scope.
Local Open Scope N_scope.

(* ---- C03 through the C ABI: one caller-owned list through add / write steps:
   (coils?, [inl values | inr (unit, start)]); the wire log of the model and of the Spec ---- *)
Definition cabi_list_case := (bool * list (list N + N * N))%type.
Definition run_cabi_list_case (x : cabi_list_case) : string :=
  let '(coils, steps) := x in
  let bsteps := map (fun st : list N + N * N => match st with inl vs => inl (map (fun v => negb (v =? 0)) vs) | inr p => inr p end) steps in
  if coils
  then both (show_list show_bytes "," (cabi_coil_list_wire Tcp bsteps))
            (show_list show_bytes "," (ref_session_wire true 0 (ref_list_calls CWriteMultipleCoils [] bsteps)))
  else both (show_list show_bytes "," (cabi_register_list_wire Tcp steps))
            (show_list show_bytes "," (ref_session_wire true 0 (ref_list_calls CWriteMultipleRegisters [] steps))).

