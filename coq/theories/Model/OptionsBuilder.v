(* Model of the ClientOptions builder (types.rs), driven by the generated table Gen/ClientOptions.v.

   A ClientOptions value is its fields; a builder call `o.m(v)` is the Rust struct-update expression
   `Self { field: v, ..base }`: field := v, every other field taken from `base` - which the TABLE says is
   `self` or `Self::default()` for each method.  Values are codes (N): integers are themselves, None and a type's
   own default are 0. *)
From Coq Require Import NArith List String.
From Rodbus Require Import Base.Show Gen.ClientOptions.
Import ListNotations.

Definition options := opt_field -> N.
Definition default_options : options := field_default.            (* impl Default for ClientOptions *)
Definition call := (builder * N)%type.

Definition set_field (o : options) (f : opt_field) (v : N) : options := fun g => if field_eqb g f then v else o g.

Definition apply_builder (o : options) (c : call) : options :=
  set_field (match builder_base (fst c) with BaseSelf => o | BaseDefault => default_options end) (builder_field (fst c)) (snd c).

(* ClientOptions::default().m1(v1).m2(v2)... *)
Definition build (cs : list call) : options := fold_left apply_builder cs default_options.

(* what TcpChannelTask::new hands to ClientLoop::new / TimeoutCounter::new *)
Definition limit_of (o : options) : option N := match o tcp_limit_field with 0%N => None | n => Some n end.

Definition named (cs : list call) : list (string * N) := map (fun c => (builder_name (fst c), snd c)) cs.

Local Open Scope string_scope.
Definition show_options (o : options) : string :=
  String.concat " " (map (fun f => field_name f ++ "=" ++ show_N (o f)) all_fields).
