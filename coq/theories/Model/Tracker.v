(* Model of rodbus/src/tcp/server.rs: SessionTracker (new / get_next_id / add / remove) and the
   accept loop of ServerTask::run, as a transition system over the loop's select! branches plus the
   two things a session task can do on its own (end because of its peer; deliver a request to the
   handler).

   BTreeMap<u128, Sender<ServerCommand>> is a list of (id, alive) sorted by id; `alive` is ghost
   state: the session task at the receiving end of that sender is still running - in the TLS handshake
   (run_session selects between the handshake and the command channel) or in SessionTask::run.
   Dropping a sender (eviction, removal, dropping the whole tracker) ends the task behind it in
   either phase: that is the `Closed` output. `self.id += 1` is u128 arithmetic with overflow checks on: the overflow is `None`. *)
From Coq Require Import NArith List Bool Arith.
Import ListNotations.
Local Open Scope N_scope.

Definition u128_max : N := 2 ^ 128 - 1.

Record tracker := { max_sessions : nat; next_id : N; sessions : list (N * bool) }.

(* SessionTracker::new: 0 is replaced by 1 *)
Definition tracker_new (m : nat) : tracker :=
  {| max_sessions := match m with O => 1%nat | _ => m end; next_id := 0; sessions := [] |}.

(* BTreeMap::insert *)
Fixpoint insert (id : N) (a : bool) (l : list (N * bool)) : list (N * bool) :=
  match l with
  | [] => [(id, a)]
  | (j, b) :: r => if id <? j then (id, a) :: l
                   else if id =? j then (id, a) :: r
                   else (j, b) :: insert id a r
  end.

(* BTreeMap::remove *)
Definition remove_id (id : N) (l : list (N * bool)) : list (N * bool) :=
  filter (fun p => negb (fst p =? id)) l.

(* SessionTracker::get_next_id *)
Definition get_next_id (t : tracker) : option (N * tracker) :=
  if next_id t =? u128_max then None
  else Some (next_id t, {| max_sessions := max_sessions t; next_id := next_id t + 1; sessions := sessions t |}).

(* SessionTracker::add: returns (tracker, new id, evicted entry) *)
Definition add (t : tracker) : option (tracker * N * option (N * bool)) :=
  let '(sess, evicted) :=
    if (max_sessions t <=? length (sessions t))%nat then
      match sessions t with                       (* self.sessions.keys().next().copied() *)
      | (oldest, a) :: _ => (remove_id oldest (sessions t), Some (oldest, a))
      | [] => (sessions t, None)
      end
    else (sessions t, None) in
  match get_next_id {| max_sessions := max_sessions t; next_id := next_id t; sessions := sess |} with
  | None => None
  | Some (id, t1) =>
      Some ({| max_sessions := max_sessions t1; next_id := next_id t1; sessions := insert id true (sessions t1) |},
            id, evicted)
  end.

(* SessionTracker::remove *)
Definition remove (t : tracker) (id : N) : tracker :=
  {| max_sessions := max_sessions t; next_id := next_id t; sessions := remove_id id (sessions t) |}.

(* ---------------------------------------------------------------------------------------------
   The server as a system: accept loop + session tasks. *)
Inductive event :=
| Accept (filter_ok : bool)        (* listener.accept() returned a socket; filter.matches(addr) *)
| SessionEnded (id : N)            (* self.rx.recv(): SessionClose(id) arrived -> tracker.remove(id) *)
| Command                          (* Some(ChangeDecoding(..)) on the command queue *)
| Shutdown                         (* Some(ServerCommand::Shutdown) *)
| HandleDropped                    (* commands.recv() = None *)
| PeerGone (id : N)                (* session task `id` returned on its own: EOF, I/O error, bad frame *)
| Request (id v : N).              (* session task `id` parsed a write request carrying v *)

Inductive output :=
| Spawned (id : N)                 (* tokio::spawn(session) *)
| Closed (id : N)                  (* the sender of a running session was dropped: it ends, socket closed *)
| Rejected                         (* filter mismatch: socket dropped, no session *)
| Forwarded (id : N)               (* command sent to session id *)
| HandlerCall (id v : N)           (* the request handler was invoked by session id *)
| ListenerClosed.                  (* run returned: listener and tracker dropped *)

Record server := { trk : tracker; running : bool; store : N }.

Definition init (m : nat) : server := {| trk := tracker_new m; running := true; store := 0 |}.

Definition live_ids (l : list (N * bool)) : list N := map fst (filter snd l).
Definition alive (s : server) (id : N) : bool := existsb (N.eqb id) (live_ids (sessions (trk s))).

Definition mark_dead (id : N) (l : list (N * bool)) : list (N * bool) :=
  map (fun p => if fst p =? id then (fst p, false) else p) l.

Definition closed_of (e : option (N * bool)) : list output :=
  match e with Some (id, true) => [Closed id] | _ => [] end.

Definition with_sessions (s : server) (l : list (N * bool)) : server :=
  {| trk := {| max_sessions := max_sessions (trk s); next_id := next_id (trk s); sessions := l |};
     running := running s; store := store s |}.

Definition step (s : server) (e : event) : option (server * list output) :=
  if negb (running s) then Some (s, [])        (* the task has returned: nothing is processed any more *)
  else match e with
  | Accept false => Some (s, [Rejected])
  | Accept true =>
      match add (trk s) with
      | None => None
      | Some (t', id, ev) => Some ({| trk := t'; running := true; store := store s |}, closed_of ev ++ [Spawned id])
      end
  | SessionEnded id =>
      Some ({| trk := remove (trk s) id; running := true; store := store s |},
            if alive s id then [Closed id] else [])
  | Command => Some (s, map Forwarded (live_ids (sessions (trk s))))
  | Shutdown | HandleDropped =>
      Some ({| trk := {| max_sessions := max_sessions (trk s); next_id := next_id (trk s); sessions := [] |};
               running := false; store := store s |},
            map Closed (live_ids (sessions (trk s))) ++ [ListenerClosed])
  | PeerGone id => Some (with_sessions s (mark_dead id (sessions (trk s))), [])
  | Request id v =>
      if alive s id then Some ({| trk := trk s; running := running s; store := v |}, [HandlerCall id v])
      else Some (s, [])
  end.

Fixpoint run (s : server) (evs : list event) : option (server * list output) :=
  match evs with
  | [] => Some (s, [])
  | e :: r => match step s e with
              | None => None
              | Some (s1, o1) => match run s1 r with
                                 | None => None
                                 | Some (s2, o2) => Some (s2, o1 ++ o2)
                                 end
              end
  end.

(* ---------------------------------------------------------------------------------------------
   The property's alphabet (what a peer / the application can do) and how the system reacts when
   the session-end notification is processed before the next operation ("prompt" schedules; the
   correspondence check waits for quiescence between operations). A client close and garbage both
   make the session task return on its own (EOF / BadFrame), which is then notified. *)
Inductive sop :=
| Connect
| ConnectSilent            (* TLS server: a peer that connects and never starts the handshake *)
| ClientClose (k : N)
| Garbage (k : N)
| Req (k v : N)
| Flood (k : N)            (* client k pipelines requests and never reads: its session blocks in a reply write *)
| Park (k : N)             (* client k sends a request whose application handler does not return until Release *)
| Release                  (* the parked handlers return: the outstanding transactions complete *)
| SetDecode
| Stop
| DropHandle.

Definition expand (o : sop) : list event :=
  match o with
  | Connect | ConnectSilent => [Accept true]   (* a session in its TLS handshake is an ordinary tracked session:
                                                   run_session selects on the command channel while it waits *)
  | ClientClose k | Garbage k => [PeerGone k; SessionEnded k]
  | Req k v => [Request k v]
  | Flood _ => []          (* nothing the tracker or the accept loop sees: the session is still a running session
                              (SessionTask races every reply write against its command channel) *)
  | Park _ | Release => [] (* a session inside a transaction is still a running session; commands queue up for it *)
  | SetDecode => [Command]
  | Stop => [Shutdown]
  | DropHandle => [HandleDropped]
  end.

(* what the correspondence observes: which sessions answer, whether the port accepts, the value *)
Definition view (s : server) : list N * bool * N := (live_ids (sessions (trk s)), running s, store s).

(* views after every operation of a script *)
Fixpoint trace (s : server) (ops : list sop) : option (list (list N * bool * N)) :=
  match ops with
  | [] => Some []
  | o :: r => match run s (expand o) with
              | None => None
              | Some (s1, _) => match trace s1 r with None => None | Some t => Some (view s1 :: t) end
              end
  end.
