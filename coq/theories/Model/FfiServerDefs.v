(* Vocabulary of the C-ABI system theorems (Proofs/FfiServerSystemProofs.v): what the application's
   C callback did for a write request, what of it the client is entitled to see, and the
   projections of a session result. Definitions only. *)
From Coq Require Import NArith List String Bool.
From Rodbus Require Import Base.ServerTypes Gen.FfiTables Model.Server Spec.Modbus.
From Rodbus Require Model.Database Model.FfiServer.
Import ListNotations.
Local Open Scope N_scope.

Notation database := Database.database.
Notation c_result := FfiServer.c_result.
Notation c_write_handler := FfiServer.c_write_handler.

Section Defs.
Context {A : Type}.

(* the C callback the write request r reaches, run on the application state and the database of
   the addressed unit: None = that callback pointer is not set (or r is not a write); otherwise
   the new application state, the new database and the WriteResult *)
Definition callback_outcome (W : c_write_handler A) (app : A) (d : database) (r : Modbus.request)
  : option (A * database * c_result) :=
  match r with
  | WriteSingleCoil a v => option_map (fun f => f app d a v) (FfiServer.c_write_single_coil W)
  | WriteSingleRegister a v => option_map (fun f => f app d a v) (FfiServer.c_write_single_register W)
  | WriteMultipleCoils s vs => option_map (fun f => f app d s (indexed s vs)) (FfiServer.c_write_multiple_coils W)
  | WriteMultipleRegisters s vs => option_map (fun f => f app d s (indexed s vs)) (FfiServer.c_write_multiple_registers W)
  | _ => None
  end.

(* the WriteResult as (success, exception NAME, raw code): the argument of Spec.FfiServerSpec.write_pdu *)
Definition client_view (x : A * database * c_result) : bool * string * N :=
  let '(_, _, (s, e, raw)) := x in (s, name_ffi_modbus_exception e, raw).

(* the unit's state after the callback ran: whatever the callback left, whatever it answered *)
Definition state_after (d : database) (app : A) (cb : option (A * database * c_result)) : database * A :=
  match cb with Some (app', d', _) => (d', app') | None => (d, app) end.
End Defs.

(* projections of a session result (replies, units, log, end) *)
Definition replies_of {A B C D} (x : A * B * C * D) : A := fst (fst (fst x)).
Definition final_units_of {A B C D} (x : A * B * C * D) : B := snd (fst (fst x)).

(* the unit map when the k-th frame (counting from 0) of a connection is taken up, as the CODE
   model computes it: the final unit map of the session over the first k frames *)
Definition units_before {St} (H : handler St) (l : link) (a : auth) (units : list (N * St)) (frames : list frame) (k : nat)
  : list (N * St) :=
  final_units_of (session H l a units (firstn k frames)).
