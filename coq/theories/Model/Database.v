(* Model of ffi/rodbus-ffi/src/database.rs (the C-ABI point database) and of the four `read_*`
   methods of `RequestHandlerWrapper` in ffi/rodbus-ffi/src/server.rs, together with the loop of
   `BitWriter::serialize` / `RegisterWriter::serialize` (rodbus/src/common/serialize.rs) that
   answers a client read by calling the read method for every address of the range.

   A `HashMap<u16, T>` is an association list `list (N * T)`; a key is bound at most once because
   the only function that adds a binding (`add_entry`) does so only when the key is vacant.
   Indices and register values are N, coil values bool.  Definitions only.

   Not modelled here: the null-pointer branches of the FFI functions (`None => false` /
   `Err(NullParameter)`), and the validity of the requested range (start + count <= 65536 and the
   per-function count limits), which the server checks before the handler is consulted. *)
From Coq Require Import NArith List String Bool.
From Rodbus Require Import Gen.Consts Model.DbTypes.
Import ListNotations.
Local Open Scope N_scope.

(* ExceptionCode::IllegalDataAddress as a wire byte.
   Taken from the generated constants (Gen/Consts.v). *)
Definition exc_illegal_data_address : N := illegal_data_address.   (* Gen/Consts.v, regenerated from rodbus/src/constants.rs *)

(* ---- the generic helpers of database.rs ---- *)

(* map.get(&index).copied() *)
Fixpoint get_entry {T} (m : list (N * T)) (i : N) : option T :=
  match m with
  | [] => None
  | (k, x) :: r => if N.eqb k i then Some x else get_entry r i
  end.

(* if let Entry::Vacant(e) = map.entry(index) { e.insert(value); true } else { false } *)
Definition add_entry {T} (m : list (N * T)) (i : N) (v : T) : list (N * T) * bool :=
  match get_entry m i with
  | None => ((i, v) :: m, true)
  | Some _ => (m, false)
  end.

(* if let Entry::Occupied(mut e) = map.entry(index) { e.insert(value); true } else { false } *)
Fixpoint update_entry {T} (m : list (N * T)) (i : N) (v : T) : list (N * T) * bool :=
  match m with
  | [] => ([], false)
  | (k, x) :: r =>
      if N.eqb k i then ((k, v) :: r, true)
      else let (r', b) := update_entry r i v in ((k, x) :: r', b)
  end.

(* map.remove(&index).is_some(): every binding of the index goes (there is at most one) *)
Fixpoint remove_entry {T} (m : list (N * T)) (i : N) : list (N * T) * bool :=
  match m with
  | [] => ([], false)
  | (k, x) :: r =>
      let (r', b) := remove_entry r i in
      if N.eqb k i then (r', true) else ((k, x) :: r', b)
  end.

(* ---- struct Database ---- *)

Record database := {
  coils : list (N * bool);
  discrete : list (N * bool);
  holding : list (N * N);
  input : list (N * N)
}.

(* Database::new() *)
Definition db_empty : database := {| coils := []; discrete := []; holding := []; input := [] |}.

Definition set_coils (d : database) (m : list (N * bool)) : database :=
  {| coils := m; discrete := discrete d; holding := holding d; input := input d |}.
Definition set_discrete (d : database) (m : list (N * bool)) : database :=
  {| coils := coils d; discrete := m; holding := holding d; input := input d |}.
Definition set_holding (d : database) (m : list (N * N)) : database :=
  {| coils := coils d; discrete := discrete d; holding := m; input := input d |}.
Definition set_input (d : database) (m : list (N * N)) : database :=
  {| coils := coils d; discrete := discrete d; holding := holding d; input := m |}.

(* ---- the sixteen FFI functions (database: &mut Database is threaded through) ---- *)

Definition database_add_coil (d : database) (i : N) (v : bool) : database * bool :=
  let (m, r) := add_entry (coils d) i v in (set_coils d m, r).
Definition database_add_discrete_input (d : database) (i : N) (v : bool) : database * bool :=
  let (m, r) := add_entry (discrete d) i v in (set_discrete d m, r).
Definition database_add_holding_register (d : database) (i : N) (v : N) : database * bool :=
  let (m, r) := add_entry (holding d) i v in (set_holding d m, r).
Definition database_add_input_register (d : database) (i : N) (v : N) : database * bool :=
  let (m, r) := add_entry (input d) i v in (set_input d m, r).

Definition database_get_coil (d : database) (i : N) : option bool := get_entry (coils d) i.
Definition database_get_discrete_input (d : database) (i : N) : option bool := get_entry (discrete d) i.
Definition database_get_holding_register (d : database) (i : N) : option N := get_entry (holding d) i.
Definition database_get_input_register (d : database) (i : N) : option N := get_entry (input d) i.

Definition database_update_coil (d : database) (i : N) (v : bool) : database * bool :=
  let (m, r) := update_entry (coils d) i v in (set_coils d m, r).
Definition database_update_discrete_input (d : database) (i : N) (v : bool) : database * bool :=
  let (m, r) := update_entry (discrete d) i v in (set_discrete d m, r).
Definition database_update_holding_register (d : database) (i : N) (v : N) : database * bool :=
  let (m, r) := update_entry (holding d) i v in (set_holding d m, r).
Definition database_update_input_register (d : database) (i : N) (v : N) : database * bool :=
  let (m, r) := update_entry (input d) i v in (set_input d m, r).

Definition database_delete_coil (d : database) (i : N) : database * bool :=
  let (m, r) := remove_entry (coils d) i in (set_coils d m, r).
Definition database_delete_discrete_input (d : database) (i : N) : database * bool :=
  let (m, r) := remove_entry (discrete d) i in (set_discrete d m, r).
Definition database_delete_holding_register (d : database) (i : N) : database * bool :=
  let (m, r) := remove_entry (holding d) i in (set_holding d m, r).
Definition database_delete_input_register (d : database) (i : N) : database * bool :=
  let (m, r) := remove_entry (input d) i in (set_input d m, r).

(* ---- server.rs: RequestHandler for RequestHandlerWrapper; inr = Err(ExceptionCode) ---- *)

Definition read_point {T} (m : list (N * T)) (address : N) : T + N :=
  match get_entry m address with
  | Some x => inl x
  | None => inr exc_illegal_data_address
  end.

Definition read_coil (d : database) (address : N) : bool + N := read_point (coils d) address.
Definition read_discrete_input (d : database) (address : N) : bool + N := read_point (discrete d) address.
Definition read_holding_register (d : database) (address : N) : N + N := read_point (holding d) address.
Definition read_input_register (d : database) (address : N) : N + N := read_point (input d) address.

(* serialize.rs, BitWriter / RegisterWriter:
     for address in range.iter() { let value = (self.getter)(address)?; ... }
   addresses start, start+1, ... in ascending order; the first Err aborts and becomes the reply. *)
Fixpoint read_range {T} (getter : N -> T + N) (start : N) (count : nat) : list T + N :=
  match count with
  | O => inl []
  | S c =>
      match getter start with
      | inr e => inr e
      | inl x =>
          match read_range getter (start + 1) c with
          | inr e => inr e
          | inl xs => inl (x :: xs)
          end
      end
  end.

Definition reply_map {T} (f : T -> value) (r : list T + N) : list value + N :=
  match r with
  | inl xs => inl (map f xs)
  | inr e => inr e
  end.

Definition read_reply (d : database) (t : ptype) (start : N) (count : nat) : list value + N :=
  match t with
  | Coil => reply_map VBit (read_range (read_coil d) start count)
  | Discrete => reply_map VBit (read_range (read_discrete_input d) start count)
  | Holding => reply_map VReg (read_range (read_holding_register d) start count)
  | Input => reply_map VReg (read_range (read_input_register d) start count)
  end.

(* ---- one operation / a sequence of operations ---- *)

Definition ret_bool (x : database * bool) : database * result := (fst x, RBool (snd x)).

(* An operation whose value has the wrong type for its point type has no counterpart in the Rust
   API (see DbTypes.op_ok); it is given the inert meaning "nothing happens, false". *)
Definition exec (d : database) (o : op) : database * result :=
  match o with
  | Add t i v =>
      match t, v with
      | Coil, VBit b => ret_bool (database_add_coil d i b)
      | Discrete, VBit b => ret_bool (database_add_discrete_input d i b)
      | Holding, VReg r => ret_bool (database_add_holding_register d i r)
      | Input, VReg r => ret_bool (database_add_input_register d i r)
      | _, _ => (d, RBool false)
      end
  | Update t i v =>
      match t, v with
      | Coil, VBit b => ret_bool (database_update_coil d i b)
      | Discrete, VBit b => ret_bool (database_update_discrete_input d i b)
      | Holding, VReg r => ret_bool (database_update_holding_register d i r)
      | Input, VReg r => ret_bool (database_update_input_register d i r)
      | _, _ => (d, RBool false)
      end
  | Delete t i =>
      match t with
      | Coil => ret_bool (database_delete_coil d i)
      | Discrete => ret_bool (database_delete_discrete_input d i)
      | Holding => ret_bool (database_delete_holding_register d i)
      | Input => ret_bool (database_delete_input_register d i)
      end
  | Get t i =>
      match t with
      | Coil => (d, RGet (option_map VBit (database_get_coil d i)))
      | Discrete => (d, RGet (option_map VBit (database_get_discrete_input d i)))
      | Holding => (d, RGet (option_map VReg (database_get_holding_register d i)))
      | Input => (d, RGet (option_map VReg (database_get_input_register d i)))
      end
  | Read t start count => (d, RRead (read_reply d t start count))
  end.

Fixpoint run (d : database) (ops : list op) : database * list result :=
  match ops with
  | [] => (d, [])
  | o :: r =>
      let (d1, x) := exec d o in
      let (d2, xs) := run d1 r in
      (d2, x :: xs)
  end.
