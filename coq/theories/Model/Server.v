(* The server side of rodbus from the frame level upwards, transcribed function by function:
   server/request.rs (Request::parse, get_function, into_broadcast_request, get_reply,
   BroadcastRequest::execute), common/parse.rs, types.rs (AddressIterator, BitIterator,
   RegisterIterator, coil_from_u16 / coil_to_u16), common/bits.rs, common/serialize.rs (BitWriter /
   RegisterWriter / AddressRange / Indexed / ExceptionCode serializers, calc_bytes_for_bits, calc_bytes_for_registers),
   common/frame.rs (FunctionField, FrameWriter::format_reply / format_ex / format_generic),
   server/task.rs (SessionTask::handle_frame, reply_with_error, reply_with_error_generic, AuthorizationType::is_authorized /
   check_authorization, the run loop at frame granularity).
   Definitions only. Application code (point handlers, policy) is a parameter. *)
From Coq Require Import NArith List Bool Arith.
From Rodbus Require Import Base.Outcome Base.Cursor Base.ServerTypes Model.Format Model.Range Gen.Consts Gen.AuthzTable.
Import ListNotations.
Local Open Scope N_scope.

(* RequestError classes that can come out of formatting a reply *)
Inductive serr :=
| EWrite                 (* Internal(InsufficientWriteSpace) *)
| EBadByteCount          (* Internal(BadByteCount) *)
| EExc (code : N).       (* Exception(code) raised by a getter inside a serializer *)

Definition fmt_of (l : link) : Format.framing := match l with LTcp => Format.Tcp | LRtu => Format.Rtu end.

(* ---------------------------------------------------------------- decoded requests *)
Inductive request :=
| RReadCoils (r : N * N) | RReadDiscreteInputs (r : N * N)
| RReadHoldingRegisters (r : N * N) | RReadInputRegisters (r : N * N)
| RWriteSingleCoil (idx : N) (v : bool) | RWriteSingleRegister (idx v : N)
| RWriteMultipleCoils (r : N * N) (bytes : list N)          (* WriteCoils { range, BitIterator { bytes, range, pos = 0 } } *)
| RWriteMultipleRegisters (r : N * N) (bytes : list N).

Definition get_function (r : request) : fcode :=
  match r with
  | RReadCoils _ => ReadCoils | RReadDiscreteInputs _ => ReadDiscreteInputs
  | RReadHoldingRegisters _ => ReadHoldingRegisters | RReadInputRegisters _ => ReadInputRegisters
  | RWriteSingleCoil _ _ => WriteSingleCoil | RWriteSingleRegister _ _ => WriteSingleRegister
  | RWriteMultipleCoils _ _ => WriteMultipleCoils | RWriteMultipleRegisters _ _ => WriteMultipleRegisters
  end.

(* types.rs *)
Definition coil_from_u16 (v : N) : option bool :=
  if v =? coil_on then Some true else if v =? coil_off then Some false else None.
Definition coil_to_u16 (b : bool) : N := if b then coil_on else coil_off.

(* common/bits.rs: (count as usize).div_ceil(8) *)
Definition num_bytes_for_bits (count : N) : nat := N.to_nat ((count + 7) / 8).

(* common/parse.rs. Every parse error is a None: the task answers all of them alike. *)
Definition parse_address_range (c : rcur) : option (N * N * rcur) :=
  match rd_u16 c with None => None | Some (s, c1) =>
  match rd_u16 c1 with None => None | Some (n, c2) =>
  match try_from s n with inl _ => None | inr r => Some (r, c2) end end end.

Definition parse_indexed_bool (c : rcur) : option (N * bool * rcur) :=
  match rd_u16 c with None => None | Some (i, c1) =>
  match rd_u16 c1 with None => None | Some (v, c2) =>
  match coil_from_u16 v with None => None | Some b => Some (i, b, c2) end end end.

Definition parse_indexed_u16 (c : rcur) : option (N * N * rcur) :=
  match rd_u16 c with None => None | Some (i, c1) =>
  match rd_u16 c1 with None => None | Some (v, c2) => Some (i, v, c2) end end.

Definition expect_empty (c : rcur) : option unit := if rd_is_empty c then Some tt else None.

Definition parse_read (lim : N * N -> range_err + N * N) (mk : N * N -> request) (c : rcur) : option request :=
  match parse_address_range c with None => None | Some (r, c1) =>
  match lim r with inl _ => None | inr r' =>
  match expect_empty c1 with None => None | Some _ => Some (mk r') end end end.

(* BitIterator::parse_all / RegisterIterator::parse_all: exactly the data bytes, then nothing *)
Definition parse_all (nbytes : nat) (c : rcur) : option (list N) :=
  match rd_bytes nbytes c with None => None | Some (bytes, c1) =>
  match expect_empty c1 with None => None | Some _ => Some bytes end end.

Definition parse_write_multiple (max : N) (nbytes : N -> nat) (mk : N * N -> list N -> request) (c : rcur) : option request :=
  match parse_address_range c with None => None | Some (r, c1) =>
  if max <? snd r then None else
  match rd_u8 c1 with None => None | Some (_, c2) =>            (* the byte count is read and ignored *)
  match parse_all (nbytes (snd r)) c2 with None => None | Some bytes => Some (mk r bytes) end end end.

(* server/request.rs: Request::parse *)
Definition parse (f : fcode) (c : rcur) : option request :=
  match f with
  | ReadCoils => parse_read of_read_bits RReadCoils c
  | ReadDiscreteInputs => parse_read of_read_bits RReadDiscreteInputs c
  | ReadHoldingRegisters => parse_read of_read_registers RReadHoldingRegisters c
  | ReadInputRegisters => parse_read of_read_registers RReadInputRegisters c
  | WriteSingleCoil =>
      match parse_indexed_bool c with None => None | Some (i, b, c1) =>
      match expect_empty c1 with None => None | Some _ => Some (RWriteSingleCoil i b) end end
  | WriteSingleRegister =>
      match parse_indexed_u16 c with None => None | Some (i, v, c1) =>
      match expect_empty c1 with None => None | Some _ => Some (RWriteSingleRegister i v) end end
  | WriteMultipleCoils => parse_write_multiple max_write_coils_count num_bytes_for_bits RWriteMultipleCoils c
  | WriteMultipleRegisters =>
      parse_write_multiple max_write_registers_count (fun n => (2 * N.to_nat n)%nat) RWriteMultipleRegisters c
  end.

(* ---------------------------------------------------------------- iterators handed to write handlers *)
(* BitIterator::next at position pos: None at the end or when the byte is missing; the address
   `range.start + pos` is a u16 addition *)
Definition bit_iter_next (bytes : list N) (r : N * N) (pos : N) : outcome serr (option (N * bool)) :=
  if pos =? snd r then Ok None else
  match nth_error bytes (N.to_nat (pos / 8)) with
  | None => Ok None
  | Some v =>
      let bit := negb (N.land v (N.shiftl 1 (pos mod 8)) =? 0) in
      if 65535 <? fst r + pos then Panic else Ok (Some (fst r + pos, bit))
  end.

(* RegisterIterator::next: bytes.get(2*pos .. 2*pos+2) *)
Definition reg_iter_next (bytes : list N) (r : N * N) (pos : N) : outcome serr (option (N * N)) :=
  if pos =? snd r then Ok None else
  match skipn (2 * N.to_nat pos) bytes with
  | h :: l :: _ =>
      let v := N.lor (N.shiftl h 8) l in
      if 65535 <? pos + fst r then Panic else Ok (Some (pos + fst r, v))
  | _ => Ok None
  end.

(* what a handler that drains the iterator sees; fuel = count + 1 always suffices (running out of
   fuel is reported as Panic so that it is visibly unreachable) *)
Fixpoint iter_collect {A} (next : N -> outcome serr (option A)) (fuel : nat) (pos : N) : outcome serr (list A) :=
  match fuel with
  | O => Panic
  | S f =>
      match next pos with
      | Ok None => Ok []
      | Ok (Some x) => match iter_collect next f (pos + 1) with Ok l => Ok (x :: l) | Err e => Err e | Panic => Panic end
      | Err e => Err e
      | Panic => Panic
      end
  end.
Definition bit_items (r : N * N) (bytes : list N) : outcome serr (list (N * bool)) :=
  iter_collect (bit_iter_next bytes r) (S (N.to_nat (snd r))) 0.
Definition reg_items (r : N * N) (bytes : list N) : outcome serr (list (N * N)) :=
  iter_collect (reg_iter_next bytes r) (S (N.to_nat (snd r))) 0.

(* ---------------------------------------------------------------- reply formatting *)
(* common/frame.rs: FunctionField and its wire value (u8 `|`) *)
Inductive ffield := FValid (f : fcode) | FException (f : fcode) | FUnknown (x : N).
Definition ffield_value (f : ffield) : N :=
  match f with
  | FValid x => fcode_value x
  | FException x => N.lor (fcode_value x) 128
  | FUnknown x => N.lor x 128
  end.

(* a serializer that also reports the application calls it made *)
Definition lserializer := wcur -> outcome serr wcur * list event.
Definition wr (o : option wcur) : outcome serr wcur := of_option EWrite o.

(* the cursor a body serializer is started on: the frame header and the function field have been
   written (Proofs/ServerFormat.v: hdr_cursor_ok and frame_format_appends show that this is the cursor
   Model/Format.v hands to the body) *)
Definition hdr_cursor (l : link) (tx : N) (d : N) (fv : N) : outcome serr wcur :=
  match l with
  | LTcp => obind (wr (wr_u16_be (wnew buffer_capacity) tx)) (fun w1 =>
            obind (wr (wr_u16_be w1 0)) (fun w2 =>
            obind (wr (wr_u16_be w2 0)) (fun w3 =>
            obind (wr (wr_u8 w3 d)) (fun w4 => wr (wr_u8 w4 fv)))))
  | LRtu => obind (wr (wr_u8 (wnew buffer_capacity) d)) (fun w1 => wr (wr_u8 w1 fv))
  end.

(* FrameWriter::format_generic (decoding/logging has no effect on the result).
   format_mbap does `header.tx_id.expect(..)`: a frame without transaction id on TCP is a panic. *)
Definition format_generic (l : link) (tx : option N) (d : dest) (f : ffield) (body : lserializer)
  : outcome serr (list N) * list event :=
  match l, tx with
  | LTcp, None => (Panic, [])
  | _, _ =>
      let t := match tx with Some t => t | None => 0 end in
      let bytes := frame_format EWrite (fmt_of l) t (dest_value d) (ffield_value f) (fun w => fst (body w)) in
      let log := match hdr_cursor l t (dest_value d) (ffield_value f) with Ok w => snd (body w) | _ => [] end in
      (bytes, log)
  end.

(* impl Serialize for ExceptionCode *)
Definition ser_exception (ex : N) : lserializer := fun w => (wr (wr_u8 w ex), []).

(* FrameWriter::format_ex *)
Definition format_ex (l : link) (tx : option N) (d : dest) (f : ffield) (ex : N) : outcome serr (list N) :=
  let f' := match f with FValid x => FException x | FException x => FException x | FUnknown x => FUnknown x end in
  fst (format_generic l tx d f' (ser_exception ex)).

(* FrameWriter::format_reply: an exception raised while serializing is turned into an exception
   reply; what had been written is overwritten because format_generic restarts at offset 0 *)
Definition format_reply (l : link) (tx : option N) (d : dest) (f : fcode) (body : lserializer)
  : outcome serr (list N) * list event :=
  match format_generic l tx d (FValid f) body with
  | (Ok x, log) => (Ok x, log)
  | (Err (EExc ex), log) => (format_ex l tx d (FException f) ex, log)
  | (Err e, log) => (Err e, log)
  | (Panic, log) => (Panic, log)
  end.

(* common/serialize.rs *)
Definition calc_bytes_for_bits (n : N) : outcome serr N :=
  let c := if n mod 8 =? 0 then n / 8 else n / 8 + 1 in
  if 255 <? c then Err EBadByteCount else Ok c.
Definition calc_bytes_for_registers (n : N) : outcome serr N :=
  let c := 2 * n in if 255 <? c then Err EBadByteCount else Ok c.

(* AddressIterator::next on (current, remain): `current.wrapping_add(1)` *)
Definition addr_next (cur : N) : N := (cur + 1) mod 65536.

(* impl Serialize for BitWriter: the loop over range.iter(); `rem` is AddressIterator.remain.
   `acc |= 1 << num_bits` on a u8 panics for num_bits >= 8 (never: num_bits is reset at 8). *)
Fixpoint bit_loop (get : N -> bool + N) (mk : N -> event) (rem : nat) (cur acc nbits : N) (w : wcur) (log : list event)
  : outcome serr wcur * list event :=
  match rem with
  | O => (if 0 <? nbits then wr (wr_u8 w acc) else Ok w, log)
  | S rem' =>
      let log' := log ++ [mk cur] in
      match get cur with
      | inr ex => (Err (EExc ex), log')
      | inl b =>
          if 8 <=? nbits then (Panic, log') else
          let acc' := if b then N.lor acc (N.shiftl 1 nbits) else acc in
          let nbits' := nbits + 1 in
          if nbits' =? 8 then
            match wr_u8 w acc' with
            | None => (Err EWrite, log')
            | Some w' => bit_loop get mk rem' (addr_next cur) 0 0 w' log'
            end
          else bit_loop get mk rem' (addr_next cur) acc' nbits' w log'
      end
  end.

Definition ser_bit_writer (r : N * N) (get : N -> bool + N) (mk : N -> event) : lserializer := fun w =>
  match calc_bytes_for_bits (snd r) with
  | Ok nb => match wr_u8 w nb with
             | None => (Err EWrite, [])
             | Some w1 => bit_loop get mk (N.to_nat (snd r)) (fst r) 0 0 w1 []
             end
  | Err e => (Err e, [])
  | Panic => (Panic, [])
  end.

(* impl Serialize for RegisterWriter *)
Fixpoint reg_loop (get : N -> N + N) (mk : N -> event) (rem : nat) (cur : N) (w : wcur) (log : list event)
  : outcome serr wcur * list event :=
  match rem with
  | O => (Ok w, log)
  | S rem' =>
      let log' := log ++ [mk cur] in
      match get cur with
      | inr ex => (Err (EExc ex), log')
      | inl v => match wr_u16_be w v with
                 | None => (Err EWrite, log')
                 | Some w' => reg_loop get mk rem' (addr_next cur) w' log'
                 end
      end
  end.

Definition ser_register_writer (r : N * N) (get : N -> N + N) (mk : N -> event) : lserializer := fun w =>
  match calc_bytes_for_registers (snd r) with
  | Ok nb => match wr_u8 w nb with
             | None => (Err EWrite, [])
             | Some w1 => reg_loop get mk (N.to_nat (snd r)) (fst r) w1 []
             end
  | Err e => (Err e, [])
  | Panic => (Panic, [])
  end.

(* impl Serialize for AddressRange / Indexed<bool> / Indexed<u16> *)
Definition ser_u16_pair (a b : N) : lserializer := fun w =>
  (match wr_u16_be w a with None => Err EWrite | Some w1 => wr (wr_u16_be w1 b) end, []).

(* ---------------------------------------------------------------- executing a request *)
Section Exec.
Context {St : Type}.
Variable H : handler St.

(* write_result: Ok -> format_reply of the echo, Err(ex) -> format_ex *)
Definition write_result (l : link) (tx : option N) (d : dest) (f : fcode) (res : option N) (echo : lserializer)
  : outcome serr (list N) :=
  match res with
  | None => fst (format_reply l tx d f echo)
  | Some ex => format_ex l tx d (FException f) ex
  end.

(* Request::get_reply against the handler object with index u, in state st *)
Definition get_reply (l : link) (tx : option N) (d : dest) (u : N) (st : St) (r : request)
  : outcome serr (list N) * St * list event :=
  let f := get_function r in
  match r with
  | RReadCoils rg =>
      let '(o, log) := format_reply l tx d f (ser_bit_writer rg (read_coil H st) (EvReadCoil u)) in (o, st, log)
  | RReadDiscreteInputs rg =>
      let '(o, log) := format_reply l tx d f (ser_bit_writer rg (read_discrete_input H st) (EvReadDiscreteInput u)) in (o, st, log)
  | RReadHoldingRegisters rg =>
      let '(o, log) := format_reply l tx d f (ser_register_writer rg (read_holding_register H st) (EvReadHoldingRegister u)) in (o, st, log)
  | RReadInputRegisters rg =>
      let '(o, log) := format_reply l tx d f (ser_register_writer rg (read_input_register H st) (EvReadInputRegister u)) in (o, st, log)
  | RWriteSingleCoil i b =>
      let '(st', res) := write_single_coil H st i b in
      (write_result l tx d f res (ser_u16_pair i (coil_to_u16 b)), st', [EvWriteSingleCoil u i b])
  | RWriteSingleRegister i v =>
      let '(st', res) := write_single_register H st i v in
      (write_result l tx d f res (ser_u16_pair i v), st', [EvWriteSingleRegister u i v])
  | RWriteMultipleCoils rg bytes =>
      match bit_items rg bytes with
      | Ok items =>
          let '(st', res) := write_multiple_coils H st (fst rg) (snd rg) items in
          (write_result l tx d f res (ser_u16_pair (fst rg) (snd rg)), st', [EvWriteMultipleCoils u (fst rg) (snd rg) items])
      | Err e => (Err e, st, [])
      | Panic => (Panic, st, [])
      end
  | RWriteMultipleRegisters rg bytes =>
      match reg_items rg bytes with
      | Ok items =>
          let '(st', res) := write_multiple_registers H st (fst rg) (snd rg) items in
          (write_result l tx d f res (ser_u16_pair (fst rg) (snd rg)), st', [EvWriteMultipleRegisters u (fst rg) (snd rg) items])
      | Err e => (Err e, st, [])
      | Panic => (Panic, st, [])
      end
  end.

(* BroadcastRequest::execute: the handler's result is dropped *)
Definition execute (u : N) (st : St) (r : request) : outcome serr (St * list event) :=
  match r with
  | RWriteSingleCoil i b => Ok (fst (write_single_coil H st i b), [EvWriteSingleCoil u i b])
  | RWriteSingleRegister i v => Ok (fst (write_single_register H st i v), [EvWriteSingleRegister u i v])
  | RWriteMultipleCoils rg bytes =>
      match bit_items rg bytes with
      | Ok items => Ok (fst (write_multiple_coils H st (fst rg) (snd rg) items), [EvWriteMultipleCoils u (fst rg) (snd rg) items])
      | Err e => Err e | Panic => Panic
      end
  | RWriteMultipleRegisters rg bytes =>
      match reg_items rg bytes with
      | Ok items => Ok (fst (write_multiple_registers H st (fst rg) (snd rg) items), [EvWriteMultipleRegisters u (fst rg) (snd rg) items])
      | Err e => Err e | Panic => Panic
      end
  | _ => Ok (st, [])       (* not a BroadcastRequest: filtered out by into_broadcast_request before *)
  end.

(* `for handler in self.handlers.iter_mut() { request.execute(..) }`: BTreeMap::values_mut visits the
   map ENTRIES in ascending unit id order, so a handler object shared by k unit ids is executed k
   times, each time on the state the previous execution left *)
Fixpoint execute_all (m : list (N * N)) (g : N -> St) (r : request) : outcome serr ((N -> St) * list event) :=
  match m with
  | [] => Ok (g, [])
  | (_, h) :: rest =>
      match execute h (g h) r with
      | Ok (st', ev) =>
          match execute_all rest (sset g h st') r with
          | Ok (g', ev') => Ok (g', ev ++ ev')
          | Err e => Err e | Panic => Panic
          end
      | Err e => Err e | Panic => Panic
      end
  end.

(* ---------------------------------------------------------------- authorization *)
(* the trait method names are the request kinds *)
Definition cb_kind (c : authz_cb) : kind :=
  match c with
  | cb_read_coils => KReadCoils | cb_read_discrete_inputs => KReadDiscreteInputs
  | cb_read_holding_registers => KReadHoldingRegisters | cb_read_input_registers => KReadInputRegisters
  | cb_write_single_coil => KWriteSingleCoil | cb_write_single_register => KWriteSingleRegister
  | cb_write_multiple_coils => KWriteMultipleCoils | cb_write_multiple_registers => KWriteMultipleRegisters
  end.

(* the field of the decoded request named by the dispatch table; a field the variant does not have
   would not compile in Rust, here it is None *)
Definition request_field (a : authz_arg) (r : request) : option auth_arg :=
  match a, r with
  | arg_inner, RReadCoils rg | arg_inner, RReadDiscreteInputs rg
  | arg_inner, RReadHoldingRegisters rg | arg_inner, RReadInputRegisters rg => Some (ARange (fst rg) (snd rg))
  | arg_index, RWriteSingleCoil i _ | arg_index, RWriteSingleRegister i _ => Some (AIndex i)
  | arg_range, RWriteMultipleCoils rg _ | arg_range, RWriteMultipleRegisters rg _ => Some (ARange (fst rg) (snd rg))
  | _, _ => None
  end.

(* AuthorizationType::is_authorized (check_authorization through the generated dispatch table) *)
Definition is_authorized (a : auth) (u : N) (r : request) : outcome serr (bool * list event) :=
  match a with
  | NoAuth => Ok (true, [])
  | AuthHandler p role =>
      let '(cb, fld) := authz_dispatch (get_function r) in
      match request_field fld r with
      | None => Panic
      | Some arg => Ok (p (cb_kind cb) u arg role, [EvAuth (cb_kind cb) u arg role])
      end
  end.

(* ---------------------------------------------------------------- SessionTask::handle_frame *)
(* reply_with_error_generic: nothing is formatted or written on broadcast *)
Definition reply_with_error_generic (l : link) (fr : frame) (f : ffield) (ex : N) : outcome serr (list N) :=
  if dest_is_broadcast (f_dest fr) then Ok [] else format_ex l (f_tx fr) (f_dest fr) f ex.

(* SessionTask::is_served: the frame is addressed to a unit id in the handler map (or is a broadcast,
   which is never answered anyway) *)
Definition is_served (us : ucfg St) (d : dest) : bool :=
  match d with
  | DUnit u => match lookup u (u_map us) with Some _ => true | None => false end
  | DBroadcast => true
  end.

(* result: bytes written (nil = nothing written) or the error that ends the session, the unit
   states afterwards, the application calls made *)
Definition handle_frame (l : link) (a : auth) (units : ucfg St) (fr : frame)
  : outcome serr (list N) * ucfg St * list event :=
  match f_pdu fr with
  | [] => (Ok [], units, [])                                        (* "received an empty frame" *)
  | fv :: body =>
      match fcode_get fv with
      | None =>
          (if is_served units (f_dest fr) then reply_with_error_generic l fr (FUnknown fv) illegal_function else Ok [], units, [])
      | Some f =>
          match parse f body with
          | None =>
              (if is_served units (f_dest fr) then reply_with_error_generic l fr (FException f) illegal_data_value else Ok [],
               units, [])
          | Some req =>
              match is_authorized a (dest_value (f_dest fr)) req with
              | Panic => (Panic, units, [])
              | Err e => (Err e, units, [])
              | Ok (false, alog) =>
                  (if dest_is_broadcast (f_dest fr) then Ok []
                   else reply_with_error_generic l fr (FException (get_function req)) illegal_function, units, alog)
              | Ok (true, alog) =>
                  match f_dest fr with
                  | DUnit u =>
                      match lookup u (u_map units) with
                      | None => (Ok [], units, alog)                 (* unmapped unit id *)
                      | Some h =>
                          let '(o, st', log) := get_reply l (f_tx fr) (f_dest fr) h (u_store units h) req in
                          (o, with_store units (sset (u_store units) h st'), alog ++ log)
                      end
                  | DBroadcast =>
                      if broadcast_supported (get_function req) then
                        match execute_all (u_map units) (u_store units) req with
                        | Ok (g', log) => (Ok [], with_store units g', alog ++ log)
                        | Err e => (Err e, units, alog)
                        | Panic => (Panic, units, alog)
                        end
                      else (Ok [], units, alog)
                  end
              end
          end
      end
  end.

(* ---------------------------------------------------------------- the session at frame granularity *)
Inductive session_end := SOpen | SError (e : serr) | SPanic.

(* one entry of `replies` per frame handled (nil = nothing written); the loop ends with the first
   error, whose frame wrote nothing *)
Fixpoint session (l : link) (a : auth) (units : ucfg St) (frames : list frame)
  : list (list N) * ucfg St * list event * session_end :=
  match frames with
  | [] => ([], units, [], SOpen)
  | fr :: rest =>
      match handle_frame l a units fr with
      | (Ok bytes, units', log) =>
          let '(rs, units'', log', e) := session l a units' rest in
          (bytes :: rs, units'', log ++ log', e)
      | (Err e, units', log) => ([[]], units', log, SError e)
      | (Panic, units', log) => ([[]], units', log, SPanic)
      end
  end.
End Exec.

(* ---------------------------------------------------------------- built-in policies *)
(* a handler object whose eight callbacks return constant decisions (the trait's default method
   bodies, ReadOnlyAuthorizationHandler: tables regenerated in Gen/AuthzTable.v) as a policy *)
Definition kind_cb (k : kind) : authz_cb :=
  match k with
  | KReadCoils => cb_read_coils | KReadDiscreteInputs => cb_read_discrete_inputs
  | KReadHoldingRegisters => cb_read_holding_registers | KReadInputRegisters => cb_read_input_registers
  | KWriteSingleCoil => cb_write_single_coil | KWriteSingleRegister => cb_write_single_register
  | KWriteMultipleCoils => cb_write_multiple_coils | KWriteMultipleRegisters => cb_write_multiple_registers
  end.
Definition table_policy (t : authz_cb -> authz) : policy :=
  fun k _ _ _ => match t (kind_cb k) with Allow => true | Deny => false end.
Definition read_only_policy : policy := table_policy authz_read_only.
Definition default_policy : policy := table_policy authz_default.
