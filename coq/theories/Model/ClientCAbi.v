(* What a C-ABI completion callback receives for an exception reply: ExceptionCode::from(u8)
   (exception.rs), then `impl From<rodbus::ExceptionCode> for ffi::RequestError` (conversions.rs),
   both regenerated into Gen/FfiTables.v. Definitions only. *)
From Coq Require Import NArith String.
From Rodbus Require Import Gen.FfiTables.

Definition cabi_callback_exception (c : N) : string :=
  name_ffi_request_error (exception_to_ffi (exception_from_u8 c)).

(* ------------------------------------------------------------------ C03: requests through the extern "C" layer *)
(* ffi/rodbus-ffi/src/client.rs rodbus_client_channel_*: reads build the range with
   AddressRange::try_from(range.start, range.count)? (ParamError before anything else) and call
   FfiChannel::read_*; single writes convert the value struct and call FfiChannel::write_single_*;
   write-multiple calls WriteMultiple::from(start, <values of the caller's list>)? and
   FfiChannel::write_multiple_*. How the caller's list is borrowed and how its values are handed
   over is regenerated into Gen/FfiTables.v `list_args` (function, borrow, expression). *)
From Coq Require Import List Bool.
From Rodbus Require Import Base.Outcome Base.ClientTypes Model.Format Model.Range Model.ClientRequest Model.ClientPaths Model.ClientSession.
Import ListNotations.
Local Open Scope N_scope.

(* the request a C-ABI call puts into the command queue *)
Definition cabi_queued (c : call) : option request :=
  let via_ffi c' := match submit_via ViaFfi c' with Queued r => Some r | Rejected _ => None end in
  match c with
  | CReadCoils s n => match try_from s n with inl _ => None | inr rg => via_ffi (CReadCoils (fst rg) (snd rg)) end
  | CReadDiscreteInputs s n => match try_from s n with inl _ => None | inr rg => via_ffi (CReadDiscreteInputs (fst rg) (snd rg)) end
  | CReadHoldingRegisters s n => match try_from s n with inl _ => None | inr rg => via_ffi (CReadHoldingRegisters (fst rg) (snd rg)) end
  | CReadInputRegisters s n => match try_from s n with inl _ => None | inr rg => via_ffi (CReadInputRegisters (fst rg) (snd rg)) end
  | _ => via_ffi c
  end.

(* does rodbus_client_channel_<fn> leave the caller's list as it was? (borrowed shared, values cloned) *)
Definition list_kept (fn : string) : bool :=
  match find (fun x => String.eqb (fst (fst x)) fn) list_args with
  | Some (_, borrow, expr) => String.eqb borrow "as_ref" && String.eqb expr "items.inner.clone()"
  | None => false
  end.

(* a caller-owned list through a sequence of add / write steps: the calls that reach FfiChannel.
   If the function does not keep the list (e.g. it moves the values out), the list is empty afterwards. *)
Fixpoint cabi_list_calls {A} (kept : bool) (mk : N -> list A -> call) (held : list A) (steps : list (list A + N * N)) : list (path * N * call) :=
  match steps with
  | [] => []
  | inl vs :: rest => cabi_list_calls kept mk (held ++ vs) rest
  | inr (uid, start) :: rest => (ViaFfi, uid, mk start held) :: cabi_list_calls kept mk (if kept then held else []) rest
  end.

Definition cabi_coil_list_wire (f : framing) (steps : list (list bool + N * N)) : list (list N) :=
  session_wire f 0 (cabi_list_calls (list_kept "write_multiple_coils") CWriteMultipleCoils [] steps).
Definition cabi_register_list_wire (f : framing) (steps : list (list N + N * N)) : list (list N) :=
  session_wire f 0 (cabi_list_calls (list_kept "write_multiple_registers") CWriteMultipleRegisters [] steps).
