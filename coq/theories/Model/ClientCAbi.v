(* What a C-ABI completion callback receives for an exception reply: ExceptionCode::from(u8)
   (exception.rs), then `impl From<rodbus::ExceptionCode> for ffi::RequestError` (conversions.rs),
   both regenerated into Gen/FfiTables.v. Definitions only. *)
From Coq Require Import NArith String.
From Rodbus Require Import Gen.FfiTables.

Definition cabi_callback_exception (c : N) : string :=
  name_ffi_request_error (exception_to_ffi (exception_from_u8 c)).
