(* serial/frame.rs: RtuParser (ParseState Start | ReadToOffsetForLength | ReadFullBody), its
   recursive parse (unrolled: Start -> (ReadToOffsetForLength ->) ReadFullBody), the length rule
   from Gen/RtuLengths.v (regenerated from length_mode), the `1 + len > 253` check, the CRC check.
   FrameDestination is represented by its byte: Broadcast <-> 0 (UnitId::broadcast()). *)
From Coq Require Import NArith List Bool Arith.
From Rodbus Require Import Base.Outcome Base.Frame Gen.Consts Gen.RtuLengths Model.Buffer Model.Crc Model.Mbap.
Import ListNotations.

Inductive rstate := Start | ReadFullBody (dest : N) (len : nat) | ReadToOffsetForLength (dest : N) (off : nat).

Definition is_broadcast (dest : N) : bool := N.eqb dest 0.

(* ParseState::ReadFullBody arm *)
Definition rtu_parse_full (dest : N) (len : nat) (b : buf) : rstate * buf * presult :=
  let st := ReadFullBody dest len in
  match uadd rtu_function_code_length len with
  | None => (st, b, Panic)
  | Some n =>
      if Nat.ltb max_adu_length n then (st, b, Err (FrameLengthTooBig n max_adu_length))
      else match uadd n rtu_crc_length with
           | None => (st, b, Panic)
           | Some total =>
               if Nat.ltb (buf_len b) total then (st, b, Ok None)
               else let '(b1, r) := buf_read n b in
                    match r with
                    | Err _ => (st, b1, Err InternalError)
                    | Panic => (st, b1, Panic)
                    | Ok data =>
                        let payload := frame_set data in
                        let '(b2, r2) := buf_read_u16_le b1 in
                        match r2 with
                        | Err _ => (st, b2, Err InternalError)
                        | Panic => (st, b2, Panic)
                        | Ok received =>
                            let expected := crc (dest :: payload) in     (* digest.update(&[destination.value()]); digest.update(frame.payload()) *)
                            if negb (N.eqb received expected) then (st, b2, Err (CrcValidationFailure received expected))
                            else (Start, b2, Ok (Some {| f_tx := None; f_dest := dest; f_bcast := is_broadcast dest; f_pdu := payload |}))
                        end
                    end
           end
  end.

(* ParseState::ReadToOffsetForLength arm *)
Definition rtu_parse_offset (dest : N) (off : nat) (b : buf) : rstate * buf * presult :=
  let st := ReadToOffsetForLength dest off in
  match uadd rtu_function_code_length off with
  | None => (st, b, Panic)
  | Some n =>
      if Nat.ltb (buf_len b) n then (st, b, Ok None)
      else match n with
           | O => (st, b, Panic)                               (* FUNCTION_CODE_LENGTH + offset - 1 *)
           | S idx =>
               let '(b1, r) := buf_peek_at idx b in
               match r with
               | Err _ => (st, b1, Err InternalError)
               | Panic => (st, b1, Panic)
               | Ok extra =>
                   match uadd off (N.to_nat extra) with
                   | None => (st, b1, Panic)
                   | Some len => rtu_parse_full dest len b1    (* self.state = ReadFullBody(..); self.parse(..) *)
                   end
               end
           end
  end.

(* RtuParser::parse *)
Definition rtu_parse (p : ptype) (st : rstate) (b : buf) : rstate * buf * presult :=
  match st with
  | Start =>
      if Nat.ltb (buf_len b) 2 then (Start, b, Ok None)
      else let '(b1, r) := buf_read_u8 b in
           match r with
           | Err _ => (Start, b1, Err InternalError)
           | Panic => (Start, b1, Panic)
           | Ok dest =>
               let '(b2, r2) := buf_peek_at 0 b1 in
               match r2 with
               | Err _ => (Start, b2, Err InternalError)
               | Panic => (Start, b2, Panic)
               | Ok raw_fc =>
                   match length_mode p raw_fc with
                   | Fixed len => rtu_parse_full dest len b2
                   | Offset off => rtu_parse_offset dest off b2
                   | Unknown => (Start, b2, Err (UnknownFunctionCode raw_fc))
                   end
               end
           end
  | ReadToOffsetForLength dest off => rtu_parse_offset dest off b
  | ReadFullBody dest len => rtu_parse_full dest len b
  end.

Definition rtu_reset (st : rstate) : rstate := Start.
