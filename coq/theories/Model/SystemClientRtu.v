(* The RTU client as a whole, for one connection: Model/SystemClient.v with the production reader
   in its RTU response role (ReadBuffer + RtuParser(Response) + next_frame loop, Model/Reader.v
   KRtuResponse). The task part is the same execute_request loop: an RTU frame carries no
   transaction id (`frame.header.tx_id` is None), so the id comparison is skipped and the first
   frame next_frame delivers is handed to Request::handle_response (SystemClient.frame_event:
   `None => t`); the destination byte of the frame is not looked at. Definitions only. *)
From Coq Require Import NArith List Bool.
From Rodbus Require Import Base.Outcome.
From Rodbus Require Base.Frame Model.Reader Model.ClientTask Model.SystemClient.
Import ListNotations.
Module F := Rodbus.Base.Frame.
Module T := Rodbus.Model.ClientTask.
Import SystemClient.

Definition client_system_rtu (cfg : T.config) (reqs : content) (s : T.state) (chunks : Reader.net) (fi : F.fin)
  : T.state * list T.output * list (nat * hresult) :=
  let r := Reader.run_session Reader.KRtuResponse false chunks fi in
  let '(s1, o1, d1) := deliver cfg reqs s (Reader.frames_of (fst r)) in
  let '(s2, o2) := T.run cfg s1 (end_events (snd r)) in
  (s2, o1 ++ o2, d1).
