(* Types shared by the model of the C-ABI point database (Database.v) and its oracle (MapSpec.v):
   the operations a user of the C API / a Modbus client can perform, and what they observe. *)
From Coq Require Import NArith List String Bool.
From Rodbus Require Import Base.Show.
Import ListNotations.
Local Open Scope string_scope.

(* the four point types = the four maps of ffi/rodbus-ffi/src/database.rs *)
Inductive ptype := Coil | Discrete | Holding | Input.

(* coils / discrete inputs hold a bool, holding / input registers a u16 *)
Inductive value := VBit (b : bool) | VReg (r : N).

Inductive op :=
| Add (t : ptype) (i : N) (v : value)      (* rodbus_database_add_<t>(db, i, v)      -> bool *)
| Update (t : ptype) (i : N) (v : value)   (* rodbus_database_update_<t>(db, i, v)   -> bool *)
| Delete (t : ptype) (i : N)               (* rodbus_database_delete_<t>(db, i)      -> bool *)
| Get (t : ptype) (i : N)                  (* rodbus_database_get_<t>(db, i)         -> Result<T, ParamError> *)
| Read (t : ptype) (start : N) (count : nat). (* client request "read <t>s" with range (start, count) *)

Inductive result :=
| RBool (b : bool)
| RGet (r : option value)        (* None = ParamError::InvalidIndex *)
| RRead (r : list value + N).    (* inr e = exception response with code e *)

(* In Rust the value type is fixed by the function called (rodbus_database_add_coil takes a bool,
   ..._add_holding_register a u16), so `Add Coil i (VReg _)` cannot be written.  The theorems
   quantify over operations that pass this check. *)
Definition value_ok (t : ptype) (v : value) : bool :=
  match t, v with
  | Coil, VBit _ | Discrete, VBit _ | Holding, VReg _ | Input, VReg _ => true
  | _, _ => false
  end.

Definition op_ok (o : op) : bool :=
  match o with
  | Add t _ v | Update t _ v => value_ok t v
  | Delete _ _ | Get _ _ | Read _ _ _ => true
  end.

Definition ptype_eqb (a b : ptype) : bool :=
  match a, b with
  | Coil, Coil | Discrete, Discrete | Holding, Holding | Input, Input => true
  | _, _ => false
  end.

(* ---- rendering (one canonical string per run, compared with what the harness prints) ---- *)

Definition show_value (v : value) : string :=
  match v with
  | VBit b => "b" ++ show_bool b
  | VReg r => "r" ++ show_N r
  end.

Definition show_result (r : result) : string :=
  match r with
  | RBool true => "T"
  | RBool false => "F"
  | RGet o => show_option show_value "-" o
  | RRead (inl vs) => "[" ++ show_list show_value "," vs ++ "]"
  | RRead (inr e) => "E" ++ show_N e
  end.

Definition show_results (rs : list result) : string := show_list show_result ";" rs.
