(* Rendering of the RTU client system (Model/SystemClientRtu.v) and of its oracle
   (Spec/SystemClientRtuSpec.v) for the correspondence in lib/checks/c04.py: the harness `cresp`
   pushes raw byte chunks at the real client over RTU framing and prints the request's result. *)
From Coq Require Import NArith List Bool String.
From Rodbus Require Import Base.Show Base.Outcome Base.ClientTypes Model.ClientRequest Model.ClientShow.
From Rodbus Require Base.Frame Model.ClientTask Spec.SystemClientSpec Spec.SystemClientRtuSpec Model.SystemClient Model.SystemClientRtu.
Import ListNotations.
Module F := Rodbus.Base.Frame.
Module T := Rodbus.Model.ClientTask.
Module SS := Rodbus.Spec.SystemClientSpec.
Module SR := Rodbus.Spec.SystemClientRtuSpec.
Local Open Scope string_scope.

(* classes as the check canonicalises the harness output: value / exception code exactly, the
   other outcomes by class *)
Definition show_verdict_rtu (v : SS.verdict) : string :=
  match v with
  | SS.VValue x => show_response x
  | SS.VException c => "ERR Exception(" ++ show_N c ++ ")"
  | SS.VBadReply => "ERR other"
  | SS.VBadFrame => "ERR BadFrame"
  | SS.VIo => "ERR Io"
  | SS.VPending => "ERR ResponseTimeout"
  | SS.VCrash => "PANIC"
  end.

(* (kind, start, count/value, chunks as (length, big-endian number), fin 0 = pending 1 = EOF 2 = error) *)
Definition rtu_syscase := (N * N * N * list (nat * N) * N)%type.

Definition eval_rtu_syscase (k : rtu_syscase) : string :=
  let '(kind, s, c, chunks, fin) := k in
  let fi := match fin with 0%N => F.FinPending | 1%N => F.FinEof | _ => F.FinErr end in
  let chunks := map (fun x => bytes_of (fst x) (snd x)) chunks in
  match build (mk_call kind s c (Seed 0 c)) with
  | Ok req =>
      let cfg := {| T.cfg_cap := 4; T.cfg_res := 1000000%N |} in
      let rq := {| T.rq_id := 0; T.rq_kind := T.KRead; T.rq_timeout := 1000000000%N |} in
      let st := fst (T.run cfg (T.init 1 None 20000000%N 40000000%N)
                       [T.EvSubmit T.CEnable T.SFuture; T.EvRecv; T.EvConnect true; T.EvSubmit (T.CReq rq) T.SFuture; T.EvRecv]) in
      both (show_verdict_rtu (SystemClient.verdict_for 0 (SystemClientRtu.client_system_rtu cfg (fun _ => req) st chunks fi)))
           (show_verdict_rtu (SR.ref_client_result_rtu req (List.concat chunks) fi))
  | _ => "REJECTED|REJECTED"
  end.

(* ---- the TCP client system on raw byte chunks (Model/SystemClient.v client_system, Spec/SystemClientSpec.v
   ref_client_result) with the same compact case format: the first request of a fresh connection (transaction id 0) ---- *)
Definition eval_tcp_syscase (k : rtu_syscase) : string :=
  let '(kind, s, c, chunks, fin) := k in
  let fi := match fin with 0%N => F.FinPending | 1%N => F.FinEof | _ => F.FinErr end in
  let chunks := map (fun x => bytes_of (fst x) (snd x)) chunks in
  match build (mk_call kind s c (Seed 0 c)) with
  | Ok req =>
      let cfg := {| T.cfg_cap := 4; T.cfg_res := 1000000%N |} in
      let rq := {| T.rq_id := 0; T.rq_kind := T.KRead; T.rq_timeout := 1000000000%N |} in
      let st := fst (T.run cfg (T.init 1 None 20000000%N 40000000%N)
                       [T.EvSubmit T.CEnable T.SFuture; T.EvRecv; T.EvConnect true; T.EvSubmit (T.CReq rq) T.SFuture; T.EvRecv]) in
      both (show_verdict_rtu (SystemClient.verdict_for 0 (SystemClient.client_system cfg (fun _ => req) st chunks fi)))
           (show_verdict_rtu (SS.ref_client_result req 0%N (List.concat chunks) fi))
  | _ => "REJECTED|REJECTED"
  end.
