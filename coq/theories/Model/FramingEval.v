(* Entry point of the correspondence check (lib/checks/c05.py, c06.py): renders, for one case
   (framing, resume?, ending, chunk schedule), the model's result and the Spec's result as
   "model|spec" in the harness's output format. The Spec is defined for sessions that stop at the
   first error; for resume mode the Spec column is "-". Definitions only. *)
From Coq Require Import NArith List String Bool.
From Rodbus Require Import Base.Show Base.Frame Model.Reader Spec.Framing.
Import ListNotations.
Local Open Scope string_scope.

Definition spec_of (k : framing_kind) (n : list (list N)) (fi : fin) : list frame * ending :=
  let '(s, f) := sched_stream n fi in
  match k with
  | KTcp => ref_frames s f
  | KRtuRequest => ref_rtu_frames Requests s f
  | KRtuResponse => ref_rtu_frames Responses s f
  end.

(* resume mode (a reader polled again after framing errors): the Spec exists for the RTU server across port
   re-opens (ref_rtu_reopen); for MBAP there is none ("-") *)
Definition spec_reopen (k : framing_kind) (n : list (list N)) (fi : fin) : string :=
  let '(s, f) := sched_stream n fi in
  match k with
  | KTcp => "-"
  | KRtuRequest => show_run (ref_rtu_reopen Requests s f)
  | KRtuResponse => show_run (ref_rtu_reopen Responses s f)
  end.

Definition eval_case (c : framing_kind * bool * fin * list (list N)) : string :=
  let '(k, resume, fi, n) := c in
  show_run (run_session k resume n fi) ++ "|" ++ (if resume then "-" else show_frames (spec_of k n fi)).

(* the same plus the space offered to the byte source at every read (instrumented loop,
   Proofs/ReaderTrace.v: its first component is run_session): "model|spec|o1,o2,.." *)
Definition eval_case_tr (c : framing_kind * bool * fin * list (list N)) : string :=
  let '(k, resume, fi, n) := c in
  let x := run_session_tr k resume n fi in
  show_run (fst x) ++ "|" ++ (if resume then spec_reopen k n fi else show_frames (spec_of k n fi)) ++ "|" ++ show_list show_nat "," (snd x).

(* client: several connections over one ClientLoop (reader reset at connect); "c1 / c2 / .." *)
Definition eval_client (c : list (list (list N) * fin)) : string :=
  show_list show_run " / " (client_connections true (reader_new KTcp) c) ++ "|" ++
  show_list show_frames " / " (ref_connections (map (fun x => sched_stream (fst x) (snd x)) c)).

(* emission: (destination, PDU = function code :: body) -> what Model/Format.rtu_format writes
   into the shared 260-byte buffer | what the Spec says an RTU frame is *)
From Rodbus Require Import Base.Outcome Base.Cursor Model.Format Gen.Consts.
Definition eval_emit (c : N * list N) : string :=
  let '(dest, pdu) := c in
  match pdu with
  | fcv :: body =>
      match rtu_format tt buffer_capacity dest fcv (fun w => of_option tt (wr_bytes w body)) with
      | Ok bs => show_bytes bs
      | Err _ => "ERR"
      | Panic => "PANIC"
      end
  | [] => "NOPDU"
  end ++ "|" ++ show_bytes (rtu_frame_of dest pdu).

(* the RTU client over several connections (response parser) *)
Definition eval_client_rtu (c : list (list (list N) * fin)) : string :=
  show_list show_run " / " (client_connections true (reader_new KRtuResponse) c) ++ "|" ++
  show_list show_frames " / " (map (fun x => let '(s, f) := sched_stream (fst x) (snd x) in ref_rtu_frames Responses s f) c).
