(* Entry point of the correspondence check (lib/checks/c05.py, c06.py): renders, for one case
   (framing, resume?, ending, chunk schedule), the model's result and the Spec's result as
   "model|spec" in the harness's output format. The Spec is defined for sessions that stop at the
   first error; for resume mode the Spec column is "-". Definitions only. *)
From Coq Require Import NArith List String Bool.
From Rodbus Require Import Base.Show Base.Frame Model.Reader Spec.Framing.
Import ListNotations.
Local Open Scope string_scope.

Definition spec_of (k : framing_kind) (n : list (list N)) (fi : fin) : list frame * ending :=
  let '(s, f) := sched_stream n fi in
  match k with
  | KTcp => ref_frames s f
  | KRtuRequest => ref_rtu_frames Requests s f
  | KRtuResponse => ref_rtu_frames Responses s f
  end.

(* resume mode (a reader polled again after framing errors): the Spec exists for the RTU server across port
   re-opens (ref_rtu_reopen); for MBAP there is none ("-") *)
Definition spec_reopen (k : framing_kind) (n : list (list N)) (fi : fin) : string :=
  let '(s, f) := sched_stream n fi in
  match k with
  | KTcp => "-"
  | KRtuRequest => show_run (ref_rtu_reopen Requests s f)
  | KRtuResponse => show_run (ref_rtu_reopen Responses s f)
  end.

Definition eval_case (c : framing_kind * bool * fin * list (list N)) : string :=
  let '(k, resume, fi, n) := c in
  show_run (run_session k resume n fi) ++ "|" ++ (if resume then "-" else show_frames (spec_of k n fi)).

(* the same plus the space offered to the byte source at every read (instrumented loop,
   Proofs/ReaderTrace.v: its first component is run_session): "model|spec|o1,o2,.." *)
Definition eval_case_tr (c : framing_kind * bool * fin * list (list N)) : string :=
  let '(k, resume, fi, n) := c in
  let x := run_session_tr k resume n fi in
  show_run (fst x) ++ "|" ++ (if resume then spec_reopen k n fi else show_frames (spec_of k n fi)) ++ "|" ++ show_list show_nat "," (snd x).

(* client: several connections over one ClientLoop (reader reset at connect); "c1 / c2 / .." *)
Definition eval_client (c : list (list (list N) * fin)) : string :=
  show_list show_run " / " (client_connections true (reader_new KTcp) c) ++ "|" ++
  show_list show_frames " / " (ref_connections (map (fun x => sched_stream (fst x) (snd x)) c)).

(* emission: (destination, PDU = function code :: body) -> what Model/Format.rtu_format writes
   into the shared 260-byte buffer | what the Spec says an RTU frame is *)
From Rodbus Require Import Base.Outcome Base.Cursor Model.Format Gen.Consts.
Definition eval_emit (c : N * list N) : string :=
  let '(dest, pdu) := c in
  match pdu with
  | fcv :: body =>
      match rtu_format tt buffer_capacity dest fcv (fun w => of_option tt (wr_bytes w body)) with
      | Ok bs => show_bytes bs
      | Err _ => "ERR"
      | Panic => "PANIC"
      end
  | [] => "NOPDU"
  end ++ "|" ++ show_bytes (rtu_frame_of dest pdu).

(* the RTU client over several connections (response parser) *)
Definition eval_client_rtu (c : list (list (list N) * fin)) : string :=
  show_list show_run " / " (client_connections true (reader_new KRtuResponse) c) ++ "|" ++
  show_list show_frames " / " (map (fun x => let '(s, f) := sched_stream (fst x) (snd x) in ref_rtu_frames Responses s f) c).

(* the transmit side: (reply bytes, events) -> what the model of the server's write_reply has handed to the
   transport and how the call stands | the Spec: the one serialisation of the reply, if the write completed *)
From Rodbus Require Import Gen.WritePath Model.WritePath.
Definition show_rresult (r : rresult) : string := match r with RDone => "done" | RParked => "parked" | RShutdown => "shutdown" end.
Definition show_wresult (r : wresult) : string := match r with WDone => "done" | WParked => "parked" end.
(* client = true: execute_request awaits the request write directly (Gen/WritePath.client_write_awaited_directly):
   commands that arrive meanwhile stay in the queue, the write is PhysLayer::write on the transport *)
Definition eval_write_reply (c : bool * list N * list wevent) : string :=
  let '(client, data, evs) := c in
  (if client
   then let '(out, r) := phys_write LVerif data (flat_map (fun e => match e with Take k => [k] | Cmd _ => [] end) evs) in
        show_bytes out ++ ":" ++ show_wresult r
   else let '(out, r) := server_write_reply data evs in show_bytes out ++ ":" ++ show_rresult r)
  ++ "|" ++ show_bytes data.

(* the client's request write with the request timeout: (frame, events) -> emitted : how the call ends | the frame *)
Definition show_cresult (r : cresult) : string := match r with CDone => "done" | CParked => "parked" | CTimedOut => "Io(TimedOut)" end.
Definition eval_client_write (c : list N * list cevent) : string :=
  let '(data, evs) := c in
  let '(out, r) := client_request_write data evs in
  show_bytes out ++ ":" ++ show_cresult r ++ "|" ++ show_bytes data.
