(* Evaluation glue for the C03/C04 correspondence checks: compact case descriptions expanded inside
   Coq (value vectors from a seed, so that 2000-element literals never appear in case files),
   and rendering of the model's and the Spec's results in the harness's canonical line format
   (harness/src/cmd/cenc.rs, cresp.rs). Not used by any theorem. *)
From Coq Require Import NArith List Bool Arith String Ascii.
From Rodbus Require Export Base.CaseGen.
From Rodbus Require Import Base.Show Base.Outcome Base.Cursor Base.ClientTypes Model.Format Model.Range Model.ClientRequest Model.ClientPaths Model.ClientSession
  Spec.ClientCodecSpec Gen.ClientTables.
Import ListNotations.
Local Open Scope string_scope.
Local Open Scope N_scope.

Definition show_err (e : req_err) : string :=
  match e with
  | ECountOfZero => "CountOfZero" | EAddressOverflow => "AddressOverflow" | ECountTooLargeForType => "CountTooLargeForType"
  | ECountTooBigForU16 => "CountTooBigForU16" | ECountTooBigForType => "CountTooBigForType"
  | EInsufficientWriteSpace => "InsufficientWriteSpace" | EBadByteCount => "BadByteCount"
  | EInsufficientBytes => "InsufficientBytes" | ETrailingBytes => "TrailingBytes" | EReplyEchoMismatch => "ReplyEchoMismatch"
  | EUnknownResponseFunction => "UnknownResponseFunction" | EUnknownCoilState => "UnknownCoilState"
  | EException ex => "Exception(" ++ show_N (u8_of_excode ex) ++ ")"
  end.

(* ---- submit style of the harness: 0 = Channel (async), 1 = CallbackSession, 2 = FfiChannel ---- *)
Definition path_of (style : N) : path := match style with 0 => ViaChannel | 1 => ViaCallback | _ => ViaFfi end.
(* the harness's token for a call that did not reach the task: the flat error name; for a failed
   synchronous FfiChannel read call `<returned>/<what the callback received, - if never called>` *)
Definition show_rejection (ffi_read : bool) (rj : rejection) : string :=
  let comp c := match c with CErr e => show_err e | CShutdown => "Shutdown" end in
  match rj_returned rj, rj_completion rj with
  | Some e, None => if ffi_read then show_err e ++ "/-" else show_err e
  | Some e, Some c => show_err e ++ "/" ++ comp c
  | None, Some c => comp c
  | None, None => "?"
  end.
Definition is_ffi_read (style kind : N) : bool := (style =? 2) && (1 <=? kind) && (kind <=? 4).

(* The harness builds a read range either as a struct literal (lit = true: the pair goes to the API
   as it is) or with AddressRange::try_from (lit = false): when try_from fails the user has no
   range to submit and the harness prints that error, whatever the submit style. *)
Definition user_range_error (lit : bool) (kind s c : N) : option req_err :=
  if lit || negb ((1 <=? kind) && (kind <=? 4)) then None
  else match try_from s c with inl e => Some (of_range_err e) | inr _ => None end.

(* ---- C03: (tcp?, literal?, style, kind, tx, unit, start, count/value, values) ---- *)
Definition enc_case := (bool * bool * N * N * N * N * N * N * vals)%type.
Definition framing_of (tcp : bool) : framing := if tcp then Tcp else Rtu.

Definition show_submit (o : outcome req_err (list N)) (wire : list (list N)) : string :=
  (match o with Ok _ => "SENT" | Err e => show_err e | Panic => "PANIC" end) ++ " " ++
  (match wire with [] => "-" | _ => show_list show_bytes "+" wire end).

(* model result | Spec result; the Spec's is abbreviated to "=" when it is the same string (printing
   long strings is what costs time in coqc) *)
Definition both (model spec : string) : string :=
  model ++ "|" ++ (if String.eqb model spec then "=" else spec).

Definition run_enc (x : enc_case) : string :=
  let '(tcp, lit, style, kind, tx, uid, s, c, v) := x in
  let call := mk_call kind s c v in
  let f := framing_of tcp in
  both (match user_range_error lit kind s c with
        | Some e => show_err e ++ " -"
        | None =>
        match submit_via (path_of style) call with
        | Queued r => show_submit (client_encode f tx uid r) (snd (transmit f tx uid r))
        | Rejected rj => show_rejection (is_ffi_read style kind) rj ++ " -"
        end end)
       (if within_limits_b call
        then "SENT " ++ show_bytes (if tcp then ref_encode_tcp tx uid call else ref_encode_rtu uid call)
        else "REJECT").

(* ---- C03 over a session: (tcp?, [(style, kind, unit, start, count/value, values)]) with struct-literal
   ranges; the whole wire log of the model and of the Spec ---- *)
Definition session_case := (bool * list (N * N * N * N * N * vals))%type.
Definition run_session_case (x : session_case) : string :=
  let '(tcp, l) := x in
  let calls := map (fun y => let '(style, kind, uid, s, c, v) := y in (path_of style, uid, mk_call kind s c v)) l in
  both (show_list show_bytes "+" (session_wire (framing_of tcp) 0 calls))
       (show_list show_bytes "+" (ref_session_wire tcp 0 (map (fun z => (snd (fst z), snd z)) calls))).

(* ---- C03: the complete byte stream of one connection with a scripted peer and transport:
   (tcp?, [(style, kind, unit, start, count/value, values, cut (0 = none, k+1 = after k bytes), lost?)]) ---- *)
Definition stream_case := (bool * N * list (N * N * N * N * N * vals * N * bool))%type.   (* tcp?, the session's first transaction id, calls *)
Definition run_stream_case (x : stream_case) : string :=
  let '(tcp, first_id, l) := x in
  let calls := map (fun y : N * N * N * N * N * vals * N * bool => let '(style, kind, uid, s, c, v, cut, lost) := y in
                      (path_of style, uid, mk_call kind s c v,
                       (if cut =? 0 then TxAll else TxCut (N.to_nat (cut - 1))),
                       (if lost then [RxSkip; RxFail] else [RxSkip; RxReply]))) l in
  let spec := map (fun y : N * N * N * N * N * vals * N * bool => let '(style, kind, uid, s, c, v, cut, lost) := y in
                      (uid, mk_call kind s c v,
                       {| cut_after := (if cut =? 0 then None else Some (N.to_nat (cut - 1))); connection_lost := lost |})) l in
  both (show_bytes (session_stream (framing_of tcp) first_id calls)) (show_bytes (ref_session_stream tcp first_id spec)).

(* ---- C04: (kind, start, count/value, reply pdu); the request is built as the API builds it.
   The PDU is passed as (length, big-endian number) - one hexadecimal literal parses much faster
   than a list of 250 numbers - and expanded here. ---- *)
Definition resp_case := (bool * N * N * N * N * (nat * N))%type.   (* literal?, style, kind, start, count/value, pdu *)

Definition run_resp (x : resp_case) : string :=
  let '(lit, style, kind, s, c, (plen, pnum)) := x in
  let pdu := bytes_of plen pnum in
  let call := mk_call kind s c (Seed 0 c) in
  match user_range_error lit kind s c with
  | Some e => "REJECTED " ++ show_err e ++ "|REJECTED"
  | None =>
  match submit_via (path_of style) call with
  | Queued r =>
      both
      (match deliver_via (path_of style) r pdu with
       | Ok v => show_response v
       | Err e => "ERR " ++ show_err e
       | Panic => "PANIC"
       end)
      (match ref_reply r pdu with
       | Some v => show_response v
       | None => match ref_exception r pdu with
                 | Some code => "ERR Exception(" ++ show_N code ++ ")"
                 | None => "ERR other"
                 end
       end)
  | Rejected rj => "REJECTED " ++ show_rejection (is_ffi_read style kind) rj ++ "|REJECTED"
  end end.
