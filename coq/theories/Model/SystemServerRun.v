(* The server as a whole WITH its command channel: bytes arriving in arbitrary read chunks ->
   production reader (Model/Reader.v) -> SessionTask::run as the select!-outcome transition system
   (Model/ServerRun.v). The command side of the schedule says, for each select!, which branch won:
   CNext = run_one's reader branch (it then gets the NEXT frame the reader delivers from the
   stream), CCommand / CClosed = the command branch, CWriteDone / CWriteFailed = write_reply's write branch.
   When the reader branch is taken and the stream yields no further frame, next_frame returns the
   reader's ending and `frame?` ends the session with it.
   That cancelling next_frame (the command branch wins while a frame is half read) loses no bytes -
   so the frames delivered are those of the uninterrupted reader - is the reader's cancel-safety
   (C05/C06); this file is stated over "the frames the reader delivers". *)
From Coq Require Import NArith List Bool.
From Rodbus Require Base.Frame Base.ServerTypes Base.ServerRun Model.Reader Model.Server Model.ServerRun Model.SystemServer.
Import ListNotations.

Module F := Rodbus.Base.Frame.
Module S := Rodbus.Base.ServerTypes.
Module R := Rodbus.Base.ServerRun.

Inductive cevent := CNext | CCommand (c : R.command) | CClosed | CWriteDone | CWriteFailed.

(* the select! outcomes with the frames filled in; true = the reader branch was taken with no frame left *)
Fixpoint fill (frames : list S.frame) (cevs : list cevent) : list R.sevent * bool :=
  match cevs with
  | [] => ([], false)
  | CNext :: rest =>
      match frames with
      | [] => ([], true)
      | f :: fs => let '(evs, b) := fill fs rest in (R.EFrame f :: evs, b)
      end
  | CCommand c :: rest => let '(evs, b) := fill frames rest in (R.ECommand c :: evs, b)
  | CClosed :: rest => let '(evs, b) := fill frames rest in (R.EClosed :: evs, b)
  | CWriteDone :: rest => let '(evs, b) := fill frames rest in (R.EWriteDone :: evs, b)
  | CWriteFailed :: rest => let '(evs, b) := fill frames rest in (R.EWriteFailed :: evs, b)
  end.

Fixpoint cstrip (cevs : list cevent) : list cevent :=
  match cevs with
  | [] => []
  | CCommand (R.ChangeDecoding _) :: rest => cstrip rest
  | ev :: rest => ev :: cstrip rest
  end.

Section Sys.
Context {St : Type}.
Variable H : S.handler St.

(* (what the session did on the select! outcomes; Some e = it then met the reader's ending e) *)
Definition server_system_run (l : S.link) (a : S.auth) (units : S.ucfg St) (decode : N)
    (chunks : Reader.net) (fi : F.fin) (cevs : list cevent) :=
  let r := Reader.run_session (SystemServer.kind_of_link l) false chunks fi in
  let '(evs, at_end) := fill (map SystemServer.to_server_frame (Reader.frames_of (fst r))) cevs in
  (ServerRun.session_run H l a units decode evs, if at_end then Some (snd r) else None).
End Sys.
