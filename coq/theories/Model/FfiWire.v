(* Evaluator used by the C18/C19 system correspondence: a C-ABI TCP server with the programmable
   application of Model/FfiServer.v (unit 1), driven by database operation batches (configure callback /
   update_database transactions) and raw request frames; rendered like harness/src/cmd/ffi_wire.rs.
   Both the composed code model (Model/Server.handle_frame over ffi_handler) and the reference server
   (Spec/Modbus.ref_handle_frame over the same handler) are evaluated. Definitions only. *)
From Coq Require Import NArith List String Bool.
From Rodbus Require Import Base.Outcome Base.ServerTypes Base.Show Model.DbTypes Model.Database Model.Server Model.FfiServer Spec.Modbus.
From Rodbus Require Import Spec.FfiWireSpec Gen.LockScope.
Import ListNotations.
Local Open Scope N_scope.

Local Open Scope string_scope.
Definition show_reply (o : outcome serr (list N)) : string :=
  match o with Ok [] => "-" | Ok bs => show_bytes bs | Err _ => "ERR" | Panic => "PANIC" end.

(* (rendered results, most recent first) *)
Fixpoint run_items (W : c_write_handler N) (model : bool) (units : wire_units) (tx : N) (items : list item) : list string * wire_units :=
  match items with
  | [] => ([], units)
  | IOps ops :: rest =>
      let '(units', rs) := apply_ops units ops in
      let '(out, u') := run_items W model units' tx rest in
      (match rs with [] => out | _ => show_results rs :: out end, u')
  | IFrame u pdu :: rest =>
      let fr := {| f_tx := Some tx; f_dest := DUnit u; f_pdu := pdu |} in
      let '(reply, units') :=
        if model then let '(o, us, _) := Server.handle_frame (ffi_handler W) LTcp NoAuth units fr in (show_reply o, us)
        else let '(bs, us, _) := ref_handle_frame (ffi_handler W) LTcp NoAuth units fr in (show_reply (Ok bs), us) in
      let '(out, u') := run_items W model units' (tx + 1) rest in
      (reply :: out, u')
  | IDup ops :: rest =>
      (* device_map_add_endpoint for a unit id that is taken, per the regenerated statement order: refused before anything
         happens - or the configure callback runs on a fresh database that then REPLACES the registered one *)
      if duplicate_unit_refused_before_any_effect then
        let '(out, u') := run_items W model units tx rest in ("dup=F" :: out, u')
      else
        let '(d', rs) := Database.run db_empty ops in
        let '(out, u') := run_items W model (with_store units (sset (u_store units) 1 (d', 0))) tx rest in
        (match rs with [] => "dup=F" :: out | _ => show_results rs :: "dup=F" :: out end, u')
  end.

Definition callbacks_of (units : wire_units) : N := snd (u_store units 1).

(* set = the application registered its write callbacks (prog2_handler), else none (null_handler) *)
Definition run_wire (set : bool) (model : bool) (items : list item) : string :=
  let '(out, units) := run_items (if set then prog2_handler else null_handler) model {| u_map := [(1, 1)]; u_store := fun _ => (db_empty, 0) |} 1 items in
  show_list (fun s => s) ";" out ++ ";cb=" ++ show_N (callbacks_of units).
