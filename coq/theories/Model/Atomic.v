(* C19 atomicity: lock-granular interleaving model.  DEFINITIONS ONLY.
   A job runs inside one critical section of the unit's handler mutex: a transaction applies its
   writes one by one, a request reads its addresses one by one.  The scheduler (a list of thread
   indices) interleaves micro-steps of all threads arbitrarily.
   [step]    : one mutex around the whole job (what rodbus does).
   [step_pp] : per-point locking - every single point write / read is atomic, the job is not. *)
From Coq Require Import NArith List Lia Bool Arith.
From Rodbus Require Import Spec.AtomicSpec.
Import ListNotations.

Inductive job := Txn (ws : list (N * N)) | Req (addrs : list N).
Record thread := { tjob : job; pc : nat; holding : bool; finished : bool;
                   obs : list (option N); snap : nat }.
(* committed = write lists of the transactions that have released the lock, oldest first *)
Record world := { wdb : db; owner : option nat; threads : list thread;
                  committed : list (list (N * N)) }.

Definition upd_thread (ts : list thread) (i : nat) (t : thread) : list thread :=
  firstn i ts ++ t :: skipn (S i) ts.

(* thread i (currently t, not holding, not finished) enters its job *)
Definition start_job (w : world) (i : nat) (t : thread) : world :=
  {| wdb := wdb w; owner := Some i; committed := committed w;
     threads := upd_thread (threads w) i
       {| tjob := tjob t; pc := 0; holding := true; finished := false; obs := [];
          snap := length (committed w) |} |}.

(* thread i (currently t, inside its job) performs one micro-step: one point write, one point
   read, or - when the job is exhausted - the release *)
Definition micro (w : world) (i : nat) (t : thread) : world :=
  match tjob t with
  | Txn ws =>
      match nth_error ws (pc t) with
      | Some (a, v) =>
          {| wdb := set (wdb w) a v; owner := owner w; committed := committed w;
             threads := upd_thread (threads w) i
               {| tjob := tjob t; pc := S (pc t); holding := true; finished := false;
                  obs := obs t; snap := snap t |} |}
      | None =>                                                            (* release *)
          {| wdb := wdb w; owner := None; committed := committed w ++ [ws];
             threads := upd_thread (threads w) i
               {| tjob := tjob t; pc := pc t; holding := false; finished := true;
                  obs := obs t; snap := snap t |} |}
      end
  | Req addrs =>
      match nth_error addrs (pc t) with
      | Some a =>
          {| wdb := wdb w; owner := owner w; committed := committed w;
             threads := upd_thread (threads w) i
               {| tjob := tjob t; pc := S (pc t); holding := true; finished := false;
                  obs := obs t ++ [lookup (wdb w) a]; snap := snap t |} |}
      | None =>                                                            (* release *)
          {| wdb := wdb w; owner := None; committed := committed w;
             threads := upd_thread (threads w) i
               {| tjob := tjob t; pc := pc t; holding := false; finished := true;
                  obs := obs t; snap := snap t |} |}
      end
  end.

(* one micro-step of thread i, ONE mutex around the whole job *)
Definition step (w : world) (i : nat) : world :=
  match nth_error (threads w) i with
  | None => w
  | Some t =>
      if finished t then w
      else if negb (holding t) then
        match owner w with
        | Some _ => w                                              (* blocked on the mutex *)
        | None => start_job w i t
        end
      else micro w i t
  end.

(* per-point locking: the same, with the owner check dropped - a thread never blocks *)
Definition step_pp (w : world) (i : nat) : world :=
  match nth_error (threads w) i with
  | None => w
  | Some t =>
      if finished t then w
      else if negb (holding t) then start_job w i t
      else micro w i t
  end.

Definition run (w : world) (sched : list nat) : world := fold_left step sched w.
Definition run_pp (w : world) (sched : list nat) : world := fold_left step_pp sched w.

Definition init (d0 : db) (jobs : list job) : world :=
  {| wdb := d0; owner := None; committed := [];
     threads := map (fun j => {| tjob := j; pc := 0; holding := false; finished := false;
                                 obs := []; snap := 0 |}) jobs |}.
