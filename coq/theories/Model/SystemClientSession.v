(* The client as a whole over a SEQUENCE of requests on one connection: ONE production reader
   (Model/Reader.v) serves the whole connection - whatever it holds of an incomplete frame when an
   exchange ends stays in its buffer -, and in every exchange the task (Model/ClientTask.v) has a
   request in flight and hands the first matching frame to Request::handle_response
   (Model/ClientRequest.v).  Definitions only. *)
From Coq Require Import NArith List Bool.
From Rodbus Require Import Base.Outcome.
From Rodbus Require Base.Frame Base.ClientTypes Model.Reader Model.ClientTask Spec.SystemClientSpec Model.SystemClient.
Import ListNotations.
Module F := Rodbus.Base.Frame.
Module T := Rodbus.Model.ClientTask.
Module SS := Rodbus.Spec.SystemClientSpec.
Import SystemClient.

Section Sys.
Variable cfg : T.config.
Variable reqs : content.

(* one exchange from an arbitrary reader state: (reader afterwards, how the reader run ended, result) *)
Definition exchange_from (rd : Reader.reader) (st : T.state) (chunks : Reader.net) (fi : F.fin)
  : Reader.reader * F.ending * (T.state * list T.output * list (nat * hresult)) :=
  let '(rd1, (items, e)) := Reader.run_reader_st (Reader.run_fuel rd chunks) rd chunks fi in
  let '(s1, o1, d1) := deliver cfg reqs st (Reader.frames_of items) in
  let '(s2, o2) := T.run cfg s1 (end_events e) in
  (rd1, e, (s2, o1 ++ o2, d1)).

(* exchange k: the task state (request k in flight) and the chunks that arrive during it; the
   stream stays silent at the end of every exchange (the next exchange continues it) *)
Fixpoint session_from (rd : Reader.reader) (xs : list (T.state * nat * Reader.net)) : list SS.verdict :=
  match xs with
  | [] => []
  | (st, id, chunks) :: rest =>
      let '(rd1, e, res) := exchange_from rd st chunks F.FinPending in
      verdict_for id res :: match e with F.EndPending => session_from rd1 rest | _ => [] end
  end.

(* ClientLoop::run resets the reader when the connection starts *)
Definition client_session (xs : list (T.state * nat * Reader.net)) : list SS.verdict :=
  session_from (Reader.reader_new Reader.KTcp) xs.
End Sys.

(* ---- several connections of one channel: ONE reader for all of them, reset by ClientLoop::run when
   a connection starts (the repaired F5) ---- *)
Section Conns.
Variable cfg : T.config.
Variable reqs : content.

Definition xchg := (T.state * nat * Reader.net * F.fin)%type.

Fixpoint session_fi (rd : Reader.reader) (xs : list xchg) : Reader.reader * list SS.verdict :=
  match xs with
  | [] => (rd, [])
  | (st, id, chunks, fi) :: rest =>
      let '(rd1, e, res) := exchange_from cfg reqs rd st chunks fi in
      match fi, e with
      | F.FinPending, F.EndPending => let '(rd2, vs) := session_fi rd1 rest in (rd2, verdict_for id res :: vs)
      | _, _ => (rd1, [verdict_for id res])
      end
  end.

Fixpoint connections_from (rd : Reader.reader) (conns : list (list xchg)) : list (list SS.verdict) :=
  match conns with
  | [] => []
  | c :: rest => let '(rd1, vs) := session_fi (Reader.reader_reset rd) c in vs :: connections_from rd1 rest
  end.
End Conns.
