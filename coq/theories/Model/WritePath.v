(* How a frame leaves the library (C06 "every frame the library emits ...").
   common/phys.rs PhysLayer::write: per transport arm either `write_all(data)` whose result is returned,
   or a single `write(data)` whose count is dropped (Gen/WritePath.phys_write_arm, regenerated).
   server/task.rs write_reply: the write future raced against the command channel
   (Gen/WritePath.write_reply_shape, regenerated).
   The transport is a script: each time the write is polled it takes at most k bytes of what is offered
   (k = 0: not ready). Commands arrive in between. Definitions only. *)
From Coq Require Import NArith List Bool Arith.
From Rodbus Require Import Gen.WritePath.
Import ListNotations.

(* what the transport does at successive polls of the write *)
Definition takes := list nat.

Inductive wresult := WDone | WParked.      (* the call returned Ok / is still waiting for the transport *)

(* AsyncWriteExt::write_all as a resumable future: state = the bytes not yet taken *)
Fixpoint write_all (rem : list N) (ts : takes) : list N * wresult :=
  match rem with
  | [] => ([], WDone)
  | _ =>
      match ts with
      | [] => ([], WParked)
      | k :: ts' => let '(out, r) := write_all (skipn k rem) ts' in (firstn k rem ++ out, r)
      end
  end.
(* AsyncWriteExt::write, count dropped: the first poll that takes anything ends the call *)
Fixpoint write_once (data : list N) (ts : takes) : list N * wresult :=
  match ts with
  | [] => ([], WParked)
  | O :: ts' => match data with [] => ([], WDone) | _ => write_once data ts' end
  | k :: _ => (firstn k data, WDone)
  end.

(* PhysLayer::write on transport arm v *)
Definition phys_write (v : phys_variant) (data : list N) (ts : takes) : list N * wresult :=
  match phys_write_arm v with
  | WriteAllReturned => write_all data ts
  | WriteOnceCountDropped => write_once data ts
  end.

(* write_reply: events while the reply is being written *)
Inductive scmd := CChangeDecoding | CShutdown | CClosed.
Inductive wevent := Take (k : nat) | Cmd (c : scmd).
Inductive rresult := RDone | RParked | RShutdown.

(* `rem` = what the CURRENT write future still has to hand over; `data` = the whole reply *)
Fixpoint write_reply (shape : write_reply_shape_t) (data rem : list N) (evs : list wevent) {struct evs} : list N * rresult :=
  match rem with
  | [] => ([], RDone)
  | _ =>
      match evs with
      | [] => ([], RParked)
      | Take k :: r => let '(out, res) := write_reply shape data (skipn k rem) r in (firstn k rem ++ out, res)
      | Cmd CChangeDecoding :: r =>
          write_reply shape data
            match shape with
            | WriteOnceRacedAgainstCommands => rem         (* the same write future goes on *)
            | WriteRecreatedAfterEveryCommand => data      (* the future is dropped; a new io.write(bytes) starts from the first byte *)
            end r
      | Cmd _ :: _ => ([], RShutdown)
      end
  end.

(* the server's reply write, as the code has it *)
Definition server_write_reply (data : list N) (evs : list wevent) : list N * rresult :=
  write_reply write_reply_shape data data evs.

(* ---- the client's request write (client/task.rs execute_request) ----
   The write is awaited by execute_request itself; since F14 it is bounded by the request's timeout
   (Gen/WritePath.client_write_shape, regenerated): when the timeout elapses while the transport has not taken the
   whole frame, the call ends with Io(TimedOut), which ends the session (Gen/ClientFatal.io_error_ends_session). *)
Inductive cevent := CTake (k : nat) | CTimeout.
Inductive cresult := CDone | CParked | CTimedOut.

Fixpoint client_write (shape : client_write_shape_t) (rem : list N) (evs : list cevent) {struct evs} : list N * cresult :=
  match rem with
  | [] => ([], CDone)
  | _ =>
      match evs with
      | [] => ([], CParked)
      | CTake k :: r => let '(out, res) := client_write shape (skipn k rem) r in (firstn k rem ++ out, res)
      | CTimeout :: r =>
          match shape with
          | ClientWriteBoundedByRequestTimeout => ([], CTimedOut)
          | ClientWriteAwaitedUnbounded => client_write shape rem r          (* nothing bounds the wait *)
          end
      end
  end.
Definition client_request_write (data : list N) (evs : list cevent) : list N * cresult :=
  client_write client_write_shape data evs.

(* one connection: request after request; `ends` says whether an I/O error ends the session. Result: everything handed
   to the transport on this connection, and whether the session is still alive *)
Fixpoint client_conn_emit (ends : bool) (reqs : list (list N * list cevent)) : list N * bool :=
  match reqs with
  | [] => ([], true)
  | (data, evs) :: r =>
      match client_request_write data evs with
      | (out, CDone) => let '(o, alive) := client_conn_emit ends r in (out ++ o, alive)
      | (out, CParked) => (out, true)                       (* still writing; later requests wait in the queue *)
      | (out, CTimedOut) =>
          if ends then (out, false)
          else let '(o, alive) := client_conn_emit ends r in (out ++ o, alive)
      end
  end.
