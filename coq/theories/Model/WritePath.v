(* How a frame leaves the library (C06 "every frame the library emits ...").
   common/phys.rs PhysLayer::write: per transport arm either `write_all(data)` whose result is returned,
   or a single `write(data)` whose count is dropped (Gen/WritePath.phys_write_arm, regenerated).
   server/task.rs write_reply: the write future raced against the command channel
   (Gen/WritePath.write_reply_shape, regenerated).
   The transport is a script: each time the write is polled it takes at most k bytes of what is offered
   (k = 0: not ready). Commands arrive in between. Definitions only. *)
From Coq Require Import NArith List Bool Arith.
From Rodbus Require Import Gen.WritePath.
Import ListNotations.

(* what the transport does at successive polls of the write *)
Definition takes := list nat.

Inductive wresult := WDone | WParked.      (* the call returned Ok / is still waiting for the transport *)

(* AsyncWriteExt::write_all as a resumable future: state = the bytes not yet taken *)
Fixpoint write_all (rem : list N) (ts : takes) : list N * wresult :=
  match rem with
  | [] => ([], WDone)
  | _ =>
      match ts with
      | [] => ([], WParked)
      | k :: ts' => let '(out, r) := write_all (skipn k rem) ts' in (firstn k rem ++ out, r)
      end
  end.
(* AsyncWriteExt::write, count dropped: the first poll that takes anything ends the call *)
Fixpoint write_once (data : list N) (ts : takes) : list N * wresult :=
  match ts with
  | [] => ([], WParked)
  | O :: ts' => match data with [] => ([], WDone) | _ => write_once data ts' end
  | k :: _ => (firstn k data, WDone)
  end.

(* PhysLayer::write on transport arm v *)
Definition phys_write (v : phys_variant) (data : list N) (ts : takes) : list N * wresult :=
  match phys_write_arm v with
  | WriteAllReturned => write_all data ts
  | WriteOnceCountDropped => write_once data ts
  end.

(* write_reply: events while the reply is being written *)
Inductive scmd := CChangeDecoding | CShutdown | CClosed.
Inductive wevent := Take (k : nat) | Cmd (c : scmd).
Inductive rresult := RDone | RParked | RShutdown.

(* `rem` = what the CURRENT write future still has to hand over; `data` = the whole reply *)
Fixpoint write_reply (shape : write_reply_shape_t) (data rem : list N) (evs : list wevent) {struct evs} : list N * rresult :=
  match rem with
  | [] => ([], RDone)
  | _ =>
      match evs with
      | [] => ([], RParked)
      | Take k :: r => let '(out, res) := write_reply shape data (skipn k rem) r in (firstn k rem ++ out, res)
      | Cmd CChangeDecoding :: r =>
          write_reply shape data
            match shape with
            | WriteOnceRacedAgainstCommands => rem         (* the same write future goes on *)
            | WriteRecreatedAfterEveryCommand => data      (* the future is dropped; a new io.write(bytes) starts from the first byte *)
            end r
      | Cmd _ :: _ => ([], RShutdown)
      end
  end.

(* the server's reply write, as the code has it *)
Definition server_write_reply (data : list N) (evs : list wevent) : list N * rresult :=
  write_reply write_reply_shape data data evs.
