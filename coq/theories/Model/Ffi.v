(* Model of the C-ABI layer for C18, interpreted over the GENERATED tables of Gen/FfiTables.v:
   - the write path of the server wrapper (RequestHandlerWrapper write methods + convert_to_result);
   - the completion chain of a client request made through the C ABI:
       ffi client.rs  client_channel_<request>   (null checks, range validation, sfio_promise::wrap,
                                                  channel.inner.<request>(.., |res| callback.complete(res))?)
       rodbus         FfiChannel::<request>      (limit check, rodbus Promise::new(callback), try_send)
       sfio_promise::Promise  (complete takes the Option; Drop completes with FutureType::on_drop())
       rodbus Promise         (complete takes the Option; Drop = failure(Shutdown))
   Ownership is what makes "exactly once" hold in Rust: every object is dropped exactly once, and a
   FnOnce closure is either called or dropped. The model makes every drop explicit.
   Definitions only. *)
From Coq Require Import NArith List String Bool.
From Rodbus Require Import Gen.FfiTables.
Import ListNotations.
Local Open Scope string_scope.

(* ---------- server write path ---------- *)
(* the C callback result: None = the callback pointer is not set, Some (success, exception, raw_exception) *)
Definition c_write_result := option (bool * ffi_modbus_exception * N)%type.

(* Result<(), ExceptionCode> of the RequestHandler method: Some None = Ok(()), Some (Some e) = Err(e);
   outer None = the generated arm has a shape the model does not understand *)
Definition wrapper_result (w : write_wrapper) (cb : c_write_result) : option (option rust_exception_code) :=
  match cb with
  | Some (s, e, r) =>
      match ww_some w with
      | UsesConvertToResult => Some (convert_to_result s e r)
      | OtherSomeArm _ => None
      end
  | None =>
      match ww_none w with
      | ErrException e => Some (Some e)
      | OtherNoneArm _ => None
      end
  end.

(* the exception byte the server puts on the wire (None = positive reply) *)
Definition reply_exception_byte (r : option rust_exception_code) : option N := option_map exception_to_u8 r.

(* ---------- client completion chain ---------- *)
Inductive result := ROk | RErr (e : rust_request_error).     (* payload of Ok is passed through unchanged: not modelled *)

(* what the C completion callback observes *)
Inductive cb_event := OnComplete | OnFailure (e : ffi_request_error) | ShapeUnknown.

(* FutureType::complete of the callback struct (ext.rs) *)
Definition fire (ft : future_type) (r : result) : cb_event :=
  match r with
  | ROk => if ft_complete_ok_calls_on_complete ft then OnComplete else ShapeUnknown
  | RErr e => if ft_complete_err_calls_on_failure_into ft then OnFailure (request_error_to_ffi e) else ShapeUnknown
  end.

(* sfio_promise::Promise { inner: Option<T> }: armed = inner is Some *)
Definition sfio_complete (ft : future_type) (armed : bool) (r : result) : bool * list cb_event :=
  if armed then (false, [fire ft r]) else (false, []).
Definition sfio_drop (ft : future_type) (armed : bool) : list cb_event :=
  if armed then
    match ft_on_drop ft with
    | Some e => snd (sfio_complete ft armed (RErr e))
    | None => [ShapeUnknown]
    end
  else [].

(* who owns the C callback at a given point of the call *)
Inductive stage :=
| Bare                      (* the plain callback struct: dropping it only runs on_destroy *)
| Wrapped                   (* sfio promise (armed), owned by the function or by the closure |res| callback.complete(res) *)
| InPromise (kind : string) (* rodbus promise of that kind (armed), owning the closure, which owns the sfio promise *)
| Spent.                    (* completed *)

(* rodbus Promise::complete(r): take the Option, call the closure: sfio complete, then the consumed
   sfio promise is dropped with inner = None *)
Definition promise_complete (ft : future_type) (st : stage) (r : result) : stage * list cb_event :=
  match st with
  | InPromise _ => let (a, ev) := sfio_complete ft true r in (Spent, (ev ++ sfio_drop ft a)%list)
  | _ => (st, [])
  end.

Definition promise_drop_error (kind : string) : option rust_request_error :=
  match find (fun p => String.eqb (fst p) kind) rodbus_promise_drop with
  | Some (_, e) => e
  | None => None
  end.

(* dropping whatever currently owns the callback *)
Definition drop_stage (ft : future_type) (st : stage) : list cb_event :=
  match st with
  | Bare => []
  | Wrapped => sfio_drop ft true
  | InPromise kind =>
      match promise_drop_error kind with
      | Some e => snd (promise_complete ft st (RErr e))
      | None => [ShapeUnknown]
      end
  | Spent => []
  end.

(* what the client task may do with an accepted command before it is (necessarily) dropped *)
Inductive task_op := TComplete (r : result) | TDropEarly.

Fixpoint run_task (ft : future_type) (st : stage) (ops : list task_op) : list cb_event :=
  match ops with
  | [] => drop_stage ft st                                   (* every command is eventually dropped *)
  | TComplete r :: rest => let (st', ev) := promise_complete ft st r in (ev ++ run_task ft st' rest)%list
  | TDropEarly :: _ => drop_stage ft st
  end.

Inductive send_outcome := Accepted | QueueFull | ChannelClosed.

(* the environment of one call *)
Record call_env := {
  null_args : list string;              (* which pointer arguments are null *)
  failing_validation : option string;   (* the Validate step that rejects its argument, if any *)
  over_limit : bool;                    (* count above the Modbus read limit (of_read_bits / of_read_registers) *)
  send : send_outcome;
  task : list task_op
}.

Definition validation_error (what : string) : ffi_param_error :=
  let src := if String.eqb what "AddressRange::try_from" then "InvalidRange"
             else if String.eqb what "WriteMultiple::from" then "InvalidRequest" else what in
  match find (fun p => String.eqb (fst p) src) simple_param_errors with
  | Some (_, e) => e
  | None => FPE_Ok       (* unknown validation: reported as Ok so that the param-error theorem fails *)
  end.

Definition promise_kind (channel_method : string) : string :=
  if String.eqb channel_method "read_bits" then "read_bits"
  else if String.eqb channel_method "read_registers" then "read_registers" else "write".

(* FfiChannel::<method>: returns Some error (and the events fired by dropping what it owns) or None = sent *)
Fixpoint run_channel (ft : future_type) (kind : string) (env : call_env) (st : stage) (steps : list channel_step)
  : option rust_ffi_channel_error * list cb_event :=
  match steps with
  | [] => (None, drop_stage ft st)
  | LimitCheck _ :: rest =>
      if over_limit env then (Some RFC_BadRange, drop_stage ft st) else run_channel ft kind env st rest
  | MakePromise :: rest =>
      match st with
      | Wrapped => run_channel ft kind env (InPromise kind) rest
      | _ => (None, [ShapeUnknown])
      end
  | TrySend :: _ =>
      if send_is_try_send then
        match send env with
        | Accepted => (None, run_task ft st (task env))
        | QueueFull => (Some (try_send_error_to_channel_error TSE_Full), drop_stage ft st)
        | ChannelClosed => (Some (try_send_error_to_channel_error TSE_Closed), drop_stage ft st)
        end
      else (None, [ShapeUnknown])
  | OtherChannelStep _ :: _ => (None, [ShapeUnknown])
  end.

Definition channel_steps (request : string) : list channel_step :=
  match find (fun p => String.eqb (fst p) (channel_method_of request)) channel_methods with
  | Some (_, s) => s
  | None => [OtherChannelStep "unknown method"]
  end.

(* client_channel_<request>: returned ParamError and the completion-callback invocations it causes *)
Fixpoint run_call (ft : future_type) (env : call_env) (st : stage) (steps : list call_step) : ffi_param_error * list cb_event :=
  match steps with
  | [] => (FPE_Ok, drop_stage ft st)
  | CheckNull x :: rest =>
      if existsb (String.eqb x) (null_args env) then (FPE_NullParameter, drop_stage ft st) else run_call ft env st rest
  | Validate w :: rest =>
      match failing_validation env with
      | Some w' => if String.eqb w w' then (validation_error w, drop_stage ft st) else run_call ft env st rest
      | None => run_call ft env st rest
      end
  | WrapPromise :: rest =>
      match st with
      | Bare => run_call ft env Wrapped rest
      | _ => (FPE_Ok, [ShapeUnknown])
      end
  | SendViaChannel m completes :: rest =>
      if completes then
        let (err, ev) := run_channel ft (promise_kind (channel_method_of m)) env st (channel_steps m) in
        match err with
        | Some e => (ffi_channel_error_to_ffi e, ev)           (* `?` : early return, everything owned was dropped above *)
        | None => let (rc, ev') := run_call ft env Spent rest in (rc, (ev ++ ev')%list)
        end
      else (FPE_Ok, [ShapeUnknown])
  | ReturnOk :: _ => (FPE_Ok, drop_stage ft st)
  | OtherStep _ :: _ => (FPE_Ok, [ShapeUnknown])
  end.

Definition ffi_call (ft : future_type) (request : string * list call_step) (env : call_env) : ffi_param_error * list cb_event :=
  run_call ft env Bare (snd request).

(* the callback struct used by a request *)
Definition callback_of (request : string) : string :=
  if String.eqb request "read_coils" || String.eqb request "read_discrete_inputs" then "BitReadCallback"
  else if String.eqb request "read_holding_registers" || String.eqb request "read_input_registers" then "RegisterReadCallback"
  else "WriteCallback".

(* the value the Rust API would deliver for the same history: the first completion, else Shutdown *)
Definition first_completion (ops : list task_op) : result :=
  match ops with
  | TComplete r :: _ => r
  | _ => RErr RRE_Shutdown
  end.
