(* The C-ABI client as a front end of the verified client core.

   ffi/rodbus-ffi/src/client.rs: the eight `client_channel_<request>` functions (null checks, AddressRange::try_from /
   WriteMultiple::from, sfio_promise::wrap, FfiChannel::<request>(param.into(), .., |res| callback.complete(res))) -
   statement order from Gen/FfiTables.v `client_calls`, interpreted by Model/Ffi.v;
   ffi/rodbus-ffi/src/list.rs (BitList / RegisterList: how a C caller hands values in) and iterator.rs
   (BitValueIterator / RegisterValueIterator: how values are handed to C callbacks - also to the server's
   write-multiple callbacks);
   the glue to p1's client codec model (Model/ClientRequest.v, Model/ClientPaths.v: `submit_via ViaFfi`,
   `deliver_via ViaFfi`) and to p4's task model (Model/ClientTask.v: submit style SFfi, OComplete).
   Definitions only. *)
From Coq Require Import NArith List String Bool.
From Rodbus Require Import Base.Outcome Base.ClientTypes Model.Range Model.ClientRequest Model.ClientPaths
  Gen.ClientTables Gen.SessionErrors Gen.FfiTables Model.Ffi.
From Rodbus Require Model.ClientTask Spec.FfiSpec.
Import ListNotations.
Local Open Scope N_scope.

(* ---------------------------------------------------------------- list.rs *)
(* rodbus_bit_list_create / rodbus_register_list_create: an empty Vec; ..._add: Vec::push *)
Definition list_create {A} : list A := [].
Definition list_add {A} (l : list A) (x : A) : list A := l ++ [x].
(* the Vec a C caller ends up with after adding `items` one by one *)
Definition list_of_adds {A} (items : list A) : list A := fold_left list_add items list_create.

(* ---------------------------------------------------------------- iterator.rs *)
(* BitValueIterator { inner: rodbus::BitIterator, current: ffi::BitValue }: `next` advances the inner
   iterator, copies index and value into `current` and returns a pointer to it (NULL at the end).
   `vi_inner` = what the inner Rust iterator will still yield. *)
Record value_iter (A : Type) := { vi_inner : list (N * A); vi_current : N * A }.
Arguments vi_inner {A}. Arguments vi_current {A}.
Definition vi_new {A} (inner : list (N * A)) (zero : A) : value_iter A := {| vi_inner := inner; vi_current := (0, zero) |}.
Definition vi_next {A} (it : value_iter A) : option ((N * A) * value_iter A) :=
  match vi_inner it with
  | [] => None
  | x :: rest => let it' := {| vi_inner := rest; vi_current := (fst x, snd x) |} in Some (vi_current it', it')
  end.
(* the C callback's loop `while ((v = ..._iterator_next(it)) != NULL) { use v }` *)
Fixpoint vi_drain {A} (fuel : nat) (it : value_iter A) : list (N * A) :=
  match fuel with
  | O => []
  | S f => match vi_next it with None => [] | Some (v, it') => v :: vi_drain f it' end
  end.
Definition vi_all {A} (inner : list (N * A)) (zero : A) : list (N * A) := vi_drain (S (List.length inner)) (vi_new inner zero).

(* ---------------------------------------------------------------- one C call *)
(* the arguments as the C caller supplies them: AddressRange fields for reads; for write-multiple the start and
   the list pointer: None = NULL, Some adds = a list built by ..._list_add(adds_0), ..._list_add(adds_1), ... *)
Inductive c_call :=
| CcReadCoils (start count : N) | CcReadDiscreteInputs (start count : N)
| CcReadHoldingRegisters (start count : N) | CcReadInputRegisters (start count : N)
| CcWriteSingleCoil (index : N) (value : bool) | CcWriteSingleRegister (index value : N)
| CcWriteMultipleCoils (start : N) (items : option (list bool))
| CcWriteMultipleRegisters (start : N) (items : option (list N)).

Local Open Scope string_scope.
Definition c_name (cc : c_call) : string :=
  match cc with
  | CcReadCoils _ _ => "read_coils" | CcReadDiscreteInputs _ _ => "read_discrete_inputs"
  | CcReadHoldingRegisters _ _ => "read_holding_registers" | CcReadInputRegisters _ _ => "read_input_registers"
  | CcWriteSingleCoil _ _ => "write_single_coil" | CcWriteSingleRegister _ _ => "write_single_register"
  | CcWriteMultipleCoils _ _ => "write_multiple_coils" | CcWriteMultipleRegisters _ _ => "write_multiple_registers"
  end.

(* the same call through the Rust API (None: there is no Rust counterpart of a NULL list) *)
Definition to_call (cc : c_call) : option call :=
  match cc with
  | CcReadCoils s n => Some (CReadCoils s n) | CcReadDiscreteInputs s n => Some (CReadDiscreteInputs s n)
  | CcReadHoldingRegisters s n => Some (CReadHoldingRegisters s n) | CcReadInputRegisters s n => Some (CReadInputRegisters s n)
  | CcWriteSingleCoil i v => Some (CWriteSingleCoil i v) | CcWriteSingleRegister i v => Some (CWriteSingleRegister i v)
  | CcWriteMultipleCoils s (Some adds) => Some (CWriteMultipleCoils s (list_of_adds adds))
  | CcWriteMultipleRegisters s (Some adds) => Some (CWriteMultipleRegisters s (list_of_adds adds))
  | CcWriteMultipleCoils _ None | CcWriteMultipleRegisters _ None => None
  end.

Definition items_null (cc : c_call) : bool :=
  match cc with CcWriteMultipleCoils _ None | CcWriteMultipleRegisters _ None => true | _ => false end.

(* the environment of Model/Ffi.run_call derived from the ACTUAL arguments: which validation step of the C function
   rejects them, and whether FfiChannel's read-limit check (of_read_bits / of_read_registers) does *)
Definition failing_step (cc : c_call) : option string :=
  match cc with
  | CcReadCoils s n | CcReadDiscreteInputs s n | CcReadHoldingRegisters s n | CcReadInputRegisters s n =>
      match try_from s n with inl _ => Some "AddressRange::try_from" | inr _ => None end
  | CcWriteMultipleCoils s (Some adds) =>
      match write_multiple_from s (list_of_adds adds) with Ok _ => None | _ => Some "WriteMultiple::from" end
  | CcWriteMultipleRegisters s (Some adds) =>
      match write_multiple_from s (list_of_adds adds) with Ok _ => None | _ => Some "WriteMultiple::from" end
  | _ => None
  end.
Definition over_read_limit (cc : c_call) : bool :=
  match cc with
  | CcReadCoils s n | CcReadDiscreteInputs s n =>
      match try_from s n, of_read_bits (s, n) with inr _, inl _ => true | _, _ => false end
  | CcReadHoldingRegisters s n | CcReadInputRegisters s n =>
      match try_from s n, of_read_registers (s, n) with inr _, inl _ => true | _, _ => false end
  | _ => false
  end.

Definition env_of (channel_null : bool) (cc : c_call) (snd_ : send_outcome) (task_ : list task_op) : call_env :=
  {| null_args := (if channel_null then ["channel"] else []) ++ (if items_null cc then ["items"] else []);
     failing_validation := failing_step cc;
     over_limit := over_read_limit cc;
     send := snd_;
     task := task_ |}.

Definition ft_of (cc : c_call) : future_type :=
  match find (fun f => String.eqb (ft_callback f) (callback_of (c_name cc))) future_types with
  | Some f => f
  | None => {| ft_callback := ""; ft_on_drop := None; ft_complete_ok_calls_on_complete := false; ft_complete_err_calls_on_failure_into := false |}
  end.
Definition steps_of (cc : c_call) : list call_step :=
  match find (fun p => String.eqb (fst p) (c_name cc)) client_calls with Some p => snd p | None => [OtherStep "unknown function"] end.

(* rodbus_client_channel_<request>(channel, param, args.., callback): returned ParamError and the completion-callback
   invocations, given how the queue answers try_send and what the client task later does with the command *)
Definition c_function (channel_null : bool) (cc : c_call) (snd_ : send_outcome) (task_ : list task_op) : ffi_param_error * list cb_event :=
  ffi_call (ft_of cc) (c_name cc, steps_of cc) (env_of channel_null cc snd_ task_).

(* ---------------------------------------------------------------- one list object, several calls *)
(* `list_args` (regenerated from client_channel_write_multiple_coils / _registers): how the function borrows the
   caller's list object and which expression hands its values to WriteMultiple::from. Interpreted here:
     items.inner.clone()                 the call sees the Vec, the object keeps it
     std::mem::take(&mut items.inner)    the call sees the Vec, the object is left EMPTY (needs a mutable borrow)
     anything else                       unknown (None) *)
Definition list_use (fn : string) : string * string :=
  match find (fun r => String.eqb (fst (fst r)) fn) list_args with Some r => (snd (fst r), snd r) | None => ("", "") end.
Definition list_read {A} (fn : string) (l : list A) : option (list A) :=
  let t := snd (list_use fn) in
  if String.eqb t "items.inner.clone()" then Some l
  else if String.eqb t "std::mem::take(&mutitems.inner)" && String.eqb (fst (list_use fn)) "as_mut" then Some l else None.
Definition list_left {A} (fn : string) (l : list A) : option (list A) :=
  let t := snd (list_use fn) in
  if String.eqb t "items.inner.clone()" then Some l
  else if String.eqb t "std::mem::take(&mutitems.inner)" && String.eqb (fst (list_use fn)) "as_mut" then Some [] else None.
(* per call of the sequence: its start address and the Vec it reads from the object (None: not determined) *)
Fixpoint list_calls {A} (fn : string) (l : option (list A)) (steps : list (Spec.FfiSpec.list_step A)) : list (N * option (list A)) :=
  match steps with
  | [] => []
  | Spec.FfiSpec.LsAdd x :: rest => list_calls fn (option_map (fun v => list_add v x) l) rest
  | Spec.FfiSpec.LsCall s :: rest =>
      (s, match l with Some v => list_read fn v | None => None end)
        :: list_calls fn (match l with Some v => list_left fn v | None => None end) rest
  end.

(* ---------------------------------------------------------------- errors: the two client models' classes as rodbus::RequestError *)
(* p1's codec errors (Model/ClientRequest.req_err; the RequestError variant is in its comment there) *)
Definition class_of_codec (e : req_err) : rust_request_error :=
  match e with
  | ECountOfZero | EAddressOverflow | ECountTooLargeForType | ECountTooBigForU16 | ECountTooBigForType => RRE_BadRequest
  | EInsufficientWriteSpace | EBadByteCount => RRE_Internal
  | EInsufficientBytes | ETrailingBytes | EReplyEchoMismatch | EUnknownResponseFunction | EUnknownCoilState => RRE_BadResponse
  | EException ex => RRE_Exception (exception_from_u8 (u8_of_excode ex))
  end.
(* p4's task-level classes (Gen/SessionErrors.request_error: payloads dropped); `ex` = the exception code when the class is ReException *)
Definition class_of_task (e : request_error) (ex : rust_exception_code) : rust_request_error :=
  match e with
  | ReIo => RRE_Io | ReException => RRE_Exception ex | ReBadRequest => RRE_BadRequest | ReBadFrame => RRE_BadFrame
  | ReBadResponse => RRE_BadResponse | ReInternal => RRE_Internal | ReResponseTimeout => RRE_ResponseTimeout
  | ReNoConnection => RRE_NoConnection | ReShutdown => RRE_Shutdown
  end.
Definition of_task_result (r : ClientTask.result) (ex : rust_exception_code) : Ffi.result :=
  match r with ClientTask.ROk => Ffi.ROk | ClientTask.RErr e => Ffi.RErr (class_of_task e ex) end.

(* ---------------------------------------------------------------- what the C callback receives *)
Inductive c_value :=
| CvBits (l : list (N * bool))        (* on_complete(BitValueIterator): the values the callback reads off the iterator *)
| CvRegisters (l : list (N * N))      (* on_complete(RegisterValueIterator) *)
| CvNothing                           (* on_complete(Nothing) of a write *)
| CvFailure (e : ffi_request_error).  (* on_failure(e) *)

(* FutureType::complete of the three callback structs applied to the result of the request as the client core
   computes it (Model/ClientRequest.response): reads are wrapped in a ...ValueIterator which the callback drains *)
Definition c_deliver (o : outcome req_err response) : option c_value :=
  match o with
  | Ok (RespBits l) => Some (CvBits (vi_all l false))
  | Ok (RespRegisters l) => Some (CvRegisters (vi_all l 0))
  | Ok (RespCoil _ _) | Ok (RespRegister _ _) | Ok (RespRange _ _) => Some CvNothing
  | Err e => Some (CvFailure (request_error_to_ffi (class_of_codec e)))
  | Panic => None
  end.

(* the C callback invocations a run of the client task (Model/ClientTask outputs) causes for request `id` submitted
   through the C ABI: every completion of its rodbus promise goes through the closure into the sfio promise *)
Definition c_callbacks (ft : future_type) (kind : string) (ex : rust_exception_code) (outs : list ClientTask.output) (id : nat) : list cb_event :=
  flat_map (fun o => match o with
                     | ClientTask.OComplete i res => if Nat.eqb i id then run_task ft (InPromise kind) [TComplete (of_task_result res ex)] else []
                     | _ => []
                     end) outs.
