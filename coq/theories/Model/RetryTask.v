(* Model of how the tasks use the retry strategy (C14, task level):
     rodbus/src/tcp/client.rs     TcpChannelTask::{try_connect_and_run, run_connection, handle_failed_connection}
     rodbus/src/serial/client.rs  SerialChannelTask::try_open_and_run
     rodbus/src/serial/server.rs  RtuServerTask::run
   as one transition system with a variant parameter. Atomic steps are the segments between await
   points; the outputs are what the task does in that segment, in program order:
     OAttempt      the connect / open call (for the TCP client preceded by the Connecting announcement)
     OUp           listener.update(Connected) / listener.update(PortState::Open)   (no listener in the RTU server)
     OReset        retry.reset()
     OAnnounce k d listener.update(WaitAfterFailedConnect(d) / WaitAfterDisconnect(d) / PortState::Wait(d))
     OArm d        client_loop.fail_requests_for(d) / session.sleep_for(d): a timer for d is armed
     OElapsed d    that timer fired
     ODisabled     the wait (or the connection) was abandoned because the channel was disabled
   The strategy object is Model/Retry.v. WHICH strategy method a segment calls is not written down here: it is
   read from Gen/RetryArms.v, the translator's table of the arms of the `match` on the session result (and of the
   failed-connect / failed-open paths) in those three files. *)
From Coq Require Import NArith List.
From Rodbus Require Import Model.Retry Gen.RetryArms.
Import ListNotations.
Local Open Scope N_scope.

Inductive variant := TcpClient | SerialClient | RtuServer.
Inductive tphase := Idle | Waiting (d : N) | Up.
Inductive lost_kind := LIo | LBadFrame | LMaxTimeouts.
Inductive tevent :=
| AttemptFails      (* connect refused / TLS handshake failed / port cannot be opened *)
| AttemptOk         (* connected (after the TLS handshake) / port opened *)
| Lost (k : lost_kind)  (* the session ended with an I/O error, a bad frame or too many response timeouts *)
| Elapsed           (* the armed timer fired *)
| Interrupt.        (* the channel was disabled (and later enabled again) *)
Inductive wait_kind := AfterFailedConnect | AfterDisconnect.
Inductive tout :=
| OAttempt | OUp | OReset
| OAnnounce (k : wait_kind) (d : N)
| OArm (d : N)
| OElapsed (d : N)
| ODisabled.

Record task := { strat : doubling; phase : tphase }.
Definition tinit (mn mx : N) : task := {| strat := create mn mx; phase := Idle |}.

Definition announce (v : variant) (k : wait_kind) (d : N) : list tout :=
  match v with RtuServer => [] | _ => [OAnnounce k d] end.

Definition on_success (v : variant) : list tout :=
  match v with
  | TcpClient => [OUp; OReset]        (* listener.update(Connected); connect_retry.reset() *)
  | SerialClient => [OReset; OUp]     (* retry.reset(); listener.update(Open) *)
  | RtuServer => [OReset]
  end.

(* ---- the generated tables, per task variant *)
Definition op_of_call (c : retry_call) : op :=
  match c with CallAfterDisconnect => Disc | CallAfterFailedConnect => Fail end.
Definition end_of (k : lost_kind) : session_end :=
  match k with LIo => EndIoError | LBadFrame => EndBadFrame | LMaxTimeouts => EndMaxTimeouts end.
(* what the task does when its session ends with e. The RTU server's session returns a RequestError: Shutdown ends
   the task, everything else takes the one wait path (its session is never "disabled"; that row only keeps the
   function total) *)
Definition session_arm (v : variant) (e : session_end) : arm_action :=
  match v with
  | TcpClient => tcp_session_arm e
  | SerialClient => serial_session_arm e
  | RtuServer => match e with EndShutdown => ArmShutdown | EndDisabled => ArmNoWait | _ => ArmWait rtu_server_lost_call end
  end.
Definition failed_call (v : variant) : retry_call :=
  match v with TcpClient => tcp_failed_call | SerialClient => serial_failed_call | RtuServer => rtu_server_failed_call end.
Definition resets_on_success (v : variant) : bool :=
  match v with TcpClient => tcp_resets_on_connected | SerialClient => serial_resets_on_open | RtuServer => rtu_server_resets_on_open end.

(* let delay = retry.<c>(); announce; arm *)
Definition wait_with (v : variant) (t : task) (c : retry_call) (k : wait_kind) (pre : list tout) : option (task * list tout) :=
  match step (strat t) (op_of_call c) with
  | Some (s', Some d) => Some ({| strat := s'; phase := Waiting d |}, pre ++ announce v k d ++ [OArm d])
  | _ => None
  end.
(* the arm of the match on the session result *)
Definition session_ends (v : variant) (t : task) (e : session_end) : option (task * list tout) :=
  match session_arm v e with
  | ArmShutdown => None                                                   (* the task ends: not an event of this model *)
  | ArmNoWait => Some ({| strat := strat t; phase := Idle |}, [ODisabled])
  | ArmWait c => wait_with v t c AfterDisconnect []
  end.

Definition tstep (v : variant) (t : task) (e : tevent) : option (task * list tout) :=
  match phase t, e with
  | Idle, AttemptFails => wait_with v t (failed_call v) AfterFailedConnect [OAttempt]
  | Idle, AttemptOk =>
      if resets_on_success v then
        match step (strat t) Reset with
        | Some (s', _) => Some ({| strat := s'; phase := Up |}, OAttempt :: on_success v)
        | None => None
        end
      else Some ({| strat := strat t; phase := Up |}, OAttempt :: filter (fun x => match x with OReset => false | _ => true end) (on_success v))
  | Up, Lost k => session_ends v t (end_of k)
  | Up, Interrupt => session_ends v t EndDisabled
  | Waiting d, Elapsed => Some ({| strat := strat t; phase := Idle |}, [OElapsed d])
  | Waiting d, Interrupt => Some ({| strat := strat t; phase := Idle |}, [ODisabled])
  | _, _ => Some (t, [])                             (* the event cannot occur in this phase *)
  end.

Fixpoint trun (v : variant) (t : task) (evs : list tevent) : option (task * list tout) :=
  match evs with
  | [] => Some (t, [])
  | e :: r => match tstep v t e with
              | None => None
              | Some (t1, o1) => match trun v t1 r with
                                 | None => None
                                 | Some (t2, o2) => Some (t2, o1 ++ o2)
                                 end
              end
  end.

(* the delays armed, in order *)
Definition armed (o : list tout) : list N := flat_map (fun x => match x with OArm d => [d] | _ => [] end) o.
Definition announced (o : list tout) : list N := flat_map (fun x => match x with OAnnounce _ d => [d] | _ => [] end) o.

(* which strategy calls an event list amounts to (phase logic only) *)
Inductive kind := KIdle | KWaiting | KUp.
Definition knext (k : kind) (e : tevent) : kind * list op :=
  match k, e with
  | KIdle, AttemptFails => (KWaiting, [Fail])
  | KIdle, AttemptOk => (KUp, [Reset])
  | KUp, Lost _ => (KWaiting, [Disc])
  | KUp, Interrupt => (KIdle, [])
  | KWaiting, Elapsed => (KIdle, [])
  | KWaiting, Interrupt => (KIdle, [])
  | _, _ => (k, [])
  end.
Fixpoint calls_of (k : kind) (evs : list tevent) : list op :=
  match evs with
  | [] => []
  | e :: r => let '(k1, ops) := knext k e in ops ++ calls_of k1 r
  end.
Definition somes (l : list (option N)) : list N := flat_map (fun x => match x with Some d => [d] | None => [] end) l.
