(* Model of how the tasks use the retry strategy (C14, task level):
     rodbus/src/tcp/client.rs     TcpChannelTask::{try_connect_and_run, run_connection, handle_failed_connection}
     rodbus/src/serial/client.rs  SerialChannelTask::try_open_and_run
     rodbus/src/serial/server.rs  RtuServerTask::run
   as one transition system with a variant parameter. Atomic steps are the segments between await
   points; the outputs are what the task does in that segment, in program order:
     OAttempt      the connect / open call (for the TCP client preceded by the Connecting announcement)
     OUp           listener.update(Connected) / listener.update(PortState::Open)   (no listener in the RTU server)
     OReset        retry.reset()
     OAnnounce k d listener.update(WaitAfterFailedConnect(d) / WaitAfterDisconnect(d) / PortState::Wait(d))
     OArm d        client_loop.fail_requests_for(d) / session.sleep_for(d): a timer for d is armed
     OElapsed d    that timer fired
     ODisabled     the wait (or the connection) was abandoned because the channel was disabled
   The strategy object is Model/Retry.v. *)
From Coq Require Import NArith List.
From Rodbus Require Import Model.Retry.
Import ListNotations.
Local Open Scope N_scope.

Inductive variant := TcpClient | SerialClient | RtuServer.
Inductive tphase := Idle | Waiting (d : N) | Up.
Inductive tevent :=
| AttemptFails      (* connect refused / TLS handshake failed / port cannot be opened *)
| AttemptOk         (* connected (after the TLS handshake) / port opened *)
| Lost              (* the session ended with an I/O error, a bad frame or too many timeouts *)
| Elapsed           (* the armed timer fired *)
| Interrupt.        (* the channel was disabled (and later enabled again) *)
Inductive wait_kind := AfterFailedConnect | AfterDisconnect.
Inductive tout :=
| OAttempt | OUp | OReset
| OAnnounce (k : wait_kind) (d : N)
| OArm (d : N)
| OElapsed (d : N)
| ODisabled.

Record task := { strat : doubling; phase : tphase }.
Definition tinit (mn mx : N) : task := {| strat := create mn mx; phase := Idle |}.

Definition announce (v : variant) (k : wait_kind) (d : N) : list tout :=
  match v with RtuServer => [] | _ => [OAnnounce k d] end.

Definition on_success (v : variant) : list tout :=
  match v with
  | TcpClient => [OUp; OReset]        (* listener.update(Connected); connect_retry.reset() *)
  | SerialClient => [OReset; OUp]     (* retry.reset(); listener.update(Open) *)
  | RtuServer => [OReset]
  end.

Definition tstep (v : variant) (t : task) (e : tevent) : option (task * list tout) :=
  match phase t, e with
  | Idle, AttemptFails =>
      match step (strat t) Fail with               (* let delay = retry.after_failed_connect() *)
      | Some (s', Some d) => Some ({| strat := s'; phase := Waiting d |}, OAttempt :: announce v AfterFailedConnect d ++ [OArm d])
      | _ => None
      end
  | Idle, AttemptOk =>
      match step (strat t) Reset with
      | Some (s', _) => Some ({| strat := s'; phase := Up |}, OAttempt :: on_success v)
      | None => None
      end
  | Up, Lost =>
      match step (strat t) Disc with               (* let delay = retry.after_disconnect() *)
      | Some (s', Some d) => Some ({| strat := s'; phase := Waiting d |}, announce v AfterDisconnect d ++ [OArm d])
      | _ => None
      end
  | Up, Interrupt => Some ({| strat := strat t; phase := Idle |}, [ODisabled])
  | Waiting d, Elapsed => Some ({| strat := strat t; phase := Idle |}, [OElapsed d])
  | Waiting d, Interrupt => Some ({| strat := strat t; phase := Idle |}, [ODisabled])
  | _, _ => Some (t, [])                             (* the event cannot occur in this phase *)
  end.

Fixpoint trun (v : variant) (t : task) (evs : list tevent) : option (task * list tout) :=
  match evs with
  | [] => Some (t, [])
  | e :: r => match tstep v t e with
              | None => None
              | Some (t1, o1) => match trun v t1 r with
                                 | None => None
                                 | Some (t2, o2) => Some (t2, o1 ++ o2)
                                 end
              end
  end.

(* the delays armed, in order *)
Definition armed (o : list tout) : list N := flat_map (fun x => match x with OArm d => [d] | _ => [] end) o.
Definition announced (o : list tout) : list N := flat_map (fun x => match x with OAnnounce _ d => [d] | _ => [] end) o.

(* which strategy calls an event list amounts to (phase logic only) *)
Inductive kind := KIdle | KWaiting | KUp.
Definition knext (k : kind) (e : tevent) : kind * list op :=
  match k, e with
  | KIdle, AttemptFails => (KWaiting, [Fail])
  | KIdle, AttemptOk => (KUp, [Reset])
  | KUp, Lost => (KWaiting, [Disc])
  | KUp, Interrupt => (KIdle, [])
  | KWaiting, Elapsed => (KIdle, [])
  | KWaiting, Interrupt => (KIdle, [])
  | _, _ => (k, [])
  end.
Fixpoint calls_of (k : kind) (evs : list tevent) : list op :=
  match evs with
  | [] => []
  | e :: r => let '(k1, ops) := knext k e in ops ++ calls_of k1 r
  end.
Definition somes (l : list (option N)) : list N := flat_map (fun x => match x with Some d => [d] | None => [] end) l.
