(* C20: the shape of decode-level (logging) use in rodbus, as a small language.
   The translator (Gen/DecodeUses.v) certifies that every place where a decode level can influence
   control flow is one of: a log-only block guarded by a level predicate (LogOnly / InDisplay), or
   an if/else whose two branches run the same code with and without a tracing span (SpanOnly) -
   which is again just a level-guarded log decoration. Every other statement is
   level-independent. Levels change only through queued commands (Setting::DecodeLevel /
   ServerCommand::ChangeDecoding), modelled by SetLevel at arbitrary positions. *)
From Coq Require Import List.
Import ListNotations.

Section LogLang.
Variables (Level St Out Log : Type).

Inductive stmt :=
| Step (f : St -> St * list Out)                         (* any level-independent code: state change + observable outputs *)
| LogIf (p : Level -> bool) (msg : Level -> St -> Log)   (* if level.pred() { tracing::..!(Display(level, data)) }; span enter *)
| SetLevel (l : Level).                                  (* decode level changed by a queued command *)

Record result := { r_state : St; r_out : list Out; r_log : list Log; r_level : Level }.

Fixpoint run (lv : Level) (s : St) (prog : list stmt) : result :=
  match prog with
  | [] => {| r_state := s; r_out := []; r_log := []; r_level := lv |}
  | Step f :: rest =>
      let '(s', o) := f s in
      let r := run lv s' rest in
      {| r_state := r_state r; r_out := o ++ r_out r; r_log := r_log r; r_level := r_level r |}
  | LogIf p msg :: rest =>
      let r := run lv s rest in
      {| r_state := r_state r; r_out := r_out r;
         r_log := (if p lv then [msg lv s] else []) ++ r_log r; r_level := r_level r |}
  | SetLevel l :: rest => run l s rest
  end.

(* what a peer, a caller or a handler can observe *)
Definition observable (r : result) : St * list Out := (r_state r, r_out r).

(* the same program with every level change removed *)
Fixpoint erase (prog : list stmt) : list stmt :=
  match prog with
  | [] => []
  | SetLevel _ :: rest => erase rest
  | c :: rest => c :: erase rest
  end.

(* the observable steps of a program, in order: logging and level changes removed *)
Fixpoint steps_only (prog : list stmt) : list stmt :=
  match prog with
  | [] => []
  | Step f :: rest => Step f :: steps_only rest
  | _ :: rest => steps_only rest
  end.
End LogLang.
