(* Model of rodbus/src/server/address_filter.rs (WildcardIPv4::from_str, get_byte, WildcardIPv4::matches,
   AddressFilter::matches), of the accept arm of rodbus/src/tcp/server.rs::ServerTask::run, and of the
   way the server constructors hand the caller's filter down to TcpServerTask::new.

   Strings are lists of UTF-8 bytes (N < 256). `str::split('.')` splits at the char '.', which in
   UTF-8 is exactly the byte 46 (ASCII bytes never occur inside a multi-byte sequence), so the
   byte-level split is the char-level split for every valid &str.
   Definitions only; proofs are in Proofs/FilterProofs.v. *)
From Coq Require Import NArith List Bool String.
From Rodbus Require Import Gen.ServerCtors.
Import ListNotations.
Local Open Scope N_scope.

Definition str := list N.

Definition ch_dot : N := 46.    (* '.' *)
Definition ch_star : N := 42.   (* '*' *)
Definition ch_plus : N := 43.   (* '+' *)
Definition ch_zero : N := 48.   (* '0' *)
Definition ch_nine : N := 57.   (* '9' *)

Definition is_dot (c : N) : bool := N.eqb c ch_dot.

(* str::split('.') : always at least one field, empty fields kept *)
Fixpoint split (s : str) : list str :=
  match s with
  | [] => [[]]
  | c :: r => if is_dot c then [] :: split r
              else match split r with f :: fs => (c :: f) :: fs | [] => [[c]] end
  end.

(* char::to_digit(10) on a byte *)
Definition digit (c : N) : option N :=
  if (ch_zero <=? c) && (c <=? ch_nine) then Some (c - ch_zero) else None.

(* the digit loop of u8::from_str_radix(_, 10): result = result * 10 + d with the u8 overflow checks
   (for inputs of at most 2 digits the unchecked path is taken, which cannot overflow) *)
Fixpoint digits (acc : N) (s : str) : option N :=
  match s with
  | [] => Some acc
  | c :: r => match digit c with
              | None => None
              | Some d => let acc' := acc * 10 + d in if acc' <=? 255 then digits acc' r else None
              end
  end.

(* <u8 as FromStr>::from_str: empty -> Err(Empty); a single "+" -> Err(InvalidDigit); one leading '+'
   is skipped ('-' is not, u8 is unsigned); then at least one digit *)
Definition parse_u8 (s : str) : option N :=
  match s with
  | [] => None
  | c :: r => if N.eqb c ch_plus then (match r with [] => None | _ => digits 0 r end) else digits 0 s
  end.

Definition is_star (s : str) : bool :=
  match s with [c] => N.eqb c ch_star | _ => false end.

(* fn get_byte(value: &str) -> Result<Option<u8>, BadIpv4Wildcard> *)
Definition get_byte (s : str) : option (option N) :=
  if is_star s then Some None else option_map Some (parse_u8 s).

Record wildcard := { b3 : option N; b2 : option N; b1 : option N; b0 : option N }.

(* WildcardIPv4::from_str: four iter.next() calls, then iter.next().is_some() -> Err *)
Definition parse_wildcard (s : str) : option wildcard :=
  match split s with
  | f3 :: r3 =>
      match get_byte f3 with None => None | Some x3 =>
      match r3 with [] => None | f2 :: r2 =>
      match get_byte f2 with None => None | Some x2 =>
      match r2 with [] => None | f1 :: r1 =>
      match get_byte f1 with None => None | Some x1 =>
      match r1 with [] => None | f0 :: r0 =>
      match get_byte f0 with None => None | Some x0 =>
      match r0 with
      | [] => Some {| b3 := x3; b2 := x2; b1 := x1; b0 := x0 |}
      | _ :: _ => None
      end end end end end end end end
  | [] => None
  end.

(* ---------- matching ---------- *)
(* std::net::IpAddr: V4 = four octets, V6 = eight 16-bit segments *)
Inductive ip := V4 (a3 a2 a1 a0 : N) | V6 (segs : list N).

Fixpoint list_N_eqb (x y : list N) : bool :=
  match x, y with
  | [], [] => true
  | a :: x', b :: y' => N.eqb a b && list_N_eqb x' y'
  | _, _ => false
  end.

Definition ip_eqb (x y : ip) : bool :=
  match x, y with
  | V4 a b c d, V4 a' b' c' d' => N.eqb a a' && N.eqb b b' && N.eqb c c' && N.eqb d d'
  | V6 s, V6 s' => list_N_eqb s s'
  | _, _ => false
  end.

Inductive afilter :=
| Any
| Exact (a : ip)
| AnyOf (s : list ip)
| WildcardIpv4 (w : wildcard).

(* fn bm(b: u8, other: Option<u8>) -> bool *)
Definition bm (b : N) (other : option N) : bool :=
  match other with Some x => N.eqb b x | None => true end.

Definition wc_matches (w : wildcard) (addr : ip) : bool :=
  match addr with
  | V4 a3 a2 a1 a0 => bm a3 (b3 w) && bm a2 (b2 w) && bm a1 (b1 w) && bm a0 (b0 w)
  | V6 _ => false
  end.

Definition matches (f : afilter) (addr : ip) : bool :=
  match f with
  | Any => true
  | Exact x => ip_eqb x addr
  | AnyOf s => existsb (fun x => ip_eqb x addr) s
  | WildcardIpv4 w => wc_matches w addr
  end.

(* ---------- the C-ABI filter string (ffi server.rs parse_address_filter), IPv4 part ---------- *)
(* core::net::parser read_number(10, Some(3), allow_zero_prefix = false) followed by '.' or end:
   1..3 decimal digits, no leading zero unless the number is "0", value <= 255 (checked u8 arithmetic) *)
Definition parse_octet (f : str) : option N :=
  match f with
  | [] => None
  | c :: r =>
      if N.eqb c ch_zero && negb (match r with [] => true | _ => false end) then None
      else if Nat.ltb 3 (List.length f) then None
      else if N.eqb c ch_plus then None
      else digits 0 f
  end.

Definition parse_ipv4 (s : str) : option ip :=
  match split s with
  | [f3; f2; f1; f0] =>
      match parse_octet f3, parse_octet f2, parse_octet f1, parse_octet f0 with
      | Some a, Some b, Some c, Some d => Some (V4 a b c d)
      | _, _, _, _ => None
      end
  | _ => None
  end.

(* ffi server.rs parse_address_filter, IPv4 part: first an IP literal (one-element set), else a wildcard *)
Definition ffi_filter_v4 (s : str) : option afilter :=
  match parse_ipv4 s with
  | Some a => Some (AnyOf [a])
  | None => option_map WildcardIpv4 (parse_wildcard s)
  end.


(* parse_address_filter in full: s.parse::<IpAddr>() (IPv4 literal, else IPv6 literal), else the wildcard
   parser. The standard library's IPv6 literal parser is a parameter. *)
Definition ffi_filter (parse_v6 : str -> option ip) (s : str) : option afilter :=
  match parse_ipv4 s with
  | Some a => Some (AnyOf [a])
  | None => match parse_v6 s with
            | Some a => Some (AnyOf [a])
            | None => option_map WildcardIpv4 (parse_wildcard s)
            end
  end.

(* ---------- the accept arm of ServerTask::run, driven by the GENERATED shape ---------- *)
(* what the server task does with a freshly accepted (socket, addr), as the sequence of calls the
   arm makes; `CallHandle` = self.handle(socket, addr): the only call that registers the connection
   with the tracker and spawns run_session (TLS handshake, then SessionTask::run).  When the arm
   makes no call that uses the socket, the socket is dropped = closed without a byte. *)
Definition on_accept (shape : accept_shape) (f : afilter) (peer : ip) : list accept_call :=
  match shape with
  | IfMatches then_ else_ => if matches f peer then then_ else else_
  | Unguarded calls => calls
  end.

(* ---------- the accept DECISION over a sequence of connections ---------- *)
(* The server task lives across connections, so a guard could consult state left by earlier ones. `other_cond` stands
   for whatever a conjunct that is not the filter test computes: an arbitrary function of the conjunct's text, of the
   peers accepted so far on this listener (in order) and of the current peer. *)
Definition other_cond := string -> list ip -> ip -> bool.
Definition eval_conjunct (o : other_cond) (hist : list ip) (f : afilter) (peer : ip) (c : guard_conjunct) : bool :=
  match c with
  | GMatches => matches f peer
  | GNotMatches => negb (matches f peer)
  | GOther e => o e hist peer
  end.
(* is the freshly accepted connection handed to self.handle? *)
Definition served (g : list guard_conjunct) (k : guard_kind) (o : other_cond) (hist : list ip) (f : afilter) (peer : ip) : bool :=
  let v := forallb (eval_conjunct o hist f peer) g in
  match k with
  | ServeInThen => v
  | RejectInThen => negb v
  | GuardUnknown => o EmptyString hist peer
  end.
Fixpoint serve_seq (g : list guard_conjunct) (k : guard_kind) (o : other_cond) (hist : list ip) (f : afilter) (peers : list ip) : list bool :=
  match peers with
  | [] => []
  | p :: rest => served g k o hist f p :: serve_seq g k o (hist ++ [p]) f rest
  end.

Definition uses_socket (c : accept_call) : bool :=
  match c with CallLog => false | _ => true end.

(* which enclosing functions may call `callee`, per the generated call-site table; the call made in
   the accept arm is the only one allowed to carry the guard *)
Definition callers_of (callee : string) : list (string * bool) :=
  map (fun cs => (cs_caller cs, cs_guarded cs)) (filter (fun cs => String.eqb (cs_callee cs) callee) call_sites).

(* can `fn` be entered from the accept loop without passing the filter guard? *)
Fixpoint reach_unguarded (fuel : nat) (fn : string) : bool :=
  match fuel with
  | O => true     (* out of fuel: conservatively reachable *)
  | S k =>
      match callers_of fn with
      | [] => false                                   (* never called: not reachable *)
      | cs => existsb (fun c : string * bool =>
                         let (caller, guarded) := c in
                         if guarded then false
                         else if String.eqb caller accept_fn then true
                         else reach_unguarded k caller) cs
      end
  end.

(* ---------- constructors: which filter reaches TcpServerTask::new ---------- *)
Definition apply_arg (a : filter_arg) (f : afilter) : option afilter :=
  match a with
  | Forwarded => Some f
  | ConstAny => Some Any
  | OtherExpr _ => None
  end.

(* all filters with which `fn`, called with filter f, ends up constructing the server task
   (one entry per call path; [] = the constructor never builds a task) *)
Fixpoint effective (fuel : nat) (fn : string) (f : afilter) : list (option afilter) :=
  match fuel with
  | O => [None]
  | S k =>
      if String.eqb fn ctor_sink then [Some f]
      else flat_map (fun c : ctor_call =>
                       if String.eqb (cc_caller c) fn then
                         match apply_arg (cc_arg c) f with
                         | Some f' => effective k (cc_callee c) f'
                         | None => [None]
                         end
                       else []) ctor_calls
  end.

(* From<&ffi::AddressFilter> for rodbus::server::AddressFilter, per the generated table:
   each C-side variant must map to the same-named Rust variant with its payload *)
Definition ffi_filter_conversion_is_identity : bool :=
  forallb (fun p : string * string => String.eqb (fst p) (snd p)) ffi_filter_conversion
  && Nat.eqb (List.length ffi_filter_conversion) 3.

(* ---------- rendering for the correspondence check ---------- *)
From Rodbus Require Import Base.Show.
Local Open Scope string_scope.
Definition show_field (o : option N) : string := match o with None => "*" | Some v => show_N v end.
Definition show_wildcard (w : wildcard) : string :=
  show_field (b3 w) ++ "." ++ show_field (b2 w) ++ "." ++ show_field (b1 w) ++ "." ++ show_field (b0 w).
Definition show_ffi_filter (s : str) : string :=
  match ffi_filter_v4 s with
  | Some (AnyOf [V4 a b c d]) => "SET:" ++ show_N a ++ "." ++ show_N b ++ "." ++ show_N c ++ "." ++ show_N d
  | Some (WildcardIpv4 w) => "WC:" ++ show_wildcard w
  | Some _ => "?"
  | None => "ERR:InvalidIpAddress"
  end.
Definition show_parse (s : str) : string :=
  match parse_wildcard s with None => "ERR" | Some w => show_wildcard w end.
