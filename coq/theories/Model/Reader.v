(* common/frame.rs: FrameParser, FramedReader { parser, buffer }, FramedReader::reset and the
   next_frame loop (parse; on Ok(None) read_some; on Err reset the parser and return), driven by a
   chunk schedule: `net` is the list of chunks the byte source will hand over, one per read call
   (a read delivers 1 <= k <= min(|chunk|, space offered) bytes, the rest of the chunk stays at
   the head of the schedule); `fi` says what the source does when the schedule is used up.
   An empty chunk is a 0-byte read, i.e. UnexpectedEof (as in read_some). *)
From Coq Require Import NArith List Bool Arith.
From Rodbus Require Import Base.Outcome Base.Frame Gen.Consts Gen.RtuLengths Model.Buffer Model.Mbap Model.Rtu.
Import ListNotations.

Inductive parser := PTcp (st : pstate) | PRtu (p : ptype) (st : rstate).
Record reader := { r_parser : parser; r_buf : buf }.

Definition parser_parse (p : parser) (b : buf) : parser * buf * presult :=
  match p with
  | PTcp st => let '(st', b', r) := mbap_parse st b in (PTcp st', b', r)
  | PRtu t st => let '(st', b', r) := rtu_parse t st b in (PRtu t st', b', r)
  end.
Definition parser_reset (p : parser) : parser :=
  match p with PTcp st => PTcp (mbap_reset st) | PRtu t st => PRtu t (rtu_reset st) end.

Inductive framing_kind := KTcp | KRtuRequest | KRtuResponse.
Definition reader_new (k : framing_kind) : reader :=
  {| r_parser := match k with KTcp => PTcp Begin | KRtuRequest => PRtu Request Start | KRtuResponse => PRtu Response Start end;
     r_buf := buf_new |}.

(* FramedReader::reset: parser.reset(); buffer.clear() *)
Definition reader_reset (r : reader) : reader :=
  {| r_parser := parser_reset (r_parser r); r_buf := buf_clear (r_buf r) |}.

Definition net := list (list N).
Inductive nf_result := NfFrame (f : frame) | NfEnd (e : ending).

Fixpoint next_frame (fuel : nat) (r : reader) (n : net) (fi : fin) : reader * net * nf_result :=
  match fuel with
  | O => (r, n, NfEnd EndOutOfFuel)
  | S fuel =>
      let '(p', b', res) := parser_parse (r_parser r) (r_buf r) in
      match res with
      | Ok (Some f) => ({| r_parser := p'; r_buf := b' |}, n, NfFrame f)
      | Err e => ({| r_parser := parser_reset p'; r_buf := b' |}, n, NfEnd (EndBad e))
      | Panic => ({| r_parser := p'; r_buf := b' |}, n, NfEnd EndPanic)
      | Ok None =>
          match n with
          | [] =>                                   (* schedule used up: the read ends as `fi` says *)
              let '(b2, _) := read_some b' [] in
              ({| r_parser := p'; r_buf := b2 |}, [],
               NfEnd match fi with FinEof => EndIo UnexpectedEof | FinErr => EndIo IoOther | FinPending => EndPending end)
          | c :: n' =>
              match read_some b' c with
              | (b2, RsOk _ []) => next_frame fuel {| r_parser := p'; r_buf := b2 |} n' fi
              | (b2, RsOk _ rest) => next_frame fuel {| r_parser := p'; r_buf := b2 |} (rest :: n') fi
              | (b2, RsEof) => ({| r_parser := p'; r_buf := b2 |}, match c with [] => n' | _ => n end, NfEnd (EndIo UnexpectedEof))
              | (b2, RsPanic) => ({| r_parser := p'; r_buf := b2 |}, n, NfEnd EndPanic)
              end
          end
      end
  end.

(* enough fuel for one next_frame call: every loop iteration that does not return takes >= 1 byte off the schedule *)
Definition nf_fuel (n : net) : nat := length (concat n) + length n + 2.

(* a session: call next_frame until it fails. resume = false: stop at the first error (server
   session, client connection). resume = true: keep calling after a framing error (what the RTU
   server does across a port reopen: same reader, parser reset by next_frame). *)
Fixpoint run_reader (fuel : nat) (resume : bool) (r : reader) (n : net) (fi : fin) : list item * ending :=
  match fuel with
  | O => ([], EndOutOfFuel)
  | S fuel =>
      match next_frame (nf_fuel n) r n fi with
      | (r', n', NfFrame f) => let '(l, e) := run_reader fuel resume r' n' fi in (IFrame f :: l, e)
      | (r', n', NfEnd (EndBad e)) =>
          if resume then let '(l, e') := run_reader fuel resume r' n' fi in (IErr e :: l, e')
          else ([], EndBad e)
      | (_, _, NfEnd e) => ([], e)
      end
  end.
Definition run_fuel (r : reader) (n : net) : nat := buf_len (r_buf r) + length (concat n) + 2.

Definition run_session (k : framing_kind) (resume : bool) (n : net) (fi : fin) : list item * ending :=
  let r := reader_new k in run_reader (run_fuel r n) resume r n fi.

(* frames only (resume = false yields no IErr items) *)
Definition frames_of (l : list item) : list frame :=
  flat_map (fun i => match i with IFrame f => [f] | IErr _ => [] end) l.

(* the reader state after a session, for the multi-connection client *)
Fixpoint run_reader_st (fuel : nat) (r : reader) (n : net) (fi : fin) : reader * (list item * ending) :=
  match fuel with
  | O => (r, ([], EndOutOfFuel))
  | S fuel =>
      match next_frame (nf_fuel n) r n fi with
      | (r', n', NfFrame f) => let '(r'', (l, e)) := run_reader_st fuel r' n' fi in (r'', (IFrame f :: l, e))
      | (r', _, NfEnd e) => (r', ([], e))
      end
  end.

(* client/task.rs: the ClientLoop owns ONE FramedReader for all connections; ClientLoop::run
   resets it when a connection starts (repaired F5). `reset_at_connect = false` is the code
   before the repair. Each connection: its own chunk schedule and ending. *)
Fixpoint client_connections (reset_at_connect : bool) (r : reader) (conns : list (net * fin)) : list (list item * ending) :=
  match conns with
  | [] => []
  | (n, fi) :: rest =>
      let r0 := if reset_at_connect then reader_reset r else r in
      let '(r', res) := run_reader_st (run_fuel r0 n) r0 n fi in
      res :: client_connections reset_at_connect r' rest
  end.

(* ---- instrumented copy of the loop: additionally records the space offered to the byte source
   at every read call (capacity - end after reset / compaction). Proofs/ReaderTrace.v shows its
   first component IS run_reader; the correspondence check compares the trace with the sizes the
   scripted transport saw, which ties begin / end of the ReadBuffer to the model read by read. *)
Definition offered (b : buf) : nat :=
  let b1 := if buf_is_empty b then {| b_begin := 0; b_pend := b_pend b |} else b in
  let b2 := if Nat.eqb (b_end b1) cap then {| b_begin := 0; b_pend := b_pend b1 |} else b1 in
  cap - b_end b2.

Fixpoint next_frame_tr (fuel : nat) (r : reader) (n : net) (fi : fin) : (reader * net * nf_result) * list nat :=
  match fuel with
  | O => ((r, n, NfEnd EndOutOfFuel), [])
  | S fuel =>
      let '(p', b', res) := parser_parse (r_parser r) (r_buf r) in
      match res with
      | Ok (Some f) => (({| r_parser := p'; r_buf := b' |}, n, NfFrame f), [])
      | Err e => (({| r_parser := parser_reset p'; r_buf := b' |}, n, NfEnd (EndBad e)), [])
      | Panic => (({| r_parser := p'; r_buf := b' |}, n, NfEnd EndPanic), [])
      | Ok None =>
          match n with
          | [] =>
              let '(b2, _) := read_some b' [] in
              (({| r_parser := p'; r_buf := b2 |}, [],
                NfEnd match fi with FinEof => EndIo UnexpectedEof | FinErr => EndIo IoOther | FinPending => EndPending end),
               [])                  (* the scripted transport does not log the read that meets the end of the script *)
          | c :: n' =>
              match read_some b' c with
              | (b2, RsOk _ []) => let '(x, t) := next_frame_tr fuel {| r_parser := p'; r_buf := b2 |} n' fi in (x, offered b' :: t)
              | (b2, RsOk _ rest) => let '(x, t) := next_frame_tr fuel {| r_parser := p'; r_buf := b2 |} (rest :: n') fi in (x, offered b' :: t)
              | (b2, RsEof) => (({| r_parser := p'; r_buf := b2 |}, match c with [] => n' | _ => n end, NfEnd (EndIo UnexpectedEof)), [offered b'])
              | (b2, RsPanic) => (({| r_parser := p'; r_buf := b2 |}, n, NfEnd EndPanic), [])
              end
          end
      end
  end.

Fixpoint run_reader_tr (fuel : nat) (resume : bool) (r : reader) (n : net) (fi : fin) : (list item * ending) * list nat :=
  match fuel with
  | O => (([], EndOutOfFuel), [])
  | S fuel =>
      match next_frame_tr (nf_fuel n) r n fi with
      | ((r', n', NfFrame f), t) => let '((l, e), t') := run_reader_tr fuel resume r' n' fi in ((IFrame f :: l, e), t ++ t')
      | ((r', n', NfEnd (EndBad e)), t) =>
          if resume then let '((l, e'), t') := run_reader_tr fuel resume r' n' fi in ((IErr e :: l, e'), t ++ t')
          else (([], EndBad e), t)
      | ((_, _, NfEnd e), t) => (([], e), t)
      end
  end.
Definition run_session_tr (k : framing_kind) (resume : bool) (n : net) (fi : fin) : (list item * ending) * list nat :=
  let r := reader_new k in run_reader_tr (run_fuel r n) resume r n fi.

(* ---- cancellation: reader.next_frame(..) is one branch of a tokio::select! (SessionTask::run_one,
   ClientLoop::poll, ClientLoop::execute_request). When another branch fires the future is dropped
   while it waits for bytes, and a NEW call is made later from the reader's state (parser state +
   buffer). `run_cancel` is the session in which this happens at EVERY chunk boundary: the chunk is
   delivered, calls are made until one has to wait, that one is abandoned; when the chunks are used
   up the last call meets the real end of the stream. *)
Fixpoint run_cancel (r : reader) (chunks : net) (fi : fin) : list item * ending :=
  match chunks with
  | [] => run_reader (run_fuel r []) false r [] fi
  | c :: rest =>
      let '(r1, (l1, e1)) := run_reader_st (run_fuel r [c]) r [c] FinPending in
      match e1 with
      | EndPending => let '(l2, e2) := run_cancel r1 rest fi in (l1 ++ l2, e2)
      | _ => (l1, e1)
      end
  end.
