(* serial/server.rs RtuServerTask::run composed with the session loop (Base/ServerRun.v):
     loop { match serial::open(port) {
       Ok(serial) => { retry.reset();
                       if let Shutdown = session.run(&mut phys).await { return }      // SAME SessionTask every time
                       let delay = retry.after_disconnect();
                       if let Err(Shutdown) = session.sleep_for(delay).await { return } }
       Err(_)     => { let delay = retry.after_failed_connect();
                       if let Err(Shutdown) = session.sleep_for(delay).await { return } } } }
   SessionTask::sleep_for(d) = timeout(d, process_commands()): process_commands applies every command
   it receives (ChangeDecoding: decode = level, and goes on) and returns only on Shutdown or a closed
   channel; the timeout fires when d has elapsed.
   The handler map, the decode level (and the reader / parser, below this level: C05/C06) live in the
   SessionTask and therefore persist from one open port to the next. The retry strategy is
   Model/Retry.v. Time is virtual: WAdvance dt. Definitions only. *)
From Coq Require Import NArith List Bool.
From Rodbus Require Import Base.Outcome Base.ServerTypes Base.ServerRun Model.Retry.
Import ListNotations.
Local Open Scope N_scope.

(* what can happen while the task is parked in sleep_for *)
Inductive wevent :=
| WCommand (c : command)       (* commands.recv() returned Some c *)
| WClosed                      (* commands.recv() returned None *)
| WAdvance (dt : N).           (* dt nanoseconds pass *)

Inductive sleep_end := SleepElapsed | SleepShutdown | SleepWaiting (remaining : N).

(* sleep_for with `remaining` still to go: (decode level afterwards, how it ended) *)
Fixpoint sleep_for (remaining : N) (decode : N) (evs : list wevent) : N * sleep_end :=
  match evs with
  | [] => (decode, SleepWaiting remaining)
  | WCommand (ChangeDecoding x) :: rest => sleep_for remaining x rest      (* applied; the wait goes on unchanged *)
  | WCommand Shutdown :: _ | WClosed :: _ => (decode, SleepShutdown)
  | WAdvance dt :: rest => if remaining <=? dt then (decode, SleepElapsed) else sleep_for (remaining - dt) decode rest
  end.

(* one turn of the loop: the open attempt fails and the task waits, or the port opens, the session
   runs on its select! outcomes and - if it ends with anything but Shutdown - the task waits *)
Inductive episode := EpOpenFails (wait : list wevent) | EpOpen (sess : list sevent) (wait : list wevent).

Inductive task_end (E : Type) :=
| TShutdown                      (* RtuServerTask::run returned *)
| TAtOpen                        (* episodes exhausted: about to call serial::open *)
| TInSession (e : run_end E)     (* events exhausted while the port is open (ROpen / RBlocked) *)
| TWaiting (remaining : N)       (* events exhausted in sleep_for *)
| TPanic.                        (* handle_frame panicked / Duration overflow in the retry strategy *)
Arguments TShutdown {E}. Arguments TAtOpen {E}. Arguments TInSession {E}. Arguments TWaiting {E}. Arguments TPanic {E}.

Section Loop.
Context {St E : Type}.
Variable hf : ucfg St -> frame -> outcome E (list N) * ucfg St * list event.

(* does this session ending lead to the wait-and-reopen path? *)
Definition reopens (e : run_end E) : bool := match e with RIo | RReader | RError _ => true | _ => false end.

(* (replies delivered per episode, units, application calls, decode level, retry strategy, how it ended) *)
Fixpoint rtu_task (units : ucfg St) (decode : N) (retry : doubling) (eps : list episode)
  : list (list (list N)) * ucfg St * list event * N * doubling * task_end E :=
  match eps with
  | [] => ([], units, [], decode, retry, TAtOpen)
  | EpOpenFails wait :: rest =>
      match step retry Fail with                                   (* retry.after_failed_connect() *)
      | Some (retry', Some delay) =>
          match sleep_for delay decode wait with
          | (d, SleepElapsed) => let '(ws, u, lg, d', r, e) := rtu_task units d retry' rest in ([] :: ws, u, lg, d', r, e)
          | (d, SleepShutdown) => ([[]], units, [], d, retry', TShutdown)
          | (d, SleepWaiting rem) => ([[]], units, [], d, retry', TWaiting rem)
          end
      | _ => ([[]], units, [], decode, retry, TPanic)
      end
  | EpOpen sess wait :: rest =>
      match step retry Reset with                                  (* retry.reset() *)
      | Some (retry0, _) =>
          let '(ws, u, lg, d, e) := ServerRun.run hf units decode MIdle sess in      (* self.session.run(&mut phys) *)
          match e with
          | RShutdown => ([ws], u, lg, d, retry0, TShutdown)
          | RPanic => ([ws], u, lg, d, retry0, TPanic)
          | ROpen | RBlocked _ => ([ws], u, lg, d, retry0, TInSession e)
          | RIo | RReader | RError _ =>
              match step retry0 Disc with                          (* retry.after_disconnect() *)
              | Some (retry1, Some delay) =>
                  match sleep_for delay d wait with
                  | (d1, SleepElapsed) =>
                      let '(ws', u', lg', d', r, e') := rtu_task u d1 retry1 rest in (ws :: ws', u', lg ++ lg', d', r, e')
                  | (d1, SleepShutdown) => ([ws], u, lg, d1, retry1, TShutdown)
                  | (d1, SleepWaiting rem) => ([ws], u, lg, d1, retry1, TWaiting rem)
                  end
              | _ => ([ws], u, lg, d, retry0, TPanic)
              end
          end
      | None => ([[]], units, [], decode, retry, TPanic)
      end
  end.
End Loop.

(* time that passes in a list of wait events *)
Fixpoint advance_total (evs : list wevent) : N :=
  match evs with [] => 0 | WAdvance dt :: rest => dt + advance_total rest | _ :: rest => advance_total rest end.
Fixpoint wstrip (evs : list wevent) : list wevent :=
  match evs with
  | [] => []
  | WCommand (ChangeDecoding _) :: rest => wstrip rest
  | ev :: rest => ev :: wstrip rest
  end.
