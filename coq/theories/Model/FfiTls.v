(* The TLS configuration conversions of the C ABI, interpreted from the regenerated tables of Gen/FfiTables.v:
     ffi/rodbus-ffi/src/client.rs  impl TryFrom<ffi::TlsClientConfig> for rodbus::client::TlsClientConfig
                                   (used by rodbus_client_channel_create_tls)
     ffi/rodbus-ffi/src/server.rs  server_create_tls_impl (rodbus_server_create_tls / _with_authz)
   Result: the Rust API constructor call the C function makes (Spec/FfiSpec.tls_call), None when a table row has a
   shape this model does not know. The outcome of the C function is then the outcome of that call with the error
   mapped by the regenerated tls_error_to_ffi. Strings that are not valid UTF-8 (ParamError InvalidUtf8 on the client
   side, lossy conversion on the server side) are outside the model. Definitions only. *)
From Coq Require Import NArith List String Bool.
From Rodbus Require Import Gen.FfiTables Spec.FfiSpec.
Import ListNotations.
Local Open Scope string_scope.

Record c_tls_client := { cc_mode : ffi_certificate_mode; cc_dns_name : string; cc_wildcard : bool; cc_password : string;
                         cc_min : ffi_min_tls_version }.
Record c_tls_server := { cs_mode : ffi_certificate_mode; cs_password : string; cs_min : ffi_min_tls_version }.

Fixpoint all_known (l : list (option bool)) : option bool :=
  match l with
  | [] => Some true
  | None :: _ => None
  | Some b :: rest => match all_known rest with Some r => Some (b && r) | None => None end
  end.

(* an Option argument derived from the C string s by a regenerated rule; conj = meaning of the known conjuncts *)
Definition eval_opt (r : opt_rule) (src : string) (conj : string -> option bool) (s : string) : option (option string) :=
  match r with
  | NoneIfEmpty e => if String.eqb e src then Some (if String.eqb s "" then None else Some s) else None
  | NoneIf e cs =>
      if String.eqb e src then
        match all_known (map conj cs) with Some b => Some (if b then None else Some s) | None => None end
      else None
  | OtherRule _ => None
  end.

Definition client_conj (c : c_tls_client) (e : string) : option bool :=
  if String.eqb e "value.allow_server_name_wildcard" then Some (cc_wildcard c)
  else if String.eqb e "expected_subject_name==""*""" then Some (String.eqb (cc_dns_name c) "*")
  else None.
Definition no_conj (_ : string) : option bool := None.

Definition client_lets_expected : list (string * string) :=
  [("peer_cert_path", "Path::new(value.peer_cert_path().to_str()?)");
   ("local_cert_path", "Path::new(value.local_cert_path().to_str()?)");
   ("private_key_path", "Path::new(value.private_key_path().to_str()?)")].
Definition pair_eqb (a b : string * string) : bool := String.eqb (fst a) (fst b) && String.eqb (snd a) (snd b).
Fixpoint list_eqb {A} (eqb : A -> A -> bool) (a b : list A) : bool :=
  match a, b with
  | [], [] => true
  | x :: a', y :: b' => eqb x y && list_eqb eqb a' b'
  | _, _ => false
  end.

Definition client_args (ctor : string) : option (list string) :=
  if String.eqb ctor "full_pki" then
    Some ["expected_subject_name"; "peer_cert_path"; "local_cert_path"; "private_key_path"; "optional_password"; "value.min_tls_version().into()"]
  else if String.eqb ctor "self_signed" then
    Some ["peer_cert_path"; "local_cert_path"; "private_key_path"; "optional_password"; "value.min_tls_version().into()"]
  else None.

Definition ffi_tls_client_call (c : c_tls_client) : option tls_call :=
  match find (fun r => String.eqb (fst (fst r)) (name_ffi_certificate_mode (cc_mode c))) tls_client_ctors with
  | None => None
  | Some (_, ctor, args) =>
      match client_args ctor with
      | None => None
      | Some expected =>
          if list_eqb String.eqb args expected && list_eqb pair_eqb tls_client_lets client_lets_expected then
            match eval_opt tls_client_password "value.password().to_str()?" no_conj (cc_password c),
                  (if String.eqb ctor "full_pki" then eval_opt tls_client_name "value.dns_name().to_str()?" (client_conj c) (cc_dns_name c)
                   else Some None) with
            | Some pw, Some name =>
                Some {| tc_ctor := ctor; tc_name := name; tc_files := tls_files; tc_password := pw;
                        tc_min := name_rust_min_tls_version (min_tls_from_ffi (cc_min c)); tc_mode := None |}
            | _, _ => None
            end
          else None
      end
  end.

Definition server_args_expected : list string :=
  ["Path::new(tls_config.peer_cert_path().to_string_lossy().as_ref())"; "Path::new(tls_config.local_cert_path().to_string_lossy().as_ref())";
   "Path::new(tls_config.private_key_path().to_string_lossy().as_ref())"; "optional_password"; "tls_config.min_tls_version().into()";
   "tls_config.certificate_mode().into()"].
Definition ffi_tls_server_call (c : c_tls_server) : option tls_call :=
  if list_eqb String.eqb tls_server_ctor_args server_args_expected
     && list_eqb pair_eqb tls_server_lets [("password", "tls_config.password().to_string_lossy()")] then
    match eval_opt tls_server_password "password.as_ref()" no_conj (cs_password c) with
    | Some pw => Some {| tc_ctor := "TlsServerConfig::new"; tc_name := None; tc_files := tls_files; tc_password := pw;
                         tc_min := name_rust_min_tls_version (min_tls_from_ffi (cs_min c));
                         tc_mode := Some (name_rust_certificate_mode (cert_mode_from_ffi (cs_mode c))) |}
    | None => None
    end
  else None.

(* the return code of the C function, given what the Rust constructor answers for a call (None = Ok) *)
Definition ffi_result (r : option rust_tls_error) : ffi_param_error := match r with None => FPE_Ok | Some e => tls_error_to_ffi e end.
Definition ffi_tls_client_create (R : tls_call -> option rust_tls_error) (c : c_tls_client) : option ffi_param_error :=
  option_map (fun call => ffi_result (R call)) (ffi_tls_client_call c).
Definition ffi_tls_server_config (R : tls_call -> option rust_tls_error) (c : c_tls_server) : option ffi_param_error :=
  option_map (fun call => ffi_result (R call)) (ffi_tls_server_call c).

(* the C-side values by name, as the Spec reads them *)
Definition client_in (c : c_tls_client) : tls_client_in :=
  {| ti_mode := name_ffi_certificate_mode (cc_mode c); ti_dns_name := cc_dns_name c; ti_wildcard := cc_wildcard c;
     ti_password := cc_password c; ti_min := name_ffi_min_tls_version (cc_min c) |}.
Definition server_in (c : c_tls_server) : tls_server_in :=
  {| tsi_mode := name_ffi_certificate_mode (cs_mode c); tsi_password := cs_password c; tsi_min := name_ffi_min_tls_version (cs_min c) |}.
