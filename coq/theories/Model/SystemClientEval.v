(* Rendering of the client system (Model/SystemClient.v) and of its oracle for the correspondence. *)
From Coq Require Import NArith List Bool String.
From Rodbus Require Import Base.Show Base.Outcome.
From Rodbus Require Base.Frame Base.ClientTypes Model.ClientTask Spec.SystemClientSpec Model.SystemClient.
Import ListNotations.
Module F := Rodbus.Base.Frame.
Module CT := Rodbus.Base.ClientTypes.
Module T := Rodbus.Model.ClientTask.
Module SS := Rodbus.Spec.SystemClientSpec.
Local Open Scope string_scope.

Definition show_response (v : CT.response) : string :=
  match v with
  | CT.RespBits l => show_list (fun x => show_N (fst x) ++ ":" ++ show_bool (snd x)) "," l
  | CT.RespRegisters l => show_list (fun x => show_N (fst x) ++ ":" ++ show_N (snd x)) "," l
  | CT.RespCoil i v => show_N i ++ ":" ++ show_bool v
  | CT.RespRegister i v => show_N i ++ ":" ++ show_N v
  | CT.RespRange s n => show_N s ++ "+" ++ show_N n
  end.
Definition show_verdict (v : SS.verdict) : string :=
  match v with
  | SS.VValue r => "Ok=" ++ show_response r
  | SS.VException c => "Exception=" ++ show_N c
  | SS.VBadReply => "BadResponse"
  | SS.VBadFrame => "BadFrame"
  | SS.VIo => "Io"
  | SS.VPending => "Pending"
  | SS.VCrash => "CRASH"
  end.

Record syscase := { y_req : CT.request; y_chunks : list (list N); y_fin : F.fin }.

(* the first request of a fresh connection (transaction id 0), in flight; then the byte chunks *)
Definition eval_syscase (k : syscase) : string :=
  let cfg := {| T.cfg_cap := 4; T.cfg_res := 1000000%N |} in
  let rq := {| T.rq_id := 0; T.rq_kind := T.KRead; T.rq_timeout := 1000000000%N |} in
  let st := fst (T.run cfg (T.init 1 None 20000000%N 40000000%N)
                   [T.EvSubmit T.CEnable T.SFuture; T.EvRecv; T.EvConnect true; T.EvSubmit (T.CReq rq) T.SFuture; T.EvRecv]) in
  show_verdict (SystemClient.verdict_for 0 (SystemClient.client_system cfg (fun _ => y_req k) st (y_chunks k) (y_fin k)))
  ++ "|" ++ show_verdict (SS.ref_client_result (y_req k) 0%N (List.concat (y_chunks k)) (y_fin k)).
