(* Rendering of the client system (Model/SystemClient.v) and of its oracle for the correspondence. *)
From Coq Require Import NArith List Bool String.
From Rodbus Require Import Base.Show Base.Outcome.
From Rodbus Require Base.Frame Base.ClientTypes Model.ClientTask Spec.SystemClientSpec Model.SystemClient.
From Rodbus Require Import Spec.SystemClientShow.
Import ListNotations.
Module F := Rodbus.Base.Frame.
Module CT := Rodbus.Base.ClientTypes.
Module T := Rodbus.Model.ClientTask.
Module SS := Rodbus.Spec.SystemClientSpec.
Local Open Scope string_scope.

Record syscase := { y_req : CT.request; y_tx0 : N; y_chunks : list (list N); y_fin : F.fin }.

(* the first request of a fresh connection (transaction id 0), in flight; then the byte chunks *)
Definition eval_syscase (k : syscase) : string :=
  let cfg := {| T.cfg_cap := 4; T.cfg_res := 1000000%N |} in
  let rq := {| T.rq_id := 0; T.rq_kind := T.KRead; T.rq_timeout := 1000000000%N |} in
  let st := fst (T.run cfg (T.set_txid (T.init 1 None 20000000%N 40000000%N) (y_tx0 k))
                   [T.EvSubmit T.CEnable T.SFuture; T.EvRecv; T.EvConnect true; T.EvSubmit (T.CReq rq) T.SFuture; T.EvRecv]) in
  show_verdict (SystemClient.verdict_for 0 (SystemClient.client_system cfg (fun _ => y_req k) st (y_chunks k) (y_fin k)))
  ++ "|" ++ show_verdict (SS.ref_client_result (y_req k) (y_tx0 k) (List.concat (y_chunks k)) (y_fin k)).

(* a sequence of exchanges on one connection: request k (id k, transaction id k) in flight, its chunks *)
From Rodbus Require Model.SystemClientSession Spec.SystemClientSessionSpec.
Definition eval_session (c : N * list (CT.request * list (list N))) : string :=
  let tx0 := fst c in let xs := snd c in
  let txk k := ((tx0 + N.of_nat k) mod 65536)%N in
  let cfg := {| T.cfg_cap := 4; T.cfg_res := 1000000%N |} in
  let st k := T.set_ph (T.init 1 None 20000000%N 40000000%N)
                (T.PInFlight {| T.rq_id := k; T.rq_kind := T.KRead; T.rq_timeout := 1000000000%N |} (txk k) 1000000000%N) in
  let reqs k := nth k (map fst xs) (CT.RReadHoldingRegisters (0, 1)%N) in
  let sys := SystemClientSession.client_session cfg reqs (map (fun p => (st (fst p), fst p, snd (snd p))) (combine (seq 0 (List.length xs)) xs)) in
  let spec := Spec.SystemClientSessionSpec.ref_session [] (map (fun p => (fst (snd p), txk (fst p), List.concat (snd (snd p)))) (combine (seq 0 (List.length xs)) xs)) in
  show_list show_verdict " " sys ++ "|" ++ show_list show_verdict " " spec.
