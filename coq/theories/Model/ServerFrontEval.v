(* Evaluation driver for the front-end correspondence: a script of peer operations (alphabet:
   Spec/FrontSpec.v) is run through the composed model Model/ServerFront.v exactly as the harness
   drives the real server (accept, prompt handshake completion and end notification, then one
   probe frame per connection after every operation), giving for every operation which connections
   are served and with which role. The Spec-side driver is Spec/FrontSpec.v. Definitions only. *)
From Coq Require Import NArith List Bool String Ascii.
From Rodbus Require Import Base.Outcome Base.ServerTypes Base.Show Gen.ServerCtors Model.Filter Model.Tracker Spec.TrackerSpec
  Spec.TlsSpec Spec.FrontSpec Gen.TlsVersions Gen.TlsModes Model.Tls Model.Server Model.ServerFront.
Import ListNotations.
Local Open Scope N_scope.

(* the script alphabet and the peers' ground truth are the Spec's: Spec/FrontSpec.v *)

Definition peer_of (k : pkind) : peer_kind :=
  match k with
  | KPlain => PeerPlain
  | KSilent => PeerSilent
  | _ => match tls_peer_of k with Some p => PeerTls p | None => PeerSilent end
  end.

Definition allow_all : policy := fun _ _ _ _ => true.
Definition transport_of (t : tkind) : transport :=
  match t with
  | TTcp => PlainTcp
  | TTls => TlsTransport V1_2 AuthorityBased None
  | TTlsAuthz => TlsTransport V1_2 AuthorityBased (Some allow_all)
  end.

(* the harness's request handler: every holding register reads 42 *)
Definition demo_handler : handler unit :=
  {| read_coil := fun _ _ => inr 2; read_discrete_input := fun _ _ => inr 2;
     read_holding_register := fun _ _ => inl 42; read_input_register := fun _ _ => inr 2;
     write_single_coil := fun s _ _ => (s, Some 2); write_single_register := fun s _ _ => (s, Some 2);
     write_multiple_coils := fun s _ _ _ => (s, Some 2); write_multiple_registers := fun s _ _ _ => (s, Some 2) |}.

(* read holding register <k>, quantity 1, unit 1 *)
Definition probe_frame (k : nat) : frame :=
  {| f_tx := Some 1; f_dest := DUnit 1; f_pdu := [3; N.of_nat k / 256; N.of_nat k mod 256; 0; 1] |}.

Definition string_of_bytes (l : list N) : string :=
  string_of_list_ascii (map (fun b => ascii_of_nat (N.to_nat b)) l).

Definition role_in (log : list ServerTypes.event) : option string :=
  match filter is_auth_event log with
  | EvAuth _ _ _ r :: _ => Some (string_of_bytes r)
  | _ => None
  end.

(* ---------------------------------------------------------------- (a) the composed model *)
Section ModelDriver.
Variable flt : afilter.
Variable tk : tkind.
Notation step := (fstep demo_handler flt (transport_of tk)).

Definition dstate : Type := front (St := unit) * list (option N * pkind).

(* apply events, ignoring outputs; a panic of the tracker model (id overflow) cannot occur here *)
Fixpoint apply (f : front (St := unit)) (evs : list fevent) : front (St := unit) :=
  match evs with
  | [] => f
  | e :: r => match step f e with Some (f', _) => apply f' r | None => f end
  end.

Definition phase_of (f : front (St := unit)) (id : N) : option phase :=
  match find_conn id (conns f) with Some c => Some (c_phase c) | None => None end.

Definition do_op (s : dstate) (o : fop) : dstate :=
  let '(f, idx) := s in
  match o with
  | OConnect src k =>
      let n0 := List.length (conns f) in
      let f1 := apply f [FAccept (V4 127 0 0 src) (peer_of k)] in
      if Nat.ltb n0 (List.length (conns f1)) then
        let id := match last (conns f1) {| c_id := 0; c_addr := V4 0 0 0 0; c_peer := PeerSilent; c_phase := Over |} with c => c_id c end in
        let f2 := apply f1 [FHandshakeDone id] in
        let f3 := match phase_of f2 id with Some Over => apply f2 [FSessionEnded id] | _ => f2 end in
        (f3, idx ++ [(Some id, k)])
      else (f1, idx ++ [(None, k)])
  | OClose k =>
      match nth_error idx k with
      | Some (Some id, _) => (apply f [FPeerGone id; FSessionEnded id], idx)
      | _ => (f, idx)
      end
  | OShutdown => (apply f [FShutdown], idx)
  | ODrop => (apply f [FHandleDropped], idx)
  end.

(* one probe per connection, in order; the state threads through (a probe is a request) *)
Fixpoint probes (f : front (St := unit)) (idx : list (option N * pkind)) (k : nat) : front (St := unit) * list string :=
  match idx with
  | [] => (f, [])
  | (oid, kind) :: r =>
      let '(f1, item) :=
        match oid, kind with
        | Some id, KSilent => (f, show_item false None)
        | Some id, _ =>
            match step f (FFrame id (probe_frame k)) with
            | Some (f', outs) =>
                match outs with
                | Processed _ log (Ok (_ :: _)) :: _ => (f', show_item true (role_in log))
                | _ => (f', show_item false None)
                end
            | None => (f, show_item false None)
            end
        | None, _ => (f, show_item false None)
        end in
      let '(f2, items) := probes f1 r (S k) in
      (f2, item :: items)
  end.

Fixpoint drive (s : dstate) (ops : list fop) : list string :=
  match ops with
  | [] => []
  | o :: r =>
      let '(f1, idx1) := do_op s o in
      let '(f2, items) := probes f1 idx1 0 in
      show_list (fun x => x) "," items :: drive (f2, idx1) r
  end.

Definition model_trace (m : nat) (ops : list fop) : string :=
  show_list (fun x => x) "|" (drive (finit m {| u_map := [(1, 0)]; u_store := fun _ => tt |}, []) ops).
End ModelDriver.

