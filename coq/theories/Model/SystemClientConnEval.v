(* Rendering of consecutive connections of one client channel (Model/SystemClientSession.v
   connections_from: ONE reader, reset by ClientLoop::run when a connection starts) and of the
   oracle Spec/SystemClientSessionSpec.v ref_connections for the correspondence in
   lib/checks/c04.py (harness `cconn`). *)
From Coq Require Import NArith List Bool String.
From Rodbus Require Import Base.Show Base.Outcome Base.ClientTypes Model.ClientRequest Model.ClientShow Model.SystemClientRtuEval.
From Rodbus Require Base.Frame Model.Reader Model.ClientTask Spec.SystemClientSpec Spec.SystemClientSessionSpec Model.SystemClient Model.SystemClientSession.
Import ListNotations.
Module F := Rodbus.Base.Frame.
Module T := Rodbus.Model.ClientTask.
Module SS := Rodbus.Spec.SystemClientSpec.
Module XS := Rodbus.Spec.SystemClientSessionSpec.
Local Open Scope string_scope.

(* one exchange: (kind, start, count/value, transaction id, chunks as (length, number), fin 0 pending 1 EOF 2 error) *)
Definition xcase := (N * N * N * N * list (nat * N) * N)%type.
Definition conn_case := list (list xcase).

Definition fin_of (n : N) : F.fin := match n with 0%N => F.FinPending | 1%N => F.FinEof | _ => F.FinErr end.
Definition req_of (x : xcase) : request :=
  let '(kind, s, c, _, _, _) := x in
  match build (mk_call kind s c (Seed 0 c)) with Ok r => r | _ => RWriteSingleRegister 0 0 end.

Fixpoint number_from {A} (k : nat) (l : list A) : list (nat * A) :=
  match l with [] => [] | a :: r => (k, a) :: number_from (S k) r end.
Fixpoint number_conns (k : nat) (cs : conn_case) : list (list (nat * xcase)) :=
  match cs with [] => [] | c :: r => number_from k c :: number_conns (k + List.length c) r end.

Definition show_verdicts (vs : list (list SS.verdict)) : string :=
  show_list (show_list show_verdict_rtu ";") "/" vs.

Definition eval_conn_case (cs : conn_case) : string :=
  let cfg := {| T.cfg_cap := 4; T.cfg_res := 1000000%N |} in
  let all := List.concat cs in
  let reqs := fun id => req_of (nth id all (0, 0, 0, 0, [], 0)%N) in
  let st id tx := T.set_ph (T.set_enabled (T.init 1 None 20000000%N 40000000%N) true)
                    (T.PInFlight {| T.rq_id := id; T.rq_kind := T.KRead; T.rq_timeout := 1000000000%N |} tx 1000000000%N) in
  let model_conns := map (map (fun ix : nat * xcase => let '(id, x) := ix in let '(_, _, _, tx, chunks, fin) := x in
                                 (st id tx, id, map (fun ch => bytes_of (fst ch) (snd ch)) chunks, fin_of fin))) (number_conns 0 cs) in
  let spec_conns := map (map (fun x : xcase => let '(_, _, _, tx, chunks, fin) := x in
                                 (req_of x, tx, List.concat (map (fun ch => bytes_of (fst ch) (snd ch)) chunks), fin_of fin))) cs in
  both (show_verdicts (SystemClientSession.connections_from cfg reqs (Reader.reader_new Reader.KTcp) model_conns))
       (show_verdicts (XS.ref_connections spec_conns)).
