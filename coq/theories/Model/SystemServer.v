(* The server as a whole: bytes arriving in arbitrary read chunks -> production reader
   (ReadBuffer + MBAP / RTU parser + next_frame loop, Model/Reader.v) -> SessionTask
   (handle_frame per delivered frame, Model/Server.v) -> bytes written, handler state, call log.
   SessionTask::run_one: `frame = next_frame(..)?; handle_frame(frame)`, looping until next_frame
   returns an error (or the stream stays silent). *)
From Coq Require Import NArith List Bool.
From Rodbus Require Base.Frame Base.ServerTypes Model.Reader Model.Server.
Import ListNotations.

Module F := Rodbus.Base.Frame.
Module S := Rodbus.Base.ServerTypes.

(* the reader's frame as the session sees it (FrameHeader: destination is Broadcast iff the RTU
   parser said so) *)
Definition to_server_frame (f : F.frame) : S.frame :=
  {| S.f_tx := F.f_tx f;
     S.f_dest := if F.f_bcast f then S.DBroadcast else S.DUnit (F.f_dest f);
     S.f_pdu := F.f_pdu f |}.

Definition kind_of_link (l : S.link) : Reader.framing_kind :=
  match l with S.LTcp => Reader.KTcp | S.LRtu => Reader.KRtuRequest end.

Section Sys.
Context {St : Type}.
Variable H : S.handler St.

(* (replies per frame, final units, call log, how the session's handling ended, how the reader ended) *)
Definition server_system (l : S.link) (a : S.auth) (units : S.ucfg St) (chunks : Reader.net) (fi : F.fin) :=
  let r := Reader.run_session (kind_of_link l) false chunks fi in
  (Server.session H l a units (map to_server_frame (Reader.frames_of (fst r))), snd r).
End Sys.
