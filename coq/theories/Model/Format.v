(* Frame formatting: tcp/frame.rs::format_mbap and serial/frame.rs::format_rtu_pdu writing into
   the FrameWriter's buffer (common/frame.rs: one buffer of MAX_FRAME_LENGTH bytes shared by both
   framings). The body is any serializer over the write cursor; a write beyond the capacity is
   the error `ewrite` (RequestError::Internal(InsufficientWriteSpace)). *)
From Coq Require Import NArith List Bool Arith.
From Rodbus Require Import Base.Outcome Base.Cursor Model.Crc Gen.Consts.
Import ListNotations.
Local Open Scope N_scope.

Section Format.
Context {E : Type}.
Variable ewrite : E.

Definition serializer := wcur -> outcome E wcur.

Definition w (o : option wcur) : outcome E wcur := of_option ewrite o.

(* replace the two bytes at offset 4 (the MBAP length field) *)
Definition patch_len (bs : list N) (len : N) : list N :=
  firstn 4 bs ++ be16 len ++ skipn 6 bs.

(* format_mbap: tx id, protocol id 0, length placeholder (skip 2), unit id, function, body; then
   seek back and write length = (end_pdu - start_pdu + 1) as u16 *)
Definition mbap_format (cap : nat) (tx unit fcv : N) (body : serializer) : outcome E (list N) :=
  obind (w (wr_u16_be (wnew cap) tx)) (fun w1 =>
  obind (w (wr_u16_be w1 0)) (fun w2 =>
  obind (w (wr_u16_be w2 0)) (fun w3 =>            (* skip(2): position advances, bytes rewritten below *)
  obind (w (wr_u8 w3 unit)) (fun w4 =>
  obind (w (wr_u8 w4 fcv)) (fun w5 =>
  obind (body w5) (fun w6 =>
  let pdu_len := (length (w_out w6) - mbap_header_length)%nat in
  Ok (patch_len (w_out w6) ((N.of_nat pdu_len + 1) mod 65536)))))))).

(* format_rtu_pdu: destination, function, body, CRC of everything so far (low byte first) *)
Definition rtu_format (cap : nat) (dest fcv : N) (body : serializer) : outcome E (list N) :=
  obind (w (wr_u8 (wnew cap) dest)) (fun w1 =>
  obind (w (wr_u8 w1 fcv)) (fun w2 =>
  obind (body w2) (fun w3 =>
  obind (w (wr_u16_le w3 (crc (w_out w3)))) (fun w4 =>
  Ok (w_out w4))))).

Inductive framing := Tcp | Rtu.

(* FrameWriter::format_generic for either framing; the buffer is the shared one *)
Definition frame_format (f : framing) (tx dest fcv : N) (body : serializer) : outcome E (list N) :=
  match f with
  | Tcp => mbap_format buffer_capacity tx dest fcv body
  | Rtu => rtu_format buffer_capacity dest fcv body
  end.
End Format.
