(* tcp/frame.rs: MbapParser (ParseState Begin | Header(header, adu_len)), parse_header with the
   checks in the code's order, parse_body, and the (at most two iterations of the) parse loop.
   Result of one parse call: the new parser state, the new buffer, and Ok None (more bytes
   needed) / Ok (Some frame) / Err e / Panic. *)
From Coq Require Import NArith List Bool Arith.
From Rodbus Require Import Base.Outcome Base.Frame Gen.Consts Model.Buffer.
Import ListNotations.

(* MbapHeader also stores len_field; it is only used by the Display impl *)
Inductive pstate := Begin | Header (tx unit : N) (adu_len : nat).

(* Frame::set(src): refuses (and leaves the frame empty) if src is longer than MAX_ADU_LENGTH *)
Definition frame_set (src : list N) : list N :=
  if Nat.ltb max_adu_length (length src) then [] else src.

Definition presult := outcome ferr (option frame).
Definition lift_berr {A} (r : outcome berr A) : outcome ferr A :=
  match r with Ok a => Ok a | Err _ => Err InternalError | Panic => Panic end.

(* parse_header(cursor): tx id, protocol id, length, unit id via `?`, then the three checks *)
Definition parse_header (b : buf) : buf * outcome ferr (N * N * nat) :=
  let '(b1, r) := bind buf_read_u16_be (fun tx =>
                  bind buf_read_u16_be (fun proto =>
                  bind buf_read_u16_be (fun len =>
                  bind buf_read_u8 (fun unit => ret (tx, proto, len, unit))))) b in
  match r with
  | Ok (tx, proto, len, unit) =>
      let length := N.to_nat len in
      if negb (N.eqb proto 0) then (b1, Err (UnknownProtocolId proto))
      else if Nat.ltb mbap_max_length_field length then (b1, Err (FrameLengthTooBig length mbap_max_length_field))
      else match length with                        (* length.checked_sub(1).ok_or(MbapLengthZero) *)
           | O => (b1, Err MbapLengthZero)
           | S adu => (b1, Ok (tx, unit, adu))
           end
  | Err _ => (b1, Err InternalError)
  | Panic => (b1, Panic)
  end.

(* ParseState::Header arm: wait for adu_len bytes, then parse_body and go back to Begin *)
Definition parse_in_header (tx unit : N) (adu : nat) (b : buf) : pstate * buf * presult :=
  if Nat.ltb (buf_len b) adu then (Header tx unit adu, b, Ok None)
  else let '(b1, r) := buf_read adu b in
       match r with
       | Ok data => (Begin, b1, Ok (Some {| f_tx := Some tx; f_dest := unit; f_bcast := false; f_pdu := frame_set data |}))
       | Err _ => (Header tx unit adu, b1, Err InternalError)
       | Panic => (Header tx unit adu, b1, Panic)
       end.

(* MbapParser::parse: `loop { match self.state { .. } }`, unrolled (Begin -> Header -> return) *)
Definition mbap_parse (st : pstate) (b : buf) : pstate * buf * presult :=
  match st with
  | Header tx unit adu => parse_in_header tx unit adu b
  | Begin =>
      if Nat.ltb (buf_len b) mbap_header_length then (Begin, b, Ok None)
      else let '(b1, r) := parse_header b in
           match r with
           | Ok (tx, unit, adu) => parse_in_header tx unit adu b1     (* self.state = Header(..); next iteration *)
           | Err e => (Begin, b1, Err e)
           | Panic => (Begin, b1, Panic)
           end
  end.

(* MbapParser::reset *)
Definition mbap_reset (st : pstate) : pstate := Begin.
