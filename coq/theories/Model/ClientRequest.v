(* Client request codec: transcription of
     types.rs            AddressRange::try_from / of_read_bits / of_read_registers (Model/Range.v),
                         coil_to_u16, coil_from_u16, BitIterator, RegisterIterator::collect_vec
     client/requests/write_multiple.rs   WriteMultiple::from, MultipleWriteRequest::parse_all
     client/requests/write_single.rs     SingleWriteOperation for Indexed<bool>/<u16>, SingleWrite::parse_all
     client/requests/read_bits.rs        ReadBits::serialize, parse_bits_response
     client/requests/read_registers.rs   ReadRegisters::serialize, parse_registers_response
     common/serialize.rs calc_bytes_for_bits/registers, Serialize for AddressRange, &[bool], &[u16],
                         WriteMultiple<bool>, WriteMultiple<u16>
     common/parse.rs     Parse for AddressRange
     common/bits.rs      num_bytes_for_bits
     client/channel.rs   what the Channel API does before a request is queued
     client/message.rs   RequestDetails::function (Gen/ClientTables.v), Request::handle_response, get_error_for
     client/task.rs      execute_request: format_request(..)? ; io.write(bytes)
   Definitions only. Operations that can panic in Rust (u16/u8 overflow with overflow checks on)
   return Panic explicitly. *)
From Coq Require Import NArith List Bool Arith.
From Rodbus Require Import Base.Outcome Base.Cursor Base.ClientTypes Model.Crc Model.Format Model.Range
  Gen.Consts Gen.ClientTables.
Import ListNotations.
Local Open Scope N_scope.
Local Open Scope outcome_scope.

(* error.rs, flattened: the variant that reaches the caller, numeric payloads dropped *)
Inductive req_err :=
| ECountOfZero | EAddressOverflow | ECountTooLargeForType      (* BadRequest(BadRange(InvalidRange::_)) *)
| ECountTooBigForU16 | ECountTooBigForType                    (* BadRequest(InvalidRequest::_) *)
| EInsufficientWriteSpace | EBadByteCount                      (* Internal(InternalError::_) *)
| EInsufficientBytes | ETrailingBytes | EReplyEchoMismatch
| EUnknownResponseFunction | EUnknownCoilState                 (* BadResponse(AduParseError::_) *)
| EException (ex : excode).                                    (* Exception(ExceptionCode) *)

Definition is_exception (e : req_err) : Prop := match e with EException _ => True | _ => False end.

Definition of_range_err (e : range_err) : req_err :=
  match e with
  | CountOfZero => ECountOfZero
  | AddressOverflow => EAddressOverflow
  | CountTooLargeForType => ECountTooLargeForType
  end.
Definition of_range {A} (x : range_err + A) : outcome req_err A :=
  match x with inl e => Err (of_range_err e) | inr a => Ok a end.

(* ------------------------------------------------------------------ request construction *)
(* WriteMultiple::from: u16::try_from(values.len()), then AddressRange::try_from *)
Definition write_multiple_from {A} (start : N) (values : list A) : outcome req_err ((N * N) * list A) :=
  let n := N.of_nat (length values) in
  if 65535 <? n then Err ECountTooBigForU16
  else r <- of_range (try_from start n) ;; Ok (r, values).

(* Channel::read_* take an AddressRange by value. Its fields are public (and deserializable), so
   the (start, count) pair is ARBITRARY in u16 x u16: it may come from AddressRange::try_from or from
   a struct literal. of_read_bits / of_read_registers (limited_count) validate it and apply the
   per-type limit before the request is queued (an error is returned by `?` and nothing reaches
   the task). A user who calls try_from first either gets the same pair back or the same error.
   write_single_* take the Indexed value as is; write_multiple_* take a WriteMultiple, whose
   fields are crate-private, so it was built by WriteMultiple::from. *)
Definition build (c : call) : outcome req_err request :=
  match c with
  | CReadCoils s n => r <- of_range (of_read_bits (s, n)) ;; Ok (RReadCoils r)
  | CReadDiscreteInputs s n => r <- of_range (of_read_bits (s, n)) ;; Ok (RReadDiscreteInputs r)
  | CReadHoldingRegisters s n => r <- of_range (of_read_registers (s, n)) ;; Ok (RReadHoldingRegisters r)
  | CReadInputRegisters s n => r <- of_range (of_read_registers (s, n)) ;; Ok (RReadInputRegisters r)
  | CWriteSingleCoil i v => Ok (RWriteSingleCoil i v)
  | CWriteSingleRegister i v => Ok (RWriteSingleRegister i v)
  | CWriteMultipleCoils s vs => '(r, vs') <- write_multiple_from s vs ;; Ok (RWriteMultipleCoils r vs')
  | CWriteMultipleRegisters s vs => '(r, vs') <- write_multiple_from s vs ;; Ok (RWriteMultipleRegisters r vs')
  end.

Definition kind_of (r : request) : req_kind :=
  match r with
  | RReadCoils _ => KReadCoils
  | RReadDiscreteInputs _ => KReadDiscreteInputs
  | RReadHoldingRegisters _ => KReadHoldingRegisters
  | RReadInputRegisters _ => KReadInputRegisters
  | RWriteSingleCoil _ _ => KWriteSingleCoil
  | RWriteSingleRegister _ _ => KWriteSingleRegister
  | RWriteMultipleCoils _ _ => KWriteMultipleCoils
  | RWriteMultipleRegisters _ _ => KWriteMultipleRegisters
  end.
(* RequestDetails::function(..).get_value() *)
Definition function_of (r : request) : N := kind_function (kind_of r).

(* ------------------------------------------------------------------ serialisation *)
Definition ser := @serializer req_err.
Definition W (o : option wcur) : outcome req_err wcur := of_option EInsufficientWriteSpace o.

Definition coil_to_u16 (v : bool) : N := if v then coil_on else coil_off.
Definition coil_from_u16 (v : N) : outcome req_err bool :=
  if v =? coil_on then Ok true else if v =? coil_off then Ok false else Err EUnknownCoilState.

(* calc_bytes_for_bits / calc_bytes_for_registers: usize arithmetic (cannot overflow for the
   length of an existing Vec), then u8::try_from *)
Definition calc_bytes_for_bits (num_bits : N) : outcome req_err N :=
  let div_8 := num_bits / 8 in
  let count := if num_bits mod 8 =? 0 then div_8 else div_8 + 1 in
  if count <=? 255 then Ok count else Err EBadByteCount.
Definition calc_bytes_for_registers (num_registers : N) : outcome req_err N :=
  let count := 2 * num_registers in
  if count <=? 255 then Ok count else Err EBadByteCount.

(* Serialize for AddressRange *)
Definition ser_range (r : N * N) : ser := fun w =>
  w1 <- W (wr_u16_be w (fst r)) ;; W (wr_u16_be w1 (snd r)).
(* SingleWriteOperation::serialize for Indexed<bool> / Indexed<u16> *)
Definition ser_indexed_bool (i : N) (v : bool) : ser := fun w =>
  w1 <- W (wr_u16_be w i) ;; W (wr_u16_be w1 (coil_to_u16 v)).
Definition ser_indexed_u16 (i v : N) : ser := fun w =>
  w1 <- W (wr_u16_be w i) ;; W (wr_u16_be w1 v).

(* `acc |= 1 << count as u8` for the bits of one chunk; acc and the literal 1 are u8, so a shift
   by 8 or more panics (overflow checks) *)
Fixpoint byte_acc (bits : list bool) (count : N) (acc : N) : outcome req_err N :=
  match bits with
  | [] => Ok acc
  | b :: rest =>
      if b then (if 8 <=? count then Panic else byte_acc rest (count + 1) (N.lor acc (N.shiftl 1 count)))
      else byte_acc rest (count + 1) acc
  end.
(* `for byte in self.chunks(8) { ...; cursor.write_u8(acc)? }` *)
Fixpoint ser_bits_loop (fuel : nat) (bits : list bool) (w : wcur) : outcome req_err wcur :=
  match fuel with
  | O => Ok w
  | S f => match bits with
           | [] => Ok w
           | _ => acc <- byte_acc (firstn 8 bits) 0 0 ;;
                  w1 <- W (wr_u8 w acc) ;;
                  ser_bits_loop f (skipn 8 bits) w1
           end
  end.
(* Serialize for &[bool] *)
Definition ser_bool_slice (bits : list bool) : ser := fun w =>
  num_bytes <- calc_bytes_for_bits (N.of_nat (length bits)) ;;
  w1 <- W (wr_u8 w num_bytes) ;;
  ser_bits_loop (length bits) bits w1.
(* Serialize for &[u16] *)
Fixpoint ser_regs_loop (vs : list N) (w : wcur) : outcome req_err wcur :=
  match vs with
  | [] => Ok w
  | v :: rest => w1 <- W (wr_u16_be w v) ;; ser_regs_loop rest w1
  end.
Definition ser_u16_slice (vs : list N) : ser := fun w =>
  num_bytes <- calc_bytes_for_registers (N.of_nat (length vs)) ;;
  w1 <- W (wr_u8 w num_bytes) ;;
  ser_regs_loop vs w1.
(* Serialize for WriteMultiple<bool> / WriteMultiple<u16>: limit, range, values *)
Definition ser_write_multiple_bool (r : N * N) (vs : list bool) : ser := fun w =>
  if max_write_coils_count <? snd r then Err ECountTooBigForType
  else w1 <- ser_range r w ;; ser_bool_slice vs w1.
Definition ser_write_multiple_u16 (r : N * N) (vs : list N) : ser := fun w =>
  if max_write_registers_count <? snd r then Err ECountTooBigForType
  else w1 <- ser_range r w ;; ser_u16_slice vs w1.

(* Serialize for RequestDetails *)
Definition serialize (r : request) : ser :=
  match r with
  | RReadCoils rg | RReadDiscreteInputs rg | RReadHoldingRegisters rg | RReadInputRegisters rg => ser_range rg
  | RWriteSingleCoil i v => ser_indexed_bool i v
  | RWriteSingleRegister i v => ser_indexed_u16 i v
  | RWriteMultipleCoils rg vs => ser_write_multiple_bool rg vs
  | RWriteMultipleRegisters rg vs => ser_write_multiple_u16 rg vs
  end.

(* FrameWriter::format_request(FrameHeader::new_tcp_header(unit, tx), function, details) *)
Definition client_encode (f : framing) (tx uid : N) (r : request) : outcome req_err (list N) :=
  frame_format EInsufficientWriteSpace f tx uid (function_of r) (serialize r).

(* execute_request up to the write: the result so far and what was handed to io.write *)
Definition transmit (f : framing) (tx uid : N) (r : request) : outcome req_err unit * list (list N) :=
  match client_encode f tx uid r with
  | Ok bs => (Ok tt, [bs])
  | Err e => (Err e, [])
  | Panic => (Panic, [])
  end.

(* one API call end to end: construction, then the task's transmit *)
Definition client_submit (f : framing) (tx uid : N) (c : call) : outcome req_err (list N) :=
  r <- build c ;; client_encode f tx uid r.
Definition submit_wire (f : framing) (tx uid : N) (c : call) : list (list N) :=
  match build c with
  | Ok r => snd (transmit f tx uid r)
  | _ => []
  end.

(* ------------------------------------------------------------------ response handling *)
Definition R {A} (o : option A) : outcome req_err A := of_option EInsufficientBytes o.
(* cursor.expect_empty() *)
Definition expect_empty (c : rcur) : outcome req_err unit :=
  if rd_is_empty c then Ok tt else Err ETrailingBytes.

(* common/bits.rs *)
Definition num_bytes_for_bits (count : N) : N := (count + 7) / 8.

(* BitIterator::next driven by collect(): fuel = count *)
Fixpoint bit_collect (fuel : nat) (bytes : list N) (start count pos : N) : outcome req_err (list (N * bool)) :=
  match fuel with
  | O => Ok []
  | S f =>
      if pos =? count then Ok []
      else
        let byte := pos / 8 in
        let bit := pos mod 8 in
        match nth_error bytes (N.to_nat byte) with
        | None => Ok []
        | Some value =>
            let b := negb (N.land value (N.shiftl 1 bit) =? 0) in
            if 65535 <? start + pos then Panic                     (* self.range.start + self.pos *)
            else if 65535 <? pos + 1 then Panic                    (* self.pos += 1 *)
            else rest <- bit_collect f bytes start count (pos + 1) ;; Ok ((start + pos, b) :: rest)
        end
  end.

(* RegisterIterator::collect_vec: every 2-byte chunk, index start + (i as u16) *)
Fixpoint reg_collect (bytes : list N) (start i : N) : outcome req_err (list (N * N)) :=
  match bytes with
  | h :: l :: rest =>
      let i16 := i mod 65536 in
      if 65535 <? start + i16 then Panic
      else r <- reg_collect rest start (i + 1) ;; Ok ((start + i16, u16_of h l) :: r)
  | _ => Ok []
  end.

(* parse_bits_response + BitIterator::parse_all + Promise::success(iter.collect()) *)
Definition parse_bits_response (rg : N * N) (c : rcur) : outcome req_err response :=
  '(_, c1) <- R (rd_u8 c) ;;                                        (* byte count: read and ignored *)
  '(bytes, c2) <- R (rd_bytes (N.to_nat (num_bytes_for_bits (snd rg))) c1) ;;
  _ <- expect_empty c2 ;;
  l <- bit_collect (N.to_nat (snd rg)) bytes (fst rg) (snd rg) 0 ;;
  Ok (RespBits l).

(* parse_registers_response + RegisterIterator::parse_all + collect_vec *)
Definition parse_registers_response (rg : N * N) (c : rcur) : outcome req_err response :=
  '(_, c1) <- R (rd_u8 c) ;;
  '(bytes, c2) <- R (rd_bytes (2 * N.to_nat (snd rg)) c1) ;;
  _ <- expect_empty c2 ;;
  l <- reg_collect bytes (fst rg) 0 ;;
  Ok (RespRegisters l).

(* SingleWrite<Indexed<bool>>::parse_all: parse, expect_empty, echo *)
Definition parse_single_coil (i : N) (v : bool) (c : rcur) : outcome req_err response :=
  '(ri, c1) <- R (rd_u16 c) ;;
  '(raw, c2) <- R (rd_u16 c1) ;;
  rv <- coil_from_u16 raw ;;
  _ <- expect_empty c2 ;;
  if (ri =? i) && Bool.eqb rv v then Ok (RespCoil ri rv) else Err EReplyEchoMismatch.
Definition parse_single_register (i v : N) (c : rcur) : outcome req_err response :=
  '(ri, c1) <- R (rd_u16 c) ;;
  '(rv, c2) <- R (rd_u16 c1) ;;
  _ <- expect_empty c2 ;;
  if (ri =? i) && (rv =? v) then Ok (RespRegister ri rv) else Err EReplyEchoMismatch.

(* MultipleWriteRequest::parse_all: AddressRange::parse (incl. try_from), echo, expect_empty *)
Definition parse_multiple (rg : N * N) (c : rcur) : outcome req_err response :=
  '(s, c1) <- R (rd_u16 c) ;;
  '(n, c2) <- R (rd_u16 c1) ;;
  r <- of_range (try_from s n) ;;
  if negb ((fst r =? fst rg) && (snd r =? snd rg)) then Err EReplyEchoMismatch
  else _ <- expect_empty c2 ;; Ok (RespRange (fst r) (snd r)).

(* RequestDetails::handle_response *)
Definition details_handle_response (r : request) (c : rcur) : outcome req_err response :=
  match r with
  | RReadCoils rg | RReadDiscreteInputs rg => parse_bits_response rg c
  | RReadHoldingRegisters rg | RReadInputRegisters rg => parse_registers_response rg c
  | RWriteSingleCoil i v => parse_single_coil i v c
  | RWriteSingleRegister i v => parse_single_register i v c
  | RWriteMultipleCoils rg _ | RWriteMultipleRegisters rg _ => parse_multiple rg c
  end.

(* Request::get_error_for *)
Definition get_error_for (function expected : N) (c : rcur) : req_err :=
  if function =? N.lor expected error_mask then
    match rd_u8 c with
    | Some (x, c1) => if rd_is_empty c1 then EException (excode_of_u8 x) else ETrailingBytes
    | None => EInsufficientBytes
    end
  else EUnknownResponseFunction.

(* Request::handle_response on the payload of the matching frame *)
Definition handle_response (r : request) (pdu : list N) : outcome req_err response :=
  match rd_u8 pdu with
  | None => Err EInsufficientBytes
  | Some (function, c) =>
      let expected := function_of r in
      if negb (function =? expected) then Err (get_error_for function expected c)
      else details_handle_response r c
  end.
