(* Model of the serial channel task (rodbus/src/serial/client.rs: SerialChannelTask) as a derived
   system of the TCP one.  The outer loop is the same (`run_inner`); the differences are:
   - the port is opened synchronously (`crate::serial::open`), so there is no phase in which the
     task waits for a connect result: whenever a step of the TCP system ends in PConnecting, the
     open result (environment: `open_ok`) is applied at once;
   - there is no Connecting notification, one Wait state for both kinds of delay, Open for
     Connected (`port_of`);
   - max_timeouts is None, and RTU frames carry no transaction id: a delivered frame is given the
     outstanding id (`rtu_event`; see rtu_step in Model/ClientTask.v).
   Every serial run is therefore a run of the TCP system (with the connect results inserted), so
   the theorems proved for all TCP event lists apply.  Definitions only. *)
From Coq Require Import NArith List Bool.
From Rodbus Require Import Model.Retry Spec.Lifecycle Spec.ClientSpec Gen.SessionErrors Model.ClientTask.
Import ListNotations.

Record sstate := { ss : state; open_ok : bool }.
Inductive sevent := SEnv (e : event) | SSetOpen (ok : bool).

Section Serial.
Variable cfg : config.

(* try_open_and_run: the open result is available immediately *)
Definition settle_open (ok : bool) (r : state * list output) : state * list output :=
  match ph (fst r) with
  | PConnecting => let '(s2, o2) := step cfg (fst r) (EvConnect ok) in (s2, snd r ++ o2)
  | _ => r
  end.

(* RTU frames carry no transaction id: a delivered frame matches whatever is outstanding *)
Definition rtu_event (s : state) (e : event) : event :=
  match e with EvFrame _ k => EvFrame (cur_tx s) k | _ => e end.

Definition sstep (x : sstate) (e : sevent) : sstate * list output :=
  match e with
  | SSetOpen ok => ({| ss := ss x; open_ok := ok |}, [])
  | SEnv e => let '(s', o) := settle_open (open_ok x) (step cfg (ss x) (rtu_event (ss x) e)) in ({| ss := s'; open_ok := open_ok x |}, o)
  end.

Fixpoint srun (x : sstate) (es : list sevent) : sstate * list output :=
  match es with
  | [] => (x, [])
  | e :: r => let '(x1, o1) := sstep x e in let '(x2, o2) := srun x1 r in (x2, o1 ++ o2)
  end.
End Serial.

Definition sinit (nhandles : nat) (rmin rmax : N) : sstate := {| ss := init nhandles None rmin rmax; open_ok := false |}.

(* what the PortState listener hears *)
Definition port_of (l : cstate) : list pstate :=
  match l with
  | LDisabled => [SDisabled]
  | LConnecting => []
  | LConnected => [SOpen]
  | LWaitFailed d | LWaitDisc d => [SWait d]
  | LShutdown => [SShutdown]
  end.
Definition port_trace (o : list output) : list pstate := flat_map port_of (listens_of o).
