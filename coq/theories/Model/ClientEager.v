(* The eager schedule of the client task model and the rendering of a run as the text the harness
   prints for the real task (correspondence only; the theorems quantify over ALL event lists).

   The real task is eager: once the runtime has settled it has taken every command it can and
   every due timer has fired.  `run_eager` therefore saturates the model after each environment
   event with EvTimer (while the current phase has a due timer) and EvRecv (while a listening
   phase has a non-empty or closed queue).  Outputs are stamped with the virtual time. *)
From Coq Require Import NArith List Bool Arith String.
From Rodbus Require Import Base.Show Model.Retry Spec.Lifecycle Spec.ClientSpec Gen.SessionErrors Model.ClientTask.
Import ListNotations.
Local Open Scope N_scope.

Section Eager.
Variable cfg : config.

Definition timer_due (s : state) : bool :=
  match ph s with
  | PWriting _ _ u => (Nat.eqb (wpark s) 0 && (fire cfg u <=? now s)) || (fire cfg (wdl s) <=? now s)
  | PWaiting u => fire cfg u <=? now s
  | PInFlight _ _ d => fire cfg d <=? now s
  | _ => false
  end.
Definition recv_ready (s : state) : bool := listens (ph s) && (negb (is_nil (queue s)) || closed s).

Definition stamp (t : N) (o : list output) : list (N * output) := map (fun x => (t, x)) o.

(* (state, stamped outputs, true = quiescent / false = fuel exhausted) *)
Fixpoint saturate (fuel : nat) (s : state) : state * list (N * output) * bool :=
  match fuel with
  | O => (s, [], negb (timer_due s || recv_ready s))
  | S f =>
      if timer_due s then
        let '(s1, o1) := step cfg s EvTimer in
        let '(s2, o2, ok) := saturate f s1 in (s2, stamp (now s) o1 ++ o2, ok)
      else if recv_ready s then
        let '(s1, o1) := step cfg s EvRecv in
        let '(s2, o2, ok) := saturate f s1 in (s2, stamp (now s) o1 ++ o2, ok)
      else (s, [], true)
  end.

Definition fuel_for (s : state) : nat := 16 + 4 * (List.length (queue s) + List.length (blocked s)).

Fixpoint run_eager (s : state) (es : list event) : state * list (N * output) * bool :=
  match es with
  | [] => (s, [], true)
  | e :: r =>
      let '(s1, o1) := step cfg s e in
      let '(s2, o2, ok2) := saturate (fuel_for s1) s1 in
      let '(s3, o3, ok3) := run_eager s2 r in
      (s3, stamp (now s) o1 ++ o2 ++ o3, ok2 && ok3)
  end.
End Eager.

(* the same run with every output additionally stamped with the index of the script step during
   which it occurred (rendering only; Proofs/C12Proofs.v shows it is run_eager with more labels) *)
Section Ix.
Variable cfg : config.
Definition stamp_ix (i : nat) (o : list (N * output)) : list (N * nat * output) := map (fun x => (fst x, i, snd x)) o.
Fixpoint run_eager_ix (i : nat) (s : state) (es : list event) : state * list (N * nat * output) * bool :=
  match es with
  | [] => (s, [], true)
  | e :: r =>
      let '(s1, o1) := step cfg s e in
      let '(s2, o2, ok2) := saturate cfg (fuel_for s1) s1 in
      let '(s3, o3, ok3) := run_eager_ix (S i) s2 r in
      (s3, stamp_ix i (stamp (now s) o1 ++ o2) ++ o3, ok2 && ok3)
  end.
(* the same schedule with RTU framing: environment events go through rtu_step (the task's own
   recv / timer steps are untouched by the framing) *)
Fixpoint run_eager_ix_rtu (i : nat) (s : state) (es : list event) : state * list (N * nat * output) * bool :=
  match es with
  | [] => (s, [], true)
  | e :: r =>
      let '(s1, o1) := rtu_step cfg s e in
      let '(s2, o2, ok2) := saturate cfg (fuel_for s1) s1 in
      let '(s3, o3, ok3) := run_eager_ix_rtu (S i) s2 r in
      (s3, stamp_ix i (stamp (now s) o1 ++ o2) ++ o3, ok2 && ok3)
  end.
End Ix.

(* ---------- rendering ---------- *)
Local Open Scope string_scope.

Definition show_rerr (e : request_error) : string :=
  match e with
  | ReIo => "Io" | ReException => "Exception" | ReBadRequest => "BadRequest" | ReBadFrame => "BadFrame"
  | ReBadResponse => "BadResponse" | ReInternal => "Internal" | ReResponseTimeout => "Timeout"
  | ReNoConnection => "NoConnection" | ReShutdown => "Shutdown"
  end.
Definition show_result (r : result) : string := match r with ROk => "Ok" | RErr e => show_rerr e end.
Definition show_serr (e : session_error) : string :=
  match e with
  | SeIoError => "Io" | SeBadFrame => "BadFrame" | SeDisabled => "Disabled" | SeMaxTimeouts => "MaxTimeouts"
  | SeShutdown => "Shutdown"
  end.
Definition show_cstate (l : cstate) : string :=
  match l with
  | LDisabled => "lD" | LConnecting => "lC" | LConnected => "lN"
  | LWaitFailed d => "lF" ++ show_N d | LWaitDisc d => "lW" ++ show_N d | LShutdown => "lS"
  end.

(* the task log: everything the task does synchronously, in order *)
Definition show_task_item (y : N * nat * output) : list string :=
  let x := (fst (fst y), snd y) in
  match snd x with
  | OWire tx id => ["w" ++ show_N tx ++ ":" ++ show_nat id ++ "@" ++ show_N (fst x) ++ "#" ++ show_nat (snd (fst y))]
  | OWireFail tx id => ["x" ++ show_N tx ++ ":" ++ show_nat id]
  | OListen LConnected => ["lN@" ++ show_N (fst x)]
  | OListen LConnecting => ["lC@" ++ show_N (fst x)]
  | OListen (LWaitFailed d) => ["lF" ++ show_N d ++ "@" ++ show_N (fst x)]
  | OListen (LWaitDisc d) => ["lW" ++ show_N d ++ "@" ++ show_N (fst x)]
  | OListen l => [show_cstate l]
  | ODial => ["d"]
  | OEnd e => ["e" ++ show_serr e ++ "@" ++ show_N (fst x)]
  | OComplete _ _ | OStamp _ _ => []
  end.
(* the completion log (the check sorts it by request id: future-style completions are observed
   by another task, so their order relative to the task log is not an observable) *)
Definition show_completion (y : N * nat * output) : list string :=
  let x := (fst (fst y), snd y) in
  match snd x with
  | OComplete id r => ["c" ++ show_nat id ++ ":" ++ show_result r ++ "@" ++ show_N (fst x) ++ "#" ++ show_nat (snd (fst y))]
  | _ => []
  end.

Definition show_run (r : state * list (N * nat * output) * bool) : string :=
  let '(s, o, ok) := r in
  show_list (fun x => x) " " (flat_map show_task_item o) ++ "|" ++
  show_list (fun x => x) " " (flat_map show_completion o) ++ "|" ++
  (match ph s with PDone => "done" | _ => "live" end) ++ (if ok then "" else " FUEL").

(* one correspondence case: configuration and script *)
Record case := {
  k_cap : nat; k_handles : nat; k_max_timeouts : option N; k_rmin : N; k_rmax : N; k_res : N;
  k_rtu : bool; k_tx0 : N; k_script : list event }.

Definition eval_case (k : case) : string :=
  let cfg := {| cfg_cap := k_cap k; cfg_res := k_res k |} in
  let s0 := set_txid (init (k_handles k) (k_max_timeouts k) (k_rmin k) (k_rmax k)) (k_tx0 k) in
  let '(s, o, ok) := (if k_rtu k then run_eager_ix_rtu cfg 0 s0 (k_script k) else run_eager_ix cfg 0 s0 (k_script k)) in
  show_run (s, (stamp_ix 0 (stamp 0 init_outputs) ++ o)%list, ok).
