(* The logging / Display walks over peer-controlled data, at every application decode level
   (Gen/DecodeLevels.v: AppDecodeLevel and its predicates, regenerated from decode.rs):
     types.rs            BitIteratorDisplay / RegisterIteratorDisplay::fmt: the range, then at
                         data_values `for x in self.iterator` (the iterators are Copy: a copy is
                         driven through Iterator::next until it yields None)
     client/message.rs   RequestDetailsDisplay::fmt ("PDU TX"): at data_headers the range / the
                         Indexed value; for write-multiple at data_values `for x in
                         details.request.iter()` = WriteMultipleIterator::next (start + pos, pos += 1)
     client/requests/*   handle_response ("PDU RX"): reads log BitIteratorDisplay /
                         RegisterIteratorDisplay of the parsed iterator when decode.enabled();
                         writes log the parsed echo at data_headers - all BEFORE the promise is completed
     server/request.rs   RequestDisplay::fmt: write-multiple requests log BitIteratorDisplay /
                         RegisterIteratorDisplay of the request's iterator (same walks)
     common/serialize.rs Loggable for BitWriter / RegisterWriter: parse_all over the bytes just
                         written, then the same Display walks
     common/phys.rs      format_bytes: chunks of 18 bytes (no arithmetic on the data)
   A walk yields the list of things it writes (as data) or Panic; the u16 additions of the
   iterators are checked as in Model/ClientRequest.v / Model/ClientPaths.v. Definitions only. *)
From Coq Require Import NArith List Bool Arith.
From Rodbus Require Import Base.Outcome Base.Cursor Base.ClientTypes Model.Range Model.ClientRequest Model.ClientPaths
  Gen.DecodeLevels.
Import ListNotations.
Local Open Scope N_scope.
Local Open Scope outcome_scope.

Inductive log_elem :=
| LgRange (rg : N * N)            (* Display for AddressRange: start, qty *)
| LgBit (x : N * bool)            (* Display for Indexed<bool> *)
| LgReg (x : N * N).              (* Display for Indexed<u16> *)

(* BitIteratorDisplay::fmt *)
Definition bit_iter_display (lv : app_level) (bytes : list N) (rg : N * N) : outcome req_err (list log_elem) :=
  if al_data_values lv
  then l <- bit_collect (N.to_nat (snd rg)) bytes (fst rg) (snd rg) 0 ;; Ok (LgRange rg :: map LgBit l)
  else Ok [LgRange rg].
(* RegisterIteratorDisplay::fmt *)
Definition reg_iter_display (lv : app_level) (bytes : list N) (rg : N * N) : outcome req_err (list log_elem) :=
  if al_data_values lv
  then l <- reg_next_collect (N.to_nat (snd rg)) bytes (fst rg) (snd rg) 0 ;; Ok (LgRange rg :: map LgReg l)
  else Ok [LgRange rg].

(* WriteMultipleIterator::next driven to exhaustion: `self.range.start + self.pos`, `self.pos += 1` *)
Fixpoint wm_iter {A} (values : list A) (start pos : N) : outcome req_err (list (N * A)) :=
  match values with
  | [] => Ok []
  | v :: rest =>
      if 65535 <? start + pos then Panic
      else if 65535 <? pos + 1 then Panic
      else r <- wm_iter rest start (pos + 1) ;; Ok ((start + pos, v) :: r)
  end.

(* RequestDetailsDisplay::fmt: what "PDU TX" writes about request r *)
Definition request_display (lv : app_level) (r : request) : outcome req_err (list log_elem) :=
  if negb (al_data_headers lv) then Ok []
  else match r with
       | RReadCoils rg | RReadDiscreteInputs rg | RReadHoldingRegisters rg | RReadInputRegisters rg => Ok [LgRange rg]
       | RWriteSingleCoil i v => Ok [LgBit (i, v)]
       | RWriteSingleRegister i v => Ok [LgReg (i, v)]
       | RWriteMultipleCoils rg vs =>
           if al_data_values lv then l <- wm_iter vs (fst rg) 0 ;; Ok (LgRange rg :: map LgBit l) else Ok [LgRange rg]
       | RWriteMultipleRegisters rg vs =>
           if al_data_values lv then l <- wm_iter vs (fst rg) 0 ;; Ok (LgRange rg :: map LgReg l) else Ok [LgRange rg]
       end.

(* the request-specific handle_response with its logging: parse, log, THEN complete the promise
   (Channel path: collect). (value handed to the promise, what was logged) *)
Definition bits_response_logged (lv : app_level) (rg : N * N) (c : rcur) : outcome req_err (response * list log_elem) :=
  '(_, c1) <- R (rd_u8 c) ;;
  '(bytes, c2) <- R (rd_bytes (N.to_nat (num_bytes_for_bits (snd rg))) c1) ;;
  _ <- expect_empty c2 ;;
  lg <- (if al_enabled lv then bit_iter_display lv bytes rg else Ok []) ;;
  l <- bit_collect (N.to_nat (snd rg)) bytes (fst rg) (snd rg) 0 ;;
  Ok (RespBits l, lg).
Definition registers_response_logged (lv : app_level) (rg : N * N) (c : rcur) : outcome req_err (response * list log_elem) :=
  '(_, c1) <- R (rd_u8 c) ;;
  '(bytes, c2) <- R (rd_bytes (2 * N.to_nat (snd rg)) c1) ;;
  _ <- expect_empty c2 ;;
  lg <- (if al_enabled lv then reg_iter_display lv bytes rg else Ok []) ;;
  l <- reg_collect bytes (fst rg) 0 ;;
  Ok (RespRegisters l, lg).
Definition echo_log (lv : app_level) (v : response) : list log_elem :=
  if al_data_headers lv
  then match v with
       | RespCoil i b => [LgBit (i, b)]
       | RespRegister i x => [LgReg (i, x)]
       | RespRange s n => [LgRange (s, n)]
       | _ => []
       end
  else [].

Definition details_handle_response_logged (lv : app_level) (r : request) (c : rcur) : outcome req_err (response * list log_elem) :=
  match r with
  | RReadCoils rg | RReadDiscreteInputs rg => bits_response_logged lv rg c
  | RReadHoldingRegisters rg | RReadInputRegisters rg => registers_response_logged lv rg c
  | _ => v <- details_handle_response r c ;; Ok (v, echo_log lv v)
  end.

Definition handle_response_logged (lv : app_level) (r : request) (pdu : list N) : outcome req_err (response * list log_elem) :=
  match rd_u8 pdu with
  | None => Err EInsufficientBytes
  | Some (function, c) =>
      let expected := function_of r in
      if negb (function =? expected) then Err (get_error_for function expected c)
      else details_handle_response_logged lv r c
  end.

(* common/phys.rs format_bytes: one line per chunk of 18 bytes *)
Fixpoint format_bytes_aux (fuel : nat) (bytes : list N) : list (list N) :=
  match fuel with
  | O => []
  | S f => match bytes with [] => [] | _ => firstn 18 bytes :: format_bytes_aux f (skipn 18 bytes) end
  end.
Definition format_bytes (bytes : list N) : list (list N) := format_bytes_aux (length bytes) bytes.
