(* Executable instance of the application for the correspondence check: a programmable point
   handler (explicit points, arithmetic defaults, per-address read exceptions, write failures)
   mirrored by the instrumented Rust handler of harness/src/cmd/server.rs, a hashed authorization
   policy, the canonical rendering of a session's observable behaviour, and the evaluation of the
   reference server (Spec/Modbus.v) on a case. Depends neither on the model of the code nor on
   generated tables, so the Spec can still be evaluated when those no longer compile. *)
From Coq Require Import NArith List Bool Arith String Ascii.
From Rodbus Require Import Base.Outcome Base.Show Base.ServerTypes Base.ServerRun Model.Retry Model.RtuServerLoop Spec.Modbus.
Import ListNotations.
Local Open Scope N_scope.

Record pstate := {
  p_m : N; p_c : N;
  p_rex : list (N * N * N);          (* kind (0 coil, 1 discrete, 2 holding, 3 input), address, exception code *)
  p_wex : list (N * N * N);          (* kind (0 single coil, 1 single register, 2 coils, 3 registers), address, code *)
  p_coils : list (N * bool); p_discrete : list (N * bool);
  p_holding : list (N * N); p_input : list (N * N) }.

Definition dflt (s : pstate) (a k : N) : N := (a * p_m s + p_c s + 977 * k) mod 65536.
Fixpoint assoc {A} (a : N) (l : list (N * A)) : option A :=
  match l with [] => None | (k, v) :: r => if k =? a then Some v else assoc a r end.
Fixpoint find_rex (k a : N) (l : list (N * N * N)) : option N :=
  match l with [] => None | (k', a', c) :: r => if (k' =? k) && (a' =? a) then Some c else find_rex k a r end.
Fixpoint find_wex (k start count : N) (l : list (N * N * N)) : option N :=
  match l with
  | [] => None
  | (k', a', c) :: r => if (k' =? k) && (start <=? a') && (a' <? start + count) then Some c else find_wex k start count r
  end.

Definition p_read_bit (k : N) (pts : pstate -> list (N * bool)) (s : pstate) (a : N) : bool + N :=
  match find_rex k a (p_rex s) with
  | Some c => inr c
  | None => inl (match assoc a (pts s) with Some v => v | None => N.odd (dflt s a k / 4) end)
  end.
Definition p_read_reg (k : N) (pts : pstate -> list (N * N)) (s : pstate) (a : N) : N + N :=
  match find_rex k a (p_rex s) with
  | Some c => inr c
  | None => inl (match assoc a (pts s) with Some v => v | None => dflt s a k end)
  end.
Definition set_coils (s : pstate) (items : list (N * bool)) : pstate :=
  {| p_m := p_m s; p_c := p_c s; p_rex := p_rex s; p_wex := p_wex s;
     p_coils := fold_left (fun acc x => x :: acc) items (p_coils s); p_discrete := p_discrete s;
     p_holding := p_holding s; p_input := p_input s |}.
Definition set_holding (s : pstate) (items : list (N * N)) : pstate :=
  {| p_m := p_m s; p_c := p_c s; p_rex := p_rex s; p_wex := p_wex s;
     p_coils := p_coils s; p_discrete := p_discrete s;
     p_holding := fold_left (fun acc x => x :: acc) items (p_holding s); p_input := p_input s |}.
Definition p_write {A} (k start count : N) (set : pstate -> list (N * A) -> pstate) (s : pstate) (items : list (N * A)) : pstate * option N :=
  match find_wex k start count (p_wex s) with
  | Some c => (s, Some c)
  | None => (set s items, None)
  end.

Definition prog : handler pstate := {|
  read_coil := p_read_bit 0 p_coils;
  read_discrete_input := p_read_bit 1 p_discrete;
  read_holding_register := p_read_reg 2 p_holding;
  read_input_register := p_read_reg 3 p_input;
  write_single_coil := fun s a v => p_write 0 a 1 set_coils s [(a, v)];
  write_single_register := fun s a v => p_write 1 a 1 set_holding s [(a, v)];
  write_multiple_coils := fun s start count items => p_write 2 start count set_coils s items;
  write_multiple_registers := fun s start count items => p_write 3 start count set_holding s items |}.

(* hashed policy *)
Definition kind_index (k : kind) : N :=
  match k with
  | KReadCoils => 0 | KReadDiscreteInputs => 1 | KReadHoldingRegisters => 2 | KReadInputRegisters => 3
  | KWriteSingleCoil => 4 | KWriteSingleRegister => 5 | KWriteMultipleCoils => 6 | KWriteMultipleRegisters => 7
  end.
Definition mix (h x : N) : N := (h * 31 + x + 7) mod 65521.
Definition hash_policy (seed pct : N) : policy := fun k u arg r =>
  let '(a, b) := match arg with ARange s n => (s, n) | AIndex i => (i, 0) end in
  let h := fold_left mix ([kind_index k; u; a; b] ++ r) (seed mod 65521) in
  h mod 100 <? pct.

Inductive auth_cfg := CNone | CRo (r : role) | CDeny (r : role) | CHash (r : role) (seed pct : N).
(* the property text: the built-in read-only policy allows every read and denies every write; a
   handler that overrides nothing denies everything *)
Definition auth_spec (c : auth_cfg) : auth :=
  match c with
  | CNone => NoAuth
  | CRo r => AuthHandler (fun k _ _ _ => kind_is_read k) r
  | CDeny r => AuthHandler (fun _ _ _ _ => false) r
  | CHash r seed pct => AuthHandler (hash_policy seed pct) r
  end.

Definition mkf (tx : option N) (d : dest) (pdu : list N) : frame := {| f_tx := tx; f_dest := d; f_pdu := pdu |}.
Definition mku (u m c : N) (rex wex : list (N * N * N)) (co di : list (N * bool)) (ho inp : list (N * N)) : N * pstate :=
  (u, {| p_m := m; p_c := c; p_rex := rex; p_wex := wex; p_coils := co; p_discrete := di; p_holding := ho; p_input := inp |}).

(* ---------------------------------------------------------------- rendering *)
Local Open Scope string_scope.
Definition hex4 (v : N) : string := show_byte (v / 256) ++ show_byte (v mod 256).
Definition show_bit (b : bool) : string := if b then "1" else "0".

Fixpoint contiguous {A} (a : N) (l : list (N * A)) : bool :=
  match l with [] => true | (x, _) :: r => (x =? a)%N && contiguous (a + 1)%N r end.
Definition show_items {A} (sh : A -> string) (l : list (N * A)) : string :=
  match l with
  | [] => "-"
  | (a0, _) :: _ =>
      if contiguous a0 l then show_N a0 ++ ":" ++ concat "" (map (fun x => sh (snd x)) l)
      else "!" ++ concat "+" (map (fun x => show_N (fst x) ++ "=" ++ sh (snd x)) l)
  end.

Definition read_tag (e : event) : option (N * N * N) :=
  match e with
  | EvReadCoil u a => Some (0, u, a)%N | EvReadDiscreteInput u a => Some (1, u, a)%N
  | EvReadHoldingRegister u a => Some (2, u, a)%N | EvReadInputRegister u a => Some (3, u, a)%N
  | _ => None
  end.
Definition tag_name (t : N) : string := match t with 0%N => "rc" | 1%N => "rd" | 2%N => "rh" | _ => "ri" end.
Definition show_run (r : N * N * N * N) : string :=
  let '(t, u, f, l) := r in tag_name t ++ "." ++ show_N u ++ "." ++ show_N f ++ "-" ++ show_N l.
Definition show_arg (a : auth_arg) : string :=
  match a with ARange s n => "r" ++ show_N s ++ "." ++ show_N n | AIndex i => "i" ++ show_N i end.
Definition show_event (e : event) : string :=
  match e with
  | EvWriteSingleCoil u a v => "wsc." ++ show_N u ++ "." ++ show_N a ++ "." ++ show_bit v
  | EvWriteSingleRegister u a v => "wsr." ++ show_N u ++ "." ++ show_N a ++ "." ++ show_N v
  | EvWriteMultipleCoils u s n items => "wmc." ++ show_N u ++ "." ++ show_N s ++ "." ++ show_N n ++ "." ++ show_items show_bit items
  | EvWriteMultipleRegisters u s n items => "wmr." ++ show_N u ++ "." ++ show_N s ++ "." ++ show_N n ++ "." ++ show_items hex4 items
  | EvAuth k u arg r => "au." ++ show_N (kind_index k) ++ "." ++ show_N u ++ "." ++ show_arg arg ++ "." ++ show_bytes r
  | _ => "?"
  end.
Definition flush (run : option (N * N * N * N)) : list string :=
  match run with Some r => [show_run r] | None => [] end.
(* merge ascending runs of single-address read entries of the same kind and unit *)
Fixpoint compress (l : list event) (run : option (N * N * N * N)) : list string :=
  match l with
  | [] => flush run
  | e :: r =>
      match read_tag e with
      | Some (t, u, a) =>
          match run with
          | Some (t', u', f, la) =>
              if ((t =? t') && (u =? u') && (la + 1 =? a))%N then compress r (Some (t', u', f, a))
              else show_run (t', u', f, la) :: compress r (Some (t, u, a, a))
          | None => compress r (Some (t, u, a, a))
          end
      | None => flush run ++ show_event e :: compress r None
      end
  end.
Definition show_log (l : list event) : string :=
  match l with [] => "-" | _ => concat ";" (compress l None) end.
Definition show_replies (rs : list (list N)) : string :=
  match rs with
  | [] => "-"
  | _ => concat "," (map (fun r => match r with [] => "-" | _ => show_bytes r end) rs)
  end.
(* a case: link, unit id -> handler object index (ascending unit id), the handler objects with their
   initial states, authorization, frames. Unit ids that share an object have the same index. *)
Definition case := (link * list (N * N) * list (N * pstate) * auth_cfg * list frame)%type.
Definition empty_pstate : pstate :=
  {| p_m := 0; p_c := 0; p_rex := []; p_wex := []; p_coils := []; p_discrete := []; p_holding := []; p_input := [] |}.
Definition mkunits (m : list (N * N)) (hs : list (N * pstate)) : ucfg pstate :=
  {| u_map := m; u_store := fun h => match assoc h hs with Some s => s | None => empty_pstate end |}.

Definition run_spec (c : case) : string :=
  let '(l, m, hs, a, frames) := c in
  let '(rs, _, log) := ref_session prog l (auth_spec a) (mkunits m hs) frames in
  show_replies rs ++ "|" ++ show_log log ++ "|open".

(* ---------------------------------------------------------------- sessions with commands *)
Definition ecase := (link * list (N * N) * list (N * pstate) * auth_cfg * list sevent)%type.
Definition show_run_end {E} (she : E -> string) (e : run_end E) : string :=
  match e with
  | ROpen => "open" | RBlocked _ => "blocked" | RShutdown => "Shutdown" | RIo => "Io" | RReader => "ReadError" | RError x => she x | RPanic => "PANIC"
  end.
Definition run_spec_ev (c : ecase) : string :=
  let '(l, m, hs, a, evs) := c in
  let '(ws, _, log, _, e) :=
    ServerRun.run (E := unit) (fun u f => ok_result (ref_handle_frame prog l (auth_spec a) u f)) (mkunits m hs) 0 MIdle evs in
  show_replies ws ++ "|" ++ show_log log ++ "|" ++ show_run_end (fun _ => "?") e.

(* ---------------------------------------------------------------- the RTU server task loop *)
Definition tcase := (list (N * N) * list (N * pstate) * (N * N) * list episode)%type.
Definition show_task_end {E} (e : task_end E) : string := match e with TShutdown => "done" | _ => "live" end.
Definition run_spec_task (c : tcase) : string :=
  let '(m, hs, mm, eps) := c in
  let '(ws, _, log, _, _, e) :=
    rtu_task (E := unit) (fun u f => ok_result (ref_handle_frame prog LRtu NoAuth u f)) (mkunits m hs) 0 (create (fst mm) (snd mm)) eps in
  show_replies (List.concat ws) ++ "|" ++ show_log log ++ "|" ++ show_task_end e.
