(* The SERVER FRONT-END as one composed model: the accept arm of rodbus/src/tcp/server.rs
   (filter check -> tracker.add -> spawn), run_session (connection establishment raced with the
   session's command channel, then SessionTask with AuthorizationType::Handler(role) or None) and
   the per-frame session step, built from the existing layer models and nothing else:

     Model/Filter.v   (p5)  matches / on_accept on the GENERATED accept-arm shape (Gen/ServerCtors.v)
     Model/Tracker.v  (p6)  SessionTracker + accept loop (eviction, end notification, shutdown)
     Model/Tls.v      (p6)  server_handshake on the GENERATED version / mode tables, extract_role
     Model/Server.v   (p3)  handle_frame: authorization with the session's role, handlers, reply

   A connection is (id, source address, what its peer does, phase). Every interaction with the
   tracker goes through Tracker.run on the tracker events a front-end event amounts to, so every
   theorem about the tracker model applies to the tracker component of the composed state.
   Definitions only; proofs in Proofs/ServerFrontProofs.v. *)
From Coq Require Import NArith List Bool String Ascii.
From Rodbus Require Import Base.Outcome Base.ServerTypes Gen.ServerCtors Model.Filter Model.Tracker
  Spec.TlsSpec Gen.TlsVersions Gen.TlsModes Model.Tls Model.Server.
Import ListNotations.
Local Open Scope N_scope.

(* what the connecting peer does *)
Inductive peer_kind :=
| PeerPlain                       (* talks Modbus in clear *)
| PeerSilent                      (* connects and sends nothing *)
| PeerTls (p : TlsSpec.peer).     (* starts a TLS handshake: offered versions, presented certificate *)

(* the server's transport: plain TCP, or TLS with minimum version, certificate mode and (in
   authorization mode) the policy the AuthorizationHandler implements *)
Inductive transport :=
| PlainTcp
| TlsTransport (min : min_tls_version) (mode : certificate_mode) (authz : option policy).

Inductive phase :=
| Handshaking                     (* run_session is waiting in handler.handle(socket) *)
| Serving (a : auth)              (* SessionTask::run with this authorization type *)
| Over.                           (* the session task has returned *)

Record conn := { c_id : N; c_addr : ip; c_peer : peer_kind; c_phase : phase }.

Inductive fevent :=
| FAccept (addr : ip) (pk : peer_kind)   (* listener.accept() returned a socket from addr *)
| FHandshakeDone (id : N)                (* the connection-establishment future of session id resolves *)
| FFrame (id : N) (fr : frame)           (* the reader of session id delivered a frame *)
| FPeerGone (id : N)                     (* session id ends on its own (peer closed, I/O error) *)
| FSessionEnded (id : N)                 (* the accept loop processes SessionClose(id) *)
| FCommand | FShutdown | FHandleDropped.

Inductive fout :=
| Track (o : Tracker.output)
| Processed (id : N) (log : list ServerTypes.event) (reply : outcome serr (list N)).
    (* a Modbus frame of connection id was processed: the authorization / handler calls made on its
       behalf, what was written back *)

(* the role string as the bytes the authorization handler is given *)
Definition bytes_of_string (s : string) : list N := map (fun c => N.of_nat (nat_of_ascii c)) (list_ascii_of_string s).

Definition is_call_handle (c : accept_call) : bool := match c with CallHandle => true | _ => false end.
Definition is_some {A} (o : option A) : bool := match o with Some _ => true | None => false end.

Section Front.
Context {St : Type}.
Variable H : handler St.
Variable flt : afilter.
Variable tr : transport.

Record front := { srv : Tracker.server; conns : list conn; units : ucfg St }.

Definition finit (max_sessions : nat) (us : ucfg St) : front :=
  {| srv := Tracker.init max_sessions; conns := []; units := us |}.

(* TcpServerConnectionHandler::handle: Tcp => Ok((phys, AuthorizationType::None)) at once;
   Tls => config.handle_connection(socket, auth_handler): the handshake (Model/Tls.v), then the role.
   None = the future resolves with Err (the session task returns). *)
Definition establish (pk : peer_kind) : option auth :=
  match tr with
  | PlainTcp => Some NoAuth
  | TlsTransport min mode authz =>
      match pk with
      | PeerTls p =>
          match Tls.handshake ServerSide min mode (is_some authz) false p with
          | Established _ role =>
              match authz, role with
              | Some pol, Some r => Some (AuthHandler pol (bytes_of_string r))
              | None, _ => Some NoAuth
              | Some _, None => None
              end
          | Refused => None
          end
      | PeerPlain | PeerSilent => None      (* garbage / nothing instead of a ClientHello *)
      end
  end.

Fixpoint find_conn (id : N) (cs : list conn) : option conn :=
  match cs with
  | [] => None
  | c :: r => if c_id c =? id then Some c else find_conn id r
  end.

(* update the phase of the connection find_conn returns *)
Fixpoint set_phase (id : N) (ph : phase) (cs : list conn) : list conn :=
  match cs with
  | [] => []
  | c :: r => if c_id c =? id
              then {| c_id := c_id c; c_addr := c_addr c; c_peer := c_peer c; c_phase := ph |} :: r
              else c :: set_phase id ph r
  end.

(* run the tracker model on the tracker events this step amounts to *)
Definition track (f : front) (evs : list Tracker.event) : option (Tracker.server * list fout) :=
  match Tracker.run (srv f) evs with
  | None => None
  | Some (s', o) => Some (s', map Track o)
  end.

Definition fstep (f : front) (e : fevent) : option (front * list fout) :=
  match e with
  | FAccept addr pk =>
      (* the accept arm, shape regenerated from the source: self.handle is called iff the filter matches *)
      let ok := existsb is_call_handle (on_accept accept_arm flt addr) in
      match track f [Tracker.Accept ok] with
      | None => None
      | Some (s', o) =>
          if ok && running (srv f) then
            let c := {| c_id := next_id (trk (srv f)); c_addr := addr; c_peer := pk;
                        c_phase := match tr with PlainTcp => Serving NoAuth | TlsTransport _ _ _ => Handshaking end |} in
            Some ({| srv := s'; conns := conns f ++ [c]; units := units f |}, o)
          else Some ({| srv := s'; conns := conns f; units := units f |}, o)
      end
  | FHandshakeDone id =>
      match find_conn id (conns f) with
      | Some c =>
          match c_phase c with
          | Handshaking =>
              match c_peer c with
              | PeerSilent => Some (f, [])          (* the future never resolves on its own *)
              | pk =>
                  if alive (srv f) id then
                    match establish pk with
                    | Some a => Some ({| srv := srv f; conns := set_phase id (Serving a) (conns f); units := units f |}, [])
                    | None =>
                        match track f [Tracker.PeerGone id] with
                        | None => None
                        | Some (s', o) => Some ({| srv := s'; conns := set_phase id Over (conns f); units := units f |}, o)
                        end
                    end
                  else Some (f, [])                 (* evicted / server stopped: the select! has already ended the session *)
              end
          | _ => Some (f, [])
          end
      | None => Some (f, [])
      end
  | FFrame id fr =>
      match find_conn id (conns f) with
      | Some c =>
          match c_phase c with
          | Serving a =>
              if alive (srv f) id then
                let '(reply, units', log) := handle_frame H LTcp a (units f) fr in
                match reply with
                | Ok _ => Some ({| srv := srv f; conns := conns f; units := units' |}, [Processed id log reply])
                | _ =>                                (* a session error ends the session *)
                    match track f [Tracker.PeerGone id] with
                    | None => None
                    | Some (s', o) =>
                        Some ({| srv := s'; conns := set_phase id Over (conns f); units := units' |}, Processed id log reply :: o)
                    end
                end
              else Some (f, [])
          | _ => Some (f, [])                         (* no Modbus reader exists before the connection is established *)
          end
      | None => Some (f, [])
      end
  | FPeerGone id =>
      match track f [Tracker.PeerGone id] with
      | None => None
      | Some (s', o) => Some ({| srv := s'; conns := set_phase id Over (conns f); units := units f |}, o)
      end
  | FSessionEnded id =>
      match track f [Tracker.SessionEnded id] with
      | None => None
      | Some (s', o) => Some ({| srv := s'; conns := conns f; units := units f |}, o)
      end
  | FCommand =>
      match track f [Tracker.Command] with
      | None => None
      | Some (s', o) => Some ({| srv := s'; conns := conns f; units := units f |}, o)
      end
  | FShutdown =>
      match track f [Tracker.Shutdown] with
      | None => None
      | Some (s', o) => Some ({| srv := s'; conns := conns f; units := units f |}, o)
      end
  | FHandleDropped =>
      match track f [Tracker.HandleDropped] with
      | None => None
      | Some (s', o) => Some ({| srv := s'; conns := conns f; units := units f |}, o)
      end
  end.

Fixpoint frun (f : front) (evs : list fevent) : option (front * list fout) :=
  match evs with
  | [] => Some (f, [])
  | e :: r => match fstep f e with
              | None => None
              | Some (f1, o1) => match frun f1 r with
                                 | None => None
                                 | Some (f2, o2) => Some (f2, o1 ++ o2)
                                 end
              end
  end.

(* the tracker events a front-end event amounts to in a given state (projection used by the proofs) *)
Definition tracker_events (f : front) (e : fevent) : list Tracker.event :=
  match e with
  | FAccept addr _ => [Tracker.Accept (existsb is_call_handle (on_accept accept_arm flt addr))]
  | FHandshakeDone id =>
      match find_conn id (conns f) with
      | Some c =>
          match c_phase c, c_peer c with
          | Handshaking, PeerSilent => []
          | Handshaking, pk => if alive (srv f) id then match establish pk with Some _ => [] | None => [Tracker.PeerGone id] end else []
          | _, _ => []
          end
      | None => []
      end
  | FFrame id fr =>
      match find_conn id (conns f) with
      | Some c =>
          match c_phase c with
          | Serving a => if alive (srv f) id
                         then match fst (fst (handle_frame H LTcp a (units f) fr)) with Ok _ => [] | _ => [Tracker.PeerGone id] end
                         else []
          | _ => []
          end
      | None => []
      end
  | FPeerGone id => [Tracker.PeerGone id]
  | FSessionEnded id => [Tracker.SessionEnded id]
  | FCommand => [Tracker.Command]
  | FShutdown => [Tracker.Shutdown]
  | FHandleDropped => [Tracker.HandleDropped]
  end.

End Front.
