(* types.rs: AddressRange::try_from, limited_count, of_read_bits, of_read_registers.
   start/count are u16 (N below 65536). u16 subtraction `u16::MAX - (count - 1)` cannot
   underflow once count <> 0. *)
From Coq Require Import NArith.
From Rodbus Require Import Gen.Consts.
Local Open Scope N_scope.

Inductive range_err := CountOfZero | AddressOverflow | CountTooLargeForType.

Definition try_from (start count : N) : range_err + (N * N) :=
  if count =? 0 then inl CountOfZero
  else if (65535 - (count - 1)) <? start then inl AddressOverflow
  else inr (start, count).

(* the fields of AddressRange are public, so limited_count re-validates the range with try_from
   before applying the per-type limit (repair 3d39d18, finding F10) *)
Definition limited_count (r : N * N) (limit : N) : range_err + (N * N) :=
  match try_from (fst r) (snd r) with
  | inl e => inl e
  | inr range => if limit <? snd range then inl CountTooLargeForType else inr r
  end.

Definition of_read_bits (r : N * N) : range_err + (N * N) := limited_count r max_read_coils_count.
Definition of_read_registers (r : N * N) : range_err + (N * N) := limited_count r max_read_registers_count.
