(* The server session at BYTE level with its command channel. SessionTask::run_one is
     select! { frame = reader.next_frame() => handle_frame(frame),  cmd = commands.recv() => apply_command(cmd) }
   Events, in temporal order: a chunk of bytes becomes readable | a command arrives | the command
   channel closes. A chunk is read by the next_frame call that is waiting (or is made next); every
   frame it completes is handled, then the call waits again. A command that arrives while
   next_frame waits wins the select!: that next_frame future is DROPPED and a new call is made on
   the next loop iteration from the reader's state (parser state + buffer) - `run_cancel` of
   Model/Reader.v interleaved with commands. Reply writes complete at once here (pending writes:
   Base/ServerRun.v, C01_Commands). After the events: Some fi = the stream then ends as fi says,
   None = the session is still waiting. *)
From Coq Require Import NArith List Bool.
From Rodbus Require Base.Frame Base.ServerTypes Base.ServerRun Model.Reader Model.Server Model.SystemServer.
Import ListNotations.

Module F := Rodbus.Base.Frame.
Module S := Rodbus.Base.ServerTypes.
Module R := Rodbus.Base.ServerRun.

Inductive bevent := BChunk (c : list N) | BCommand (c : R.command) | BClosed.

Inductive bend :=
| BReader (e : F.ending)      (* next_frame returned this error / end of stream *)
| BWaiting                    (* events exhausted, next_frame waiting, channel open *)
| BShutdown                   (* RequestError::Shutdown *)
| BFailed.                    (* handle_frame returned an error (see the session_end component) *)

Definition chunks_of (evs : list bevent) : list (list N) :=
  flat_map (fun ev => match ev with BChunk c => [c] | _ => [] end) evs.
Fixpoint bstrip (evs : list bevent) : list bevent :=
  match evs with
  | [] => []
  | BCommand (R.ChangeDecoding _) :: rest => bstrip rest
  | ev :: rest => ev :: bstrip rest
  end.

Section Sys.
Context {St : Type}.
Variable H : S.handler St.

Definition frames_in (items : list F.item) : list S.frame := map SystemServer.to_server_frame (Reader.frames_of items).

(* (replies per frame handled, units, application calls, decode level, handle_frame failure if any, how it ended) *)
Fixpoint run_bytes (l : S.link) (a : S.auth) (r : Reader.reader) (units : S.ucfg St) (decode : N)
    (evs : list bevent) (fi : option F.fin)
  : list (list N) * S.ucfg St * list S.event * N * Server.session_end * bend :=
  match evs with
  | [] =>
      match fi with
      | None => ([], units, [], decode, Server.SOpen, BWaiting)
      | Some f =>
          let '(items, e) := Reader.run_reader (Reader.run_fuel r []) false r [] f in
          let '(rs, u, lg, se) := Server.session H l a units (frames_in items) in
          (rs, u, lg, decode, se, match se with Server.SOpen => BReader e | _ => BFailed end)
      end
  | BChunk c :: rest =>
      let '(r1, (items, e1)) := Reader.run_reader_st (Reader.run_fuel r [c]) r [c] F.FinPending in
      let '(rs, u, lg, se) := Server.session H l a units (frames_in items) in
      match se with
      | Server.SOpen =>
          match e1 with
          | F.EndPending =>
              let '(rs', u', lg', d', se', b') := run_bytes l a r1 u decode rest fi in
              (rs ++ rs', u', lg ++ lg', d', se', b')
          | _ => (rs, u, lg, decode, Server.SOpen, BReader e1)
          end
      | _ => (rs, u, lg, decode, se, BFailed)
      end
  | BCommand (R.ChangeDecoding x) :: rest => run_bytes l a r units x rest fi     (* the waiting next_frame is dropped and re-entered *)
  | BCommand R.Shutdown :: _ | BClosed :: _ => ([], units, [], decode, Server.SOpen, BShutdown)
  end.
End Sys.
