(* Evaluation of the server model on a correspondence case (see Model/ServerRender.v for the
   programmable handler, the policies and the rendering). *)
From Coq Require Import NArith List Bool Arith String Ascii.
From Rodbus Require Import Base.Outcome Base.Show Base.ServerTypes Base.ServerRun Model.Retry Model.RtuServerLoop Model.Server Model.ServerRun Model.ServerRender.
Import ListNotations.
Local Open Scope N_scope.

(* the built-in policies go through the tables regenerated from server/handler.rs *)
Definition auth_model (c : auth_cfg) : auth :=
  match c with
  | CNone => NoAuth
  | CRo r => AuthHandler read_only_policy r
  | CDeny r => AuthHandler default_policy r
  | CHash r seed pct => AuthHandler (hash_policy seed pct) r
  end.

Local Open Scope string_scope.
Definition show_end (e : session_end) : string :=
  match e with
  | SOpen => "open" | SPanic => "PANIC"
  | SError EWrite => "Internal" | SError EBadByteCount => "Internal" | SError (EExc _) => "Exception"
  end.


Definition run_model (c : case) : string :=
  let '(l, m, hs, a, frames) := c in
  let '(rs, _, log, e) := session prog l (auth_model a) (mkunits m hs) frames in
  show_replies rs ++ "|" ++ show_log log ++ "|" ++ show_end e.
Definition run_both (c : case) : string := run_model c ++ "#" ++ run_spec c.

Definition run_model_ev (c : ecase) : string :=
  let '(l, m, hs, a, evs) := c in
  let '(ws, _, log, _, e) := session_run prog l (auth_model a) (mkunits m hs) 0 evs in
  show_replies ws ++ "|" ++ show_log log ++ "|" ++ show_run_end (fun x => show_end (SError x)) e.
Definition run_both_ev (c : ecase) : string := run_model_ev c ++ "#" ++ run_spec_ev c.

Definition run_model_task (c : tcase) : string :=
  let '(m, hs, mm, eps) := c in
  let '(ws, _, log, _, _, e) := rtu_server_task prog (mkunits m hs) 0 (create (fst mm) (snd mm)) eps in
  show_replies (List.concat ws) ++ "|" ++ show_log log ++ "|" ++ show_task_end e.
Definition run_both_task (c : tcase) : string := run_model_task c ++ "#" ++ run_spec_task c.
