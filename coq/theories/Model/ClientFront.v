(* The CLIENT FRONT-END as one composed model: rodbus/src/tcp/client.rs TcpChannelTask
   (connect raced with fail_requests -> set_nodelay -> connection_handler.handle = the TLS handshake
   for TLS clients -> run_connection: Connected, retry reset -> client_loop.run -> wait states),
   built from the existing layer models:

     Model/ClientTask.v (p4)  the channel task: phases, command queue, requests, listener, waits
     Model/Retry.v            the doubling strategy (C14), used by ClientTask through retry_call
     Model/Tls.v              client_handshake on the GENERATED version / mode tables (C09)

   p4's model has ONE event for "the connection attempt yields" (EvConnect ok). Here it is refined
   for TLS clients: the TCP connect yields (CTcp), then the task waits in `establish`: a select!
   between `connection_handler.handle(stream, ..)` and `client_loop.fail_requests()` - exactly what
   p4's Connecting phase does for the TCP connect: queued requests fail fast, Disable / Shutdown end
   the attempt (dropping the socket) - until the handshake future resolves (CHandshake); the result
   is fed to p4's step as EvConnect true (run_connection) or EvConnect false
   (handle_failed_connection). Everything else is p4's step, unchanged.
   (Before repo fix "a TLS client waiting in its handshake ignored shutdown, disable and queued
   requests" the handshake await was not raced with the command queue.)
   Definitions only; proofs in Proofs/ClientFrontProofs.v. *)
From Coq Require Import NArith List Bool.
From Rodbus Require Import Model.Retry Spec.Lifecycle Spec.ClientSpec Gen.SessionErrors Model.ClientTask
  Spec.TlsSpec Gen.TlsVersions Gen.TlsModes Model.Tls.
Import ListNotations.
Local Open Scope N_scope.

(* the client's transport *)
Inductive ctransport :=
| CPlain
| CTls (min : min_tls_version) (mode : certificate_mode) (name_given : bool).

(* who answers on the other side of the TCP connection *)
Inductive server_kind :=
| SrvTls (p : TlsSpec.peer)    (* a TLS server: offered versions, presented certificate *)
| SrvCloses                    (* accepts the TCP connection and closes it / answers garbage *)
| SrvStalls.                   (* accepts the TCP connection and never sends anything *)

Record cfront := {
  core : ClientTask.state;
  hs : option server_kind;     (* Some k: parked in the TLS handshake with a server of kind k *)
  last_server : option server_kind     (* ghost: the server of the connection that was established last *)
}.

Inductive cevent :=
| CE (e : ClientTask.event)                  (* any event of the task model except EvConnect *)
| CTcp (ok : bool) (k : server_kind)         (* host.connect() yields *)
| CHandshake.                                (* connection_handler.handle(..) resolves *)

Section Front.
Variable cfg : ClientTask.config.
Variable tr : ctransport.

(* TlsClientConfig::handle_connection: the handshake of Model/Tls.v on the generated tables *)
Definition handshake_ok (k : server_kind) : bool :=
  match tr, k with
  | CTls min mode ng, SrvTls p =>
      match Tls.handshake ClientSide min mode false ng p with Established _ _ => true | Refused => false end
  | _, _ => false
  end.

Definition cstep (f : cfront) (e : cevent) : cfront * list ClientTask.output :=
  match e with
  | CE (EvConnect _) => (f, [])                      (* refined into CTcp / CHandshake *)
  | CE ev =>
      (* while the handshake is pending the task is in p4's Connecting phase (select! with fail_requests);
         if the step leaves that phase (Disable, Shutdown, all handles dropped, abort) the handshake future
         - and with it the socket - is dropped *)
      let '(s', o) := ClientTask.step cfg (core f) ev in
      ({| core := s';
          hs := match hs f, ph s' with Some k, PConnecting => Some k | _, _ => None end;
          last_server := last_server f |}, o)
  | CTcp ok k =>
      match hs f, ph (core f) with
      | None, PConnecting =>
          if ok then
            match tr with
            | CPlain =>
                let '(s', o) := ClientTask.step cfg (core f) (EvConnect true) in
                ({| core := s'; hs := None; last_server := Some k |}, o)
            | CTls _ _ _ => ({| core := core f; hs := Some k; last_server := last_server f |}, [])
            end
          else
            let '(s', o) := ClientTask.step cfg (core f) (EvConnect false) in
            ({| core := s'; hs := None; last_server := last_server f |}, o)
      | _, _ => (f, [])
      end
  | CHandshake =>
      match hs f with
      | Some SrvStalls => (f, [])                    (* the future never resolves *)
      | Some k =>
          if handshake_ok k then
            let '(s', o) := ClientTask.step cfg (core f) (EvConnect true) in      (* run_connection *)
            ({| core := s'; hs := None; last_server := Some k |}, o)
          else
            let '(s', o) := ClientTask.step cfg (core f) (EvConnect false) in     (* handle_failed_connection *)
            ({| core := s'; hs := None; last_server := last_server f |}, o)
      | None => (f, [])
      end
  end.

Fixpoint crun (f : cfront) (es : list cevent) : cfront * list ClientTask.output :=
  match es with
  | [] => (f, [])
  | e :: r => let '(f1, o1) := cstep f e in let '(f2, o2) := crun f1 r in (f2, o1 ++ o2)
  end.

Definition cinit (nhandles : nat) (max_timeouts : option N) (rmin rmax : N) : cfront :=
  {| core := ClientTask.init nhandles max_timeouts rmin rmax; hs := None; last_server := None |}.

(* does the last established connection satisfy the C09 admission Spec? *)
Definition admitted_server (k : option server_kind) : Prop :=
  match tr with
  | CPlain => True
  | CTls min mode ng =>
      exists p v, k = Some (SrvTls p) /\ expected (endpoint_of ClientSide min mode false ng) p = Established v None
  end.

End Front.

(* request bytes written / reply bytes interpreted *)
Definition is_traffic (o : ClientTask.output) : bool :=
  match o with
  | OWire _ _ | OWireFail _ _ | OStamp _ _ => true
  | OComplete _ ROk | OComplete _ (RErr ReException) | OComplete _ (RErr ReBadResponse) => true   (* a reply frame was interpreted *)
  | _ => false
  end.
