(* Model of rodbus/src/retry.rs: the `Doubling` retry strategy.
   Durations are N nanoseconds. `2 * self.current` is `Duration`'s checked multiplication, which
   panics above Duration::MAX; the panic is modelled as `None`. *)
From Coq Require Import NArith List.
Import ListNotations.
Local Open Scope N_scope.

Record doubling := { dmin : N; dmax : N; cur : N }.
Definition create (mn mx : N) : doubling := {| dmin := mn; dmax := mx; cur := mn |}.

(* the three trait methods *)
Inductive op := Fail | Disc | Reset.

(* Duration::MAX = u64::MAX seconds + 999_999_999 ns *)
Definition dur_max : N := 18446744073709551615 * 1000000000 + 999999999.

(* (new state, value returned to the caller); Reset returns nothing *)
Definition step (d : doubling) (o : op) : option (doubling * option N) :=
  match o with
  | Reset => Some ({| dmin := dmin d; dmax := dmax d; cur := dmin d |}, None)
  | Disc => Some (d, Some (dmin d))
  | Fail => if dur_max <? 2 * cur d then None
            else Some ({| dmin := dmin d; dmax := dmax d; cur := N.min (2 * cur d) (dmax d) |}, Some (cur d))
  end.

Fixpoint run (d : doubling) (ops : list op) : option (list (option N)) :=
  match ops with
  | [] => Some []
  | o :: r => match step d o with
              | None => None
              | Some (d', out) =>
                  match run d' r with None => None | Some outs => Some (out :: outs) end
              end
  end.
