(* Model of the client channel task (C10-C13): rodbus/src/client/task.rs (ClientLoop),
   client/message.rs (Promise), client/channel.rs + ffi_channel.rs (send paths), tcp/client.rs
   (TcpChannelTask outer loop), common/frame.rs (TxId::next).

   A transition system  step : state -> event -> state * list output  whose atomic steps are the
   segments between await points of the Rust code.  Definitions only.

   phase              where the task is parked
   -----------------  ---------------------------------------------------------------------------
   PWaitEnabled       wait_for_enabled -> fail_next_request -> rx.recv()
   PConnecting        TcpChannelTask::connect: select { host.connect(), fail_requests() }
   PIdle              ClientLoop::poll: select { reader.next_frame(), rx.recv() }
   PWriting r tx u    execute_request: timeout(r.timeout, io.write(bytes)).await  (a write that takes time: a transport
                      that is slow, done at u, and / or takes nothing for a while - `wpark`; bounded by `wdl`)
   PInFlight r tx d   execute_request: select { sleep_until(d), reader.next_frame() }
   PWaiting u         fail_requests_for: select { sleep_until(u), fail_requests() }
   PDone              the task's future has completed or was dropped

   Modelled, not verified: the tokio mpsc queue (bounded FIFO; an awaiting sender waits in FIFO
   order for a free slot; try_send fails when full; all pending items are dropped when the
   receiver is dropped), oneshot/callback completion, Drop order, select! (every branch choice is
   an event), the timer wheel's resolution (`cfg_res`).  The byte-level reader is C05: frames
   arrive delimited (EvFrame), possibly in two parts (EvHead / EvTail). *)
From Coq Require Import NArith List Bool Arith.
From Rodbus Require Import Model.Retry Spec.Lifecycle Spec.ClientSpec Gen.SessionErrors.
Import ListNotations.
Local Open Scope N_scope.

Scheme Equality for request_error.

(* ---------- data ---------- *)
Inductive result := ROk | RErr (e : request_error).

(* KRead: a request that formats; KUnformattable: one that `format_request` rejects *)
Inductive rkind := KRead | KUnformattable.
Record request := { rq_id : nat; rq_kind : rkind; rq_timeout : N }.

Inductive command := CReq (r : request) | CEnable | CDisable | CDecode (l : N) | CShutdown.

(* how the command is sent: Channel (awaiting send), CallbackSession (awaiting send), FfiChannel (try_send) *)
Inductive style := SFuture | SCallback | SFfi.

(* what a delimited reply frame is for the outstanding request (C04 decides this) *)
Inductive reply := RpGenuine | RpException | RpBad.
Definition respond (k : reply) : result :=
  match k with RpGenuine => ROk | RpException => RErr ReException | RpBad => RErr ReBadResponse end.

Inductive tcounter := TcDisabled | TcEnabled (current max : N).
Definition usize_max : N := 18446744073709551615.
Definition tc_new (mx : option N) : tcounter := match mx with None => TcDisabled | Some m => TcEnabled 0 m end.
Definition tc_reset (t : tcounter) : tcounter :=
  match t with TcDisabled => TcDisabled | TcEnabled _ m => TcEnabled counter_reset_value m end.
(* (new counter, true = Err(MaxTimeouts)) *)
Definition tc_increment (t : tcounter) : tcounter * bool :=
  match t with
  | TcDisabled => (TcDisabled, false)
  | TcEnabled c m => let c' := N.min (c + 1) usize_max in (TcEnabled c' m, counter_limit_reached c' m)
  end.

(* TxId::next: (new state, returned id) *)
Definition txid_next (v : N) : N * N := if v =? txid_max then (0, txid_max) else (v + 1, v).

Inductive phase :=
| PWaitEnabled
| PConnecting
| PIdle
| PWriting (r : request) (tx : N) (until : N)
| PInFlight (r : request) (tx : N) (deadline : N)
| PWaiting (until : N)
| PDone.

Record config := { cfg_cap : nat; cfg_res : N }.

Record state := {
  ph : phase;
  queue : list command;          (* the mpsc buffer *)
  blocked : list command;        (* awaiting senders, FIFO *)
  handles : nat;                 (* live Channel handles *)
  enabled : bool;
  txid : N;
  tcount : tcounter;
  retry : doubling;
  decode : N;
  now : N;
  partial : option (N * reply);  (* reader holds the first part of a frame *)
  wfail : bool;                  (* the next write fails *)
  wdelay : N;                    (* the next write takes this long *)
  wpark : nat;                   (* the transport's transmit path is full: it takes nothing until released (as often as it was parked) *)
  wdl : N                        (* while writing: when the write began + the request's timeout *)
}.

Inductive output :=
| OComplete (id : nat) (r : result)     (* the promise of request id is completed *)
| OStamp (tx : N) (id : nat)            (* tx_id.next() for request id *)
| OWire (tx : N) (id : nat)             (* request id written with transaction id tx *)
| OWireFail (tx : N) (id : nat)         (* the write was attempted and failed *)
| OListen (l : cstate)
| ODial                                  (* a connection attempt starts *)
| OEnd (e : session_error).              (* ClientLoop::run returned *)

Inductive event :=
| EvSubmit (c : command) (st : style)
| EvDropHandle
| EvRecv                            (* rx.recv() yields *)
| EvConnect (ok : bool)             (* host.connect() yields *)
| EvFrame (tx : N) (k : reply)      (* next_frame yields a frame *)
| EvHead (tx : N) (k : reply)       (* the first part of a frame arrives *)
| EvTail                            (* ... and the rest of it *)
| EvGarbage                         (* next_frame yields BadFrame *)
| EvEof                             (* next_frame yields Io(UnexpectedEof) *)
| EvIoErr                           (* next_frame yields Io(other) *)
| EvFailWrite                       (* environment: the next write will fail *)
| EvWriteDelay (dt : N)             (* environment: the next write takes dt *)
| EvTimer                           (* the sleep_until branch (or the pending write) of the current phase yields, if due *)
| EvTick (dt : N)
| EvAbort                           (* JoinHandle::abort *)
| EvWritePark                       (* environment: the transmit path is full - the transport takes nothing until released *)
| EvWritePartial (k : N)            (* environment: the transport takes a proper part of the frame offered (invisible to the task) *)
| EvWriteRelease.                   (* environment: the transmit path has room again (one park is over) *)

(* ---------- field updates ---------- *)
Definition set_ph (s : state) (p : phase) : state :=
  {| ph := p; queue := queue s; blocked := blocked s; handles := handles s; enabled := enabled s; txid := txid s;
     tcount := tcount s; retry := retry s; decode := decode s; now := now s; partial := partial s; wfail := wfail s; wdelay := wdelay s; wpark := wpark s; wdl := wdl s |}.
Definition set_chan (s : state) (q b : list command) : state :=
  {| ph := ph s; queue := q; blocked := b; handles := handles s; enabled := enabled s; txid := txid s;
     tcount := tcount s; retry := retry s; decode := decode s; now := now s; partial := partial s; wfail := wfail s; wdelay := wdelay s; wpark := wpark s; wdl := wdl s |}.
Definition set_handles (s : state) (h : nat) : state :=
  {| ph := ph s; queue := queue s; blocked := blocked s; handles := h; enabled := enabled s; txid := txid s;
     tcount := tcount s; retry := retry s; decode := decode s; now := now s; partial := partial s; wfail := wfail s; wdelay := wdelay s; wpark := wpark s; wdl := wdl s |}.
Definition set_enabled (s : state) (e : bool) : state :=
  {| ph := ph s; queue := queue s; blocked := blocked s; handles := handles s; enabled := e; txid := txid s;
     tcount := tcount s; retry := retry s; decode := decode s; now := now s; partial := partial s; wfail := wfail s; wdelay := wdelay s; wpark := wpark s; wdl := wdl s |}.
Definition set_txid (s : state) (v : N) : state :=
  {| ph := ph s; queue := queue s; blocked := blocked s; handles := handles s; enabled := enabled s; txid := v;
     tcount := tcount s; retry := retry s; decode := decode s; now := now s; partial := partial s; wfail := wfail s; wdelay := wdelay s; wpark := wpark s; wdl := wdl s |}.
Definition set_tc (s : state) (t : tcounter) : state :=
  {| ph := ph s; queue := queue s; blocked := blocked s; handles := handles s; enabled := enabled s; txid := txid s;
     tcount := t; retry := retry s; decode := decode s; now := now s; partial := partial s; wfail := wfail s; wdelay := wdelay s; wpark := wpark s; wdl := wdl s |}.
Definition set_retry (s : state) (d : doubling) : state :=
  {| ph := ph s; queue := queue s; blocked := blocked s; handles := handles s; enabled := enabled s; txid := txid s;
     tcount := tcount s; retry := d; decode := decode s; now := now s; partial := partial s; wfail := wfail s; wdelay := wdelay s; wpark := wpark s; wdl := wdl s |}.
Definition set_decode (s : state) (l : N) : state :=
  {| ph := ph s; queue := queue s; blocked := blocked s; handles := handles s; enabled := enabled s; txid := txid s;
     tcount := tcount s; retry := retry s; decode := l; now := now s; partial := partial s; wfail := wfail s; wdelay := wdelay s; wpark := wpark s; wdl := wdl s |}.
Definition set_now (s : state) (t : N) : state :=
  {| ph := ph s; queue := queue s; blocked := blocked s; handles := handles s; enabled := enabled s; txid := txid s;
     tcount := tcount s; retry := retry s; decode := decode s; now := t; partial := partial s; wfail := wfail s; wdelay := wdelay s; wpark := wpark s; wdl := wdl s |}.
Definition set_partial (s : state) (p : option (N * reply)) : state :=
  {| ph := ph s; queue := queue s; blocked := blocked s; handles := handles s; enabled := enabled s; txid := txid s;
     tcount := tcount s; retry := retry s; decode := decode s; now := now s; partial := p; wfail := wfail s; wdelay := wdelay s; wpark := wpark s; wdl := wdl s |}.
Definition set_wctl (s : state) (f : bool) (d : N) : state :=
  {| ph := ph s; queue := queue s; blocked := blocked s; handles := handles s; enabled := enabled s; txid := txid s;
     tcount := tcount s; retry := retry s; decode := decode s; now := now s; partial := partial s; wfail := f; wdelay := d; wpark := wpark s; wdl := wdl s |}.

Definition set_wpark (s : state) (n : nat) : state :=
  {| ph := ph s; queue := queue s; blocked := blocked s; handles := handles s; enabled := enabled s; txid := txid s;
     tcount := tcount s; retry := retry s; decode := decode s; now := now s; partial := partial s; wfail := wfail s; wdelay := wdelay s;
     wpark := n; wdl := wdl s |}.
Definition set_wdl (s : state) (d : N) : state :=
  {| ph := ph s; queue := queue s; blocked := blocked s; handles := handles s; enabled := enabled s; txid := txid s;
     tcount := tcount s; retry := retry s; decode := decode s; now := now s; partial := partial s; wfail := wfail s; wdelay := wdelay s;
     wpark := wpark s; wdl := d |}.

Section Model.
Variable cfg : config.

(* when a timer armed for instant d fires (timer wheel resolution) *)
Definition fire (d : N) : N := fires_at (cfg_res cfg) d.

(* ---------- Promise::drop: dropping a command completes a request's promise with Shutdown ---------- *)
Definition drop_queue (q : list command) : list output :=
  flat_map (fun c => match c with CReq r => [OComplete (rq_id r) (RErr drop_error)] | _ => [] end) q.

(* the task's future is dropped without running further (abort, or a panic inside the task):
   the in-flight request, the queue and the waiting senders' commands are dropped; the listener
   hears nothing *)
Definition inflight_req (p : phase) : list request :=
  match p with PWriting r _ _ | PInFlight r _ _ => [r] | _ => [] end.
Definition crash (s : state) : state * list output :=
  (set_chan (set_ph s PDone) [] [],
   map (fun r => OComplete (rq_id r) (RErr drop_error)) (inflight_req (ph s)) ++ drop_queue (queue s ++ blocked s)).

(* run_inner returned: TcpChannelTask::run tells the listener Shutdown, then the task (and with it
   the receiver and everything still queued) is dropped *)
Definition terminate (s : state) (pre : list output) : state * list output :=
  (set_chan (set_ph s PDone) [] [], pre ++ [OListen LShutdown] ++ drop_queue (queue s ++ blocked s)).

(* a call into the retry strategy (Duration overflow panics: None) *)
Definition retry_call (s : state) (o : op) : option (state * N) :=
  match Retry.step (retry s) o with
  | Some (d', Some v) => Some (set_retry s d', v)
  | Some (d', None) => Some (set_retry s d', 0)
  | None => None
  end.

(* try_connect_and_run: listener Connecting, then connect() *)
Definition start_connecting (s : state) : state * list output :=
  (set_ph s PConnecting, [OListen LConnecting; ODial]).

(* run_inner after try_connect_and_run returned without Shutdown:
   `if !is_enabled { listener Disabled }`, then wait_for_enabled (returns at once when enabled) *)
Definition loop_top (s : state) : state * list output :=
  if enabled s then start_connecting s
  else (set_ph s PWaitEnabled, [OListen LDisabled]).

(* fail_requests_for(delay) after the listener was told *)
Definition wait_for (s : state) (l : N -> cstate) (o : op) (pre : list output) : state * list output :=
  match retry_call s o with
  | None => let '(s', out) := crash s in (s', pre ++ out)
  | Some (s1, d) => (set_ph s1 (PWaiting (now s1 + d)), pre ++ [OListen (l d)])
  end.

(* ClientLoop::run returned `e`: run_connection's match *)
Definition end_session (s : state) (e : session_error) : state * list output :=
  match e with
  | SeShutdown => terminate s [OEnd e]
  | SeDisabled => let '(s', o) := loop_top s in (s', OEnd e :: o)
  | SeIoError | SeBadFrame | SeMaxTimeouts => wait_for s LWaitDisc Disc [OEnd e]
  end.

(* change_setting *)
Definition change_setting (s : state) (c : command) : state :=
  match c with
  | CEnable => set_enabled s true
  | CDisable => set_enabled s false
  | CDecode l => set_decode s l
  | _ => s
  end.

(* run_one_request after execute_request returned `res`.  The request has been completed (its
   promise is empty from here on), so nothing is in flight any more: the phase is PIdle while the
   rest of run_one_request / run_connection runs. *)
Definition finish (s : state) (r : request) (res : result) : state * list output :=
  let out := [OComplete (rq_id r) res] in
  let s := set_ph s PIdle in
  match res with
  | ROk => (set_tc s (if success_resets_counter then tc_reset (tcount s) else tcount s), out)
  | RErr e =>
      match from_request_err e with
      | Some se => let '(s', o) := end_session s se in (s', out ++ o)
      | None =>
          if request_error_beq e counted_error then
            let '(t', stop) := tc_increment (tcount s) in
            if stop then let '(s', o) := end_session (set_tc s t') SeMaxTimeouts in (s', out ++ o)
            else (set_tc s t', out)
          else (set_tc s (tc_reset (tcount s)), out)
      end
  end.

(* the whole frame goes out in the first poll of io.write *)
Definition write_now (s : state) : bool := (wdelay s =? 0) && Nat.eqb (wpark s) 0.
(* io.write returned Ok: `let deadline = Instant::now() + request.timeout` - the reply deadline counts from here *)
Definition written (s : state) (r : request) (tx : N) : state * list output :=
  (set_ph s (PInFlight r tx (now s + rq_timeout r)), [OWire tx (rq_id r)]).

(* run_one_request up to the first await: tx id, format, write.  A write that does not finish at once is bounded by
   timeout(request.timeout, ..) counted from now (`wdl`); a slow transport is done at now + wdelay (0: no delay) *)
Definition transmit (s : state) (r : request) : state * list output :=
  let '(v', tx) := txid_next (txid s) in
  let s := set_txid s v' in
  let stamp := OStamp tx (rq_id r) in
  match rq_kind r with
  | KUnformattable => let '(s', o) := finish s r (RErr ReBadRequest) in (s', stamp :: o)
  | KRead =>
      if wfail s then
        let '(s', o) := finish (set_wctl s false 0) r (RErr ReIo) in (s', stamp :: OWireFail tx (rq_id r) :: o)
      else if write_now s then
        (set_ph s (PInFlight r tx (now s + rq_timeout r)), [stamp; OWire tx (rq_id r)])
      else
        (set_wdl (set_wctl (set_ph s (PWriting r tx (if wdelay s =? 0 then 0 else now s + wdelay s))) false 0) (now s + rq_timeout r), [stamp])
  end.

(* one command taken from the queue, by the phase that took it *)
Definition take (s : state) (c : command) : state * list output :=
  match ph s with
  | PIdle =>                                   (* run_cmd *)
      match c with
      | CReq r => transmit s r
      | CShutdown => end_session s SeShutdown
      | _ => let s := change_setting s c in
             if enabled s then (s, []) else end_session s SeDisabled
      end
  | PWaitEnabled =>                            (* wait_for_enabled: fail_next_request, then re-check `enabled` *)
      match c with
      | CReq r => (s, [OComplete (rq_id r) (RErr not_connected_error)])
      | CShutdown => terminate s []
      | _ => let s := change_setting s c in
             if enabled s then start_connecting s else (s, [])
      end
  | PConnecting | PWaiting _ =>                (* fail_requests: fail_next_request until Err *)
      match c with
      | CReq r => (s, [OComplete (rq_id r) (RErr not_connected_error)])
      | CShutdown => terminate s []
      | _ => let s := change_setting s c in
             if enabled s then (s, []) else loop_top s
      end
  | PWriting _ _ _ | PInFlight _ _ _ | PDone => (s, [])      (* not listening to the queue *)
  end.

Definition listens (p : phase) : bool :=
  match p with PWriting _ _ _ | PInFlight _ _ _ | PDone => false | _ => true end.
Definition connected (p : phase) : bool :=
  match p with PIdle | PWriting _ _ _ | PInFlight _ _ _ => true | _ => false end.
Definition is_nil {A} (l : list A) : bool := match l with [] => true | _ => false end.
(* every Sender is gone: no handle left and no awaiting send *)
Definition closed (s : state) : bool := Nat.eqb (handles s) 0 && is_nil (blocked s).

(* a frame (tx, k) delivered by next_frame *)
Definition on_frame (s : state) (tx : N) (k : reply) : state * list output :=
  match ph s with
  | PInFlight r t d => if tx =? t then finish s r (respond k) else (s, [])    (* mismatch: `continue` *)
  | _ => (s, [])                                                              (* idle: logged and dropped *)
  end.

(* next_frame returned an error *)
Definition on_read_error (s : state) (e : request_error) : state * list output :=
  match ph s with
  | PInFlight r _ _ => finish s r (RErr e)
  | PIdle => match from_request_err e with Some se => end_session s se | None => (s, []) end
  | _ => (s, [])
  end.

(* the reader is only polled in PIdle / PInFlight *)
Definition reading (p : phase) : bool := match p with PIdle | PInFlight _ _ _ => true | _ => false end.

Definition step (s : state) (e : event) : state * list output :=
  match e with
  | EvTick dt => (set_now s (now s + dt), [])
  | EvFailWrite => (set_wctl s true (wdelay s), [])
  | EvWriteDelay dt => (set_wctl s (wfail s) dt, [])
  | EvDropHandle => (set_handles s (pred (handles s)), [])
  | EvRecv =>
      if listens (ph s) then
        match queue s with
        | c :: q => take (set_chan s (q ++ firstn 1 (blocked s)) (skipn 1 (blocked s))) c
        | [] => if closed s then
                  match ph s with
                  | PIdle => end_session s SeShutdown
                  | _ => terminate s []
                  end
                else (s, [])
        end
      else (s, [])
  | EvConnect ok =>
      match ph s with
      | PConnecting =>
          if ok then
            (* run_connection: listener Connected, retry.reset(); ClientLoop::run: counter reset, reader reset *)
            match retry_call s Reset with
            | None => crash s
            | Some (s1, _) => (set_partial (set_tc (set_ph s1 PIdle) (tc_reset (tcount s1))) None, [OListen LConnected])
            end
          else wait_for s LWaitFailed Fail []
      | _ => (s, [])
      end
  | EvFrame tx k =>
      if reading (ph s) then match partial s with None => on_frame s tx k | Some _ => (s, []) end else (s, [])
  | EvHead tx k =>
      if reading (ph s) then match partial s with None => (set_partial s (Some (tx, k)), []) | Some _ => (s, []) end else (s, [])
  | EvTail =>
      if reading (ph s) then
        match partial s with Some (tx, k) => on_frame (set_partial s None) tx k | None => (s, []) end
      else (s, [])
  | EvGarbage =>
      if reading (ph s) then match partial s with None => on_read_error s ReBadFrame | Some _ => (s, []) end else (s, [])
  | EvEof | EvIoErr => if reading (ph s) then on_read_error s ReIo else (s, [])
  | EvTimer =>
      match ph s with
      | PWriting r tx u =>
          (* tokio::time::timeout polls the write first: a write that can finish does, even at / after the bound *)
          if Nat.eqb (wpark s) 0 && (fire u <=? now s) then written s r tx
          else if fire (wdl s) <=? now s then finish s r (RErr write_timeout_error)
          else (s, [])
      | PInFlight r _ d => if fire d <=? now s then finish s r (RErr deadline_error) else (s, [])
      | PWaiting u => if fire u <=? now s then loop_top s else (s, [])
      | _ => (s, [])
      end
  | EvAbort => match ph s with PDone => (s, []) | _ => crash s end
  | EvWritePark => (set_wpark s (S (wpark s)), [])
  | EvWritePartial _ => (s, [])
  | EvWriteRelease =>
      match wpark s with
      | O => (s, [])
      | S n =>
          let s1 := set_wpark s n in
          match ph s1 with
          | PWriting r tx u => if Nat.eqb n 0 && (fire u <=? now s1) then written s1 r tx else (s1, [])   (* the parked write is polled again *)
          | _ => (s1, [])
          end
      end
  | EvSubmit c st =>
      if Nat.eqb (handles s) 0 then (s, [])              (* no handle left: nobody can send *)
      else match ph s with
      | PDone =>            (* receiver dropped: the send fails, the command is dropped *)
          (s, drop_queue [c])
      | _ =>
          if is_nil (blocked s) && Nat.ltb (length (queue s)) (cfg_cap cfg) then (set_chan s (queue s ++ [c]) (blocked s), [])
          else match st with
               | SFfi => (s, drop_queue [c])             (* try_send: Full -> the command is dropped *)
               | _ => (set_chan s (queue s) (blocked s ++ [c]), [])
               end
      end
  end.

Fixpoint run (s : state) (es : list event) : state * list output :=
  match es with
  | [] => (s, [])
  | e :: es => let '(s1, o1) := step s e in let '(s2, o2) := run s1 es in (s2, o1 ++ o2)
  end.

End Model.

(* ---------- RTU framing (serial, and ClientLoop over FramedReader::rtu_response) ----------
   An RTU frame carries no transaction id: in execute_request `frame.header.tx_id` is None, the
   comparison is skipped, and the FIRST frame delivered while a request is in flight is taken as its
   reply (a late reply to a timed-out request is therefore taken as the reply to the NEXT request).
   The same loop is modelled by giving every delivered frame the outstanding transaction id: the
   label carried by the event is ignored. *)
Definition cur_tx (s : state) : N := match ph s with PInFlight _ t _ | PWriting _ t _ => t | _ => 0 end.
(* the first part of a frame held by the reader completes against whatever is outstanding THEN *)
Definition retag (s : state) : state :=
  match partial s with Some (_, k) => set_partial s (Some (cur_tx s, k)) | None => s end.
Definition rtu_step (cfg : config) (s : state) (e : event) : state * list output :=
  match e with
  | EvFrame _ k => step cfg s (EvFrame (cur_tx s) k)
  | EvTail => step cfg (retag s) EvTail
  | _ => step cfg s e
  end.

(* TcpChannelTask::run: the listener is told Disabled before anything else *)
Definition init (nhandles : nat) (max_timeouts : option N) (rmin rmax : N) : state :=
  {| ph := PWaitEnabled; queue := []; blocked := []; handles := nhandles; enabled := false; txid := 0;
     tcount := tc_new max_timeouts; retry := Retry.create rmin rmax; decode := 0; now := 0;
     partial := None; wfail := false; wdelay := 0; wpark := 0%nat; wdl := 0 |}.
Definition init_outputs : list output := [OListen LDisabled].

(* ---------- bookkeeping used by the theorems ---------- *)
Definition completed (o : list output) : list nat :=
  flat_map (fun x => match x with OComplete id _ => [id] | _ => [] end) o.
Definition queued (q : list command) : list nat :=
  flat_map (fun c => match c with CReq r => [rq_id r] | _ => [] end) q.
Definition inflight (p : phase) : list nat := map rq_id (inflight_req p).
Definition pending (s : state) : list nat := inflight (ph s) ++ queued (queue s) ++ queued (blocked s).
Definition listens_of (o : list output) : list cstate :=
  flat_map (fun x => match x with OListen l => [l] | _ => [] end) o.
Definition stamps (o : list output) : list N :=
  flat_map (fun x => match x with OStamp tx _ => [tx] | _ => [] end) o.
Definition wire_ids (o : list output) : list nat :=
  flat_map (fun x => match x with OWire _ id => [id] | _ => [] end) o.
