(* Interpreters for the control-flow skeletons that the translator extracts from the code
   (Gen/ServerFlow.v): `run_flow` executes a list of early-return steps with the model's primitives,
   `run_pflow` a list of parse steps. Proofs/ServerFlowProofs.v shows that Model/Server.v's
   handle_frame and parse ARE these interpreters applied to the generated lists - so a reordered
   check, another guard, exception code or function field, a different limit constant in one arm, a
   dropped expect_empty or a byte-count byte that is no longer skipped changes the generated list and
   breaks that theorem. A step whose inputs have not been produced yet (an ill-ordered skeleton) is
   Panic / None. Definitions only. *)
From Coq Require Import NArith List Bool Arith.
From Rodbus Require Import Base.Outcome Base.Cursor Base.ServerTypes Model.Range Model.Server Gen.Consts Gen.AuthzTable Gen.ServerFlow.
Import ListNotations.
Local Open Scope N_scope.

Section Flow.
Context {St : Type}.
Variable H : handler St.

(* what has been computed so far *)
Record fctx := { c_fv : option N; c_body : list N; c_f : option fcode; c_req : option request; c_alog : list event }.
Definition fctx0 : fctx := {| c_fv := None; c_body := []; c_f := None; c_req := None; c_alog := [] |}.

Definition guard_holds (g : fguard) (units : ucfg St) (d : dest) : bool :=
  match g with GServed => is_served units d | GNotBroadcast => negb (dest_is_broadcast d) | GNone => true end.

(* an early return: nothing, or an exception reply (through reply_with_error_generic) if the guard holds *)
Definition do_action (l : link) (units : ucfg St) (fr : frame) (act : faction) (unknown exc : option ffield) (lg : list event)
  : outcome serr (list N) * ucfg St * list event :=
  match act with
  | ASilent => (Ok [], units, lg)
  | AException g fld code =>
      match (match fld with FieldUnknown => unknown | FieldException => exc end) with
      | None => (Panic, units, lg)
      | Some field => (if guard_holds g units (f_dest fr) then reply_with_error_generic l fr field code else Ok [], units, lg)
      end
  end.

Fixpoint run_flow (l : link) (a : auth) (units : ucfg St) (fr : frame) (c : fctx) (steps : list fstep)
  : outcome serr (list N) * ucfg St * list event :=
  match steps with
  | [] => (Panic, units, c_alog c)                 (* a skeleton must end by dispatching *)
  | FReadFunction act :: rest =>
      match f_pdu fr with
      | [] => do_action l units fr act None None []
      | fv :: body => run_flow l a units fr {| c_fv := Some fv; c_body := body; c_f := c_f c; c_req := c_req c; c_alog := c_alog c |} rest
      end
  | FDecodeFunction act :: rest =>
      match c_fv c with
      | None => (Panic, units, [])
      | Some fv =>
          match fcode_get fv with
          | None => do_action l units fr act (Some (FUnknown fv)) None []
          | Some f => run_flow l a units fr {| c_fv := c_fv c; c_body := c_body c; c_f := Some f; c_req := c_req c; c_alog := c_alog c |} rest
          end
      end
  | FParse act :: rest =>
      match c_f c with
      | None => (Panic, units, [])
      | Some f =>
          match parse f (c_body c) with
          | None => do_action l units fr act (option_map FUnknown (c_fv c)) (Some (FException f)) []
          | Some req => run_flow l a units fr {| c_fv := c_fv c; c_body := c_body c; c_f := c_f c; c_req := Some req; c_alog := c_alog c |} rest
          end
      end
  | FAuthorize act :: rest =>
      match c_req c with
      | None => (Panic, units, [])
      | Some req =>
          match is_authorized a (dest_value (f_dest fr)) req with
          | Panic => (Panic, units, [])
          | Err e => (Err e, units, [])
          | Ok (false, alog) => do_action l units fr act (option_map FUnknown (c_fv c)) (Some (FException (get_function req))) alog
          | Ok (true, alog) => run_flow l a units fr {| c_fv := c_fv c; c_body := c_body c; c_f := c_f c; c_req := c_req c; c_alog := alog |} rest
          end
      end
  | FDispatch act :: _ =>
      match c_req c with
      | None => (Panic, units, [])
      | Some req =>
          match f_dest fr with
          | DUnit u =>
              match lookup u (u_map units) with
              | None => do_action l units fr act (option_map FUnknown (c_fv c)) (Some (FException (get_function req))) (c_alog c)
              | Some h =>
                  let '(o, st', log) := get_reply H l (f_tx fr) (f_dest fr) h (u_store units h) req in
                  (o, with_store units (sset (u_store units) h st'), c_alog c ++ log)
              end
          | DBroadcast =>
              if broadcast_supported (get_function req) then
                match execute_all H (u_map units) (u_store units) req with
                | Ok (g', log) => (Ok [], with_store units g', c_alog c ++ log)
                | Err e => (Err e, units, c_alog c)
                | Panic => (Panic, units, c_alog c)
                end
              else (Ok [], units, c_alog c)
          end
      end
  end.
End Flow.

(* ---------------------------------------------------------------- Request::parse *)
Record pctx := { p_range : option (N * N); p_ibool : option (N * bool); p_iu16 : option (N * N); p_bytes : option (list N) }.
Definition pctx0 : pctx := {| p_range := None; p_ibool := None; p_iu16 := None; p_bytes := None |}.

Definition nbytes_of (n : nbytes) (count : N) : nat :=
  match n with NBits => num_bytes_for_bits count | NTwicePerRegister => (2 * N.to_nat count)%nat end.

(* BitIterator / RegisterIterator::parse_all as its generated step list: the bytes, and the cursor after *)
Fixpoint run_aflow (count : N) (steps : list astep) (c : rcur) (bytes : option (list N)) : option (list N * rcur) :=
  match steps with
  | [] => match bytes with Some b => Some (b, c) | None => None end
  | AReadBytes n :: rest => match rd_bytes (nbytes_of n count) c with None => None | Some (b, c1) => run_aflow count rest c1 (Some b) end
  | AExpectEmpty :: rest => match expect_empty c with None => None | Some _ => run_aflow count rest c bytes end
  end.

(* the Request variant an arm builds from what its steps produced *)
Definition finish (f : fcode) (x : pctx) : option request :=
  match f with
  | ReadCoils => option_map RReadCoils (p_range x)
  | ReadDiscreteInputs => option_map RReadDiscreteInputs (p_range x)
  | ReadHoldingRegisters => option_map RReadHoldingRegisters (p_range x)
  | ReadInputRegisters => option_map RReadInputRegisters (p_range x)
  | WriteSingleCoil => option_map (fun ib => RWriteSingleCoil (fst ib) (snd ib)) (p_ibool x)
  | WriteSingleRegister => option_map (fun iv => RWriteSingleRegister (fst iv) (snd iv)) (p_iu16 x)
  | WriteMultipleCoils => match p_range x, p_bytes x with Some r, Some b => Some (RWriteMultipleCoils r b) | _, _ => None end
  | WriteMultipleRegisters => match p_range x, p_bytes x with Some r, Some b => Some (RWriteMultipleRegisters r b) | _, _ => None end
  end.

Fixpoint run_pflow (f : fcode) (steps : list pstep) (c : rcur) (x : pctx) : option request :=
  match steps with
  | [] => finish f x
  | PRange :: rest =>
      match parse_address_range c with
      | None => None
      | Some (r, c1) => run_pflow f rest c1 {| p_range := Some r; p_ibool := p_ibool x; p_iu16 := p_iu16 x; p_bytes := p_bytes x |}
      end
  | PLimit lim :: rest =>
      match p_range x with
      | None => None
      | Some r => match limited_count r lim with
                  | inl _ => None
                  | inr r' => run_pflow f rest c {| p_range := Some r'; p_ibool := p_ibool x; p_iu16 := p_iu16 x; p_bytes := p_bytes x |}
                  end
      end
  | PMax m :: rest =>
      match p_range x with
      | None => None
      | Some r => if m <? snd r then None else run_pflow f rest c x
      end
  | PSkipByte :: rest => match rd_u8 c with None => None | Some (_, c1) => run_pflow f rest c1 x end
  | PParseAll k :: rest =>
      match p_range x with
      | None => None
      | Some r => match run_aflow (snd r) (parse_all_flow k) c None with
                  | None => None
                  | Some (b, c1) => run_pflow f rest c1 {| p_range := p_range x; p_ibool := p_ibool x; p_iu16 := p_iu16 x; p_bytes := Some b |}
                  end
      end
  | PIndexedBool :: rest =>
      match parse_indexed_bool c with
      | None => None
      | Some (i, b, c1) => run_pflow f rest c1 {| p_range := p_range x; p_ibool := Some (i, b); p_iu16 := p_iu16 x; p_bytes := p_bytes x |}
      end
  | PIndexedU16 :: rest =>
      match parse_indexed_u16 c with
      | None => None
      | Some (i, v, c1) => run_pflow f rest c1 {| p_range := p_range x; p_ibool := p_ibool x; p_iu16 := Some (i, v); p_bytes := p_bytes x |}
      end
  | PExpectEmpty :: rest => match expect_empty c with None => None | Some _ => run_pflow f rest c x end
  end.
