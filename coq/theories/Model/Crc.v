(* CRC-16/MODBUS as computed by the `crc` crate's CRC_16_MODBUS (serial/frame.rs: `CRC.checksum`):
   reflected in/out, polynomial 0x8005 (reflected 0xA001), init 0xFFFF, xorout 0.
   Bitwise definition; the crate uses a table - the correspondence check compares them. *)
From Coq Require Import NArith List.
Import ListNotations.
Local Open Scope N_scope.

Definition poly : N := 0xA001.
Definition step1 (s : N) : N :=
  if N.testbit s 0 then N.lxor (N.shiftr s 1) poly else N.shiftr s 1.
Fixpoint iter (n : nat) (f : N -> N) (x : N) : N :=
  match n with O => x | S k => iter k f (f x) end.
Definition upd (s : N) (b : N) : N := iter 8 step1 (N.lxor s b).
Definition crc_from (s : N) (l : list N) : N := fold_left upd l s.
Definition crc (l : list N) : N := crc_from 0xFFFF l.
