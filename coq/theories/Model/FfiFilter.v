(* rodbus_address_filter_create / rodbus_address_filter_add interpreted from the regenerated tables of Gen/FfiTables.v
   (filter_parse_order: the parsers parse_address_filter tries, in source order; filter_add_arms: what address_filter_add
   does per variant). An unknown parser name or action makes the result unknown (None / the call is reported as failing
   with the filter unchanged AND flagged). Definitions only. *)
From Coq Require Import NArith List String Bool.
From Rodbus Require Import Gen.FfiTables Model.Filter Spec.FfiFilterSpec.
Import ListNotations.

Section WithV6.
  Variable parse_v6 : str -> option ip.

  Fixpoint create_by (order : list string) (s : str) : option afilter :=
    match order with
    | [] => None
    | p :: rest =>
        if String.eqb p "IpAddr" then
          match parse_ip parse_v6 s with Some a => Some (AnyOf [a]) | None => create_by rest s end
        else if String.eqb p "WildcardIPv4" then
          match parse_wildcard s with Some w => Some (WildcardIpv4 w) | None => create_by rest s end
        else None
    end.
  Definition ffi_filter_create (s : str) : option afilter := create_by filter_parse_order s.

  Definition variant_name (f : afilter) : string :=
    match f with Any => "Any" | Exact _ => "Exact" | AnyOf _ => "AnyOf" | WildcardIpv4 _ => "WildcardIpv4" end.
  Definition add_by (arms : list (string * string)) (f : afilter) (s : str) : afilter * bool :=
    match parse_ip parse_v6 s with
    | None => (f, false)                          (* address.parse()? fails first *)
    | Some a =>
        match find (fun r => String.eqb (fst r) (variant_name f)) arms, f with
        | Some (_, act), AnyOf set => if String.eqb act "Insert" then (AnyOf (set ++ [a]), true) else (f, false)
        | Some (_, act), _ => (f, false)
        | None, _ => (f, false)
        end
    end.
  (* every arm is one of the two known actions, and only the set arm inserts *)
  Definition add_arms_known (arms : list (string * string)) : bool :=
    forallb (fun r => String.eqb (snd r) "Insert" && String.eqb (fst r) "AnyOf" || String.eqb (snd r) "Reject") arms.
  Definition ffi_filter_add (f : afilter) (s : str) : afilter * bool := add_by filter_add_arms f s.

  Definition ffi_filter_build (s : str) (adds : list str) : option (afilter * list bool) :=
    option_map (fun f => adds_with ffi_filter_add f adds) (ffi_filter_create s).
End WithV6.
