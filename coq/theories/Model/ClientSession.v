(* A connected, enabled client session executing calls one after the other (client/task.rs
   ClientLoop::run_one_request for every Command::Request taken from the queue): `let tx_id =
   self.tx_id.next()` FIRST, then execute_request formats the frame with that id
   (`format_request(..)?` - a request that cannot be formatted has already consumed its id) and
   writes it. A call that is rejected before it is queued (Model/ClientPaths.v) never reaches the
   task and consumes nothing. The transaction id counter is the task model's (Model/ClientTask.v
   txid_next, proved to yield k mod 65536 for the k-th request by C11_txid). Each request runs to
   completion (reply, exception or timeout) without ending the session. Definitions only. *)
From Coq Require Import NArith List Bool.
From Rodbus Require Import Base.Outcome Base.ClientTypes Model.Format Model.ClientRequest Model.ClientPaths.
From Rodbus Require Model.ClientTask.
Import ListNotations.
Module T := Rodbus.Model.ClientTask.
Local Open Scope N_scope.

(* v = TxId counter; calls = (API used, unit id, call) *)
Fixpoint session_wire (f : framing) (v : N) (calls : list (path * N * call)) : list (list N) :=
  match calls with
  | [] => []
  | (p, uid, c) :: rest =>
      match submit_via p c with
      | Rejected _ => session_wire f v rest
      | Queued r =>
          let '(v', tx) := T.txid_next v in
          snd (transmit f tx uid r) ++ session_wire f v' rest
      end
  end.
