(* A connected, enabled client session executing calls one after the other (client/task.rs
   ClientLoop::run_one_request for every Command::Request taken from the queue): `let tx_id =
   self.tx_id.next()` FIRST, then execute_request formats the frame with that id
   (`format_request(..)?` - a request that cannot be formatted has already consumed its id) and
   writes it. A call that is rejected before it is queued (Model/ClientPaths.v) never reaches the
   task and consumes nothing. The transaction id counter is the task model's (Model/ClientTask.v
   txid_next, proved to yield k mod 65536 for the k-th request by C11_txid). Each request runs to
   completion (reply, exception or timeout) without ending the session. Definitions only. *)
From Coq Require Import NArith List Bool.
From Rodbus Require Import Base.Outcome Base.ClientTypes Model.Format Model.ClientRequest Model.ClientPaths.
From Rodbus Require Model.ClientTask.
Import ListNotations.
Module T := Rodbus.Model.ClientTask.
Local Open Scope N_scope.

(* v = TxId counter; calls = (API used, unit id, call) *)
Fixpoint session_wire (f : framing) (v : N) (calls : list (path * N * call)) : list (list N) :=
  match calls with
  | [] => []
  | (p, uid, c) :: rest =>
      match submit_via p c with
      | Rejected _ => session_wire f v rest
      | Queued r =>
          let '(v', tx) := T.txid_next v in
          snd (transmit f tx uid r) ++ session_wire f v' rest
      end
  end.

(* ------------------------------------------------------------------ execute_request with a peer and a transport *)
(* What execute_request's receive loop sees, in order, while a request is in flight:
   RxSkip   next_frame delivered a frame whose transaction id differs (`continue`: stale reply,
            duplicate of an earlier reply, foreign frame) - bytes of a partial frame are not an
            event at all (next_frame keeps waiting)
   RxReply  a frame with the request's id (RTU: any frame): handle_response, the call is over
   RxDeadline the response deadline fires first
   RxFail   next_frame failed (I/O error, EOF, framing error): the error ends the session *)
Inductive rx_event := RxSkip | RxReply | RxDeadline | RxFail.

(* does the session end while this request waits? *)
Fixpoint rx_loses_connection (evs : list rx_event) : bool :=
  match evs with
  | RxSkip :: rest => rx_loses_connection rest
  | RxFail :: _ => true
  | _ => false
  end.

(* how the transport takes the request's write_all: everything, or only the first k bytes before
   `tokio::time::timeout(request.timeout, io.write(..))` expires (Io(TimedOut): a session error) *)
Inductive tx_fate := TxAll | TxCut (k : nat).

(* the byte stream of the connection: for each queued request `format_request(..)?`, ONE bounded
   write BEFORE the receive loop, then the loop (which never writes) *)
Fixpoint session_stream (f : framing) (v : N) (calls : list (path * N * call * tx_fate * list rx_event)) : list N :=
  match calls with
  | [] => []
  | (p, uid, c, fate, evs) :: rest =>
      match submit_via p c with
      | Rejected _ => session_stream f v rest
      | Queued r =>
          let '(v', tx) := T.txid_next v in
          match client_encode f tx uid r with
          | Ok bs =>
              let go := bs ++ (if rx_loses_connection evs then [] else session_stream f v' rest) in
              match fate with
              | TxAll => go
              | TxCut k => if Nat.ltb k (length bs) then firstn k bs else go
              end
          | _ => session_stream f v' rest
          end
      end
  end.
