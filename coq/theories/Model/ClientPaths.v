(* The three ways a request reaches the client task, and the two ways its result comes back:
     client/channel.rs      Channel::read_* / write_* (async; the result is the future's value:
                            the promise is a oneshot, reads are collected into a Vec by the task)
     client/channel.rs      CallbackSession::read_* / write_* (deprecated callback API: the result
                            goes to a callback; read callbacks receive the BitIterator /
                            RegisterIterator itself)
     client/ffi_channel.rs  FfiChannel::read_* / write_* (used by the C bindings: synchronous
                            try_send, returns Result<(), FfiChannelError>, result to a callback)
   Request construction (WriteMultiple::from, the AddressRange handed in) is the same for all
   three; what differs is WHERE the read-range validation happens relative to the creation of the
   promise, hence which signals a rejected call produces:
     Channel                      `range.of_read_*()?`                       -> the future yields the error
     CallbackSession::read_*      promise first, then `promise.failure(err)`  -> the callback gets the error
     FfiChannel::read_bits        `range.of_read_bits()?` BEFORE the promise  -> Err(BadRange) returned, the
                                                                                callback is dropped uncalled
     FfiChannel::read_registers   promise first, then `of_read_registers()?`  -> Err(BadRange) returned AND
                                                                                the dropped promise calls the
                                                                                callback with Err(Shutdown)
   A full / closed command queue (try_send, send) is the task layer's subject (C10), not modelled here.
   Definitions only. *)
From Coq Require Import NArith List Bool Arith.
From Rodbus Require Import Base.Outcome Base.Cursor Base.ClientTypes Model.Format Model.Range Model.ClientRequest.
Import ListNotations.
Local Open Scope N_scope.
Local Open Scope outcome_scope.

Inductive path := ViaChannel | ViaCallback | ViaFfi.

(* what a completion (callback / promise) can receive without the task having seen the request *)
Inductive completion := CErr (e : req_err) | CShutdown.

(* a call that does not reach the task: the error the call itself returns (Channel: the value of
   the future; Ffi: FfiChannelError::BadRange; WriteMultiple::from's error) and what the
   completion callback receives (None = it is never invoked) *)
Record rejection := { rj_returned : option req_err; rj_completion : option completion }.

Inductive submitted := Queued (r : request) | Rejected (rj : rejection).

Definition read_via (p : path) (bits : bool) (mk : N * N -> request) (rg : N * N) : submitted :=
  match (if bits then of_read_bits rg else of_read_registers rg) with
  | inr r => Queued (mk r)
  | inl e =>
      let e' := of_range_err e in
      Rejected (match p with
                | ViaChannel => {| rj_returned := Some e'; rj_completion := None |}
                | ViaCallback => {| rj_returned := None; rj_completion := Some (CErr e') |}
                | ViaFfi => if bits then {| rj_returned := Some e'; rj_completion := None |}
                            else {| rj_returned := Some e'; rj_completion := Some CShutdown |}
                end)
  end.

(* write_multiple_*: the WriteMultiple value is built by the caller with WriteMultiple::from before
   any of the three APIs is involved; its error is returned by `from` and no callback exists yet *)
Definition write_multiple_via {A} (mk : N * N -> list A -> request) (start : N) (values : list A) : submitted :=
  match write_multiple_from start values with
  | Ok (r, vs) => Queued (mk r vs)
  | Err e => Rejected {| rj_returned := Some e; rj_completion := None |}
  | Panic => Rejected {| rj_returned := None; rj_completion := None |}      (* unreachable: write_multiple_from never panics *)
  end.

Definition submit_via (p : path) (c : call) : submitted :=
  match c with
  | CReadCoils s n => read_via p true RReadCoils (s, n)
  | CReadDiscreteInputs s n => read_via p true RReadDiscreteInputs (s, n)
  | CReadHoldingRegisters s n => read_via p false RReadHoldingRegisters (s, n)
  | CReadInputRegisters s n => read_via p false RReadInputRegisters (s, n)
  | CWriteSingleCoil i v => Queued (RWriteSingleCoil i v)
  | CWriteSingleRegister i v => Queued (RWriteSingleRegister i v)
  | CWriteMultipleCoils s vs => write_multiple_via RWriteMultipleCoils s vs
  | CWriteMultipleRegisters s vs => write_multiple_via RWriteMultipleRegisters s vs
  end.

(* what the task then formats and hands to the transport *)
Definition path_encode (p : path) (f : framing) (tx uid : N) (c : call) : option (outcome req_err (list N)) :=
  match submit_via p c with Queued r => Some (client_encode f tx uid r) | Rejected _ => None end.
Definition path_wire (p : path) (f : framing) (tx uid : N) (c : call) : list (list N) :=
  match submit_via p c with Queued r => snd (transmit f tx uid r) | Rejected _ => [] end.

(* ------------------------------------------------------------------ results *)
(* RegisterIterator::next driven to exhaustion by the callback (`for x in iter` / collect()):
   `bytes.get(pos..pos + 2)`, value `(high as u16) << 8 | low as u16`, index `self.pos + self.range.start` *)
Fixpoint reg_next_collect (fuel : nat) (bytes : list N) (start count pos : N) : outcome req_err (list (N * N)) :=
  match fuel with
  | O => Ok []
  | S f =>
      if pos =? count then Ok []
      else
        match firstn 2 (skipn (2 * N.to_nat pos) bytes) with
        | [high; low] =>
            let value := N.lor (N.shiftl high 8) low in
            if 65535 <? pos + start then Panic                      (* self.pos + self.range.start *)
            else if 65535 <? pos + 1 then Panic                     (* self.pos += 1 *)
            else rest <- reg_next_collect f bytes start count (pos + 1) ;; Ok ((pos + start, value) :: rest)
        | _ => Ok []
        end
  end.

(* parse_registers_response, the iterator handed to the callback, which iterates it *)
Definition parse_registers_response_iter (rg : N * N) (c : rcur) : outcome req_err response :=
  '(_, c1) <- R (rd_u8 c) ;;
  '(bytes, c2) <- R (rd_bytes (2 * N.to_nat (snd rg)) c1) ;;
  _ <- expect_empty c2 ;;
  l <- reg_next_collect (N.to_nat (snd rg)) bytes (fst rg) (snd rg) 0 ;;
  Ok (RespRegisters l).

(* RequestDetails::handle_response when the promises are callbacks: bit reads hand out the same
   BitIterator the Channel path collects (Iterator::next in both cases); register reads hand out
   the RegisterIterator instead of collect_vec; writes pass the parsed echo *)
Definition details_handle_response_iter (r : request) (c : rcur) : outcome req_err response :=
  match r with
  | RReadHoldingRegisters rg | RReadInputRegisters rg => parse_registers_response_iter rg c
  | _ => details_handle_response r c
  end.

Definition handle_response_iter (r : request) (pdu : list N) : outcome req_err response :=
  match rd_u8 pdu with
  | None => Err EInsufficientBytes
  | Some (function, c) =>
      let expected := function_of r in
      if negb (function =? expected) then Err (get_error_for function expected c)
      else details_handle_response_iter r c
  end.

(* what the caller of each API ends up with for a reply *)
Definition deliver_via (p : path) (r : request) (pdu : list N) : outcome req_err response :=
  match p with ViaChannel => handle_response r pdu | ViaCallback | ViaFfi => handle_response_iter r pdu end.
