(* Eager schedule and rendering for the serial channel model (correspondence only). *)
From Coq Require Import NArith List Bool Arith String.
From Rodbus Require Import Base.Show Model.Retry Spec.Lifecycle Spec.ClientSpec Gen.SessionErrors Model.ClientTask Model.ClientEager Model.SerialTask.
Import ListNotations.
Local Open Scope N_scope.

Section E.
Variable cfg : config.

Fixpoint ssaturate (fuel : nat) (x : sstate) : sstate * list output * bool :=
  match fuel with
  | O => (x, [], negb (timer_due cfg (ss x) || recv_ready (ss x)))
  | S f =>
      if timer_due cfg (ss x) then
        let '(x1, o1) := sstep cfg x (SEnv EvTimer) in let '(x2, o2, ok) := ssaturate f x1 in (x2, (o1 ++ o2)%list, ok)
      else if recv_ready (ss x) then
        let '(x1, o1) := sstep cfg x (SEnv EvRecv) in let '(x2, o2, ok) := ssaturate f x1 in (x2, (o1 ++ o2)%list, ok)
      else (x, [], true)
  end.

Fixpoint srun_eager (x : sstate) (es : list sevent) : sstate * list output * bool :=
  match es with
  | [] => (x, [], true)
  | e :: r =>
      let '(x1, o1) := sstep cfg x e in
      let '(x2, o2, ok2) := ssaturate (fuel_for (ss x1)) x1 in
      let '(x3, o3, ok3) := srun_eager x2 r in
      (x3, (o1 ++ o2 ++ o3)%list, ok2 && ok3)
  end.
End E.

Local Open Scope string_scope.
Definition show_pstate (p : pstate) : string :=
  match p with SDisabled => "sD" | SWait d => "sW" ++ show_N d | SOpen => "sO" | SShutdown => "sS" end.
Definition show_plain_completion (x : output) : list string :=
  match x with OComplete id r => ["c" ++ show_nat id ++ ":" ++ show_result r] | _ => [] end.

Record scase := { sk_rmin : N; sk_rmax : N; sk_script : list sevent }.
Definition eval_scase (k : scase) : string :=
  let cfg := {| cfg_cap := 64; cfg_res := 1000000 |} in
  let '(x, o, ok) := srun_eager cfg (sinit 1 (sk_rmin k) (sk_rmax k)) (sk_script k) in
  show_list show_pstate " " (port_trace (init_outputs ++ o)) ++ "|" ++
  show_list (fun s => s) " " (flat_map show_plain_completion o) ++ "|" ++
  (match ph (ss x) with PDone => "done" | _ => "live" end) ++ (if ok then "" else " FUEL").
