(* common/buffer.rs: ReadBuffer { buffer: [u8; MAX_FRAME_LENGTH], begin, end }.
   Representation (DESIGN.md section 4): (begin, pending bytes) with end = begin + length pending,
   so `end - begin` (len) cannot underflow by construction and the contents of the array outside
   begin..end do not exist in the model. The one place where the code can look outside that range
   (`peek_at(idx)` with idx = len, because its guard is `len < idx`) is made explicit as the
   outcome `Err Stale`; Proofs/BufferProofs.v shows the parsers never reach it.

   usize arithmetic: every `+` of the code is `uadd`, which is Panic above `usize_safe` (4095, far
   below the smallest usize::MAX = 65535 Rust supports); slice-range panics are explicit too. *)
From Coq Require Import NArith List Bool Arith.
From Rodbus Require Import Base.Outcome Gen.Consts.
Import ListNotations.

Record buf := { b_begin : nat; b_pend : list N }.
Definition b_end (b : buf) : nat := b_begin b + length (b_pend b).
Definition cap : nat := buffer_capacity.

Inductive berr := Insufficient | Stale.

(* state monad over the buffer with the three-valued outcome *)
Definition M (A : Type) : Type := buf -> buf * outcome berr A.
Definition ret {A} (a : A) : M A := fun b => (b, Ok a).
Definition fail {A} (e : berr) : M A := fun b => (b, Err e).
Definition panic {A} : M A := fun b => (b, Panic).
Definition bind {A B} (m : M A) (f : A -> M B) : M B :=
  fun b => let '(b1, r) := m b in
           match r with Ok a => f a b1 | Err e => (b1, Err e) | Panic => (b1, Panic) end.

Definition usize_safe : nat := 4095.
Definition uadd (a c : nat) : option nat := if Nat.leb (a + c) usize_safe then Some (a + c) else None.

Definition buf_new : buf := {| b_begin := 0; b_pend := [] |}.
(* clear(): begin = 0; end = 0 *)
Definition buf_clear (b : buf) : buf := buf_new.
(* len(): end - begin *)
Definition buf_len (b : buf) : nat := length (b_pend b).
(* is_empty(): begin == end *)
Definition buf_is_empty (b : buf) : bool := match b_pend b with [] => true | _ => false end.

Definition consume (k : nat) (b : buf) : buf :=
  {| b_begin := b_begin b + k; b_pend := skipn k (b_pend b) |}.

(* read(count): len < count -> Err; buffer.get(begin..begin+count) -> None if begin+count > capacity *)
Definition buf_read (count : nat) : M (list N) := fun b =>
  if Nat.ltb (buf_len b) count then (b, Err Insufficient)
  else match uadd (b_begin b) count with
       | None => (b, Panic)
       | Some hi => if Nat.ltb cap hi then (b, Err Insufficient)
                    else (consume count b, Ok (firstn count (b_pend b)))
       end.

(* read_u8(): is_empty -> Err; buffer.get(begin) -> None if begin >= capacity *)
Definition buf_read_u8 : M N := fun b =>
  match b_pend b with
  | [] => (b, Err Insufficient)
  | x :: _ => if Nat.leb cap (b_begin b) then (b, Err Insufficient)
              else match uadd (b_begin b) 1 with
                   | None => (b, Panic)
                   | Some _ => (consume 1 b, Ok x)
                   end
  end.

(* peek_at(idx): `if len < idx` Err; idx + 1 (evaluated eagerly by ok_or); buffer.get(begin+idx) *)
Definition buf_peek_at (idx : nat) : M N := fun b =>
  if Nat.ltb (buf_len b) idx then (b, Err Insufficient)
  else match uadd idx 1, uadd (b_begin b) idx with
       | Some _, Some pos =>
           if Nat.leb cap pos then (b, Err Insufficient)
           else match nth_error (b_pend b) idx with
                | Some x => (b, Ok x)
                | None => (b, Err Stale)          (* idx = len: a byte outside begin..end *)
                end
       | _, _ => (b, Panic)
       end.

(* read_u16_be / read_u16_le: two read_u8; (b1 << 8) | b2 on u16 *)
Definition buf_read_u16_be : M N :=
  bind buf_read_u8 (fun b1 => bind buf_read_u8 (fun b2 => ret (b1 * 256 + b2)%N)).
Definition buf_read_u16_le : M N :=
  bind buf_read_u8 (fun b1 => bind buf_read_u8 (fun b2 => ret (b2 * 256 + b1)%N)).

(* read_some(io): reset when empty; compact when end == capacity; read into buffer[end..];
   a 0-byte read is UnexpectedEof. `c` is what the byte source has ready for this read: the
   source hands over min(|c|, space offered) bytes. Returns the leftover of the chunk. *)
Inductive rs_result := RsOk (count : nat) (rest : list N) | RsEof | RsPanic.
Definition read_some (b : buf) (c : list N) : buf * rs_result :=
  let b1 := if buf_is_empty b then {| b_begin := 0; b_pend := b_pend b |} else b in
  let b2 := if Nat.eqb (b_end b1) cap then {| b_begin := 0; b_pend := b_pend b1 |} else b1 in
  if Nat.ltb cap (b_end b2) then (b2, RsPanic)            (* &mut self.buffer[self.end..] *)
  else
    let free := cap - b_end b2 in
    let k := Nat.min free (length c) in
    match k with
    | O => (b2, RsEof)
    | _ => match uadd (b_end b2) k with                  (* self.end += count *)
           | None => (b2, RsPanic)
           | Some _ => ({| b_begin := b_begin b2; b_pend := b_pend b2 ++ firstn k c |}, RsOk k (skipn k c))
           end
    end.
