(* Entry points of the correspondence check for the TRANSMIT side (lib/checks/c06.py). Kept apart from
   Model/FramingEval.v because it depends on Gen/WritePath.v: if that table cannot be regenerated the reader
   families must still be evaluable (and the write families are then judged against the Spec alone). *)
From Coq Require Import NArith List String Bool.
From Rodbus Require Import Base.Show Base.Frame.
Import ListNotations.
Local Open Scope string_scope.

(* the transmit side: (reply bytes, events) -> what the model of the server's write_reply has handed to the
   transport and how the call stands | the Spec: the one serialisation of the reply, if the write completed *)
From Rodbus Require Import Gen.WritePath Model.WritePath.
Definition show_rresult (r : rresult) : string := match r with RDone => "done" | RParked => "parked" | RShutdown => "shutdown" end.
Definition show_wresult (r : wresult) : string := match r with WDone => "done" | WParked => "parked" end.
(* client = true: execute_request awaits the request write directly (Gen/WritePath.client_write_awaited_directly):
   commands that arrive meanwhile stay in the queue, the write is PhysLayer::write on the transport *)
Definition eval_write_reply (c : bool * list N * list wevent) : string :=
  let '(client, data, evs) := c in
  (if client
   then let '(out, r) := phys_write LVerif data (flat_map (fun e => match e with Take k => [k] | Cmd _ => [] end) evs) in
        show_bytes out ++ ":" ++ show_wresult r
   else let '(out, r) := server_write_reply data evs in show_bytes out ++ ":" ++ show_rresult r)
  ++ "|" ++ show_bytes data.

(* the client's request write with the request timeout: (frame, events) -> emitted : how the call ends | the frame *)
Definition show_cresult (r : cresult) : string := match r with CDone => "done" | CParked => "parked" | CTimedOut => "Io(TimedOut)" end.
Definition eval_client_write (c : list N * list cevent) : string :=
  let '(data, evs) := c in
  let '(out, r) := client_request_write data evs in
  show_bytes out ++ ":" ++ show_cresult r ++ "|" ++ show_bytes data.
