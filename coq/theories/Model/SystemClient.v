(* The client as a whole, for one connection: bytes arriving in arbitrary read chunks ->
   production reader (ReadBuffer + MBAP parser + next_frame loop, Model/Reader.v) -> the client
   task (Model/ClientTask.v) with a request in flight, whose execute_request loop takes the frames
   one by one: a frame whose transaction id differs is skipped; on the first matching frame
   `Request::handle_response` (Model/ClientRequest.v) is called on its payload and its result is
   what the request's promise receives.  When next_frame fails, the error reaches the task.
   The task model's abstract reply kinds (genuine / exception / bad reply) are DEFINED here from
   the result of handle_response; its abstract "partial frame" field is not used (the reader
   model is the real thing).  All chunks are delivered before the request's timer instant (no
   EvTimer is due: C12_exact_timer / C12_exact_eager).  Definitions only. *)
From Coq Require Import NArith List Bool.
From Rodbus Require Import Base.Outcome Gen.SessionErrors Gen.ClientTables.
From Rodbus Require Base.Frame Base.ClientTypes Model.Reader Model.ClientRequest Model.ClientTask Spec.SystemClientSpec.
Import ListNotations.
Module F := Rodbus.Base.Frame.
Module CT := Rodbus.Base.ClientTypes.
Module CR := Rodbus.Model.ClientRequest.
Module T := Rodbus.Model.ClientTask.
Module SS := Rodbus.Spec.SystemClientSpec.

(* what the request with a given id asks for (the Modbus content of the task model's request) *)
Definition content := nat -> CT.request.

(* the result of Request::handle_response *)
Definition hresult := outcome CR.req_err CT.response.

(* ... seen through the task model's reply kinds; a panic inside the task is the task's death *)
Definition kind_of (hr : hresult) : option T.reply :=
  match hr with
  | Ok _ => Some T.RpGenuine
  | Err (CR.EException _) => Some T.RpException
  | Err _ => Some T.RpBad
  | Panic => None
  end.

(* execute_request on one frame delivered by next_frame: the event the task model takes, and what
   the promise of the outstanding request receives if this frame is the one that matches *)
Definition frame_event (reqs : content) (s : T.state) (f : F.frame) : T.event * list (nat * hresult) :=
  match T.ph s with
  | T.PInFlight rq t _ =>
      let tx := match F.f_tx f with Some x => x | None => t end in     (* RTU frames carry no id and always match *)
      if N.eqb tx t then
        let hr := CR.handle_response (reqs (T.rq_id rq)) (F.f_pdu f) in
        match kind_of hr with
        | Some k => (T.EvFrame tx k, [(T.rq_id rq, hr)])
        | None => (T.EvAbort, [])
        end
      else (T.EvFrame tx T.RpBad, [])                                   (* skipped: the kind is irrelevant *)
  | _ => (T.EvFrame (match F.f_tx f with Some x => x | None => 0%N end) T.RpBad, [])   (* idle: logged and dropped *)
  end.

Section Sys.
Variable cfg : T.config.
Variable reqs : content.

(* the frames of the connection, in order *)
Fixpoint deliver (s : T.state) (fs : list F.frame) : T.state * list T.output * list (nat * hresult) :=
  match fs with
  | [] => (s, [], [])
  | f :: r =>
      let '(e, d1) := frame_event reqs s f in
      let '(s1, o1) := T.step cfg s e in
      let '(s2, o2, d2) := deliver s1 r in
      (s2, o1 ++ o2, d1 ++ d2)
  end.

(* how next_frame's failure reaches the task *)
Definition end_events (e : F.ending) : list T.event :=
  match e with
  | F.EndBad _ => [T.EvGarbage]
  | F.EndIo F.UnexpectedEof => [T.EvEof]
  | F.EndIo F.IoOther => [T.EvIoErr]
  | F.EndPending => []
  | F.EndPanic | F.EndOutOfFuel => [T.EvAbort]
  end.

(* (final task state, task outputs, what the promises received from handle_response) *)
Definition client_system (s : T.state) (chunks : Reader.net) (fi : F.fin) : T.state * list T.output * list (nat * hresult) :=
  let r := Reader.run_session Reader.KTcp false chunks fi in
  let '(s1, o1, d1) := deliver s (Reader.frames_of (fst r)) in
  let '(s2, o2) := T.run cfg s1 (end_events (snd r)) in
  (s2, o1 ++ o2, d1).
End Sys.

(* ---------- what the caller of request `id` observes ---------- *)
Definition verdict_of_hresult (hr : hresult) : SS.verdict :=
  match hr with
  | Ok v => SS.VValue v
  | Err (CR.EException ex) => SS.VException (u8_of_excode ex)
  | Err _ => SS.VBadReply
  | Panic => SS.VCrash
  end.

(* first completion of `id` among the task's outputs *)
Fixpoint first_completion (id : nat) (o : list T.output) : option T.result :=
  match o with
  | [] => None
  | T.OComplete i r :: rest => if Nat.eqb i id then Some r else first_completion id rest
  | _ :: rest => first_completion id rest
  end.

Definition verdict_of_task_result (r : option T.result) : SS.verdict :=
  match r with
  | None => SS.VPending
  | Some (T.RErr ReBadFrame) => SS.VBadFrame
  | Some (T.RErr ReIo) => SS.VIo
  | Some _ => SS.VCrash
  end.

(* the promise's value if handle_response was called for it, else what the task failed it with *)
Definition verdict_for (id : nat) (r : T.state * list T.output * list (nat * hresult)) : SS.verdict :=
  let '(_, o, d) := r in
  match find (fun x => Nat.eqb (fst x) id) d with
  | Some (_, hr) => verdict_of_hresult hr
  | None => verdict_of_task_result (first_completion id o)
  end.

(* the class of result the task model itself reports for a verdict *)
Definition task_class (v : SS.verdict) : option T.result :=
  match v with
  | SS.VValue _ => Some T.ROk
  | SS.VException _ => Some (T.RErr ReException)
  | SS.VBadReply => Some (T.RErr ReBadResponse)
  | SS.VBadFrame => Some (T.RErr ReBadFrame)
  | SS.VIo => Some (T.RErr ReIo)
  | SS.VPending => None
  | SS.VCrash => Some (T.RErr drop_error)
  end.
