#!/bin/sh
# Development-time only: mints the STATIC bad/alternative certificate set committed in this directory.
# Never run by bin/check. Needs OpenSSL >= 3.4 (for -not_before/-not_after).
# role OID 1.3.6.1.4.1.50316.802.1 (Modbus role) as a UTF8String extension.
set -e
O=${OPENSSL:-/root/miniconda/bin/openssl}
cd "$(dirname "$0")"
SUBJ="/C=US/ST=Oregon/L=Bend/O=VerifTest/CN=DO NOT USE"
OK_FROM=20240101000000Z;  OK_TO=20450101000000Z
EXP_FROM=20200101000000Z; EXP_TO=20210101000000Z
NY_FROM=20990101000000Z;  NY_TO=21090101000000Z
ROLE=1.3.6.1.4.1.50316.802.1
mkdir -p ca2 ss
# --- second authority
$O req -x509 -newkey rsa:2048 -nodes -keyout ca2/ca_key.pem -out ca2/ca_cert.pem -subj "/C=US/ST=Oregon/L=Bend/O=VerifTest/CN=VERIF CA DO NOT USE" \
   -not_before $OK_FROM -not_after $OK_TO -addext "basicConstraints=critical,CA:TRUE" 2>/dev/null
ee() {  # name from to extension-lines...
  name=$1; from=$2; to=$3; shift 3
  $O req -new -newkey rsa:2048 -nodes -keyout ca2/${name}_key.pem -out ca2/${name}.csr -subj "$SUBJ" 2>/dev/null
  { echo "[v3]"; for l in "$@"; do echo "$l"; done; } > ca2/${name}.ext
  $O x509 -req -in ca2/${name}.csr -CA ca2/ca_cert.pem -CAkey ca2/ca_key.pem -CAcreateserial -not_before $from -not_after $to \
     -extfile ca2/${name}.ext -extensions v3 -out ca2/${name}_cert.pem 2>/dev/null
  rm -f ca2/${name}.csr ca2/${name}.ext
}
ee server           $OK_FROM  $OK_TO  "subjectAltName=DNS:test.com"
ee server_wrongname $OK_FROM  $OK_TO  "subjectAltName=DNS:wrong.example"
ee server_expired   $EXP_FROM $EXP_TO "subjectAltName=DNS:test.com"
ee server_notyet    $NY_FROM  $NY_TO  "subjectAltName=DNS:test.com"
ee client           $OK_FROM  $OK_TO  "$ROLE=ASN1:UTF8String:operator"
ee client_expired   $EXP_FROM $EXP_TO "$ROLE=ASN1:UTF8String:operator"
ee client_notyet    $NY_FROM  $NY_TO  "$ROLE=ASN1:UTF8String:operator"
ee client_otherrole $OK_FROM  $OK_TO  "$ROLE=ASN1:UTF8String:viewer"
ee client_roleless  $OK_FROM  $OK_TO  "subjectAltName=DNS:client.example"
# --- self-signed entities
ss() {  # name from to addext...
  name=$1; from=$2; to=$3; shift 3
  args=""; for l in "$@"; do args="$args -addext $l"; done
  $O req -x509 -newkey rsa:2048 -nodes -keyout ss/${name}_key.pem -out ss/${name}_cert.pem -subj "$SUBJ" -not_before $from -not_after $to $args 2>/dev/null
}
ss client           $OK_FROM  $OK_TO  "$ROLE=ASN1:UTF8String:operator"
ss client_expired   $EXP_FROM $EXP_TO "$ROLE=ASN1:UTF8String:operator"
ss client_notyet    $NY_FROM  $NY_TO  "$ROLE=ASN1:UTF8String:operator"
ss client_otherrole $OK_FROM  $OK_TO  "$ROLE=ASN1:UTF8String:viewer"
ss client_roleless  $OK_FROM  $OK_TO  "subjectAltName=DNS:client.example"
ss server           $OK_FROM  $OK_TO  "subjectAltName=DNS:test.com"
ss server_expired   $EXP_FROM $EXP_TO "subjectAltName=DNS:test.com"
ss server_notyet    $NY_FROM  $NY_TO  "subjectAltName=DNS:test.com"
rm -f ca2/*.srl
python3 mint_tworoles.py   # two role extensions (DER-level edit, see the script)
./mint_more.sh   # CN-only / SAN-vs-CN / intermediate CA material
