#!/bin/sh
# Development-time only (never run by bin/check): additional static certificates under ca2/
#   server_cnonly            CN=test.com, no subjectAltName        (SAN-or-CN relaxation: accepted for test.com)
#   server_sanother_cntest   CN=test.com, SAN DNS:other.example    (a SAN is present, so the CN does not count)
#   int                      intermediate CA signed by ca2
#   server_viaint / client_viaint   end entities signed by the intermediate (+ *_fullchain.pem = leaf + intermediate)
set -e
O=${OPENSSL:-/root/miniconda/bin/openssl}
cd "$(dirname "$0")"
OK_FROM=20240101000000Z;  OK_TO=20450101000000Z
ROLE=1.3.6.1.4.1.50316.802.1
mk() {  # name subject CAcert CAkey extension-lines...
  name=$1; subj=$2; ca=$3; cakey=$4; shift 4
  $O req -new -newkey rsa:2048 -nodes -keyout ca2/${name}_key.pem -out ca2/${name}.csr -subj "$subj" 2>/dev/null
  { echo "[v3]"; for l in "$@"; do echo "$l"; done; } > ca2/${name}.ext
  $O x509 -req -in ca2/${name}.csr -CA $ca -CAkey $cakey -CAcreateserial -not_before $OK_FROM -not_after $OK_TO \
     -extfile ca2/${name}.ext -extensions v3 -out ca2/${name}_cert.pem 2>/dev/null
  rm -f ca2/${name}.csr ca2/${name}.ext
}
B="/C=US/ST=Oregon/L=Bend/O=VerifTest"
mk server_cnonly          "$B/CN=test.com" ca2/ca_cert.pem ca2/ca_key.pem "basicConstraints=CA:FALSE"
mk server_sanother_cntest "$B/CN=test.com" ca2/ca_cert.pem ca2/ca_key.pem "subjectAltName=DNS:other.example"
mk int                    "$B/CN=VERIF INTERMEDIATE DO NOT USE" ca2/ca_cert.pem ca2/ca_key.pem "basicConstraints=critical,CA:TRUE" "keyUsage=critical,keyCertSign,cRLSign"
mk server_viaint          "$B/CN=DO NOT USE" ca2/int_cert.pem ca2/int_key.pem "subjectAltName=DNS:test.com"
mk client_viaint          "$B/CN=DO NOT USE" ca2/int_cert.pem ca2/int_key.pem "$ROLE=ASN1:UTF8String:operator"
cat ca2/server_viaint_cert.pem ca2/int_cert.pem > ca2/server_viaint_fullchain.pem
cat ca2/client_viaint_cert.pem ca2/int_cert.pem > ca2/client_viaint_fullchain.pem
rm -f ca2/*.srl
# a role with upper case and punctuation: the role string must reach the authorization handler unchanged
mk client_mixedrole       "$B/CN=DO NOT USE" ca2/ca_cert.pem ca2/ca_key.pem "$ROLE=ASN1:UTF8String:Plant-Operator.v2"
rm -f ca2/*.srl
