#!/usr/bin/env python3
"""Development-time only (never run by bin/check): builds ca2/client_tworoles_cert.pem, a client
certificate with TWO Modbus role extensions ("operator" then "engineer"). The openssl CLI refuses to
emit duplicate extension OIDs, so the TBSCertificate of ca2/client_cert.pem is edited at DER level
(the role extension is duplicated with another value) and re-signed with the ca2 key."""
import base64, subprocess, sys, os
O = os.environ.get('OPENSSL', '/root/miniconda/bin/openssl')
here = os.path.dirname(os.path.abspath(__file__))

def tlv(buf, off):
    tag = buf[off]; l = buf[off + 1]; hdr = 2
    if l & 0x80:
        n = l & 0x7F; l = int.from_bytes(buf[off + 2:off + 2 + n], 'big'); hdr = 2 + n
    return tag, off + hdr, l, off + hdr + l          # tag, value start, value length, end

def enc(tag, val):
    n = len(val)
    if n < 0x80:
        return bytes([tag, n]) + val
    b = n.to_bytes((n.bit_length() + 7) // 8, 'big')
    return bytes([tag, 0x80 | len(b)]) + b + val

def children(buf, start, end):
    out = []; off = start
    while off < end:
        tag, vs, vl, e = tlv(buf, off); out.append((tag, off, vs, e)); off = e
    return out

def two_roles(src_cert, sign_key, out_cert, src_key, out_key):
    pem = open(src_cert).read()
    der = base64.b64decode(''.join(l for l in pem.splitlines() if not l.startswith('-----')))
    _, cs, cl, ce = tlv(der, 0)
    top = children(der, cs, ce)
    tbs_tag, tbs_off, tbs_vs, tbs_end = top[0]
    tbs_children = children(der, tbs_vs, tbs_end)
    ext_wrap = tbs_children[-1]; assert ext_wrap[0] == 0xA3
    seq = children(der, ext_wrap[2], ext_wrap[3])[0]; assert seq[0] == 0x30
    exts = children(der, seq[2], seq[3])
    role = [e for e in exts if b'operator' in der[e[1]:e[3]]]; assert len(role) == 1
    role_bytes = der[role[0][1]:role[0][3]]
    second = role_bytes.replace(b'operator', b'engineer')
    new_seq = enc(0x30, der[seq[2]:seq[3]] + second)
    new_tbs = enc(0x30, der[tbs_vs:ext_wrap[1]] + enc(0xA3, new_seq))
    sig = subprocess.run([O, 'dgst', '-sha256', '-sign', sign_key], input=new_tbs, stdout=subprocess.PIPE, check=True).stdout
    alg = der[top[1][1]:top[1][3]]
    cert = enc(0x30, new_tbs + alg + enc(0x03, b'\x00' + sig))
    b64 = base64.encodebytes(cert).decode().replace('\n', '')
    with open(out_cert, 'w') as f:
        f.write('-----BEGIN CERTIFICATE-----\n' + '\n'.join(b64[i:i + 64] for i in range(0, len(b64), 64)) + '\n-----END CERTIFICATE-----\n')
    import shutil; shutil.copy(src_key, out_key)


# signed by the ca2 authority
two_roles(f'{here}/ca2/client_cert.pem', f'{here}/ca2/ca_key.pem', f'{here}/ca2/client_tworoles_cert.pem', f'{here}/ca2/client_key.pem', f'{here}/ca2/client_tworoles_key.pem')
# self-signed (signed with its own key)
two_roles(f'{here}/ss/client_cert.pem', f'{here}/ss/client_key.pem', f'{here}/ss/client_tworoles_cert.pem', f'{here}/ss/client_key.pem', f'{here}/ss/client_tworoles_key.pem')
print('ok')
