#![allow(dead_code)]

use std::io::BufRead;

/// iterate over the non-empty lines of stdin
pub fn stdin_lines() -> impl Iterator<Item = String> {
    let stdin = std::io::stdin();
    let lines: Vec<String> = stdin
        .lock()
        .lines()
        .map(|l| l.expect("stdin"))
        .filter(|l| !l.trim().is_empty())
        .collect();
    lines.into_iter()
}

/// silence the default panic message (panics are caught and reported as a result)
pub fn quiet_panics() {
    std::panic::set_hook(Box::new(|_| {}));
}

pub fn hex(bytes: &[u8]) -> String {
    let mut s = String::with_capacity(bytes.len() * 2);
    for b in bytes {
        s.push_str(&format!("{b:02X}"));
    }
    s
}

pub fn unhex(s: &str) -> Vec<u8> {
    let s = s.trim();
    if s == "-" {
        return Vec::new();
    }
    assert!(s.len() % 2 == 0, "odd hex string {s:?}");
    (0..s.len() / 2)
        .map(|i| u8::from_str_radix(&s[2 * i..2 * i + 2], 16).expect("hex"))
        .collect()
}
