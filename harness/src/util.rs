#![allow(dead_code)]

use std::io::BufRead;

/// iterate over the non-empty lines of stdin
pub fn stdin_lines() -> impl Iterator<Item = String> {
    let stdin = std::io::stdin();
    let lines: Vec<String> = stdin
        .lock()
        .lines()
        .map(|l| l.expect("stdin"))
        .filter(|l| !l.trim().is_empty())
        .collect();
    lines.into_iter()
}

/// silence the default panic message (panics are caught and reported as a result)
pub fn quiet_panics() {
    std::panic::set_hook(Box::new(|_| {}));
}

pub fn hex(bytes: &[u8]) -> String {
    let mut s = String::with_capacity(bytes.len() * 2);
    for b in bytes {
        s.push_str(&format!("{b:02X}"));
    }
    s
}

pub fn unhex(s: &str) -> Vec<u8> {
    let s = s.trim();
    if s == "-" {
        return Vec::new();
    }
    assert!(s.len() % 2 == 0, "odd hex string {s:?}");
    (0..s.len() / 2)
        .map(|i| u8::from_str_radix(&s[2 * i..2 * i + 2], 16).expect("hex"))
        .collect()
}

/// `--decode min|max` (default min): min = DecodeLevel::nothing(); max = every level at its most
/// verbose, with a tracing subscriber installed (once per process) that formats every event into
/// a sink, so that the Display / Loggable code paths really execute.
pub fn decode_arg(args: &[String]) -> rodbus::DecodeLevel {
    let mut level = "min".to_string();
    let mut i = 0;
    while i < args.len() {
        if args[i] == "--decode" {
            level = args.get(i + 1).cloned().unwrap_or_default();
            i += 1;
        } else if let Some(v) = args[i].strip_prefix("--decode=") {
            level = v.to_string();
        }
        i += 1;
    }
    match level.as_str() {
        "min" => rodbus::DecodeLevel::nothing(),
        "max" => {
            let _ = tracing_subscriber::fmt()
                .with_writer(std::io::sink)
                .with_max_level(tracing::Level::TRACE)
                .try_init();
            rodbus::DecodeLevel::new(
                rodbus::AppDecodeLevel::DataValues,
                rodbus::FrameDecodeLevel::Payload,
                rodbus::PhysDecodeLevel::Data,
            )
        }
        other => panic!("--decode {other:?}: expected min or max"),
    }
}

/// PANIC, or SPIN when the scripted transport detected a reader that keeps reading after EOF
pub fn panic_name(e: &Box<dyn std::any::Any + Send>) -> &'static str {
    match e.downcast_ref::<&str>() {
        Some(s) if *s == "SPIN" => "SPIN",
        _ => "PANIC",
    }
}
