#![allow(dead_code)]
//! Scripted in-memory transport: the test pushes inbound chunks, the code under test reads one
//! scripted chunk per read (truncated to the space offered) and everything it writes is logged.
use std::collections::VecDeque;
use std::pin::Pin;
use std::sync::{Arc, Mutex};
use std::task::{Context, Poll, Waker};
use tokio::io::{AsyncRead, AsyncWrite, ReadBuf};

#[derive(Default)]
pub struct Inner {
    pub inbound: VecDeque<Vec<u8>>,
    /// when the inbound queue is empty: Some(Ok) => EOF (0-byte read), Some(Err(kind)) => read error, None => pending
    pub at_end: Option<Result<(), std::io::ErrorKind>>,
    /// every write, in order
    pub out: Vec<Vec<u8>>,
    /// if set, the next write fails with this error
    pub fail_write: Option<std::io::ErrorKind>,
    pub waker: Option<Waker>,
    /// number of completed reads
    pub reads: usize,
    /// sizes of the buffers offered by the reader on each read
    pub offered: Vec<usize>,
    /// number of bytes handed over on each read
    pub delivered: Vec<usize>,
    /// how often EOF has been reported; a reader that keeps reading after EOF is spinning
    pub eof_polls: usize,
    /// how the transport takes writes: each poll_write consumes the step at the front. Empty = take everything.
    pub write_script: VecDeque<WriteStep>,
    /// a write is parked at a `Block` step
    pub write_blocked: bool,
    pub write_waker: Option<Waker>,
}

/// one step of a scripted write side (a transmit path that takes a frame in pieces / is full for a while)
#[derive(Clone, Copy, Debug, PartialEq, Eq)]
pub enum WriteStep {
    /// take at most this many bytes of the write that is offered
    Accept(usize),
    /// take nothing (Pending) until `release_write` is called
    Block,
}

#[derive(Clone, Default)]
pub struct Wire(pub Arc<Mutex<Inner>>);

impl Wire {
    pub fn new() -> Self {
        Self::default()
    }
    fn wake(g: &mut Inner) {
        if let Some(w) = g.waker.take() {
            w.wake();
        }
    }
    pub fn push(&self, b: &[u8]) {
        let mut g = self.0.lock().unwrap();
        g.inbound.push_back(b.to_vec());
        Self::wake(&mut g);
    }
    pub fn set_eof(&self) {
        let mut g = self.0.lock().unwrap();
        g.at_end = Some(Ok(()));
        Self::wake(&mut g);
    }
    pub fn set_read_error(&self, kind: std::io::ErrorKind) {
        let mut g = self.0.lock().unwrap();
        g.at_end = Some(Err(kind));
        Self::wake(&mut g);
    }
    pub fn fail_next_write(&self, kind: std::io::ErrorKind) {
        self.0.lock().unwrap().fail_write = Some(kind);
    }
    pub fn script_writes(&self, steps: &[WriteStep]) {
        self.0.lock().unwrap().write_script.extend(steps.iter().copied());
    }
    pub fn write_is_blocked(&self) -> bool {
        self.0.lock().unwrap().write_blocked
    }
    /// the transmit path has room again: the `Block` step at the front is over
    pub fn release_write(&self) {
        let mut g = self.0.lock().unwrap();
        if g.write_script.front() == Some(&WriteStep::Block) {
            g.write_script.pop_front();
        }
        g.write_blocked = false;
        if let Some(w) = g.write_waker.take() {
            w.wake();
        }
    }
    pub fn take_out(&self) -> Vec<Vec<u8>> {
        std::mem::take(&mut self.0.lock().unwrap().out)
    }
    pub fn out_flat(&self) -> Vec<u8> {
        self.0.lock().unwrap().out.concat()
    }
    pub fn pending_inbound(&self) -> usize {
        self.0.lock().unwrap().inbound.iter().map(|c| c.len()).sum()
    }
}

impl AsyncRead for Wire {
    fn poll_read(self: Pin<&mut Self>, cx: &mut Context<'_>, buf: &mut ReadBuf<'_>) -> Poll<std::io::Result<()>> {
        let mut g = self.0.lock().unwrap();
        if let Some(mut c) = g.inbound.pop_front() {
            g.offered.push(buf.remaining());
            let n = c.len().min(buf.remaining());
            g.delivered.push(n);
            buf.put_slice(&c[..n]);
            if n < c.len() {
                let rest = c.split_off(n);
                g.inbound.push_front(rest);
            }
            g.reads += 1;
            Poll::Ready(Ok(()))
        } else {
            match g.at_end {
                Some(Ok(())) => {
                    g.eof_polls += 1;
                    if g.eof_polls > 100_000 {
                        drop(g);
                        std::panic::panic_any("SPIN");
                    }
                    Poll::Ready(Ok(()))
                }
                Some(Err(kind)) => Poll::Ready(Err(kind.into())),
                None => {
                    g.waker = Some(cx.waker().clone());
                    Poll::Pending
                }
            }
        }
    }
}

impl AsyncWrite for Wire {
    fn poll_write(self: Pin<&mut Self>, cx: &mut Context<'_>, b: &[u8]) -> Poll<std::io::Result<usize>> {
        let mut g = self.0.lock().unwrap();
        if let Some(kind) = g.fail_write.take() {
            return Poll::Ready(Err(kind.into()));
        }
        match g.write_script.front().copied() {
            None => {
                g.out.push(b.to_vec());
                Poll::Ready(Ok(b.len()))
            }
            Some(WriteStep::Accept(k)) => {
                g.write_script.pop_front();
                let n = k.min(b.len());
                g.out.push(b[..n].to_vec());
                Poll::Ready(Ok(n))
            }
            Some(WriteStep::Block) => {
                g.write_blocked = true;
                g.write_waker = Some(cx.waker().clone());
                Poll::Pending
            }
        }
    }
    fn poll_flush(self: Pin<&mut Self>, _cx: &mut Context<'_>) -> Poll<std::io::Result<()>> {
        Poll::Ready(Ok(()))
    }
    fn poll_shutdown(self: Pin<&mut Self>, _cx: &mut Context<'_>) -> Poll<std::io::Result<()>> {
        Poll::Ready(Ok(()))
    }
}

/// let every spawned task run until it is parked (current-thread runtime)
pub async fn settle() {
    for _ in 0..50 {
        tokio::task::yield_now().await;
    }
}
