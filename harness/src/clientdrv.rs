#![allow(dead_code)]
//! Shared driver for the client-side subcommands `cenc` and `cresp`: option parsing, case parsing,
//! request construction through the public API, persistent `ClientSession`s over a scripted `Wire`,
//! flat error names and result formatting.
use std::panic::{catch_unwind, AssertUnwindSafe};
use std::time::Duration;

#[allow(deprecated)]
use rodbus::client::CallbackSession;
use rodbus::client::{Channel, FfiChannel, FfiChannelError, RequestParam, WriteMultiple};
use rodbus::verif::{ClientSession, Framing};
use rodbus::{
    AddressRange, AduParseError, AppDecodeLevel, BitIterator, DecodeLevel, FrameDecodeLevel, Indexed,
    InternalError, InvalidRange, InvalidRequest, PhysDecodeLevel, RegisterIterator, RequestError, UnitId,
};
use tokio::sync::oneshot;
use tokio::task::JoinHandle;

use crate::wire::Wire;

// ---------------------------------------------------------------------------------------------
// options
// ---------------------------------------------------------------------------------------------

pub struct Opts {
    pub decode: DecodeLevel,
}

/// `--decode min|max` (also `--decode=min|max`), default min. With `max` a tracing subscriber that
/// formats every event into a sink is installed (once per process) so that the Display / Loggable
/// code paths of the library really execute.
pub fn parse_opts(args: &[String]) -> Opts {
    let mut mode = "min".to_string();
    let mut i = 0;
    while i < args.len() {
        let a = args[i].as_str();
        if a == "--decode" {
            i += 1;
            match args.get(i) {
                Some(v) => mode = v.clone(),
                None => eprintln!("--decode needs a value (min|max)"),
            }
        } else if let Some(v) = a.strip_prefix("--decode=") {
            mode = v.to_string();
        } else {
            eprintln!("ignoring unknown argument {a:?}");
        }
        i += 1;
    }
    let decode = match mode.as_str() {
        "min" => DecodeLevel::nothing(),
        "max" => {
            let _ = tracing_subscriber::fmt()
                .with_writer(std::io::sink)
                .with_max_level(tracing::Level::TRACE)
                .try_init();
            DecodeLevel::new(AppDecodeLevel::DataValues, FrameDecodeLevel::Payload, PhysDecodeLevel::Data)
        }
        other => {
            eprintln!("unknown decode mode {other:?}, using min");
            DecodeLevel::nothing()
        }
    };
    Opts { decode }
}

/// the single runtime of the process: current thread, paused clock that auto-advances when idle
pub fn runtime() -> tokio::runtime::Runtime {
    tokio::runtime::Builder::new_current_thread()
        .enable_time()
        .start_paused(true)
        .build()
        .expect("runtime")
}

// ---------------------------------------------------------------------------------------------
// case parsing
// ---------------------------------------------------------------------------------------------

#[derive(Clone, Debug)]
pub enum Values {
    None,
    Seed(u64),
    List(Vec<u16>),
}

/// how the request is handed to the client task
#[derive(Clone, Copy, Debug, PartialEq, Eq)]
pub enum Style {
    /// the async methods of `Channel` (no suffix)
    Channel,
    /// the deprecated `CallbackSession` (suffix `c`)
    Callback,
    /// `FfiChannel`, synchronous try_send (suffix `x`)
    Ffi,
}

/// what the inbound stream does once the raw chunks have been consumed
#[derive(Clone, Copy, Debug, PartialEq, Eq)]
pub enum RawEnd {
    /// stays pending (the request ends with ResponseTimeout)
    Pending,
    /// `/Z`: end of stream
    Eof,
    /// `/E`: read error ConnectionReset
    Error,
}

/// `raw:<hex>(+<hex>)*[/Z|/E]`: the inbound bytes verbatim, chunk by chunk, instead of a reply ADU
#[derive(Clone, Debug)]
pub struct RawScript {
    pub chunks: Vec<Vec<u8>>,
    pub end: RawEnd,
}

#[derive(Clone, Debug)]
pub struct Case {
    pub framing: Framing,
    pub rtu: bool,
    pub style: Style,
    /// Modbus function number 1,2,3,4,5,6,15,16
    pub kind: u8,
    /// kinds 1..4: build the range as a struct literal, bypassing `AddressRange::try_from`
    pub raw_range: bool,
    pub unit: u8,
    pub start: u16,
    pub c: u64,
    pub values: Values,
    /// reply PDU (cresp only)
    pub pdu: Vec<u8>,
    /// raw inbound script given instead of a reply PDU (cresp only)
    pub raw: Option<RawScript>,
}

pub fn parse_case(line: &str, with_pdu: bool) -> Result<Case, String> {
    let p: Vec<&str> = line.split_whitespace().collect();
    let want = if with_pdu { 7 } else { 6 };
    if p.len() != want {
        return Err(format!("expected {want} fields, got {}", p.len()));
    }
    let mut fchars = p[0].chars();
    let (framing, rtu) = match fchars.next() {
        Some('T') => (Framing::Tcp, false),
        Some('R') => (Framing::RtuResponse, true),
        _ => return Err(format!("bad framing {:?}", p[0])),
    };
    let style = match fchars.as_str() {
        "" => Style::Channel,
        "c" => Style::Callback,
        "x" => Style::Ffi,
        _ => return Err(format!("bad framing / submit style {:?}", p[0])),
    };
    let (kstr, raw_range) = match p[1].strip_suffix('r') {
        Some(k) => (k, true),
        None => (p[1], false),
    };
    let kind: u8 = kstr.parse().map_err(|_| format!("bad kind {:?}", p[1]))?;
    if !matches!(kind, 1..=6 | 15 | 16) {
        return Err(format!("unsupported kind {kind}"));
    }
    if raw_range && kind > 4 {
        return Err(format!("suffix r only valid for kinds 1..4, got {:?}", p[1]));
    }
    let unit: u8 = p[2].parse().map_err(|_| format!("bad unit {:?}", p[2]))?;
    let start: u16 = p[3].parse().map_err(|_| format!("bad start {:?}", p[3]))?;
    let c: u64 = p[4].parse().map_err(|_| format!("bad C {:?}", p[4]))?;
    match kind {
        1..=4 | 6 => {
            if c > 65535 {
                return Err(format!("C out of range for kind {kind}: {c}"));
            }
        }
        5 => {
            if c > 1 {
                return Err(format!("C must be 0/1 for kind 5: {c}"));
            }
        }
        _ => {}
    }
    let values = if p[5] == "-" {
        if kind >= 15 {
            return Err("kinds 15/16 need a value form".to_string());
        }
        Values::None
    } else if let Some(s) = p[5].strip_prefix('s') {
        Values::Seed(s.parse().map_err(|_| format!("bad seed {:?}", p[5]))?)
    } else if let Some(l) = p[5].strip_prefix('l') {
        let mut v = Vec::new();
        if !l.is_empty() {
            for x in l.split(',') {
                v.push(x.parse::<u16>().map_err(|_| format!("bad list value {x:?}"))?);
            }
        }
        Values::List(v)
    } else {
        return Err(format!("bad V {:?}", p[5]));
    };
    if kind >= 15 {
        if let Values::Seed(_) = values {
            if c > 1_000_000 {
                return Err(format!("N too large: {c}"));
            }
        }
    }
    let mut raw = None;
    let pdu = if !with_pdu {
        Vec::new()
    } else if let Some(script) = p[6].strip_prefix("raw:") {
        raw = Some(parse_raw(script)?);
        Vec::new()
    } else {
        let s = p[6];
        if s != "-" && (s.len() % 2 != 0 || !s.bytes().all(|b| b.is_ascii_hexdigit())) {
            return Err(format!("bad pdu hex {s:?}"));
        }
        crate::util::unhex(s)
    };
    Ok(Case { framing, rtu, style, kind, raw_range, unit, start, c, values, pdu, raw })
}

fn parse_raw(script: &str) -> Result<RawScript, String> {
    let (body, end) = if let Some(b) = script.strip_suffix("/Z") {
        (b, RawEnd::Eof)
    } else if let Some(b) = script.strip_suffix("/E") {
        (b, RawEnd::Error)
    } else {
        (script, RawEnd::Pending)
    };
    let mut chunks = Vec::new();
    if !body.is_empty() {
        for c in body.split('+') {
            if c.is_empty() || c.len() % 2 != 0 || !c.bytes().all(|b| b.is_ascii_hexdigit()) {
                return Err(format!("bad raw chunk {c:?}"));
            }
            chunks.push(crate::util::unhex(c));
        }
    }
    Ok(RawScript { chunks, end })
}

fn seed_u16(seed: u64, n: u64) -> Vec<u16> {
    match seed {
        0 => vec![0; n as usize],
        1 => vec![65535; n as usize],
        _ => {
            let base = seed * 7919 + 13849;
            (0..n).map(|i| ((base + i * 25173 + (i / 8) * 4099) % 65536) as u16).collect()
        }
    }
}

fn register_values(case: &Case) -> Vec<u16> {
    match &case.values {
        Values::Seed(s) => seed_u16(*s, case.c),
        Values::List(v) => v.clone(),
        Values::None => Vec::new(),
    }
}

fn coil_values(case: &Case) -> Vec<bool> {
    match &case.values {
        Values::Seed(0) => vec![false; case.c as usize],
        Values::Seed(1) => vec![true; case.c as usize],
        Values::Seed(s) => seed_u16(*s, case.c).into_iter().map(|v| (v / 16) % 2 == 1).collect(),
        Values::List(v) => v.iter().map(|x| *x != 0).collect(),
        Values::None => Vec::new(),
    }
}

// ---------------------------------------------------------------------------------------------
// request construction / submission
// ---------------------------------------------------------------------------------------------

pub enum Prepared {
    ReadCoils(AddressRange),
    ReadDiscreteInputs(AddressRange),
    ReadHoldingRegisters(AddressRange),
    ReadInputRegisters(AddressRange),
    WriteSingleCoil(Indexed<bool>),
    WriteSingleRegister(Indexed<u16>),
    WriteMultipleCoils(WriteMultiple<bool>),
    WriteMultipleRegisters(WriteMultiple<u16>),
}

pub enum Outcome {
    Bits(Vec<Indexed<bool>>),
    Regs(Vec<Indexed<u16>>),
    Coil(Indexed<bool>),
    Reg(Indexed<u16>),
    Range(AddressRange),
}

pub enum Build {
    Ready(Prepared),
    /// construction through the public API failed with this (flat) error name
    Rejected(String),
    Panic,
}

fn range_of(case: &Case) -> Result<AddressRange, String> {
    let count = case.c as u16;
    if case.raw_range {
        Ok(AddressRange { start: case.start, count })
    } else {
        AddressRange::try_from(case.start, count).map_err(|e| range_err(e).to_string())
    }
}

fn build_inner(case: &Case) -> Result<Prepared, String> {
    Ok(match case.kind {
        1 => Prepared::ReadCoils(range_of(case)?),
        2 => Prepared::ReadDiscreteInputs(range_of(case)?),
        3 => Prepared::ReadHoldingRegisters(range_of(case)?),
        4 => Prepared::ReadInputRegisters(range_of(case)?),
        5 => Prepared::WriteSingleCoil(Indexed::new(case.start, case.c == 1)),
        6 => Prepared::WriteSingleRegister(Indexed::new(case.start, case.c as u16)),
        15 => Prepared::WriteMultipleCoils(
            WriteMultiple::from(case.start, coil_values(case)).map_err(|e| invalid_request(e).to_string())?,
        ),
        16 => Prepared::WriteMultipleRegisters(
            WriteMultiple::from(case.start, register_values(case)).map_err(|e| invalid_request(e).to_string())?,
        ),
        k => panic!("kind {k}"),
    })
}

pub fn build(case: &Case) -> Build {
    match catch_unwind(AssertUnwindSafe(|| build_inner(case))) {
        Ok(Ok(p)) => Build::Ready(p),
        Ok(Err(name)) => Build::Rejected(name),
        Err(_) => Build::Panic,
    }
}

pub fn param(case: &Case) -> RequestParam {
    RequestParam::new(UnitId::new(case.unit), Duration::from_secs(1))
}

/// what a submitted request ended with
pub enum Done {
    /// the request future resolved with / the callback was invoked with this
    Result(Result<Outcome, RequestError>),
    /// style x only: the synchronous call failed with this (flat) error; the second field is what the
    /// callback received, `None` if it was not invoked (dropped uncalled, or not called within 50 yields)
    SyncErr(&'static str, Option<Result<Outcome, RequestError>>),
    /// styles c / x: the request was accepted but the callback was dropped without being invoked
    Lost,
    /// styles c / x: the callback was neither invoked nor dropped within 3 s of virtual time
    Hung,
}

type CbResult = Result<Outcome, RequestError>;

fn bits_cb(tx: oneshot::Sender<CbResult>) -> impl FnOnce(Result<BitIterator, RequestError>) + Send + Sync + 'static {
    move |r| {
        // through Iterator::next
        let _ = tx.send(r.map(|it| Outcome::Bits(it.collect::<Vec<_>>())));
    }
}

fn regs_cb(tx: oneshot::Sender<CbResult>) -> impl FnOnce(Result<RegisterIterator, RequestError>) + Send + Sync + 'static {
    move |r| {
        let _ = tx.send(r.map(|it| Outcome::Regs(it.collect::<Vec<_>>())));
    }
}

fn val_cb<T: Send + 'static>(
    tx: oneshot::Sender<CbResult>,
    wrap: fn(T) -> Outcome,
) -> impl FnOnce(Result<T, RequestError>) + Send + Sync + 'static {
    move |r| {
        let _ = tx.send(r.map(wrap));
    }
}

pub fn ffi_err(e: FfiChannelError) -> &'static str {
    match e {
        FfiChannelError::ChannelFull => "ChannelFull",
        FfiChannelError::ChannelClosed => "ChannelClosed",
        FfiChannelError::BadRange(x) => range_err(x),
    }
}

/// the request was accepted: wait for the callback (the paused clock auto-advances to the response
/// timeout of the request, 1 s, if no reply is delivered)
async fn await_callback(rx: oneshot::Receiver<CbResult>) -> Done {
    match tokio::time::timeout(Duration::from_secs(3), rx).await {
        Ok(Ok(r)) => Done::Result(r),
        Ok(Err(_)) => Done::Lost,
        Err(_) => Done::Hung,
    }
}

async fn submit_channel(channel: Channel, param: RequestParam, p: Prepared) -> Result<Outcome, RequestError> {
    match p {
        Prepared::ReadCoils(r) => channel.read_coils(param, r).await.map(Outcome::Bits),
        Prepared::ReadDiscreteInputs(r) => channel.read_discrete_inputs(param, r).await.map(Outcome::Bits),
        Prepared::ReadHoldingRegisters(r) => channel.read_holding_registers(param, r).await.map(Outcome::Regs),
        Prepared::ReadInputRegisters(r) => channel.read_input_registers(param, r).await.map(Outcome::Regs),
        Prepared::WriteSingleCoil(x) => channel.write_single_coil(param, x).await.map(Outcome::Coil),
        Prepared::WriteSingleRegister(x) => channel.write_single_register(param, x).await.map(Outcome::Reg),
        Prepared::WriteMultipleCoils(x) => channel.write_multiple_coils(param, x).await.map(Outcome::Range),
        Prepared::WriteMultipleRegisters(x) => channel.write_multiple_registers(param, x).await.map(Outcome::Range),
    }
}

#[allow(deprecated)]
async fn submit_callback(channel: Channel, param: RequestParam, p: Prepared) -> Done {
    let (tx, rx) = oneshot::channel::<CbResult>();
    let mut cs = CallbackSession::new(channel, param);
    match p {
        Prepared::ReadCoils(r) => cs.read_coils(r, bits_cb(tx)).await,
        Prepared::ReadDiscreteInputs(r) => cs.read_discrete_inputs(r, bits_cb(tx)).await,
        Prepared::ReadHoldingRegisters(r) => cs.read_holding_registers(r, regs_cb(tx)).await,
        Prepared::ReadInputRegisters(r) => cs.read_input_registers(r, regs_cb(tx)).await,
        Prepared::WriteSingleCoil(x) => cs.write_single_coil(x, val_cb(tx, Outcome::Coil)).await,
        Prepared::WriteSingleRegister(x) => cs.write_single_register(x, val_cb(tx, Outcome::Reg)).await,
        Prepared::WriteMultipleCoils(x) => cs.write_multiple_coils(x, val_cb(tx, Outcome::Range)).await,
        Prepared::WriteMultipleRegisters(x) => cs.write_multiple_registers(x, val_cb(tx, Outcome::Range)).await,
    }
    await_callback(rx).await
}

async fn submit_ffi(channel: Channel, param: RequestParam, p: Prepared) -> Done {
    let (tx, mut rx) = oneshot::channel::<CbResult>();
    let mut f = FfiChannel::new(channel);
    let accepted = match p {
        Prepared::ReadCoils(r) => f.read_coils(param, r, bits_cb(tx)),
        Prepared::ReadDiscreteInputs(r) => f.read_discrete_inputs(param, r, bits_cb(tx)),
        Prepared::ReadHoldingRegisters(r) => f.read_holding_registers(param, r, regs_cb(tx)),
        Prepared::ReadInputRegisters(r) => f.read_input_registers(param, r, regs_cb(tx)),
        Prepared::WriteSingleCoil(x) => f.write_single_coil(param, x, val_cb(tx, Outcome::Coil)),
        Prepared::WriteSingleRegister(x) => f.write_single_register(param, x, val_cb(tx, Outcome::Reg)),
        Prepared::WriteMultipleCoils(x) => f.write_multiple_coils(param, x, val_cb(tx, Outcome::Range)),
        Prepared::WriteMultipleRegisters(x) => f.write_multiple_registers(param, x, val_cb(tx, Outcome::Range)),
    };
    match accepted {
        Ok(()) => await_callback(rx).await,
        Err(e) => {
            // was the callback told about it?
            let mut got = None;
            for _ in 0..50 {
                match rx.try_recv() {
                    Ok(r) => {
                        got = Some(r);
                        break;
                    }
                    // the closure was dropped uncalled
                    Err(oneshot::error::TryRecvError::Closed) => break,
                    Err(oneshot::error::TryRecvError::Empty) => tokio::task::yield_now().await,
                }
            }
            Done::SyncErr(ffi_err(e), got)
        }
    }
}

/// run the request as its own task, so that the caller can drive the wire concurrently and a panic on
/// the caller side of the channel is reported through the JoinError (a panic inside a callback that
/// the client task invokes ends the session task instead, see `Driver::after_case`)
pub fn submit(channel: Channel, param: RequestParam, p: Prepared, style: Style) -> JoinHandle<Done> {
    match style {
        Style::Channel => tokio::spawn(async move { Done::Result(submit_channel(channel, param, p).await) }),
        Style::Callback => tokio::spawn(submit_callback(channel, param, p)),
        Style::Ffi => tokio::spawn(submit_ffi(channel, param, p)),
    }
}

/// the successful outcome, or the result token of a request that did not succeed
pub fn done_result(d: Done) -> Result<Outcome, String> {
    match d {
        Done::Result(Ok(o)) => Ok(o),
        Done::Result(Err(e)) => Err(request_err(e)),
        Done::SyncErr(name, cb) => {
            let cb = match cb {
                None => "-".to_string(),
                Some(Ok(_)) => "OK?".to_string(),
                Some(Err(e)) => request_err(e),
            };
            Err(format!("{name}/{cb}"))
        }
        Done::Lost => Err("LOST".to_string()),
        Done::Hung => Err("HUNG".to_string()),
    }
}

// ---------------------------------------------------------------------------------------------
// sessions
// ---------------------------------------------------------------------------------------------

pub struct Sess {
    pub channel: Channel,
    pub wire: Wire,
    task: JoinHandle<String>,
}

impl Sess {
    async fn new(framing: Framing, decode: DecodeLevel) -> Sess {
        let (channel, mut session) = ClientSession::new(framing, 16, decode, None);
        let wire = Wire::new();
        let io = wire.clone();
        let task = tokio::spawn(async move { session.run(Box::new(io)).await });
        let _ = channel.enable().await;
        Sess { channel, wire, task }
    }
}

/// one persistent session per framing, replaced when its task has ended
pub struct Driver {
    decode: DecodeLevel,
    tcp: Option<Sess>,
    rtu: Option<Sess>,
}

impl Driver {
    pub fn new(decode: DecodeLevel) -> Self {
        Driver { decode, tcp: None, rtu: None }
    }

    fn slot(&mut self, rtu: bool) -> &mut Option<Sess> {
        if rtu {
            &mut self.rtu
        } else {
            &mut self.tcp
        }
    }

    /// the live session for this framing (created and enabled on demand)
    pub async fn session(&mut self, case: &Case) -> &Sess {
        let decode = self.decode;
        let slot = self.slot(case.rtu);
        if slot.is_none() {
            *slot = Some(Sess::new(case.framing, decode).await);
        }
        slot.as_ref().unwrap()
    }

    /// After a case: if the session task has ended, join it and forget the session (the next case
    /// gets a fresh one). Returns true if the session task panicked. With `recycle` the session is
    /// discarded even if it is still running.
    pub async fn after_case(&mut self, rtu: bool, recycle: bool) -> bool {
        for _ in 0..4 {
            tokio::task::yield_now().await;
        }
        let slot = self.slot(rtu);
        let finished = match slot {
            Some(s) => s.task.is_finished(),
            None => return false,
        };
        if finished {
            let s = slot.take().unwrap();
            match s.task.await {
                Ok(_) => false,
                Err(e) => e.is_panic(),
            }
        } else if recycle {
            let s = slot.take().unwrap();
            s.task.abort();
            match s.task.await {
                Ok(_) => false,
                Err(e) => e.is_panic(),
            }
        } else {
            false
        }
    }
}

// ---------------------------------------------------------------------------------------------
// names and formatting
// ---------------------------------------------------------------------------------------------

pub fn range_err(e: InvalidRange) -> &'static str {
    match e {
        InvalidRange::CountOfZero => "CountOfZero",
        InvalidRange::AddressOverflow(_, _) => "AddressOverflow",
        InvalidRange::CountTooLargeForType(_, _) => "CountTooLargeForType",
    }
}

pub fn invalid_request(e: InvalidRequest) -> &'static str {
    match e {
        InvalidRequest::BadRange(x) => range_err(x),
        InvalidRequest::CountTooBigForU16(_) => "CountTooBigForU16",
        InvalidRequest::CountTooBigForType(_, _) => "CountTooBigForType",
    }
}

/// Debug representation cut at the first payload delimiter
fn variant_name<T: std::fmt::Debug>(x: &T) -> String {
    let s = format!("{x:?}");
    s.split(|c: char| c == '(' || c == '{' || c == ' ').next().unwrap_or("").to_string()
}

pub fn request_err(e: RequestError) -> String {
    match e {
        RequestError::Io(k) => format!("Io({k:?})"),
        RequestError::Exception(x) => format!("Exception({})", u8::from(x)),
        RequestError::BadRequest(x) => invalid_request(x).to_string(),
        RequestError::BadFrame(x) => format!("BadFrame({})", variant_name(&x)),
        RequestError::BadResponse(x) => match x {
            AduParseError::InsufficientBytes => "InsufficientBytes",
            AduParseError::InsufficientBytesForByteCount(_, _) => "InsufficientBytesForByteCount",
            AduParseError::TrailingBytes(_) => "TrailingBytes",
            AduParseError::ReplyEchoMismatch => "ReplyEchoMismatch",
            AduParseError::UnknownResponseFunction(_, _, _) => "UnknownResponseFunction",
            AduParseError::UnknownCoilState(_) => "UnknownCoilState",
        }
        .to_string(),
        RequestError::Internal(x) => match x {
            InternalError::InsufficientWriteSpace(_, _) => "InsufficientWriteSpace".to_string(),
            InternalError::BadByteCount(_) => "BadByteCount".to_string(),
            other => format!("Internal({})", variant_name(&other)),
        },
        RequestError::ResponseTimeout => "ResponseTimeout".to_string(),
        RequestError::NoConnection => "NoConnection".to_string(),
        RequestError::Shutdown => "Shutdown".to_string(),
    }
}

fn consecutive<T>(v: &[Indexed<T>]) -> bool {
    let first = v[0].index as u32;
    v.iter().enumerate().all(|(i, x)| x.index as u32 == first + i as u32)
}

pub fn format_outcome(o: &Outcome) -> String {
    use std::fmt::Write;
    match o {
        Outcome::Bits(v) => {
            if v.is_empty() {
                return "OK - -".to_string();
            }
            if consecutive(v) {
                let mut s = String::with_capacity(v.len() + 12);
                let _ = write!(s, "OK {} ", v[0].index);
                for x in v {
                    s.push(if x.value { '1' } else { '0' });
                }
                s
            } else {
                let items: Vec<String> = v.iter().map(|x| format!("{}:{}", x.index, x.value as u8)).collect();
                format!("OKX {}", items.join(","))
            }
        }
        Outcome::Regs(v) => {
            if v.is_empty() {
                return "OK - -".to_string();
            }
            if consecutive(v) {
                let mut s = String::with_capacity(4 * v.len() + 12);
                let _ = write!(s, "OK {} ", v[0].index);
                for x in v {
                    let _ = write!(s, "{:04X}", x.value);
                }
                s
            } else {
                let items: Vec<String> = v.iter().map(|x| format!("{}:{}", x.index, x.value)).collect();
                format!("OKX {}", items.join(","))
            }
        }
        Outcome::Coil(x) => format!("OK {} {}", x.index, x.value as u8),
        Outcome::Reg(x) => format!("OK {} {:04X}", x.index, x.value),
        Outcome::Range(r) => format!("OK {} {}", r.start, r.count),
    }
}

/// `+`-joined uppercase hex of the writes, `-` if none
pub fn format_writes(out: &[Vec<u8>]) -> String {
    if out.is_empty() {
        return "-".to_string();
    }
    let parts: Vec<String> = out.iter().map(|w| crate::util::hex(w)).collect();
    parts.join("+")
}

/// CRC-16/MODBUS, bitwise (reflected polynomial 0xA001, init 0xFFFF)
pub fn crc16(data: &[u8]) -> u16 {
    let mut crc: u16 = 0xFFFF;
    for b in data {
        crc ^= *b as u16;
        for _ in 0..8 {
            if crc & 1 != 0 {
                crc = (crc >> 1) ^ 0xA001;
            } else {
                crc >>= 1;
            }
        }
    }
    crc
}

/// the reply ADU for this case, given the request frame that was written
pub fn reply_adu(case: &Case, request_frame: &[u8]) -> Vec<u8> {
    let pdu = &case.pdu;
    if case.rtu {
        let mut v = Vec::with_capacity(pdu.len() + 3);
        v.push(case.unit);
        v.extend_from_slice(pdu);
        let crc = crc16(&v);
        v.push((crc & 0xFF) as u8);
        v.push((crc >> 8) as u8);
        v
    } else {
        let len = (pdu.len() + 1) as u16;
        let mut v = Vec::with_capacity(pdu.len() + 7);
        v.push(request_frame.first().copied().unwrap_or(0));
        v.push(request_frame.get(1).copied().unwrap_or(0));
        v.extend_from_slice(&[0, 0, (len >> 8) as u8, (len & 0xFF) as u8, case.unit]);
        v.extend_from_slice(pdu);
        v
    }
}

// ---------------------------------------------------------------------------------------------
// helpers of the multi-call subcommands `cseq` and `cconn`
// ---------------------------------------------------------------------------------------------

/// A call token `K,U,S,C,V[,style]` (style f = Channel future (default), c = CallbackSession,
/// x = FfiChannel; list values separated by ';'), parsed by re-joining the fields into the line
/// format of `parse_case`. `tail`: the 7th field of cresp (`raw:..`) if the caller has one.
pub fn parse_call(f: char, token: &str, tail: Option<&str>) -> Result<Case, String> {
    let p: Vec<&str> = token.split(',').collect();
    if p.len() != 5 && p.len() != 6 {
        return Err(format!("call {token:?}: expected 5 or 6 comma separated fields"));
    }
    if p.iter().any(|x| x.is_empty()) {
        return Err(format!("call {token:?}: empty field"));
    }
    let style = match p.get(5).copied().unwrap_or("f") {
        "f" => "",
        "c" => "c",
        "x" => "x",
        other => return Err(format!("call {token:?}: bad style {other:?}")),
    };
    let v = p[4].replace(';', ",");
    let mut line = format!("{f}{style} {} {} {} {} {v}", p[0], p[1], p[2], p[3]);
    if let Some(t) = tail {
        line.push(' ');
        line.push_str(t);
    }
    parse_case(&line, tail.is_some())
}

/// number of items the request addresses (kinds 1..4: the count; 15/16: the number of values)
fn item_count(case: &Case) -> usize {
    match case.kind {
        1..=4 => case.c as u16 as usize,
        15 => coil_values(case).len(),
        16 => register_values(case).len(),
        _ => 1,
    }
}

/// length of the request frame a correct encoder writes for this case
pub fn expected_request_len(case: &Case) -> usize {
    let n = item_count(case);
    let pdu = match case.kind {
        15 => 6 + (n + 7) / 8,
        16 => 6 + 2 * n,
        _ => 5,
    };
    if case.rtu {
        pdu + 3
    } else {
        pdu + 7
    }
}

/// The PDU of the genuine reply: kinds 1,2: byte count ceil(count/8) and that many bytes 0xA5;
/// kinds 3,4: byte count 2*count and `count` registers 0x1234; kinds 5,6,15,16: the echo.
pub fn genuine_pdu(case: &Case) -> Vec<u8> {
    let fc = case.kind;
    let n = item_count(case);
    let s = case.start.to_be_bytes();
    match fc {
        1 | 2 => {
            let bytes = (n + 7) / 8;
            let mut v = vec![fc, bytes as u8];
            v.resize(2 + bytes, 0xA5);
            v
        }
        3 | 4 => {
            let mut v = Vec::with_capacity(2 + 2 * n);
            v.push(fc);
            v.push((2 * n) as u8);
            for _ in 0..n {
                v.extend_from_slice(&[0x12, 0x34]);
            }
            v
        }
        5 => vec![fc, s[0], s[1], if case.c == 1 { 0xFF } else { 0x00 }, 0x00],
        6 => {
            let x = (case.c as u16).to_be_bytes();
            vec![fc, s[0], s[1], x[0], x[1]]
        }
        _ => {
            let x = (n as u16).to_be_bytes();
            vec![fc, s[0], s[1], x[0], x[1]]
        }
    }
}

/// `[fc | 0x80, code]`
pub fn exception_pdu(case: &Case, code: u8) -> Vec<u8> {
    vec![case.kind | 0x80, code]
}

/// the ADU around `pdu`, framed exactly as `reply_adu` does (TCP: the given transaction id; RTU: CRC)
pub fn frame_adu(case: &Case, tx: u16, pdu: &[u8]) -> Vec<u8> {
    let mut c = case.clone();
    c.pdu = pdu.to_vec();
    reply_adu(&c, &tx.to_be_bytes())
}

/// number of writes logged so far
pub fn writes_so_far(wire: &Wire) -> usize {
    wire.0.lock().unwrap().out.len()
}

/// the bytes written since write number `from`, concatenated
pub fn written_since(wire: &Wire, from: usize) -> Vec<u8> {
    let g = wire.0.lock().unwrap();
    g.out.get(from..).map(|w| w.concat()).unwrap_or_default()
}

/// drop what is left of the write script of an earlier call (unless a write is parked on it)
pub fn clear_write_script(wire: &Wire) {
    let mut g = wire.0.lock().unwrap();
    if !g.write_blocked {
        g.write_script.clear();
    }
}

/// how far a submitted request got without the clock advancing
#[derive(Clone, Copy, Debug, PartialEq, Eq)]
pub enum Sent {
    /// a complete request frame is on the wire (TCP: per its MBAP length field; RTU: the expected length)
    Complete,
    /// the write is parked at a `Block` step
    Blocked,
    /// the request has already completed
    Finished,
    /// none of these within 200 yields (e.g. queued behind a request that hangs)
    Unknown,
}

/// Yield (the paused clock does not advance) until the request's frame is completely on the wire,
/// or its write is blocked, or the request has completed. `from`: `writes_so_far` before the submit.
pub async fn wait_request_sent(wire: &Wire, from: usize, case: &Case, handle: &JoinHandle<Done>) -> Sent {
    let expected = expected_request_len(case);
    for _ in 0..200 {
        tokio::task::yield_now().await;
        {
            let g = wire.0.lock().unwrap();
            let writes = g.out.get(from..).unwrap_or(&[]);
            let n: usize = writes.iter().map(|w| w.len()).sum();
            let complete = if case.rtu {
                n >= expected
            } else if n >= 6 {
                let mut head = [0u8; 6];
                for (i, b) in writes.iter().flatten().take(6).enumerate() {
                    head[i] = *b;
                }
                n >= 6 + u16::from_be_bytes([head[4], head[5]]) as usize
            } else {
                false
            };
            if complete {
                return Sent::Complete;
            }
            if g.write_blocked {
                return Sent::Blocked;
            }
        }
        if handle.is_finished() {
            return Sent::Finished;
        }
    }
    Sent::Unknown
}

/// Await the result of a submitted request for at most 5 s of virtual time and format it:
/// `OK ..` / `OKX ..` / `ERR <name>` / `HUNG` / `PANIC`; with `rejected` (nothing reached the wire
/// and the request completed at once) `REJECTED <token>` as cresp prints it.
pub async fn call_result(mut handle: JoinHandle<Done>, rejected: bool) -> String {
    let res = match tokio::time::timeout(Duration::from_secs(5), &mut handle).await {
        Ok(r) => r,
        Err(_) => {
            handle.abort();
            let _ = handle.await;
            return "HUNG".to_string();
        }
    };
    match res {
        Err(e) if e.is_panic() => "PANIC".to_string(),
        Err(_) => if rejected { "REJECTED CANCELLED" } else { "ERR CANCELLED" }.to_string(),
        Ok(d) => match done_result(d) {
            Ok(_) if rejected => "REJECTED OK?".to_string(),
            Ok(o) => match catch_unwind(AssertUnwindSafe(|| format_outcome(&o))) {
                Ok(s) => s,
                Err(_) => "PANIC".to_string(),
            },
            Err(token) if token == "HUNG" => "HUNG".to_string(),
            Err(token) if rejected => format!("REJECTED {token}"),
            Err(token) => format!("ERR {token}"),
        },
    }
}

/// Submit a call: `Err(result)` if the request could not even be constructed
pub fn submit_case(channel: &Channel, case: &Case) -> Result<JoinHandle<Done>, String> {
    match build(case) {
        Build::Ready(p) => Ok(submit(channel.clone(), param(case), p, case.style)),
        Build::Rejected(name) => Err(format!("REJECTED {name}")),
        Build::Panic => Err("PANIC".to_string()),
    }
}
