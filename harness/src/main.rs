//! verif-harness: runs the real rodbus code (linked by path from /repo) on cases read from
//! stdin, one case per line, and prints one canonical result line per case.
//! Subcommands mirror the entry points of the Coq model (see /verif/DESIGN.md section 3.2).

mod retry;
mod util;

fn main() {
    let args: Vec<String> = std::env::args().collect();
    let sub = args.get(1).map(|s| s.as_str()).unwrap_or("");
    let rest: Vec<String> = args.iter().skip(2).cloned().collect();
    let code = match sub {
        "retry" => retry::main(&rest),
        _ => {
            eprintln!("unknown subcommand {sub:?}");
            2
        }
    };
    std::process::exit(code);
}
