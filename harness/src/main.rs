//! verif-harness: runs the real rodbus code (linked by path from the repository under test) on
//! cases read from stdin, one case per line, and prints one canonical result line per case.
//! Subcommands (one file each in src/cmd/) mirror the entry points of the Coq model
//! (see DESIGN.md section 3.2).

pub mod clientdrv;
pub mod util;
pub mod wire;

mod cmds {
    include!(concat!(env!("OUT_DIR"), "/cmds.rs"));
}

fn main() {
    let args: Vec<String> = std::env::args().collect();
    let sub = args.get(1).map(|s| s.as_str()).unwrap_or("");
    let rest: Vec<String> = args.iter().skip(2).cloned().collect();
    let code = match cmds::dispatch(sub, &rest) {
        Some(c) => c,
        None => {
            eprintln!("unknown subcommand {sub:?}; available: {:?}", cmds::NAMES);
            2
        }
    };
    std::process::exit(code);
}
