//! C18: the TLS configuration through the C ABI against the Rust API constructors, one configuration per line.
//! args: <repo path> (certificates under <repo>/certs)
//! input line: space separated key=value
//!   side=client|server|serverauthz
//!   mode=ca|ss  min=12|13  pw=<hex of the C password string, - = empty>
//!   files=ok|noca|nocert|nokey        which of the three paths points to a file that does not exist
//!   dns=<hex, - = empty>  wild=0|1    (client) dns_name and allow_server_name_wildcard
//!   rname=none|<hex>                  (client, mode=ca) the expected server name of the Rust API call to compare with
//!   rpw=none|<hex>                    the password of the Rust API call to compare with
//! The C side: rodbus_client_channel_create_tls (channel never enabled, destroyed at once) /
//! rodbus_server_create_tls / rodbus_server_create_tls_with_authz (destroyed at once).
//! The Rust side: TlsClientConfig::full_pki(rname, ..) / self_signed(..) / TlsServerConfig::new(.., mode).
//! output: ffi:<ParamError name> rust:<Ok | TlsError variant>
use super::p5_common::*;
use std::collections::HashMap;
use std::os::raw::{c_int, c_void};
use std::path::Path;
use std::sync::atomic::{AtomicUsize, Ordering};
use std::sync::{Arc, Mutex};

extern "C" fn on_state(_state: c_int, _ctx: *mut c_void) {}
extern "C" fn init_db(_db: *mut rodbus_ffi::Database, _ctx: *mut c_void) {}
extern "C" fn allow(_unit: u8, _range: ffi::AddressRange, _role: *const std::os::raw::c_char, _ctx: *mut c_void) -> c_int {
    ffi::Authorization::Allow.into()
}

fn unhex_str(s: &str) -> Option<String> {
    if s == "-" {
        return Some(String::new());
    }
    String::from_utf8(crate::util::unhex(s)).ok()
}

fn tls_error_name(e: &rodbus::client::TlsError) -> &'static str {
    use rodbus::client::TlsError::*;
    match e {
        InvalidPeerCertificate(_) => "InvalidPeerCertificate",
        InvalidLocalCertificate(_) => "InvalidLocalCertificate",
        InvalidPrivateKey(_) => "InvalidPrivateKey",
        InvalidDnsName => "InvalidDnsName",
        BadConfig(_) => "BadConfig",
    }
}

fn case(ffi_rt: &FfiRuntime, repo: &str, line: &str) -> String {
    let kv: HashMap<&str, &str> = line.split_whitespace().filter_map(|t| t.split_once('=')).collect();
    let get = |k: &str| kv.get(k).copied().unwrap_or("-");
    let side = get("side");
    let server = side != "client";
    let ss = get("mode") == "ss";
    let (mut peer, mut cert, mut key) = match (server, ss) {
        (false, false) => (format!("{repo}/certs/ca_chain/ca_cert.pem"), format!("{repo}/certs/ca_chain/client_cert.pem"), format!("{repo}/certs/ca_chain/client_key.pem")),
        (false, true) => (format!("{repo}/certs/self_signed/entity2_cert.pem"), format!("{repo}/certs/self_signed/entity1_cert.pem"), format!("{repo}/certs/self_signed/entity1_key.pem")),
        (true, false) => (format!("{repo}/certs/ca_chain/ca_cert.pem"), format!("{repo}/certs/ca_chain/server_cert.pem"), format!("{repo}/certs/ca_chain/server_key.pem")),
        (true, true) => (format!("{repo}/certs/self_signed/entity1_cert.pem"), format!("{repo}/certs/self_signed/entity2_cert.pem"), format!("{repo}/certs/self_signed/entity2_key.pem")),
    };
    match get("files") {
        "noca" => peer = "/nonexistent/peer.pem".into(),
        "nocert" => cert = "/nonexistent/cert.pem".into(),
        "nokey" => key = "/nonexistent/key.pem".into(),
        _ => {}
    }
    let (Some(pw), Some(dns)) = (unhex_str(get("pw")), unhex_str(get("dns"))) else {
        return "FAIL:utf8".into();
    };
    let rpw: Option<String> = if get("rpw") == "none" { None } else { unhex_str(get("rpw")) };
    let rname: Option<String> = if get("rname") == "none" { None } else { unhex_str(get("rname")) };
    let v13 = get("min") == "13";
    let (c_peer, c_cert, c_key, c_pw, c_dns) = (cstr(&peer), cstr(&cert), cstr(&key), cstr(&pw), cstr(&dns));
    let min_ffi = if v13 { ffi::MinTlsVersion::V13 } else { ffi::MinTlsVersion::V12 };
    let mode_ffi = if ss { ffi::CertificateMode::SelfSigned } else { ffi::CertificateMode::AuthorityBased };
    let min_rust = if v13 { rodbus::client::MinTlsVersion::V1_3 } else { rodbus::client::MinTlsVersion::V1_2 };
    let ffi_rc: i32;
    let rust: String;
    if !server {
        let cfg = ffi::TlsClientConfig {
            dns_name: c_dns.as_ptr(),
            peer_cert_path: c_peer.as_ptr(),
            local_cert_path: c_cert.as_ptr(),
            private_key_path: c_key.as_ptr(),
            password: c_pw.as_ptr(),
            min_tls_version: min_ffi.into(),
            certificate_mode: mode_ffi.into(),
            allow_server_name_wildcard: get("wild") == "1",
        };
        let host = cstr("127.0.0.1");
        let mut ch: *mut rodbus_ffi::ClientChannel = std::ptr::null_mut();
        ffi_rc = unsafe {
            ffi::rodbus_client_channel_create_tls(
                ffi_rt.0,
                host.as_ptr(),
                1,
                4,
                ffi::RetryStrategy { min_delay: 1000, max_delay: 1000 },
                cfg,
                decode_nothing(),
                ffi::ClientStateListener {
                    on_change: Some(on_state),
                    on_destroy: Some(noop_destroy),
                    ctx: std::ptr::null_mut(),
                },
                &mut ch,
            )
        };
        if !ch.is_null() {
            unsafe { ffi::rodbus_client_channel_destroy(ch) };
        }
        let r = if ss {
            rodbus::client::TlsClientConfig::self_signed(Path::new(&peer), Path::new(&cert), Path::new(&key), rpw.as_deref(), min_rust)
        } else {
            rodbus::client::TlsClientConfig::full_pki(rname, Path::new(&peer), Path::new(&cert), Path::new(&key), rpw.as_deref(), min_rust)
        };
        rust = match r {
            Ok(_) => "Ok".into(),
            Err(e) => tls_error_name(&e).into(),
        };
    } else {
        let mut rc = -1;
        for _attempt in 0..6 {
            let cfg = ffi::TlsServerConfig {
                peer_cert_path: c_peer.as_ptr(),
                local_cert_path: c_cert.as_ptr(),
                private_key_path: c_key.as_ptr(),
                password: c_pw.as_ptr(),
                min_tls_version: min_ffi.into(),
                certificate_mode: mode_ffi.into(),
            };
            unsafe {
                let map = ffi::rodbus_device_map_create();
                ffi::rodbus_device_map_add_endpoint(
                    map,
                    1,
                    accepting_write_handler(),
                    ffi::DatabaseCallback {
                        callback: Some(init_db),
                        on_destroy: Some(noop_destroy),
                        ctx: std::ptr::null_mut(),
                    },
                );
                let filter = ffi::rodbus_address_filter_any();
                let ip = cstr("127.0.0.1");
                let port = free_port("127.0.0.1");
                let mut srv: *mut rodbus_ffi::Server = std::ptr::null_mut();
                rc = if side == "serverauthz" {
                    let ah = ffi::AuthorizationHandler {
                        read_coils: Some(allow),
                        read_discrete_inputs: Some(allow),
                        read_holding_registers: Some(allow),
                        read_input_registers: Some(allow),
                        write_single_coil: None,
                        write_single_register: None,
                        write_multiple_coils: None,
                        write_multiple_registers: None,
                        on_destroy: Some(noop_destroy),
                        ctx: std::ptr::null_mut(),
                    };
                    ffi::rodbus_server_create_tls_with_authz(ffi_rt.0, ip.as_ptr(), port, filter, 2, map, cfg, ah, decode_nothing(), &mut srv)
                } else {
                    ffi::rodbus_server_create_tls(ffi_rt.0, ip.as_ptr(), port, filter, 2, map, cfg, decode_nothing(), &mut srv)
                };
                ffi::rodbus_address_filter_destroy(filter);
                ffi::rodbus_device_map_destroy(map);
                if !srv.is_null() {
                    ffi::rodbus_server_destroy(srv);
                }
            }
            if param_error_name(rc) != "ServerBindError" {
                break;
            }
        }
        ffi_rc = rc;
        let mode_rust = if ss { rodbus::server::CertificateMode::SelfSigned } else { rodbus::server::CertificateMode::AuthorityBased };
        let min_srv = if v13 { rodbus::server::MinTlsVersion::V1_3 } else { rodbus::server::MinTlsVersion::V1_2 };
        rust = match rodbus::server::TlsServerConfig::new(Path::new(&peer), Path::new(&cert), Path::new(&key), rpw.as_deref(), min_srv, mode_rust) {
            Ok(_) => "Ok".into(),
            Err(e) => tls_error_name(&e).into(),
        };
    }
    format!("ffi:{} rust:{}", param_error_name(ffi_rc), rust)
}

pub fn main(args: &[String]) -> i32 {
    use std::io::Write;
    crate::util::quiet_panics();
    let lines: Arc<Vec<String>> = Arc::new(crate::util::stdin_lines().collect());
    let mut out = private_stdout();
    let repo = Arc::new(args.first().cloned().unwrap_or_else(|| "/repo".to_string()));
    let ffi_rt = Arc::new(ffi_runtime(4));
    let results: Arc<Mutex<Vec<String>>> = Arc::new(Mutex::new(vec![String::new(); lines.len()]));
    let next = Arc::new(AtomicUsize::new(0));
    let mut workers = Vec::new();
    for _ in 0..8 {
        let (ffi_rt, repo, lines, results, next) = (ffi_rt.clone(), repo.clone(), lines.clone(), results.clone(), next.clone());
        workers.push(std::thread::spawn(move || loop {
            let i = next.fetch_add(1, Ordering::SeqCst);
            if i >= lines.len() {
                break;
            }
            let line = lines[i].clone();
            let (f2, r2) = (ffi_rt.clone(), repo.clone());
            let r = std::panic::catch_unwind(std::panic::AssertUnwindSafe(move || case(&f2, &r2, &line)));
            results.lock().unwrap()[i] = r.unwrap_or_else(|_| "PANIC".to_string());
        }));
    }
    for w in workers {
        let _ = w.join();
    }
    for r in results.lock().unwrap().iter() {
        let _ = writeln!(out, "{r}");
    }
    0
}
