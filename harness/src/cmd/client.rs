//! C10-C13: event-script interpreter that drives the REAL `ClientLoop` (through
//! `rodbus::verif::ClientSession`) on a current-thread runtime with paused time over a scripted
//! in-memory transport.  A small task reproduces `TcpChannelTask::run` / `run_inner` around the
//! production `wait_for_enabled` / `run` / `fail_requests_for` / `fail_requests` calls; the
//! connect step is a gate the script resolves (CO / CE).
//!
//! usage: verif-harness client [--decode min|max]
//!
//! input line:  cap=<n> handles=<n> mt=<n|0> rmin=<ns> rmax=<ns> [rtu=1] [tx0=<n>] | <step> <step> ...
//!   tx0=<n>: the first request carries transaction id n (ClientSession::set_next_tx_id)
//!   rtu=1: the ClientLoop runs with FrameWriter::rtu + the RTU response parser (frames carry no transaction id:
//!   the <tx> of F / P steps is ignored, wire entries read w-:<id>)
//!   S:<id>:<r|u>:<timeout_ns>:<f|c|x>   submit request <id> (r = read holding register, u = a request that
//!                                       cannot be formatted); f = Channel future, c = CallbackSession, x = FfiChannel try_send
//!   E:<f|x> D:<f|x> L:<min|max>:<f|x>   enable / disable / set decode level
//!   X                                   Channel::shutdown
//!   H                                   drop one handle         A   abort the task
//!   CO / CE                             the pending connect succeeds / fails
//!   F:<tx>:<g|e|b>                      a whole reply frame (genuine / exception / wrong function)
//!   S:<id>:b:<timeout_ns>:<f|c|x>       a BIG request: read 125 holding registers from address <id> (reply frame: 259 bytes); completes
//!                                       with Ok only if every value is the one FL sends, otherwise with the class WrongData
//!   FL:<tx>:<g|e|b>                     a whole LARGE reply frame (genuine: 125 registers, 259 bytes; exception; wrong function, 259 bytes)
//!   FS:<tx>:<a>                         a well-formed reply frame with <a> registers (9 + 2a bytes) that is NOT pushed by itself: it is
//!                                       delivered at the front of the SAME read chunk as the next frame step (stale frame + reply in one read)
//!   P:<tx>:<g|e|b>  Q                   the frame without its last two bytes / those two bytes
//!   G  Z  R                             a header the parser rejects / EOF / read error
//!   B:<hex>                             raw bytes, delivered as one read chunk (byte-level replies: C04/C05/C11 end to end)
//!   S:<id>:h<n>|c<n>:<timeout_ns>:f     read n holding registers / coils from address id; the completion carries the values
//!   W   V:<ns>                          the next write fails / takes <ns>
//!   WP  WR                              the transport's transmit path is full: it takes nothing (`WriteStep::Block` of the scripted
//!                                       wire; parks add up and outlive the connection) / one park is over (the parked write is polled again)
//!   WA:<k>                              the transport takes at most k bytes of what is offered next (`WriteStep::Accept(k)`)
//!   T:<ns>                              advance virtual time
//!   ~<step>                             the same step, but the runtime is not allowed to settle before the next step
//! output line: <task log>|<completion log>|<live|done>
//!   task log: lD lC@<ns> lN@<ns> lF<d>@<ns> lW<d>@<ns> lS (listener, with the virtual time of the notification)  d (connect attempt)  w<tx>:<id>@<ns>#<k> (request written during script step k)
//!             x<tx>:<id> (write failed)  e<reason>@<ns> (ClientLoop::run returned)
//!   completion log: c<id>:<class>@<ns>#<k>
#![allow(deprecated)]
use std::collections::HashMap;
use std::future::Future;
use std::num::NonZeroUsize;
use std::pin::Pin;
use std::sync::{Arc, Mutex};
use std::task::{Context, Poll};
use std::time::Duration;

use rodbus::client::{CallbackSession, Channel, FfiChannel, RequestParam, WriteMultiple};
use rodbus::verif::{ClientSession, Framing};
use rodbus::{AddressRange, AppDecodeLevel, DecodeLevel, FrameDecodeLevel, PhysDecodeLevel, RequestError, UnitId};
use tokio::io::{AsyncRead, AsyncWrite, ReadBuf};

use crate::wire::Wire;

#[derive(Default)]
struct Shared {
    task_log: Vec<String>,
    completions: Vec<String>,
    wire: Option<Wire>,
    connecting: bool,
    fail_write: bool,
    write_delay: Option<Duration>,
    writing: bool,
    /// parks of the transmit path (WP) not yet released (WR)
    parks: usize,
    /// index of the script step being executed
    step: usize,
    /// RTU framing (no MBAP header, no transaction id, CRC)
    rtu: bool,
    t0: Option<tokio::time::Instant>,
}

type Ctl = Arc<Mutex<Shared>>;

fn now_ns(c: &Shared) -> u128 {
    (tokio::time::Instant::now() - c.t0.unwrap()).as_nanos()
}

fn class<T>(r: &Result<T, RequestError>) -> &'static str {
    match r {
        Ok(_) => "Ok",
        Err(RequestError::Io(_)) => "Io",
        Err(RequestError::Exception(_)) => "Exception",
        Err(RequestError::BadRequest(_)) => "BadRequest",
        Err(RequestError::BadFrame(_)) => "BadFrame",
        Err(RequestError::BadResponse(_)) => "BadResponse",
        Err(RequestError::Internal(_)) => "Internal",
        Err(RequestError::ResponseTimeout) => "Timeout",
        Err(RequestError::NoConnection) => "NoConnection",
        Err(RequestError::Shutdown) => "Shutdown",
    }
}

fn complete(ctl: &Ctl, id: u32, class: &str) {
    let mut c = ctl.lock().unwrap();
    let t = now_ns(&c);
    let k = c.step;
    c.completions.push(format!("c{id}:{class}@{t}#{k}"));
}

/// the transport of one connection: the shared scripted wire (inbound chunks; transmit path that takes a frame in
/// pieces or nothing at all) plus write faults / slow writes
struct ConnWire {
    wire: Wire,
    ctl: Ctl,
    sleep: Option<Pin<Box<tokio::time::Sleep>>>,
    /// bytes of the frame in progress the transport has not taken yet (0: no frame in progress)
    remaining: usize,
    tx: String,
    id: u16,
}

impl Drop for ConnWire {
    fn drop(&mut self) {
        let mut c = self.ctl.lock().unwrap();
        c.wire = None;
        c.writing = false;
    }
}

impl AsyncRead for ConnWire {
    fn poll_read(self: Pin<&mut Self>, cx: &mut Context<'_>, buf: &mut ReadBuf<'_>) -> Poll<std::io::Result<()>> {
        let me = self.get_mut();
        Pin::new(&mut me.wire).poll_read(cx, buf)
    }
}

impl AsyncWrite for ConnWire {
    fn poll_write(self: Pin<&mut Self>, cx: &mut Context<'_>, b: &[u8]) -> Poll<std::io::Result<usize>> {
        let me = self.get_mut();
        if me.remaining == 0 {
            // a new frame: write_all offers all of it first
            let rtu = me.ctl.lock().unwrap().rtu;
            // MBAP: tx(2) proto(2) len(2) unit fc addr(2) ..; RTU: unit fc addr(2) .. crc(2), no transaction id
            me.tx = if rtu { "-".to_string() } else { u16::from_be_bytes([b[0], b[1]]).to_string() };
            me.id = if rtu {
                if b.len() >= 4 { u16::from_be_bytes([b[2], b[3]]) } else { 0xFFFF }
            } else if b.len() >= 10 {
                u16::from_be_bytes([b[8], b[9]])
            } else {
                0xFFFF
            };
            let mut c = me.ctl.lock().unwrap();
            if c.fail_write {
                c.fail_write = false;
                c.write_delay = None;
                c.task_log.push(format!("x{}:{}", me.tx, me.id));
                return Poll::Ready(Err(std::io::ErrorKind::BrokenPipe.into()));
            }
            if let Some(d) = c.write_delay.take() {
                me.sleep = Some(Box::pin(tokio::time::sleep(d)));
            }
            me.remaining = b.len();
        }
        if let Some(s) = me.sleep.as_mut() {
            match s.as_mut().poll(cx) {
                Poll::Pending => {
                    me.ctl.lock().unwrap().writing = true;
                    return Poll::Pending;
                }
                Poll::Ready(()) => me.sleep = None,
            }
        }
        match Pin::new(&mut me.wire).poll_write(cx, b) {
            Poll::Pending => {
                me.ctl.lock().unwrap().writing = true;
                Poll::Pending
            }
            Poll::Ready(Ok(n)) => {
                me.remaining -= n.min(me.remaining);
                let mut c = me.ctl.lock().unwrap();
                c.writing = me.remaining > 0;
                if me.remaining == 0 {
                    let t = now_ns(&c);
                    let k = c.step;
                    c.task_log.push(format!("w{}:{}@{t}#{k}", me.tx, me.id));
                }
                Poll::Ready(Ok(n))
            }
            Poll::Ready(Err(e)) => Poll::Ready(Err(e)),
        }
    }
    fn poll_flush(self: Pin<&mut Self>, _cx: &mut Context<'_>) -> Poll<std::io::Result<()>> {
        Poll::Ready(Ok(()))
    }
    fn poll_shutdown(self: Pin<&mut Self>, _cx: &mut Context<'_>) -> Poll<std::io::Result<()>> {
        Poll::Ready(Ok(()))
    }
}

fn tlog(ctl: &Ctl, s: String) {
    ctl.lock().unwrap().task_log.push(s);
}

/// a listener notification with the virtual time at which it was made
fn tlog_at(ctl: &Ctl, s: String) {
    let mut c = ctl.lock().unwrap();
    let t = now_ns(&c);
    c.task_log.push(format!("{s}@{t}"));
}

/// TcpChannelTask::run / run_inner / try_connect_and_run / run_connection / handle_failed_connection,
/// with the production ClientLoop calls; the listener is the task log
async fn channel_task(
    mut sess: ClientSession,
    ctl: Ctl,
    mut retry: Box<dyn rodbus::RetryStrategy>,
    mut gate: tokio::sync::mpsc::UnboundedReceiver<bool>,
) {
    tlog(&ctl, "lD".into());
    'outer: loop {
        if !sess.wait_for_enabled().await {
            break;
        }
        // try_connect_and_run
        tlog_at(&ctl, "lC".into());
        tlog(&ctl, "d".into());
        ctl.lock().unwrap().connecting = true;
        let res = tokio::select! {
            ok = gate.recv() => Ok(ok.unwrap_or(false)),
            x = sess.fail_requests() => Err(x),
        };
        ctl.lock().unwrap().connecting = false;
        let state_change: &str = match res {
            Err(x) => x,
            Ok(false) => {
                let delay = retry.after_failed_connect();
                tlog_at(&ctl, format!("lF{}", delay.as_nanos()));
                sess.fail_requests_for(delay).await
            }
            Ok(true) => {
                {
                    let mut c = ctl.lock().unwrap();
                    let t = now_ns(&c);
                    c.task_log.push(format!("lN@{t}"));
                }
                retry.reset();
                let wire = Wire::new();
                {
                    let mut c = ctl.lock().unwrap();
                    // the transmit path is the environment's, not the connection's: parks not yet released carry over
                    wire.script_writes(&vec![crate::wire::WriteStep::Block; c.parks]);
                    c.wire = Some(wire.clone());
                }
                let reason = sess
                    .run(Box::new(ConnWire {
                        wire,
                        ctl: ctl.clone(),
                        sleep: None,
                        remaining: 0,
                        tx: String::new(),
                        id: 0,
                    }))
                    .await;
                let short = match reason.as_str() {
                    x if x.starts_with("Io(") => "Io",
                    x if x.starts_with("MaxTimeouts(") => "MaxTimeouts",
                    x => x,
                }
                .to_string();
                {
                    let mut c = ctl.lock().unwrap();
                    let t = now_ns(&c);
                    c.task_log.push(format!("e{short}@{t}"));
                }
                match short.as_str() {
                    "Shutdown" => "Shutdown",
                    "Disabled" => "Elapsed",
                    _ => {
                        let delay = retry.after_disconnect();
                        tlog_at(&ctl, format!("lW{}", delay.as_nanos()));
                        sess.fail_requests_for(delay).await
                    }
                }
            }
        };
        if state_change == "Shutdown" {
            break 'outer;
        }
        if !sess.is_enabled() {
            tlog(&ctl, "lD".into());
        }
    }
    tlog(&ctl, "lS".into());
}

fn level(name: &str) -> DecodeLevel {
    match name {
        "max" => DecodeLevel::new(AppDecodeLevel::DataValues, FrameDecodeLevel::Payload, PhysDecodeLevel::Data),
        _ => DecodeLevel::nothing(),
    }
}

fn crc16(data: &[u8]) -> u16 {
    let mut crc: u16 = 0xFFFF;
    for b in data {
        crc ^= *b as u16;
        for _ in 0..8 {
            crc = if crc & 1 != 0 { (crc >> 1) ^ 0xA001 } else { crc >> 1 };
        }
    }
    crc
}

fn frame_bytes(tx: u16, kind: &str, rtu: bool) -> Vec<u8> {
    let pdu: Vec<u8> = match kind {
        "g" => vec![0x03, 0x02, 0xAB, 0xCD],
        "e" => vec![0x83, 0x02],
        _ => vec![0x04, 0x02, 0x00, 0x00],
    };
    if rtu {
        // address, PDU, CRC low byte first; the transaction id of the script step has no representation
        let mut v = vec![1u8];
        v.extend_from_slice(&pdu);
        let c = crc16(&v);
        v.push((c & 0xFF) as u8);
        v.push((c >> 8) as u8);
        return v;
    }
    let mut v = Vec::new();
    v.extend_from_slice(&tx.to_be_bytes());
    v.extend_from_slice(&[0, 0]);
    v.extend_from_slice(&((pdu.len() as u16 + 1).to_be_bytes()));
    v.push(1);
    v.extend_from_slice(&pdu);
    v
}

fn big_value(j: usize) -> u16 {
    (j as u16).wrapping_mul(257).wrapping_add(1)
}

/// MBAP reply frames of chosen size: `regs` registers (function 3), or an exception, or a frame of the same size with function 4
fn sized_frame(tx: u16, kind: &str, regs: usize) -> Vec<u8> {
    let mut pdu: Vec<u8> = match kind {
        "e" => vec![0x83, 0x02],
        "g" => vec![0x03, (2 * regs) as u8],
        _ => vec![0x04, (2 * regs) as u8],
    };
    if kind != "e" {
        for j in 0..regs {
            pdu.extend_from_slice(&big_value(j).to_be_bytes());
        }
    }
    let mut v = Vec::new();
    v.extend_from_slice(&tx.to_be_bytes());
    v.extend_from_slice(&[0, 0]);
    v.extend_from_slice(&((pdu.len() as u16 + 1).to_be_bytes()));
    v.push(1);
    v.extend_from_slice(&pdu);
    v
}

async fn settle() {
    for _ in 0..80 {
        tokio::task::yield_now().await;
    }
}

async fn run_case(line: &str, initial: DecodeLevel) -> String {
    let (cfg, script) = line.split_once('|').expect("case needs a '|'");
    let mut kv: HashMap<&str, u128> = HashMap::new();
    for t in cfg.split_whitespace() {
        let (k, v) = t.split_once('=').expect("k=v");
        kv.insert(k, v.parse().expect("number"));
    }
    let cap = kv["cap"] as usize;
    let nhandles = kv["handles"] as usize;
    let mt = NonZeroUsize::new(kv["mt"] as usize);
    let dur = |ns: u128| Duration::new((ns / 1_000_000_000) as u64, (ns % 1_000_000_000) as u32);
    let retry = rodbus::doubling_retry_strategy(dur(kv["rmin"]), dur(kv["rmax"]));

    let ctl: Ctl = Arc::new(Mutex::new(Shared::default()));
    ctl.lock().unwrap().t0 = Some(tokio::time::Instant::now());
    let rtu = kv.get("rtu").copied().unwrap_or(0) != 0;
    ctl.lock().unwrap().rtu = rtu;
    let (channel, mut sess) = ClientSession::new(if rtu { Framing::RtuResponse } else { Framing::Tcp }, cap, initial, mt);
    if let Some(tx0) = kv.get("tx0") {
        sess.set_next_tx_id(*tx0 as u16); // verification hook: lets a short script cross the 16-bit wrap
    }
    let mut handles: Vec<Channel> = Vec::new();
    for _ in 1..nhandles {
        handles.push(channel.clone());
    }
    if nhandles >= 1 {
        handles.push(channel);
    } else {
        drop(channel);
    }
    let (gate_tx, gate_rx) = tokio::sync::mpsc::unbounded_channel();
    let jh = tokio::spawn(channel_task(sess, ctl.clone(), retry, gate_rx));
    settle().await;
    let mut tail: Option<Vec<u8>> = None;
    // stale frames (FS) waiting to be delivered in the same read chunk as the next large frame (FL)
    let mut carry: Vec<u8> = Vec::new();
    let mut ffi: Option<FfiChannel> = None;

    for (step_index, step) in script.split_whitespace().enumerate() {
        ctl.lock().unwrap().step = step_index;
        // a leading '~' means: do not let the runtime settle after this step (the next step happens "at the same time")
        let (step, no_settle) = match step.strip_prefix('~') {
            Some(rest) => (rest, true),
            None => (step, false),
        };
        let p: Vec<&str> = step.split(':').collect();
        match p[0] {
            "S" if p[2].starts_with('h') || p[2].starts_with('c') => {
                // read <n> holding registers / coils from address <id>; the completion log carries the returned values
                let id: u32 = p[1].parse().unwrap();
                let coils = p[2].starts_with('c');
                let count: u16 = p[2][1..].parse().unwrap();
                let param = RequestParam::new(UnitId::new(1), dur(p[3].parse().unwrap()));
                if let (Some(ch), Ok(range)) = (handles.last().cloned(), AddressRange::try_from(id as u16, count)) {
                    let ctl2 = ctl.clone();
                    tokio::spawn(async move {
                        let text = if coils {
                            match ch.read_coils(param, range).await {
                                Ok(v) => format!("Ok={}", v.iter().map(|x| format!("{}:{}", x.index, x.value as u8)).collect::<Vec<_>>().join(",")),
                                Err(RequestError::Exception(ex)) => format!("Exception={}", u8::from(ex)),
                                Err(e) => class::<()>(&Err(e)).to_string(),
                            }
                        } else {
                            match ch.read_holding_registers(param, range).await {
                                Ok(v) => format!("Ok={}", v.iter().map(|x| format!("{}:{}", x.index, x.value)).collect::<Vec<_>>().join(",")),
                                Err(RequestError::Exception(ex)) => format!("Exception={}", u8::from(ex)),
                                Err(e) => class::<()>(&Err(e)).to_string(),
                            }
                        };
                        complete(&ctl2, id, &text);
                    });
                }
            }
            "S" if p[2] == "b" => {
                // a big read: 125 holding registers; Ok only with exactly the values of an FL frame
                let id: u32 = p[1].parse().unwrap();
                let param = RequestParam::new(UnitId::new(1), dur(p[3].parse().unwrap()));
                fn big_class(r: Result<Vec<rodbus::Indexed<u16>>, RequestError>, id: u16) -> &'static str {
                    match r {
                        Ok(v) => {
                            if v.len() == 125 && v.iter().enumerate().all(|(j, x)| x.index == id.wrapping_add(j as u16) && x.value == big_value(j)) {
                                "Ok"
                            } else {
                                "WrongData"
                            }
                        }
                        Err(e) => class::<()>(&Err(e)),
                    }
                }
                if let (Some(ch), Ok(range)) = (handles.last().cloned(), AddressRange::try_from(id as u16, 125)) {
                    let ctl2 = ctl.clone();
                    match p[4] {
                        "f" => {
                            tokio::spawn(async move {
                                let c = big_class(ch.read_holding_registers(param, range).await, id as u16);
                                complete(&ctl2, id, c);
                            });
                        }
                        "c" => {
                            #[allow(deprecated)]
                            tokio::spawn(async move {
                                let mut cs = CallbackSession::new(ch, param);
                                cs.read_holding_registers(range, move |r| {
                                    let c = big_class(r.map(|it| it.collect::<Vec<_>>()), id as u16);
                                    complete(&ctl2, id, c)
                                })
                                .await;
                            });
                        }
                        _ => {
                            let mut f = FfiChannel::new(ch);
                            let _ = f.read_holding_registers(param, range, move |r| {
                                let c = big_class(r.map(|it| it.collect::<Vec<_>>()), id as u16);
                                complete(&ctl2, id, c)
                            });
                        }
                    }
                }
            }
            "S" => {
                let id: u32 = p[1].parse().unwrap();
                let unformattable = p[2] == "u";
                let timeout = dur(p[3].parse().unwrap());
                let param = RequestParam::new(UnitId::new(1), timeout);
                if let Some(ch) = handles.last().cloned() {
                    let ctl2 = ctl.clone();
                    let range = AddressRange::try_from(id as u16, 1).unwrap();
                    let big = move || WriteMultiple::from(id as u16, vec![0u16; 200]).unwrap();
                    match p[4] {
                        "f" => {
                            tokio::spawn(async move {
                                let c = if unformattable {
                                    class(&ch.write_multiple_registers(param, big()).await)
                                } else {
                                    class(&ch.read_holding_registers(param, range).await)
                                };
                                complete(&ctl2, id, c);
                            });
                        }
                        "c" => {
                            #[allow(deprecated)]
                            tokio::spawn(async move {
                                let mut cs = CallbackSession::new(ch, param);
                                if unformattable {
                                    cs.write_multiple_registers(big(), move |r| complete(&ctl2, id, class(&r))).await;
                                } else {
                                    cs.read_holding_registers(range, move |r| complete(&ctl2, id, class(&r))).await;
                                }
                            });
                        }
                        _ => {
                            let mut f = FfiChannel::new(ch);
                            let _ = if unformattable {
                                f.write_multiple_registers(param, big(), move |r| complete(&ctl2, id, class(&r)))
                            } else {
                                f.read_holding_registers(param, range, move |r| complete(&ctl2, id, class(&r)))
                            };
                        }
                    }
                }
            }
            "E" | "D" | "L" => {
                if let Some(ch) = handles.last().cloned() {
                    let style = *p.last().unwrap();
                    let what = p[0].to_string();
                    let lvl = if p[0] == "L" { level(p[1]) } else { DecodeLevel::nothing() };
                    if style == "x" {
                        // ONE FfiChannel for the settings, as an application keeps it (whatever state it holds lives across calls)
                        let f = ffi.get_or_insert_with(|| FfiChannel::new(ch));
                        let _ = match what.as_str() {
                            "E" => f.enable(),
                            "D" => f.disable(),
                            _ => f.set_decode_level(lvl),
                        };
                    } else {
                        tokio::spawn(async move {
                            let _ = match what.as_str() {
                                "E" => ch.enable().await,
                                "D" => ch.disable().await,
                                _ => ch.set_decode_level(lvl).await,
                            };
                        });
                    }
                }
            }
            "X" => {
                if let Some(ch) = handles.last().cloned() {
                    tokio::spawn(async move {
                        let _ = ch.shutdown().await;
                    });
                }
            }
            "H" => {
                handles.pop();
                ffi = None; // it holds a sender of its own: gone with the handle it was made from
            }
            "A" => jh.abort(),
            "CO" | "CE" => {
                if ctl.lock().unwrap().connecting {
                    let _ = gate_tx.send(p[0] == "CO");
                }
            }
            "F" | "P" | "Q" | "G" | "Z" | "R" | "B" | "FL" | "FS" => {
                let (wire, writing) = {
                    let c = ctl.lock().unwrap();
                    (c.wire.clone(), c.writing)
                };
                if let (Some(w), false) = (wire, writing) {
                    match p[0] {
                        "B" => w.push(&crate::util::unhex(p[1])),
                        "FS" => {
                            if tail.is_none() && !rtu {
                                carry.extend_from_slice(&sized_frame(p[1].parse().unwrap(), "g", p[2].parse().unwrap()));
                            }
                        }
                        "FL" => {
                            if tail.is_none() && !rtu {
                                let mut chunk = std::mem::take(&mut carry);
                                chunk.extend_from_slice(&sized_frame(p[1].parse().unwrap(), p[2], 125));
                                w.push(&chunk)
                            }
                        }
                        "F" => {
                            if tail.is_none() {
                                w.push(&frame_bytes(p[1].parse().unwrap(), p[2], rtu))
                            }
                        }
                        "P" => {
                            if tail.is_none() {
                                let mut b = frame_bytes(p[1].parse().unwrap(), p[2], rtu);
                                let rest = b.split_off(b.len() - 2);
                                w.push(&b);
                                tail = Some(rest);
                            }
                        }
                        "Q" => {
                            if let Some(rest) = tail.take() {
                                w.push(&rest)
                            }
                        }
                        "G" => {
                            if tail.is_none() {
                                if rtu {
                                    w.push(&[0x01, 0x55]) // unknown function code
                                } else {
                                    w.push(&[0x00, 0x00, 0x00, 0x05, 0x00, 0x03, 0x01, 0x83, 0x02])
                                }
                            }
                        }
                        "Z" => w.set_eof(),
                        _ => w.set_read_error(std::io::ErrorKind::ConnectionReset),
                    }
                }
            }
            "W" => ctl.lock().unwrap().fail_write = true,
            "WP" => {
                let mut c = ctl.lock().unwrap();
                c.parks += 1;
                if let Some(w) = c.wire.as_ref() {
                    // in FRONT of the Accept steps still waiting: a full transmit path takes nothing at all
                    w.0.lock().unwrap().write_script.push_front(crate::wire::WriteStep::Block);
                }
            }
            "WA" => {
                let c = ctl.lock().unwrap();
                if let Some(w) = c.wire.as_ref() {
                    w.script_writes(&[crate::wire::WriteStep::Accept(p[1].parse().unwrap())]);
                }
            }
            "WR" => {
                let mut c = ctl.lock().unwrap();
                if c.parks > 0 {
                    c.parks -= 1;
                    if let Some(w) = c.wire.as_ref() {
                        // `Wire::release_write` with the Block looked for behind Accept steps as well
                        let mut g = w.0.lock().unwrap();
                        if let Some(ix) = g.write_script.iter().position(|x| *x == crate::wire::WriteStep::Block) {
                            g.write_script.remove(ix);
                        }
                        g.write_blocked = false;
                        if let Some(wk) = g.write_waker.take() {
                            wk.wake();
                        }
                    }
                }
            }
            "V" => {
                let ns: u128 = p[1].parse().unwrap();
                ctl.lock().unwrap().write_delay = if ns == 0 { None } else { Some(dur(ns)) };
            }
            "T" => tokio::time::advance(dur(p[1].parse().unwrap())).await,
            other => panic!("unknown step {other:?}"),
        }
        if no_settle {
            continue;
        }
        settle().await;
        // the first part of a frame dies with its connection
        if ctl.lock().unwrap().wire.is_none() {
            tail = None;
            carry.clear();
        }
    }
    let done = jh.is_finished();
    let c = ctl.lock().unwrap();
    format!("{}|{}|{}", c.task_log.join(" "), c.completions.join(" "), if done { "done" } else { "live" })
}

pub fn main(args: &[String]) -> i32 {
    crate::util::quiet_panics();
    let mut initial = DecodeLevel::nothing();
    let mut i = 0;
    while i < args.len() {
        if args[i] == "--decode" && i + 1 < args.len() {
            initial = level(&args[i + 1]);
            i += 1;
        }
        i += 1;
    }
    // format every tracing event into a sink so that the Display / Loggable code paths really execute
    let _ = tracing_subscriber::fmt()
        .with_writer(std::io::sink)
        .with_max_level(tracing::Level::TRACE)
        .try_init();
    for line in crate::util::stdin_lines() {
        let res = std::panic::catch_unwind(move || {
            let rt = tokio::runtime::Builder::new_current_thread()
                .enable_time()
                .start_paused(true)
                .build()
                .unwrap();
            let out = rt.block_on(run_case(&line, initial));
            drop(rt);
            out
        });
        match res {
            Ok(s) => println!("{s}"),
            Err(_) => println!("PANIC"),
        }
    }
    0
}
