//! C05 (client role, finding F5): the production ClientLoop over several consecutive
//! connections. On every connection one read-holding-registers request (unit 1, start 0,
//! count 1, timeout 1 s of virtual time) is put in flight; once it is on the wire the scripted
//! server bytes are delivered (one chunk per read) and the connection ends as scripted.
//!
//! input line:  <eof|pending|err> <chunk hex>... / <eof|pending|err> <chunk hex>... / ...
//! output line: the request's result per connection, joined by " / ":
//!   Ok(<value>) | Exception(<code>) | BadFrame | BadResponse | Io | Timeout | <Debug of anything else>
//! optional arguments: --decode min|max; --rtu = the RTU client (FrameWriter::rtu + response parser; replies are
//!   matched by order, there is no transaction id) instead of the TCP client
use crate::util::unhex;
use crate::wire::Wire;
use rodbus::client::RequestParam;
use rodbus::verif::{ClientSession, Framing};
use rodbus::{AddressRange, DecodeLevel, RequestError, UnitId};
use std::time::Duration;

fn show(res: Result<Vec<rodbus::Indexed<u16>>, RequestError>) -> String {
    match res {
        Ok(v) if v.len() == 1 => format!("Ok({})", v[0].value),
        Ok(v) => format!("Ok?{v:?}"),
        Err(RequestError::Exception(c)) => format!("Exception({})", u8::from(c)),
        Err(RequestError::BadFrame(_)) => "BadFrame".to_string(),
        Err(RequestError::BadResponse(_)) => "BadResponse".to_string(),
        Err(RequestError::Io(_)) => "Io".to_string(),
        Err(RequestError::ResponseTimeout) => "Timeout".to_string(),
        Err(e) => format!("{e:?}"),
    }
}

async fn run_case(line: String, decode: DecodeLevel, rtu: bool) -> String {
    let framing = if rtu { Framing::RtuResponse } else { Framing::Tcp };
    let (channel, mut session) = ClientSession::new(framing, 16, decode, None);
    channel.enable().await.unwrap();
    let mut out = Vec::new();
    for conn in line.split('/') {
        let parts: Vec<&str> = conn.split_whitespace().collect();
        let fin = parts[0].to_string();
        let chunks: Vec<Vec<u8>> = parts[1..].iter().map(|c| unhex(c)).collect();
        let wire = Wire::new();
        let ch = channel.clone();
        let req = tokio::spawn(async move {
            ch.read_holding_registers(
                RequestParam::new(UnitId::new(1), Duration::from_secs(1)),
                AddressRange::try_from(0, 1).unwrap(),
            )
            .await
        });
        let w2 = wire.clone();
        let driver = async {
            // wait until the request is on the wire, then let the server bytes arrive
            for _ in 0..1000 {
                if !w2.0.lock().unwrap().out.is_empty() {
                    break;
                }
                tokio::task::yield_now().await;
            }
            for c in &chunks {
                w2.push(c);
            }
            match fin.as_str() {
                "eof" => w2.set_eof(),
                "err" => w2.set_read_error(std::io::ErrorKind::ConnectionReset),
                _ => {}
            }
            // a connection that stays open is dropped by the caller after 5 s of virtual time
            tokio::time::sleep(Duration::from_secs(5)).await;
        };
        tokio::select! {
            _ = session.run(Box::new(wire.clone())) => {}
            _ = driver => {}
        }
        match tokio::time::timeout(Duration::from_secs(10), req).await {
            Ok(Ok(r)) => out.push(show(r)),
            Ok(Err(_)) => out.push("PANIC".to_string()),
            Err(_) => out.push("Hang".to_string()),
        }
    }
    out.join(" / ")
}

pub fn main(args: &[String]) -> i32 {
    crate::util::quiet_panics();
    let decode = crate::util::decode_arg(args);
    let rtu = args.iter().any(|a| a == "--rtu");
    for line in crate::util::stdin_lines() {
        let res = std::panic::catch_unwind(move || {
            let rt = tokio::runtime::Builder::new_current_thread()
                .enable_time()
                .start_paused(true)
                .build()
                .unwrap();
            rt.block_on(run_case(line, decode, rtu))
        });
        match res {
            Ok(s) => println!("{s}"),
            Err(e) => println!("{}", crate::util::panic_name(&e)),
        }
    }
    0
}
