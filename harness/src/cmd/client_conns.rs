//! C05 (client role, finding F5): the production ClientLoop over several consecutive
//! connections. On every connection one read-holding-registers request (unit 1, start 0,
//! count 1, timeout 1 s of virtual time) is put in flight; once it is on the wire the scripted
//! server bytes are delivered (one chunk per read) and the connection ends as scripted.
//!
//! input line:  <eof|pending|err> <chunk hex>... [| <chunk hex>... ]* / <eof|pending|err> ... / ...
//!   `|` separates EXCHANGES on one connection: one request per exchange, its chunks arrive once that request is on
//!   the wire, the next request is made when the previous one has its result (reply, error or the 1 s timeout);
//!   `idle <chunks>` is an exchange without a request (the bytes arrive while the client is idle; result `Idle`)
//! output line: the request's result per connection, joined by " / ":
//!   Ok(<value>) | Exception(<code>) | BadFrame | BadResponse | Io | Timeout | <Debug of anything else>
//! optional arguments: --decode min|max; --rtu = the RTU client (FrameWriter::rtu + response parser; replies are
//!   matched by order, there is no transaction id) instead of the TCP client
use crate::util::unhex;
use crate::wire::Wire;
use rodbus::client::RequestParam;
use rodbus::verif::{ClientSession, Framing};
use rodbus::{AddressRange, DecodeLevel, RequestError, UnitId};
use std::time::Duration;

fn show(res: Result<Vec<rodbus::Indexed<u16>>, RequestError>) -> String {
    match res {
        Ok(v) if v.len() == 1 => format!("Ok({})", v[0].value),
        Ok(v) => format!("Ok?{v:?}"),
        Err(RequestError::Exception(c)) => format!("Exception({})", u8::from(c)),
        Err(RequestError::BadFrame(_)) => "BadFrame".to_string(),
        Err(RequestError::BadResponse(_)) => "BadResponse".to_string(),
        Err(RequestError::Io(_)) => "Io".to_string(),
        Err(RequestError::ResponseTimeout) => "Timeout".to_string(),
        Err(e) => format!("{e:?}"),
    }
}

async fn run_case(line: String, decode: DecodeLevel, rtu: bool) -> String {
    let framing = if rtu { Framing::RtuResponse } else { Framing::Tcp };
    let (channel, mut session) = ClientSession::new(framing, 16, decode, None);
    channel.enable().await.unwrap();
    let mut out = Vec::new();
    for conn in line.split('/') {
        // a connection: <eof|pending|err> <chunks of exchange 1> | <chunks of exchange 2> | ...
        // one request per exchange; the exchange's chunks are delivered once its request is on the wire
        let (fin, rest) = {
            let t = conn.trim();
            let mut it = t.splitn(2, char::is_whitespace);
            (it.next().unwrap_or("").to_string(), it.next().unwrap_or("").to_string())
        };
        // an exchange written `idle <chunks>` has no request: its chunks arrive while the client is idle
        let idle: Vec<bool> = rest.split('|').map(|p| p.split_whitespace().next() == Some("idle")).collect();
        let phases: Vec<Vec<Vec<u8>>> = rest
            .split('|')
            .map(|p| p.split_whitespace().filter(|t| *t != "idle").map(unhex).collect())
            .collect();
        let wire = Wire::new();
        let results: std::sync::Arc<std::sync::Mutex<Vec<String>>> = Default::default();
        let n_phases = phases.len();
        let w2 = wire.clone();
        let res2 = results.clone();
        let chan = channel.clone();
        let driver = async move {
            for (k, chunks) in phases.iter().enumerate() {
                if idle[k] {
                    // nothing is in flight: the bytes arrive while the client is idle
                    res2.lock().unwrap().push("Idle".to_string());
                    for c in chunks {
                        w2.push(c);
                    }
                    if k + 1 == n_phases {
                        match fin.as_str() {
                            "eof" => w2.set_eof(),
                            "err" => w2.set_read_error(std::io::ErrorKind::ConnectionReset),
                            _ => {}
                        }
                    }
                    crate::wire::settle().await;
                    crate::wire::settle().await;
                    continue;
                }
                let written = w2.0.lock().unwrap().out.len();
                let ch = chan.clone();
                let res3 = res2.clone();
                // the request reports its own result, so that it is not lost when the connection ends under it
                tokio::spawn(async move {
                    let r = ch
                        .read_holding_registers(
                            RequestParam::new(UnitId::new(1), Duration::from_secs(1)),
                            AddressRange::try_from(0, 1).unwrap(),
                        )
                        .await;
                    res3.lock().unwrap().push(show(r));
                });
                // wait until the request is on the wire, then let the server bytes of this exchange arrive
                for _ in 0..1000 {
                    if w2.0.lock().unwrap().out.len() > written {
                        break;
                    }
                    tokio::task::yield_now().await;
                }
                for c in chunks {
                    w2.push(c);
                }
                if k + 1 == n_phases {
                    match fin.as_str() {
                        "eof" => w2.set_eof(),
                        "err" => w2.set_read_error(std::io::ErrorKind::ConnectionReset),
                        _ => {}
                    }
                }
                // wait for its result (reply, error, or the 1 s response timeout), at most 3 s of virtual time
                for _ in 0..300 {
                    if res2.lock().unwrap().len() > k {
                        break;
                    }
                    tokio::time::sleep(Duration::from_millis(10)).await;
                }
                if res2.lock().unwrap().len() <= k {
                    res2.lock().unwrap().push("Hang".to_string());
                }
            }
            // a connection that stays open is dropped by the caller after 5 s of virtual time
            tokio::time::sleep(Duration::from_secs(5)).await;
        };
        tokio::select! {
            _ = session.run(Box::new(wire.clone())) => {}
            _ = driver => {}
        }
        // let a request that was in flight when the connection ended report its failure
        crate::wire::settle().await;
        // exchanges the connection did not live to see
        let mut rs = results.lock().unwrap().clone();
        while rs.len() < n_phases {
            rs.push("NotRun".to_string());
        }
        out.push(rs.join(","));
    }
    out.join(" / ")
}

pub fn main(args: &[String]) -> i32 {
    crate::util::quiet_panics();
    let decode = crate::util::decode_arg(args);
    let rtu = args.iter().any(|a| a == "--rtu");
    for line in crate::util::stdin_lines() {
        let res = std::panic::catch_unwind(move || {
            let rt = tokio::runtime::Builder::new_current_thread()
                .enable_time()
                .start_paused(true)
                .build()
                .unwrap();
            rt.block_on(run_case(line, decode, rtu))
        });
        match res {
            Ok(s) => println!("{s}"),
            Err(e) => println!("{}", crate::util::panic_name(&e)),
        }
    }
    0
}
