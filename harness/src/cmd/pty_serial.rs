//! C06 (emit, the REAL serial arm of PhysLayer::write): `spawn_rtu_server_task` on the slave side of a pseudo
//! terminal, the harness is the master side. Requests (read holding registers 0..n of unit 0x11; register i
//! holds i) are sent one at a time, each only after the previous one was served, but the replies are NOT
//! collected until the server cannot get rid of a reply any more (the kernel's pty queue is full, so the port
//! takes only a part of a frame in one write(2)). Then the wire is drained: it must hold exactly one complete
//! reply per request, back to back. (After the demonstration of seeded change c06_5.)
//!
//! input line:  <registers per request> [<registers per request> ...]      one congestion round each
//! output line: per round `regs=<n> sent=<k> wire=<bytes> same=<leading chunks equal to the first> first=<hex> bad=<hex|->`
//!              joined by " / "; NOPTY if no pseudo terminal can be opened
use crate::util::hex;
use rodbus::server::*;
use rodbus::*;
use std::os::unix::io::RawFd;
use std::sync::atomic::{AtomicUsize, Ordering};
use std::sync::Arc;
use std::time::{Duration, Instant};

struct Pty {
    master: RawFd,
    slave: RawFd,
    path: String,
}

impl Pty {
    fn open() -> Option<Pty> {
        let mut master: libc::c_int = 0;
        let mut slave: libc::c_int = 0;
        let mut name = [0 as libc::c_char; 128];
        let rc = unsafe { libc::openpty(&mut master, &mut slave, name.as_mut_ptr(), std::ptr::null_mut(), std::ptr::null_mut()) };
        if rc != 0 {
            return None;
        }
        unsafe {
            let mut tio: libc::termios = std::mem::zeroed();
            libc::tcgetattr(slave, &mut tio);
            libc::cfmakeraw(&mut tio);
            libc::tcsetattr(slave, libc::TCSANOW, &tio);
            let flags = libc::fcntl(master, libc::F_GETFL);
            libc::fcntl(master, libc::F_SETFL, flags | libc::O_NONBLOCK);
        }
        let path = unsafe { std::ffi::CStr::from_ptr(name.as_ptr()) }.to_str().ok()?.to_string();
        Some(Pty { master, slave, path })
    }
    fn send(&self, mut data: &[u8]) {
        let deadline = Instant::now() + Duration::from_secs(10);
        while !data.is_empty() {
            let n = unsafe { libc::write(self.master, data.as_ptr() as *const _, data.len()) };
            if n > 0 {
                data = &data[n as usize..];
            } else {
                assert!(Instant::now() < deadline, "unable to write to the pty");
                std::thread::sleep(Duration::from_millis(1));
            }
        }
    }
    fn recv_available(&self, out: &mut Vec<u8>) -> usize {
        let mut total = 0;
        loop {
            let mut buf = [0u8; 4096];
            let n = unsafe { libc::read(self.master, buf.as_mut_ptr() as *mut _, buf.len()) };
            if n > 0 {
                out.extend_from_slice(&buf[..n as usize]);
                total += n as usize;
            } else {
                return total;
            }
        }
    }
}
impl Drop for Pty {
    fn drop(&mut self) {
        unsafe {
            libc::close(self.slave);
            libc::close(self.master);
        }
    }
}

struct Handler {
    reads: Arc<AtomicUsize>,
}
impl RequestHandler for Handler {
    fn read_holding_register(&self, address: u16) -> Result<u16, ExceptionCode> {
        self.reads.fetch_add(1, Ordering::SeqCst);
        Ok(address)
    }
}

const UNIT: u8 = 0x11;
const MAX_REQUESTS: usize = 400;

async fn wait_for_reads(reads: &AtomicUsize, expected: usize, patience: Duration) -> bool {
    let deadline = Instant::now() + patience;
    while reads.load(Ordering::SeqCst) < expected {
        if Instant::now() > deadline {
            return false;
        }
        tokio::time::sleep(Duration::from_millis(2)).await;
    }
    true
}

/// the request frame; its CRC comes from the library's own client-side serialisation being irrelevant here:
/// computed bit by bit
fn crc16(data: &[u8]) -> u16 {
    let mut crc: u16 = 0xFFFF;
    for b in data {
        crc ^= *b as u16;
        for _ in 0..8 {
            crc = if crc & 1 != 0 { (crc >> 1) ^ 0xA001 } else { crc >> 1 };
        }
    }
    crc
}

async fn round(pty: &Pty, reads: &AtomicUsize, registers: u16, first: bool) -> String {
    let reply_len = 1 + 1 + 1 + 2 * registers as usize + 2;
    let mut request = vec![UNIT, 0x03, 0x00, 0x00, 0x00, registers as u8];
    let c = crc16(&request);
    request.push((c & 0xFF) as u8);
    request.push((c >> 8) as u8);
    // phase 1: congest the transmit path
    let base = reads.load(Ordering::SeqCst);
    let mut sent = 0;
    while sent < MAX_REQUESTS {
        pty.send(&request);
        sent += 1;
        let patience = if first && sent == 1 { Duration::from_secs(10) } else { Duration::from_millis(700) };
        if !wait_for_reads(reads, base + sent * registers as usize, patience).await {
            break;
        }
    }
    // phase 2: drain; every request that was sent gets served
    let mut wire = Vec::new();
    let mut last_progress = Instant::now();
    while wire.len() < sent * reply_len && last_progress.elapsed() < Duration::from_millis(1500) {
        if pty.recv_available(&mut wire) > 0 {
            last_progress = Instant::now();
        } else {
            tokio::time::sleep(Duration::from_millis(2)).await;
        }
    }
    wait_for_reads(reads, base + sent * registers as usize, Duration::from_secs(2)).await;
    tokio::time::sleep(Duration::from_millis(200)).await;
    pty.recv_available(&mut wire);
    let first_frame: Vec<u8> = wire.iter().take(reply_len).copied().collect();
    let mut same = 0;
    let mut bad = "-".to_string();
    for chunk in wire.chunks(reply_len) {
        if chunk == first_frame.as_slice() {
            same += 1;
        } else {
            bad = hex(&chunk[..chunk.len().min(24)]);
            break;
        }
    }
    format!("regs={} sent={} wire={} same={} first={} bad={}", registers, sent, wire.len(), same, hex(&first_frame), bad)
}

pub fn main(_args: &[String]) -> i32 {
    crate::util::quiet_panics();
    for line in crate::util::stdin_lines() {
        let rounds: Vec<u16> = line.split_whitespace().map(|x| x.parse().unwrap()).collect();
        let res = std::panic::catch_unwind(move || {
            let rt = tokio::runtime::Builder::new_multi_thread().worker_threads(2).enable_all().build().unwrap();
            rt.block_on(async move {
                let pty = match Pty::open() {
                    Some(p) => p,
                    None => return "NOPTY".to_string(),
                };
                let reads = Arc::new(AtomicUsize::new(0));
                let handler = Handler { reads: reads.clone() }.wrap();
                let server = spawn_rtu_server_task(
                    &pty.path,
                    SerialSettings::default(),
                    default_retry_strategy(),
                    ServerHandlerMap::single(UnitId::new(UNIT), handler),
                    DecodeLevel::nothing(),
                );
                let _server = match server {
                    Ok(s) => s,
                    Err(e) => return format!("NOPTY({e:?})"),
                };
                let mut out = Vec::new();
                for (i, regs) in rounds.iter().enumerate() {
                    out.push(round(&pty, &reads, *regs, i == 0).await);
                }
                out.join(" / ")
            })
        });
        match res {
            Ok(s) => println!("{s}"),
            Err(e) => println!("{}", crate::util::panic_name(&e)),
        }
    }
    0
}
