//! C10 (submit paths): one request through the future-style `Channel`, the callback-style `CallbackSession` or the
//! C ABI (rodbus_client_channel_*), with valid and invalid arguments, in several channel states; every invocation of
//! the completion callback is counted. And: real-TCP life-cycle scripts (refused port, enable / disable / submit).
//! input line:
//!   sub <path> <op> <args> <state>
//!     path  = fut | cb | ffi
//!     op    = rc | rd | rh | ri | wc | wr | wmc | wmr
//!     args  = valid | maxok | zero | overlimit | overflow | toomany     (zero / overflow: ranges built through the public fields)
//!     state = connected | noconn | qfull | shutdown
//!   output: per request `<return code or ->/n=<callback invocations or returned results>/<what they carried, joined by +>`,
//!           three requests separated by ';' for qfull (queue of 1, silent peer: in flight, queued, third)
//!   life <path> <step,step,...>
//!     e enable   d disable (+40 ms)   w wait for WaitAfterFailedConnect   l start listening on the port   c wait for Connected
//!     p pause 40 ms   s submit read_holding_registers(2000, 1) and record the completion
//!   output: `<completion per s, comma separated> shutdown_state=<0|1> (ClientState::Shutdown reported before the channel was dropped)`
use super::ffi_client as fc;
use super::p5_common::*;
use rodbus::client::*;
use rodbus::*;
use std::net::IpAddr;
use std::os::raw::{c_int, c_void};
use std::sync::atomic::{AtomicUsize, Ordering};
use std::sync::{Arc, Mutex};
use std::time::Duration;

// ------------------------------------------------------------------------------------------------ peer
async fn peer_conn(mut s: tokio::net::TcpStream, silent: bool, seen: Arc<AtomicUsize>) {
    use tokio::io::{AsyncReadExt, AsyncWriteExt};
    loop {
        let mut h = [0u8; 7];
        if s.read_exact(&mut h).await.is_err() {
            return;
        }
        let len = u16::from_be_bytes([h[4], h[5]]) as usize;
        if !(2..=254).contains(&len) {
            return;
        }
        let mut pdu = vec![0u8; len - 1];
        if s.read_exact(&mut pdu).await.is_err() {
            return;
        }
        seen.fetch_add(1, Ordering::SeqCst);
        if silent {
            continue;
        }
        let qty = u16::from_be_bytes([pdu[3], pdu[4]]) as usize;
        let reply: Vec<u8> = match pdu[0] {
            1 | 2 => {
                let mut v = vec![pdu[0], ((qty + 7) / 8) as u8];
                v.extend(vec![0u8; (qty + 7) / 8]);
                v
            }
            3 | 4 => {
                let mut v = vec![pdu[0], (qty * 2) as u8];
                v.extend(vec![0u8; qty * 2]);
                v
            }
            _ => pdu[..5].to_vec(),
        };
        let mut out = vec![h[0], h[1], 0, 0];
        out.extend(((reply.len() + 1) as u16).to_be_bytes());
        out.push(h[6]);
        out.extend(reply);
        if s.write_all(&out).await.is_err() {
            return;
        }
    }
}

fn serve(rt: &tokio::runtime::Runtime, listener: std::net::TcpListener, silent: bool) -> Arc<AtomicUsize> {
    let seen = Arc::new(AtomicUsize::new(0));
    listener.set_nonblocking(true).unwrap();
    let seen2 = seen.clone();
    let _g = rt.enter();
    let l = tokio::net::TcpListener::from_std(listener).unwrap();
    rt.spawn(async move {
        while let Ok((s, _)) = l.accept().await {
            tokio::spawn(peer_conn(s, silent, seen2.clone()));
        }
    });
    seen
}

fn start_peer(rt: &tokio::runtime::Runtime, silent: bool) -> (u16, Arc<AtomicUsize>) {
    let l = std::net::TcpListener::bind("127.0.0.1:0").unwrap();
    let port = l.local_addr().unwrap().port();
    (port, serve(rt, l, silent))
}

// ------------------------------------------------------------------------------------------------ arguments
fn args_of(op: &str, class: &str) -> Option<(u16, u16)> {
    let read = matches!(op, "rc" | "rd" | "rh" | "ri");
    let bits = matches!(op, "rc" | "rd" | "wmc");
    let multi = matches!(op, "wmc" | "wmr");
    Some(match class {
        "valid" => (2000, if read || multi { 3 } else { 1 }),
        "maxok" if read => (2000, if bits { 2000 } else { 125 }),
        "maxok" if multi => (2000, if bits { 1968 } else { 123 }),
        "zero" if read => (2000, 0),
        "overlimit" if read => (2000, if bits { 2001 } else { 126 }),
        "overflow" if read => (65535, 2),
        "toomany" if multi => (2000, if bits { 1969 } else { 124 }),
        _ => return None,
    })
}

fn show<T>(r: &Result<T, RequestError>) -> String {
    match r {
        Ok(_) => "OK".into(),
        Err(e) => fc::err_name(e),
    }
}

struct RustStates(Arc<Mutex<Vec<String>>>);
impl Listener<ClientState> for RustStates {
    fn update(&mut self, value: ClientState) -> MaybeAsync<()> {
        let name = format!("{value:?}");
        self.0.lock().unwrap().push(name.split('(').next().unwrap().to_string());
        MaybeAsync::ready(())
    }
}

fn rust_channel(rt: &tokio::runtime::Runtime, port: u16, queue: usize, retry_ms: (u64, u64)) -> (Channel, Arc<Mutex<Vec<String>>>) {
    let states = Arc::new(Mutex::new(Vec::new()));
    let _g = rt.enter();
    let ch = spawn_tcp_client_task(
        HostAddr::ip(IpAddr::from([127, 0, 0, 1]), port),
        queue,
        rodbus::doubling_retry_strategy(Duration::from_millis(retry_ms.0), Duration::from_millis(retry_ms.1)),
        DecodeLevel::nothing(),
        Some(Box::new(RustStates(states.clone()))),
    );
    (ch, states)
}

fn seen_state(states: &Arc<Mutex<Vec<String>>>, from: usize, name: &str) -> bool {
    states.lock().unwrap().iter().skip(from).any(|s| s == name)
}

/// one request through the future API; "pending" if it does not return within 10 s
async fn fut_request(ch: &Channel, op: &str, start: u16, n: u16, timeout_ms: u64) -> String {
    let param = RequestParam::new(UnitId::new(1), Duration::from_millis(timeout_ms));
    let range = AddressRange { start, count: n };
    let fut = async {
        match op {
            "rc" => show(&ch.read_coils(param, range).await),
            "rd" => show(&ch.read_discrete_inputs(param, range).await),
            "rh" => show(&ch.read_holding_registers(param, range).await),
            "ri" => show(&ch.read_input_registers(param, range).await),
            "wc" => show(&ch.write_single_coil(param, Indexed::new(start, true)).await),
            "wr" => show(&ch.write_single_register(param, Indexed::new(start, n)).await),
            "wmc" => match WriteMultiple::from(start, vec![true; n as usize]) {
                Ok(w) => show(&ch.write_multiple_coils(param, w).await),
                Err(_) => "CTOR".into(),
            },
            _ => match WriteMultiple::from(start, vec![7u16; n as usize]) {
                Ok(w) => show(&ch.write_multiple_registers(param, w).await),
                Err(_) => "CTOR".into(),
            },
        }
    };
    match tokio::time::timeout(Duration::from_secs(10), fut).await {
        Ok(s) => format!("-/n=1/{s}"),
        Err(_) => "-/n=0/pending".into(),
    }
}

/// one request through CallbackSession; returns the log the callback writes to
#[allow(deprecated)]
async fn cb_submit(ch: &Channel, op: &str, start: u16, n: u16, timeout_ms: u64) -> Arc<Mutex<Vec<String>>> {
    let log: Arc<Mutex<Vec<String>>> = Arc::new(Mutex::new(Vec::new()));
    let param = RequestParam::new(UnitId::new(1), Duration::from_millis(timeout_ms));
    let mut session = CallbackSession::new(ch.clone(), param);
    let range = AddressRange { start, count: n };
    let l = log.clone();
    match op {
        "rc" => session.read_coils(range, move |r| l.lock().unwrap().push(show(&r))).await,
        "rd" => session.read_discrete_inputs(range, move |r| l.lock().unwrap().push(show(&r))).await,
        "rh" => session.read_holding_registers(range, move |r| l.lock().unwrap().push(show(&r))).await,
        "ri" => session.read_input_registers(range, move |r| l.lock().unwrap().push(show(&r))).await,
        "wc" => session.write_single_coil(Indexed::new(start, true), move |r| l.lock().unwrap().push(show(&r))).await,
        "wr" => session.write_single_register(Indexed::new(start, n), move |r| l.lock().unwrap().push(show(&r))).await,
        "wmc" => match WriteMultiple::from(start, vec![true; n as usize]) {
            Ok(w) => session.write_multiple_coils(w, move |r| l.lock().unwrap().push(show(&r))).await,
            Err(_) => l.lock().unwrap().push("CTOR".into()),
        },
        _ => match WriteMultiple::from(start, vec![7u16; n as usize]) {
            Ok(w) => session.write_multiple_registers(w, move |r| l.lock().unwrap().push(show(&r))).await,
            Err(_) => l.lock().unwrap().push("CTOR".into()),
        },
    }
    log
}

fn cb_result(log: &Arc<Mutex<Vec<String>>>, wait: Duration) -> String {
    fc::wait_until(wait, || !log.lock().unwrap().is_empty());
    std::thread::sleep(Duration::from_millis(40)); // a second invocation would show up now
    let l = log.lock().unwrap();
    format!("-/n={}/{}", l.len(), if l.is_empty() { "none".to_string() } else { l.join("+") })
}

fn ffi_result(rc: &str, slot: &'static Mutex<fc::Slot>, wait: Duration) -> String {
    if rc == "Ok" {
        fc::wait_until(wait, || !slot.lock().unwrap().events.is_empty());
    } else {
        std::thread::sleep(Duration::from_millis(100));
    }
    std::thread::sleep(Duration::from_millis(40));
    let s = slot.lock().unwrap();
    let ev: Vec<String> = s.events.iter().map(|e| e.split(':').take(2).collect::<Vec<_>>().join(":")).map(|e| if e.starts_with("complete") { "OK".to_string() } else { e.replacen("failure:", "", 1) }).collect();
    format!("{rc}/n={}/{}", ev.len(), if ev.is_empty() { "none".to_string() } else { ev.join("+") })
}

// ------------------------------------------------------------------------------------------------ sub
fn sub(rt: &tokio::runtime::Runtime, ffi_rt: &FfiRuntime, p: &[&str]) -> String {
    if p.len() != 5 {
        return "FAIL:syntax".into();
    }
    let (path, op, class, state) = (p[1], p[2], p[3], p[4]);
    let Some((start, n)) = args_of(op, class) else {
        return "FAIL:args".into();
    };
    let tmo: u64 = if state == "qfull" { 300 } else { 3000 };
    match (path, state) {
        ("fut" | "cb", "connected" | "noconn" | "qfull") => {
            let closed;
            let (port, seen) = if state == "noconn" {
                closed = ClosedPort::new();
                (closed.port, Arc::new(AtomicUsize::new(0)))
            } else {
                start_peer(rt, state == "qfull")
            };
            let (ch, states) = rust_channel(rt, port, if state == "qfull" { 1 } else { 4 }, (10, 40));
            rt.block_on(ch.enable()).unwrap();
            let want = if state == "noconn" { "WaitAfterFailedConnect" } else { "Connected" };
            if !fc::wait_until(Duration::from_secs(10), || seen_state(&states, 0, want)) {
                return format!("FAIL:never {want}");
            }
            let count = if state == "qfull" { 3 } else { 1 };
            let mut outs = Vec::new();
            if path == "fut" {
                let mut hs = Vec::new();
                for k in 0..count {
                    let (ch2, op2) = (ch.clone(), op.to_string());
                    hs.push(rt.spawn(async move { fut_request(&ch2, &op2, start, n, tmo).await }));
                    if k == 0 && state == "qfull" {
                        fc::wait_until(Duration::from_secs(3), || seen.load(Ordering::SeqCst) >= 1);
                    }
                    std::thread::sleep(Duration::from_millis(10));
                }
                for h in hs {
                    outs.push(rt.block_on(h).unwrap_or_else(|_| "-/n=0/panic".into()));
                }
            } else {
                let mut hs = Vec::new();
                for k in 0..count {
                    let (ch2, op2) = (ch.clone(), op.to_string());
                    hs.push(rt.spawn(async move { cb_submit(&ch2, &op2, start, n, tmo).await }));
                    if k == 0 && state == "qfull" {
                        fc::wait_until(Duration::from_secs(3), || seen.load(Ordering::SeqCst) >= 1);
                    }
                    std::thread::sleep(Duration::from_millis(10));
                }
                for h in hs {
                    match rt.block_on(async { tokio::time::timeout(Duration::from_secs(10), h).await }) {
                        Ok(Ok(log)) => outs.push(cb_result(&log, Duration::from_secs(10))),
                        _ => outs.push("-/n=0/submit-pending".into()),
                    }
                }
            }
            outs.join(";")
        }
        ("fut" | "cb", "shutdown") => {
            let (port, _seen) = start_peer(rt, false);
            let own = tokio::runtime::Builder::new_multi_thread().worker_threads(2).enable_all().build().unwrap();
            let (ch, states) = rust_channel(&own, port, 4, (10, 40));
            rt.block_on(ch.enable()).unwrap();
            fc::wait_until(Duration::from_secs(10), || seen_state(&states, 0, "Connected"));
            own.shutdown_background();
            fc::wait_until(Duration::from_secs(10), || rt.block_on(ch.enable()).is_err());
            if path == "fut" {
                rt.block_on(fut_request(&ch, op, start, n, tmo))
            } else {
                let log = rt.block_on(cb_submit(&ch, op, start, n, tmo));
                cb_result(&log, Duration::from_secs(5))
            }
        }
        ("ffi", "connected" | "noconn" | "qfull") => {
            let closed;
            let (port, seen) = if state == "noconn" {
                closed = ClosedPort::new();
                (closed.port, Arc::new(AtomicUsize::new(0)))
            } else {
                start_peer(rt, state == "qfull")
            };
            let c = fc::ffi_channel(ffi_rt, port, if state == "qfull" { 1 } else { 4 });
            let want = if state == "noconn" { "WaitAfterFailedConnect" } else { "Connected" };
            if !fc::wait_until(Duration::from_secs(10), || c.states.lock().unwrap().seq.iter().any(|s| s == want)) {
                return format!("FAIL:never {want}");
            }
            let count = if state == "qfull" { 3 } else { 1 };
            let mut pending = Vec::new();
            for k in 0..count {
                let (rc, slot) = unsafe { fc::ffi_request(c.ch, op, start, n, tmo, false) };
                pending.push((rc, slot));
                if k == 0 && state == "qfull" {
                    fc::wait_until(Duration::from_secs(3), || seen.load(Ordering::SeqCst) >= 1);
                }
            }
            let outs: Vec<String> = pending.iter().map(|(rc, slot)| ffi_result(rc, slot, Duration::from_secs(10))).collect();
            unsafe { ffi::rodbus_client_channel_destroy(c.ch) };
            outs.join(";")
        }
        ("ffi", "shutdown") => {
            let (port, _seen) = start_peer(rt, false);
            let own = ffi_runtime(2);
            let c = fc::ffi_channel(&own, port, 4);
            fc::ffi_connected(&c);
            unsafe { ffi::rodbus_runtime_destroy(own.0) };
            fc::wait_until(Duration::from_secs(5), || c.states.lock().unwrap().seq.iter().any(|s| s == "Shutdown"));
            let (rc, slot) = unsafe { fc::ffi_request(c.ch, op, start, n, tmo, false) };
            let r = ffi_result(&rc, slot, Duration::from_secs(5));
            unsafe { ffi::rodbus_client_channel_destroy(c.ch) };
            r
        }
        _ => "FAIL:path/state".into(),
    }
}

// ------------------------------------------------------------------------------------------------ life
extern "C" fn on_state(state: c_int, ctx: *mut c_void) {
    let name = std::panic::catch_unwind(|| format!("{:?}", ffi::ClientState::from(state))).unwrap_or_else(|_| format!("#{state}"));
    unsafe { ctx_ref::<Vec<String>>(ctx) }.lock().unwrap().push(name);
}

fn life(rt: &tokio::runtime::Runtime, ffi_rt: &FfiRuntime, p: &[&str]) -> String {
    if p.len() != 3 {
        return "FAIL:syntax".into();
    }
    let path = p[1];
    let mut closed = Some(ClosedPort::new());
    let port = closed.as_ref().unwrap().port;
    // the two kinds of channel behind one small interface
    let rust = if path != "ffi" { Some(rust_channel(rt, port, 4, (60, 120))) } else { None };
    let (ffi_states, sctx) = leak_ctx(Vec::<String>::new());
    let mut ffi_ch: *mut rodbus_ffi::ClientChannel = std::ptr::null_mut();
    if path == "ffi" {
        let host = cstr("127.0.0.1");
        let rc = unsafe {
            ffi::rodbus_client_channel_create_tcp(
                ffi_rt.0,
                host.as_ptr(),
                port,
                4,
                ffi::RetryStrategy { min_delay: 60, max_delay: 120 },
                decode_nothing(),
                ffi::ClientStateListener {
                    on_change: Some(on_state),
                    on_destroy: Some(noop_destroy),
                    ctx: sctx,
                },
                &mut ffi_ch,
            )
        };
        if rc != 0 {
            return "FAIL:create".into();
        }
    }
    let states_now = || -> Vec<String> {
        match &rust {
            Some((_, st)) => st.lock().unwrap().clone(),
            None => ffi_states.lock().unwrap().clone(),
        }
    };
    let mut mark = 0usize;
    let mut results = Vec::new();
    for step in p[2].split(',') {
        match step {
            "e" => {
                mark = states_now().len();
                match &rust {
                    Some((ch, _)) => results_push_err(&mut results, rt.block_on(ch.enable()).is_err(), "enable"),
                    None => results_push_err(&mut results, unsafe { ffi::rodbus_client_channel_enable(ffi_ch) } != 0, "enable"),
                }
            }
            "d" => {
                mark = states_now().len();
                match &rust {
                    Some((ch, _)) => results_push_err(&mut results, rt.block_on(ch.disable()).is_err(), "disable"),
                    None => results_push_err(&mut results, unsafe { ffi::rodbus_client_channel_disable(ffi_ch) } != 0, "disable"),
                }
                std::thread::sleep(Duration::from_millis(40));
            }
            "w" => {
                fc::wait_until(Duration::from_secs(3), || states_now().iter().skip(mark).any(|s| s == "WaitAfterFailedConnect"));
            }
            "c" => {
                fc::wait_until(Duration::from_secs(5), || states_now().iter().skip(mark).any(|s| s == "Connected"));
            }
            "p" => std::thread::sleep(Duration::from_millis(40)),
            "l" => {
                if let Some(cp) = closed.take() {
                    serve(rt, cp.into_listener(), false);
                }
            }
            "s" => {
                let r = match (&rust, path) {
                    (Some((ch, _)), "fut") => rt.block_on(fut_request(ch, "rh", 2000, 1, 1000)),
                    (Some((ch, _)), _) => {
                        let log = rt.block_on(cb_submit(ch, "rh", 2000, 1, 1000));
                        cb_result(&log, Duration::from_secs(5))
                    }
                    (None, _) => {
                        let (rc, slot) = unsafe { fc::ffi_request(ffi_ch, "rh", 2000, 1, 1000, false) };
                        ffi_result(&rc, slot, Duration::from_secs(5))
                    }
                };
                results.push(r);
            }
            _ => results.push(format!("FAIL:step {step}")),
        }
    }
    let shutdown_seen = states_now().iter().any(|s| s == "Shutdown");
    if !ffi_ch.is_null() {
        unsafe { ffi::rodbus_client_channel_destroy(ffi_ch) };
    }
    format!("{} shutdown_state={}", results.join(","), shutdown_seen as u8)
}

fn results_push_err(results: &mut Vec<String>, failed: bool, what: &str) {
    if failed {
        results.push(format!("{what}:Shutdown"));
    }
}

pub fn main(_args: &[String]) -> i32 {
    use std::io::Write;
    crate::util::quiet_panics();
    let lines: Arc<Vec<String>> = Arc::new(crate::util::stdin_lines().collect());
    let mut out = private_stdout();
    let rt = Arc::new(tokio::runtime::Builder::new_multi_thread().worker_threads(6).enable_all().build().unwrap());
    let ffi_rt = Arc::new(ffi_runtime(4));
    let results: Arc<Mutex<Vec<String>>> = Arc::new(Mutex::new(vec![String::new(); lines.len()]));
    let next = Arc::new(AtomicUsize::new(0));
    let mut workers = Vec::new();
    for _ in 0..16 {
        let (rt, ffi_rt, lines, results, next) = (rt.clone(), ffi_rt.clone(), lines.clone(), results.clone(), next.clone());
        workers.push(std::thread::spawn(move || loop {
            let i = next.fetch_add(1, Ordering::SeqCst);
            if i >= lines.len() {
                break;
            }
            let line = lines[i].clone();
            let (rt2, f2) = (rt.clone(), ffi_rt.clone());
            let r = std::panic::catch_unwind(std::panic::AssertUnwindSafe(move || {
                let p: Vec<&str> = line.split_whitespace().collect();
                match p.first().copied() {
                    Some("sub") => sub(&rt2, &f2, &p),
                    Some("life") => life(&rt2, &f2, &p),
                    _ => "FAIL:kind".to_string(),
                }
            }));
            results.lock().unwrap()[i] = r.unwrap_or_else(|_| "PANIC".to_string());
        }));
    }
    for w in workers {
        let _ = w.join();
    }
    for r in results.lock().unwrap().iter() {
        let _ = writeln!(out, "{r}");
    }
    0
}
