//! C07: no peer input can panic, wedge or silently kill a task.
//!
//! input line:  <role> <framing> <level> <token> <token> ...
//!   token   = <chunk-hex>  one scripted read chunk
//!           | @L<afp>      change the decode level now (ServerCommand::ChangeDecoding / Channel::set_decode_level)
//!           | @Wb          from now on the transmit path is full: the next write is parked (a peer that does not read)
//!           | @Wa<k>       the next write call is taken only up to k bytes
//!           | @A           (server, anywhere in the line) the session has an authorization handler (role "operator"): a
//!                          counting policy - every third query is denied - whose queries appear in `calls`
//!                          (an application quota / audit handler: consulting it is an observable effect)
//!           | @Qw          (client, anywhere) the outstanding request is a write-single-register (unit 1, register 3 :=
//!                          0x3333) instead of the read of five holding registers
//!           | @X           (client) the application drops the future of the outstanding request now (abort of the task
//!                          awaiting it); whatever the peer sends afterwards must not hurt the channel task
//!           | @T<ms>       (client) virtual time advances by <ms> milliseconds (the request's timeout is 1000 ms); the
//!                          output field `pending_after_deadline` says whether the request was still pending the first
//!                          time the clock had advanced by 1000 ms or more since it was sent (1 = a peer kept it alive)
//!           | @R           the transmit path has room again (releases a parked write)
//!                          (client: @W / @R tokens before the first chunk take effect before the request is sent)
//!   role    = server | client
//!   framing = tcp | rtu
//!   level   = three digits a f p : app 0..3, frame 0..2, phys 0..2  (e.g. 000 = nothing, 322 = everything)
//! output line: ok frames_or_replies=<n> end=<reason> alive_after=<0|1> shutdown_ok=<0|1> out=<hex written> calls=<handler log> [res=<request result>]
//!              PANIC <message>      (the task panicked)
//!              WEDGED               (no progress within the wall-clock watchdog)
//! The session is fed the chunks (one scripted chunk per read), settled, then probed: the task
//! must still honour its command queue (a decode-level change is accepted or the session has
//! ended with an error) and a shutdown request must end it.
use crate::wire::{settle, Wire, WriteStep};
use rodbus::client::*;
use rodbus::server::*;
use rodbus::verif::*;
use rodbus::*;
use std::sync::mpsc;
use std::time::Duration;

pub fn level_of(s: &str) -> DecodeLevel {
    let d: Vec<u32> = s.chars().map(|c| c.to_digit(10).unwrap_or(0)).collect();
    let app = match d.first().copied().unwrap_or(0) {
        0 => AppDecodeLevel::Nothing,
        1 => AppDecodeLevel::FunctionCode,
        2 => AppDecodeLevel::DataHeaders,
        _ => AppDecodeLevel::DataValues,
    };
    let frame = match d.get(1).copied().unwrap_or(0) {
        0 => FrameDecodeLevel::Nothing,
        1 => FrameDecodeLevel::Header,
        _ => FrameDecodeLevel::Payload,
    };
    let phys = match d.get(2).copied().unwrap_or(0) {
        0 => PhysDecodeLevel::Nothing,
        1 => PhysDecodeLevel::Length,
        _ => PhysDecodeLevel::Data,
    };
    DecodeLevel::new(app, frame, phys)
}

pub fn install_subscriber() {
    // format every event (so that every Display / Loggable path really runs) into a sink
    let _ = tracing_subscriber::fmt()
        .with_writer(std::io::sink)
        .with_max_level(tracing::Level::TRACE)
        .try_init();
}

struct Handler {
    coils: Vec<bool>,
    regs: Vec<u16>,
    log: std::sync::Arc<std::sync::Mutex<Vec<String>>>,
}

impl Handler {
    fn note(&self, s: String) {
        self.log.lock().unwrap().push(s);
    }
}

impl RequestHandler for Handler {
    fn read_coil(&self, address: u16) -> Result<bool, ExceptionCode> {
        self.note(format!("rc{address}"));
        self.coils.get(address as usize).to_result()
    }
    fn read_discrete_input(&self, address: u16) -> Result<bool, ExceptionCode> {
        self.note(format!("rd{address}"));
        self.coils.get(address as usize).to_result()
    }
    fn read_holding_register(&self, address: u16) -> Result<u16, ExceptionCode> {
        self.note(format!("rh{address}"));
        self.regs.get(address as usize).to_result()
    }
    fn read_input_register(&self, address: u16) -> Result<u16, ExceptionCode> {
        self.note(format!("ri{address}"));
        self.regs.get(address as usize).to_result()
    }
    fn write_single_coil(&mut self, value: Indexed<bool>) -> Result<(), ExceptionCode> {
        self.note(format!("wc{}={}", value.index, value.value as u8));
        match self.coils.get_mut(value.index as usize) {
            Some(c) => {
                *c = value.value;
                Ok(())
            }
            None => Err(ExceptionCode::IllegalDataAddress),
        }
    }
    fn write_single_register(&mut self, value: Indexed<u16>) -> Result<(), ExceptionCode> {
        self.note(format!("wr{}={}", value.index, value.value));
        match self.regs.get_mut(value.index as usize) {
            Some(c) => {
                *c = value.value;
                Ok(())
            }
            None => Err(ExceptionCode::IllegalDataAddress),
        }
    }
    fn write_multiple_coils(&mut self, values: WriteCoils) -> Result<(), ExceptionCode> {
        self.note(format!("wmc{}+{}", values.range.start, values.range.count));
        for x in values.iterator {
            self.note(format!("{}={}", x.index, x.value as u8));
            match self.coils.get_mut(x.index as usize) {
                Some(c) => *c = x.value,
                None => return Err(ExceptionCode::IllegalDataAddress),
            }
        }
        Ok(())
    }
    fn write_multiple_registers(&mut self, values: WriteRegisters) -> Result<(), ExceptionCode> {
        self.note(format!("wmr{}+{}", values.range.start, values.range.count));
        for x in values.iterator {
            self.note(format!("{}={}", x.index, x.value));
            match self.regs.get_mut(x.index as usize) {
                Some(c) => *c = x.value,
                None => return Err(ExceptionCode::IllegalDataAddress),
            }
        }
        Ok(())
    }
}

struct CountingAuth {
    n: std::sync::atomic::AtomicUsize,
    log: std::sync::Arc<std::sync::Mutex<Vec<String>>>,
}

impl CountingAuth {
    fn ask(&self, what: &str, unit: UnitId, a: u16, b: u16, role: &str) -> Authorization {
        let k = self.n.fetch_add(1, std::sync::atomic::Ordering::SeqCst);
        self.log.lock().unwrap().push(format!("az{}:{}:{}:{}:{}", what, unit.value, a, b, role));
        if k % 3 == 2 {
            Authorization::Deny
        } else {
            Authorization::Allow
        }
    }
}

impl AuthorizationHandler for CountingAuth {
    fn read_coils(&self, u: UnitId, r: AddressRange, role: &str) -> Authorization {
        self.ask("rc", u, r.start, r.count, role)
    }
    fn read_discrete_inputs(&self, u: UnitId, r: AddressRange, role: &str) -> Authorization {
        self.ask("rd", u, r.start, r.count, role)
    }
    fn read_holding_registers(&self, u: UnitId, r: AddressRange, role: &str) -> Authorization {
        self.ask("rh", u, r.start, r.count, role)
    }
    fn read_input_registers(&self, u: UnitId, r: AddressRange, role: &str) -> Authorization {
        self.ask("ri", u, r.start, r.count, role)
    }
    fn write_single_coil(&self, u: UnitId, i: u16, role: &str) -> Authorization {
        self.ask("wc", u, i, 1, role)
    }
    fn write_single_register(&self, u: UnitId, i: u16, role: &str) -> Authorization {
        self.ask("wr", u, i, 1, role)
    }
    fn write_multiple_coils(&self, u: UnitId, r: AddressRange, role: &str) -> Authorization {
        self.ask("wmc", u, r.start, r.count, role)
    }
    fn write_multiple_registers(&self, u: UnitId, r: AddressRange, role: &str) -> Authorization {
        self.ask("wmr", u, r.start, r.count, role)
    }
}

async fn run_server(framing: Framing, level: DecodeLevel, tokens: Vec<Token>) -> String {
    let wire = Wire::new();
    let log = std::sync::Arc::new(std::sync::Mutex::new(Vec::new()));
    let with_auth = tokens.iter().any(|t| matches!(t, Token::Auth));
    let tokens: Vec<Token> = tokens.into_iter().filter(|t| !matches!(t, Token::Auth)).collect();
    let auth: Option<(std::sync::Arc<dyn AuthorizationHandler>, String)> = if with_auth {
        Some((CountingAuth { n: Default::default(), log: log.clone() }.wrap(), "operator".to_string()))
    } else {
        None
    };
    let handler = Handler {
        coils: (0..3000).map(|i| i % 3 == 0).collect(),
        regs: (0..3000).map(|i| (i * 7) as u16).collect(),
        log: log.clone(),
    }
    .wrap();
    let mut map = ServerHandlerMap::new();
    map.add(UnitId::new(1), handler.clone());
    map.add(UnitId::new(2), handler);
    let (tx, rx) = tokio::sync::mpsc::channel(8);
    let io = wire.clone();
    let task = tokio::spawn(async move { run_server_session(Box::new(io), map, auth, framing, level, rx).await });
    for t in &tokens {
        match t {
            Token::Chunk(c) => wire.push(c),
            Token::Level(l) => {
                let _ = tx.send(ServerCommand::ChangeDecoding(*l)).await;
            }
            Token::Write(w) => wire.script_writes(&[*w]),
            Token::Release => wire.release_write(),
            Token::Auth | Token::WriteRequest | Token::DropRequest | Token::Advance(_) => {}
        }
        settle().await;
    }
    settle().await;
    let written = wire.take_out();
    let replies = written.len();
    let out_hex = crate::util::hex(&written.concat());
    let calls = log.lock().unwrap().join(",");
    let alive = !task.is_finished();
    // the command queue must still be honoured
    let mut shutdown_ok = true;
    if alive {
        let _ = tx.send(ServerCommand::ChangeDecoding(DecodeLevel::nothing())).await;
        settle().await;
        let _ = tx.send(ServerCommand::Shutdown).await;
        settle().await;
        shutdown_ok = task.is_finished();
    }
    let end = if task.is_finished() {
        match task.await {
            Ok(err) => format!("{err:?}").split('(').next().unwrap_or("?").to_string(),
            Err(e) if e.is_panic() => return format!("PANIC {}", panic_text(e)),
            Err(_) => "Cancelled".to_string(),
        }
    } else {
        task.abort();
        "Running".to_string()
    };
    format!(
        "ok frames_or_replies={replies} end={end} alive_after={} shutdown_ok={} out={} calls={}",
        alive as u8,
        shutdown_ok as u8,
        if out_hex.is_empty() { "-".to_string() } else { out_hex },
        if calls.is_empty() { "-".to_string() } else { calls }
    )
}

#[derive(Clone)]
pub enum Token {
    Chunk(Vec<u8>),
    Level(DecodeLevel),
    Write(WriteStep),
    Release,
    Auth,
    WriteRequest,
    DropRequest,
    Advance(u64),
}

fn panic_text(e: tokio::task::JoinError) -> String {
    let p = e.into_panic();
    if let Some(s) = p.downcast_ref::<&str>() {
        s.to_string()
    } else if let Some(s) = p.downcast_ref::<String>() {
        s.clone()
    } else {
        "?".to_string()
    }
}

async fn run_client(framing: Framing, level: DecodeLevel, tokens: Vec<Token>) -> String {
    let wire = Wire::new();
    let (channel, mut session) = ClientSession::new(framing, 8, level, std::num::NonZeroUsize::new(3));
    let io = wire.clone();
    let task = tokio::spawn(async move {
        if !session.wait_for_enabled().await {
            return "Shutdown".to_string();
        }
        session.run(Box::new(io)).await
    });
    let _ = channel.enable().await;
    settle().await;
    // transmit-side tokens before the first chunk take effect before the request is sent (level changes
    // in that prefix keep their place: they are queued behind the request as everywhere else)
    let first_chunk = tokens.iter().position(|t| matches!(t, Token::Chunk(_))).unwrap_or(tokens.len());
    let mut rest: Vec<Token> = Vec::new();
    for (i, t) in tokens.iter().enumerate() {
        match t {
            Token::Write(w) if i < first_chunk => wire.script_writes(&[*w]),
            Token::Release if i < first_chunk => wire.release_write(),
            t => rest.push(t.clone()),
        }
    }
    let tokens = rest;
    // a request is outstanding while the peer's bytes arrive, then idle
    let param = RequestParam::new(UnitId::new(1), Duration::from_secs(1));
    let ch = channel.clone();
    let write_request = tokens.iter().any(|t| matches!(t, Token::WriteRequest));
    let req = tokio::spawn(async move {
        if write_request {
            ch.write_single_register(param, Indexed::new(3, 0x3333)).await.map(|x| vec![x])
        } else {
            ch.read_holding_registers(param, AddressRange::try_from(0, 5).unwrap()).await
        }
    });
    settle().await;
    let mut n = 0;
    let mut elapsed_ms: u64 = 0;
    let mut pending_after_deadline: Option<bool> = None;
    for t in &tokens {
        match t {
            Token::Chunk(c) => {
                wire.push(c);
                n += 1;
            }
            Token::Level(l) => {
                // queued behind the outstanding request: must not interrupt it
                let ch2 = channel.clone();
                let l = *l;
                tokio::spawn(async move {
                    let _ = ch2.set_decode_level(l).await;
                });
            }
            Token::Write(w) => wire.script_writes(&[*w]),
            Token::Release => wire.release_write(),
            Token::Auth | Token::WriteRequest => {}
            Token::DropRequest => req.abort(),
            Token::Advance(ms) => {
                tokio::time::advance(Duration::from_millis(*ms)).await;
                settle().await;
                elapsed_ms += *ms;
                if elapsed_ms >= 1000 && pending_after_deadline.is_none() {
                    pending_after_deadline = Some(!req.is_finished());
                }
            }
        }
        settle().await;
    }
    tokio::time::advance(Duration::from_secs(2)).await;
    settle().await;
    let completed = req.is_finished();
    let res = if completed {
        match req.await {
            Ok(Ok(v)) => format!("Ok[{}]", v.iter().map(|x| format!("{}:{}", x.index, x.value)).collect::<Vec<_>>().join(";")),
            Ok(Err(e)) => format!("Err({})", format!("{e:?}").replace(' ', "")),
            Err(_) => "JoinError".to_string(),
        }
    } else {
        req.abort();
        "Pending".to_string()
    };
    let out_hex = crate::util::hex(&wire.take_out().concat());
    let alive = !task.is_finished();
    let mut shutdown_ok = true;
    if alive {
        let _ = channel.set_decode_level(DecodeLevel::nothing()).await;
        settle().await;
        let _ = channel.shutdown().await;
        settle().await;
        shutdown_ok = task.is_finished();
    }
    let end = if task.is_finished() {
        match task.await {
            Ok(err) => err.split('(').next().unwrap_or("?").to_string(),
            Err(e) if e.is_panic() => return format!("PANIC {}", panic_text(e)),
            Err(_) => "Cancelled".to_string(),
        }
    } else {
        task.abort();
        "Running".to_string()
    };
    format!(
        "ok frames_or_replies={n} end={end} alive_after={} shutdown_ok={} request_completed={} pending_after_deadline={} out={} res={}",
        alive as u8, shutdown_ok as u8, completed as u8, pending_after_deadline.map(|b| b as u8).unwrap_or(0), out_hex, res
    )
}

fn run_case(line: &str) -> String {
    let parts: Vec<&str> = line.split_whitespace().collect();
    let role = parts[0].to_string();
    let framing = parts[1].to_string();
    let level = level_of(parts[2]);
    let chunks: Vec<Token> = parts[3..]
        .iter()
        .map(|h| {
            if let Some(l) = h.strip_prefix("@L") {
                Token::Level(level_of(l))
            } else if *h == "@Wb" {
                Token::Write(WriteStep::Block)
            } else if let Some(k) = h.strip_prefix("@Wa") {
                Token::Write(WriteStep::Accept(k.parse().unwrap_or(1)))
            } else if *h == "@A" {
                Token::Auth
            } else if *h == "@Qw" {
                Token::WriteRequest
            } else if *h == "@X" {
                Token::DropRequest
            } else if let Some(ms) = h.strip_prefix("@T") {
                Token::Advance(ms.parse().unwrap_or(0))
            } else if *h == "@R" {
                Token::Release
            } else {
                Token::Chunk(crate::util::unhex(h))
            }
        })
        .collect();
    let rt = tokio::runtime::Builder::new_current_thread()
        .enable_all()
        .start_paused(true)
        .build()
        .unwrap();
    let res = std::panic::catch_unwind(std::panic::AssertUnwindSafe(|| {
        rt.block_on(async move {
            match (role.as_str(), framing.as_str()) {
                ("server", "tcp") => run_server(Framing::Tcp, level, chunks).await,
                ("server", _) => run_server(Framing::RtuRequest, level, chunks).await,
                ("client", "tcp") => run_client(Framing::Tcp, level, chunks).await,
                _ => run_client(Framing::RtuResponse, level, chunks).await,
            }
        })
    }));
    match res {
        Ok(s) => s,
        Err(p) => {
            let msg = if let Some(s) = p.downcast_ref::<&str>() {
                s.to_string()
            } else if let Some(s) = p.downcast_ref::<String>() {
                s.clone()
            } else {
                "?".to_string()
            };
            format!("PANIC {msg}")
        }
    }
}

pub fn main(_args: &[String]) -> i32 {
    crate::util::quiet_panics();
    install_subscriber();
    let lines: Vec<String> = crate::util::stdin_lines().collect();
    // watchdog: a wedged case (spin without progress) must not hang the check
    let (tx, rx) = mpsc::channel::<(usize, String)>();
    let total = lines.len();
    std::thread::spawn(move || {
        for (i, l) in lines.iter().enumerate() {
            let r = run_case(l);
            if tx.send((i, r)).is_err() {
                return;
            }
        }
    });
    let mut printed = 0;
    while printed < total {
        match rx.recv_timeout(Duration::from_secs(20)) {
            Ok((_, r)) => {
                println!("{r}");
                printed += 1;
            }
            Err(_) => {
                println!("WEDGED");
                printed += 1;
                while printed < total {
                    println!("SKIPPED");
                    printed += 1;
                }
                return 0;
            }
        }
    }
    0
}
