//! C15 observation probe (not a check): a client that sends requests and never reads the replies.
//! `SessionTask::run_one` awaits the reply write without looking at the command channel, so once
//! the socket's send buffer is full the session reacts neither to eviction nor to shutdown.
//! input line: <max_sessions>
//! output line: requests-sent=<n> server-blocked=<yes|no> closed-after-eviction=.. closed-after-shutdown=.. closed-after-client-drained=..
//!   (connection state asked of the kernel via /proc/net/tcp: 01 = ESTABLISHED, 08 = CLOSE_WAIT = the server closed)
use std::io::{Read, Write};
use std::net::{Ipv4Addr, SocketAddr, TcpStream};
use std::time::{Duration, Instant};

use rodbus::server::*;
use rodbus::*;

struct H;
impl RequestHandler for H {
    fn read_holding_register(&self, _a: u16) -> Result<u16, ExceptionCode> {
        Ok(7)
    }
}

fn drained_to_eof(s: &mut TcpStream, limit: Duration) -> bool {
    // read everything that is pending; true iff EOF / reset is reached within the limit
    let end = Instant::now() + limit;
    let _ = s.set_read_timeout(Some(Duration::from_millis(50)));
    let mut b = [0u8; 65536];
    while Instant::now() < end {
        match s.read(&mut b) {
            Ok(0) => return true,
            Ok(_) => continue,
            Err(e) if matches!(e.kind(), std::io::ErrorKind::WouldBlock | std::io::ErrorKind::TimedOut) => return false,
            Err(_) => return true,
        }
    }
    false
}

/// TCP state of the local socket as the kernel sees it (/proc/net/tcp): 01 ESTABLISHED, 08 CLOSE_WAIT (peer closed)
fn tcp_state(local: SocketAddr) -> String {
    let want = match local {
        SocketAddr::V4(a) => {
            let o = a.ip().octets();
            format!("{:02X}{:02X}{:02X}{:02X}:{:04X}", o[3], o[2], o[1], o[0], a.port())
        }
        _ => return "?".to_string(),
    };
    if let Ok(t) = std::fs::read_to_string("/proc/net/tcp") {
        for l in t.lines().skip(1) {
            let f: Vec<&str> = l.split_whitespace().collect();
            if f.len() > 4 && f[1] == want {
                return format!("{}[rem {} txq:rxq {}]", f[3], f[2], f[4]);
            }
        }
    }
    "gone".to_string()
}

pub fn main(_args: &[String]) -> i32 {
    let rt = tokio::runtime::Builder::new_multi_thread().worker_threads(2).enable_all().build().unwrap();
    for line in crate::util::stdin_lines() {
        let max: usize = line.trim().parse().unwrap();
        let ip = Ipv4Addr::new(127, 0, 0, 1);
        let port = std::net::TcpListener::bind((ip, 0)).unwrap().local_addr().unwrap().port();
        let addr = SocketAddr::from((ip, port));
        let map = ServerHandlerMap::single(UnitId::new(1), H.wrap());
        let handle = rt.block_on(spawn_tcp_server_task(max, addr, map, AddressFilter::Any, DecodeLevel::nothing())).unwrap();
        let mut greedy = TcpStream::connect(addr).unwrap();
        greedy.set_write_timeout(Some(Duration::from_millis(300))).unwrap();
        // read 125 holding registers: 12-byte request, 259-byte reply; never read the replies
        let req = [0u8, 1, 0, 0, 0, 6, 1, 3, 0, 0, 0, 125];
        let mut sent = 0usize;
        let mut blocked = false;
        let start = Instant::now();
        while start.elapsed() < Duration::from_secs(20) {
            match greedy.write_all(&req) {
                Ok(()) => sent += 1,
                Err(_) => {
                    // our own send buffer is full: the server has stopped reading, i.e. it is blocked in its write
                    blocked = true;
                    break;
                }
            }
        }
        // evict it: connect max more clients
        let others: Vec<TcpStream> = (0..max).map(|_| TcpStream::connect(addr).unwrap()).collect();
        std::thread::sleep(Duration::from_millis(500));
        // has the server closed the greedy connection? asked of the kernel, without reading anything
        let local = greedy.local_addr().unwrap();
        let st1 = tcp_state(local);
        let evicted_closed = !st1.starts_with("01");
        rt.block_on(handle.shutdown()).unwrap();
        drop(handle);
        std::thread::sleep(Duration::from_millis(1500));
        let st2 = tcp_state(local);
        // after shutdown: drain; a closed session shows EOF after the buffered replies
        let closed = drained_to_eof(&mut greedy, Duration::from_secs(5));
        drop(others);
        println!(
            "requests-sent={sent} server-blocked={} closed-after-eviction={}(state {st1}) closed-after-shutdown={}(state {st2}) closed-after-client-drained={}",
            if blocked { "yes" } else { "no" },
            if evicted_closed { "yes" } else { "no" },
            if !st2.starts_with("01") { "yes" } else { "no" },
            if closed { "yes" } else { "no" }
        );
        let _ = greedy.flush();
    }
    0
}
